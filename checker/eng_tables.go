package main

import (
	"go/ast"
	"go/constant"
	"go/types"
)

// constOf evaluates a constant expression to its string form ("" if not constant).
func (u *Unit) constOf(e ast.Expr) (string, bool) {
	tv, ok := u.Info().Types[e]
	if !ok || tv.Value == nil {
		return "", false
	}
	if tv.Value.Kind() == constant.String {
		return constant.StringVal(tv.Value), true
	}
	return tv.Value.ExactString(), true
}

// globalInit finds the initialiser expression of a package-level variable.
func (u *Unit) globalInit(name string) ast.Expr {
	for _, f := range u.Root.Syntax {
		for _, d := range f.Decls {
			gd, ok := d.(*ast.GenDecl)
			if !ok {
				continue
			}
			for _, s := range gd.Specs {
				vs, ok := s.(*ast.ValueSpec)
				if !ok {
					continue
				}
				for i, n := range vs.Names {
					if n.Name == name && i < len(vs.Values) {
						return vs.Values[i]
					}
				}
			}
		}
	}
	return nil
}

// GlobalMapKeys returns the constant keys of a package-level map/struct-set literal.
func (u *Unit) GlobalMapKeys(name string) map[string]bool {
	out := map[string]bool{}
	cl, ok := u.globalInit(name).(*ast.CompositeLit)
	if !ok {
		return out
	}
	for _, el := range cl.Elts {
		if kv, ok := el.(*ast.KeyValueExpr); ok {
			if s, ok := u.constOf(kv.Key); ok {
				out[s] = true
			}
		}
	}
	return out
}

// GlobalSliceElems returns the constant elements of a package-level slice literal, in order.
func (u *Unit) GlobalSliceElems(name string) []string {
	var out []string
	cl, ok := u.globalInit(name).(*ast.CompositeLit)
	if !ok {
		return out
	}
	for _, el := range cl.Elts {
		if s, ok := u.constOf(el); ok {
			out = append(out, s)
		}
	}
	return out
}

// ConstValue returns the value of a package-level constant.
func (u *Unit) ConstValue(name string) (string, bool) {
	obj := u.Root.Types.Scope().Lookup(name)
	c, ok := obj.(*types.Const)
	if !ok {
		return "", false
	}
	if c.Val().Kind() == constant.String {
		return constant.StringVal(c.Val()), true
	}
	return c.Val().ExactString(), true
}

// SwitchCases collects, for every switch statement in the named function
// whose tag satisfies tagMatch (rendered with types.ExprString), the constant
// case values. Type switches are reported with the case types' strings.
type SwitchInfo struct {
	Tag     string
	Cases   []string
	Default bool
	Node    ast.Node
}

func (u *Unit) Switches(decl *ast.FuncDecl) []SwitchInfo {
	var out []SwitchInfo
	if decl == nil || decl.Body == nil {
		return nil
	}
	ast.Inspect(decl.Body, func(n ast.Node) bool {
		switch s := n.(type) {
		case *ast.SwitchStmt:
			si := SwitchInfo{Node: s}
			if s.Tag != nil {
				si.Tag = u.RefExpr(decl, types.ExprString(s.Tag))
			}
			for _, cc := range s.Body.List {
				c := cc.(*ast.CaseClause)
				if c.List == nil {
					si.Default = true
				}
				for _, e := range c.List {
					if v, ok := u.constOf(e); ok {
						si.Cases = append(si.Cases, v)
					} else {
						si.Cases = append(si.Cases, types.ExprString(e))
					}
				}
			}
			out = append(out, si)
		case *ast.TypeSwitchStmt:
			si := SwitchInfo{Node: s, Tag: "type"}
			if as, ok := s.Assign.(*ast.AssignStmt); ok && len(as.Rhs) == 1 {
				si.Tag = "type:" + u.RefExpr(decl, types.ExprString(as.Rhs[0]))
			} else if es, ok := s.Assign.(*ast.ExprStmt); ok {
				si.Tag = "type:" + u.RefExpr(decl, types.ExprString(es.X))
			}
			for _, cc := range s.Body.List {
				c := cc.(*ast.CaseClause)
				if c.List == nil {
					si.Default = true
				}
				for _, e := range c.List {
					if t := u.Info().TypeOf(e); t != nil {
						si.Cases = append(si.Cases, typeShort(t))
					} else {
						si.Cases = append(si.Cases, types.ExprString(e))
					}
				}
			}
			out = append(out, si)
		}
		return true
	})
	return out
}
