package main

import (
	"encoding/json"
	"fmt"
	"os"
	"path/filepath"
	"sort"
	"strings"
)

// writeDesignMD prints the "as built" per-property section of DESIGN.md from
// the rule registry (what each check applies), the last evidence files (how
// many instances each rule examined), the self-test mutants and the seeded
// changes kept under /verif/seeded (which checks reported them).
func writeDesignMD() {
	var ids []string
	for id := range registry {
		ids = append(ids, id)
	}
	sort.Strings(ids)
	type seed struct {
		Dir, Summary string
		Detected     []string
	}
	seeds := map[string][]seed{}
	dirs, _ := filepath.Glob("/verif/seeded/*/meta.json")
	sort.Strings(dirs)
	for _, m := range dirs {
		var meta struct {
			Property   string   `json:"property"`
			Summary    string   `json:"summary"`
			DetectedBy []string `json:"detected_by"`
		}
		b, err := os.ReadFile(m)
		if err != nil || json.Unmarshal(b, &meta) != nil {
			continue
		}
		d := filepath.Base(filepath.Dir(m))
		pid := strings.SplitN(d, "-", 2)[0]
		seeds[pid] = append(seeds[pid], seed{d, meta.Summary, meta.DetectedBy})
	}
	for _, id := range ids {
		p := registry[id]
		fmt.Printf("### %s %s\n\n", id, p.Title)
		units := strings.Join(p.Units, ", ")
		fmt.Printf("*Unit(s):* %s. *Level:* other (structural necessary conditions).\n\n", units)
		fmt.Printf("*Rules as built.* %s\n\n", p.Explanation)
		if b, err := os.ReadFile("/verif/evidence/" + id + ".json"); err == nil {
			var ev struct {
				Tier     string `json:"tier"`
				Coverage struct {
					RulesInstances []string `json:"rules_instances"`
					BuildConfigs   []string `json:"build_configs"`
				} `json:"coverage"`
			}
			if json.Unmarshal(b, &ev) == nil && len(ev.Coverage.RulesInstances) > 0 {
				fmt.Printf("*Instances examined on the current tree (last %s run, %d build configuration(s)):* %s.\n\n", ev.Tier, len(ev.Coverage.BuildConfigs), strings.Join(ev.Coverage.RulesInstances, ", "))
			}
		}
		if len(p.NotCovered) > 0 {
			fmt.Printf("*Not decided:* %s.\n\n", strings.Join(p.NotCovered, "; "))
		}
		if len(p.Assumptions) > 0 {
			fmt.Printf("*Assumes:* %s.\n\n", strings.Join(p.Assumptions, "; "))
		}
		muts, _ := filepath.Glob("/verif/mutants/" + id + "/*.diff")
		if len(muts) > 0 {
			var ms []string
			for _, m := range muts {
				exp := strings.Join(mutantExpect(m), ", ")
				ms = append(ms, "`"+strings.TrimSuffix(filepath.Base(m), ".diff")+"` → "+exp)
			}
			fmt.Printf("*Self-test mutants (thorough tier must report each):* %s.\n\n", strings.Join(ms, "; "))
		}
		if ss := seeds[id]; len(ss) > 0 {
			fmt.Printf("*Seeded changes (written blind by sub-agents, confirmed, kept under `seeded/`):*\n\n")
			for _, s := range ss {
				det := "**not reported** (known blind spot)"
				if len(s.Detected) > 0 {
					det = "reported by " + strings.Join(s.Detected, ", ")
					own := false
					for _, d := range s.Detected {
						if d == id {
							own = true
						}
					}
					if !own {
						det += " (**not by " + id + " itself**)"
					}
				}
				fmt.Printf("- `%s` %s — %s\n", s.Dir, strings.TrimSpace(s.Summary), det)
			}
			fmt.Println()
		}
	}
}
