package main

import (
	"go/token"
	"go/types"
	"sort"
	"strings"

	"golang.org/x/tools/go/ssa"
)

// Rules added after the third seeding round (k = 7…9). Run after seedfix4.
var seedfix5 = map[string]func(*Ctx){
	"C02": seedfix5C02, "C04": seedfix5C04, "C37": seedfix5C37, "C06": seedfix5C06, "C09": seedfix5C09,
	"C16": seedfix5C16, "C23": seedfix5C23, "C39": seedfix5C39, "C42": seedfix5C42, "C43": seedfix5C43,
	"C01": seedfix5C01, "C03": seedfix5C03, "C05": seedfix5C05, "C07": seedfix5C07, "C08": seedfix5C08,
	"C11": seedfix5C11, "C12": seedfix5C12, "C13": seedfix5C13, "C14": seedfix5C14, "C15": seedfix5C15,
	"C17": seedfix5C17, "C18": seedfix5C18, "C19": seedfix5C19, "C20": seedfix5C20, "C21": seedfix5C21,
	"C24": seedfix5C24, "C25": seedfix5C25, "C26": seedfix5C26, "C28": seedfix5C28, "C30": seedfix5C30,
	"C31": seedfix5C31, "C35": seedfix5C35, "C36": seedfix5C36, "C38": seedfix5C38, "C40": seedfix5C40,
	"C41": releaseLoopsCoverZero,
}

// fieldWriters: short names of the functions that store to a field of that name (stores into a
// composite literal under construction are not counted).
func fieldWriters(u *Unit, field string) []string {
	set := map[string]bool{}
	for _, top := range u.SrcFuncs() {
		for _, f := range WithAnon(top) {
			Instrs(f, func(in ssa.Instruction) {
				if st, ok := in.(*ssa.Store); ok {
					if fa, ok := st.Addr.(*ssa.FieldAddr); ok && fieldName(derefType(fa.X.Type()), fa.Field) == field {
						if _, isAlloc := fa.X.(*ssa.Alloc); !isAlloc {
							set[shortName(top)] = true
						}
					}
				}
			})
		}
	}
	var out []string
	for k := range set {
		out = append(out, k)
	}
	sort.Strings(out)
	return out
}

// constIndexCovered: every constant index and constant slice bound applied to byte slices in fn is
// covered by a dominating len() guard on that very slice.
func constIndexCovered(c *Ctx, rule string, fn *ssa.Function) {
	u, r := c.U, c.R
	n := 0
	Instrs(fn, func(in ssa.Instruction) {
		var x ssa.Value
		need := int64(-1)
		switch y := in.(type) {
		case *ssa.Slice:
			if _, isSl := y.X.Type().Underlying().(*types.Slice); !isSl {
				return
			}
			x = y.X
			for _, b := range []ssa.Value{y.Low, y.High} {
				if b == nil {
					continue
				}
				if k, isK := ConstInt(b); isK && k > need {
					need = k
				}
			}
		case *ssa.IndexAddr:
			if _, isSl := y.X.Type().Underlying().(*types.Slice); !isSl {
				return
			}
			if k, isK := ConstInt(y.Index); isK {
				x, need = y.X, k+1
			}
		}
		if x == nil || need <= 0 {
			return
		}
		if _, isMk := x.(*ssa.MakeSlice); isMk {
			return
		}
		if sl, isSl := x.(*ssa.Slice); isSl && sl.High == nil && sl.Low == nil {
			if _, isAlloc := sl.X.(*ssa.Alloc); isAlloc {
				return // a local array
			}
		}
		n++
		have := lenLowerBound(in, x)
		name := u.VarName(x)
		if name == "" {
			name = "bytes#" + itoa(n)
		}
		r.Check(have >= need, rule, shortName(fn)+"|"+name+"[…"+itoa(int(need))+"]", u.Pos(in.Pos()), "covered by len >= "+itoa(int(have)), "an element up to position "+itoa(int(need))+" of "+name+" is read under len("+name+") >= "+itoa(int(have))+" only: a shorter input (empty, or whitespace that decodes to nothing) panics instead of being refused")
	})
	if n == 0 {
		r.Undec(rule, shortName(fn), u.Pos(fn.Pos()), "no constant-position read of a byte slice found")
	}
}

// ---------------------------------------------------------------- C02 / C04 / C37

func seedfix5C02(c *Ctx) {
	u, r := c.U, c.R
	// R-DRAIN-ONLY-STREAM-CALLS: serveOne drains the client's input only where it knows the
	// refused call is a stream call (an unknown or unary-shaped request has no input stream
	// behind it: draining swallows the next request).
	if fn := c.Fn("R-DRAIN-ONLY-STREAM-CALLS", "(*Server).serveOne"); fn != nil {
		n := 0
		for _, cs := range u.Calls(fn, Is("drainInputStream")) {
			n++
			okG := false
			for _, g := range u.GuardStrings(cs.Instr) {
				if strings.Contains(g, ".Type ") || strings.Contains(g, ".Type)") {
					okG = true
				}
			}
			r.Check(okG, "R-DRAIN-ONLY-STREAM-CALLS", "serveOne|drain#"+itoa(n), u.Pos(cs.Instr.Pos()), "drain guarded by the method's kind", "serveOne drains the input stream on a path that does not know the call is a stream call: for a unary-shaped request the next request on the connection is swallowed")
		}
		if n == 0 {
			r.Ok("R-DRAIN-ONLY-STREAM-CALLS", "serveOne", u.Pos(fn.Pos()), "serveOne itself drains nothing")
		}
	}
	// R-ANSWER-BEFORE-DRAIN: a failed stream init is answered first and the client's input drained
	// afterwards (a lockstep client sends its next input only after reading the answer).
	if fn := c.Fn("R-ANSWER-BEFORE-DRAIN", "(*Server).serveStream"); fn != nil {
		writes := u.Calls(fn, Or(Is("writeErrorResponse"), Is("writeErrorBatch"), HasSuffix("ipc.Writer).Close")))
		n := 0
		for _, cs := range u.Calls(fn, Is("drainInputStream")) {
			n++
			dom := false
			for _, w := range writes {
				if Dominates(w.Instr, cs.Instr) {
					dom = true
				}
			}
			r.Check(dom, "R-ANSWER-BEFORE-DRAIN", "serveStream|drain#"+itoa(n), u.Pos(cs.Instr.Pos()), "an error answer precedes the drain", "serveStream drains the client's input before the failure is answered: a lockstep client waits for the answer before closing its input, so both sides block")
		}
		if n == 0 {
			r.Undec("R-ANSWER-BEFORE-DRAIN", "serveStream", u.Pos(fn.Pos()), "no drain found")
		}
	}
	r.Floor("R-ANSWER-BEFORE-DRAIN", 3)
}

func seedfix5C06(c *Ctx) {
	u, r := c.U, c.R
	fn := c.Fn("R-RELEASE-ONLY-ON-FAILURE", "(*Server).serveStream")
	if fn == nil {
		return
	}
	// R-RELEASE-ONLY-ON-FAILURE: the turn's collected batches are discarded (not flushed) only on
	// a failure — never merely because the producer finished (its last logs and batch are flushed).
	n := 0
	for _, cs := range u.Calls(fn, Is("(*OutputCollector).releaseBatches")) {
		n++
		gs := u.GuardStrings(cs.Instr)
		failure := false
		finished := false
		for _, g := range gs {
			if strings.HasSuffix(g, "!= nil)") && (strings.Contains(g, "Err") || strings.Contains(g, "err") || strings.Contains(g, "validate(") || strings.Contains(g, "Write(")) {
				failure = true
			}
			if strings.HasPrefix(g, "(*OutputCollector).Finished(") {
				finished = true
			}
		}
		failure = failure && !finished
		r.Check(failure, "R-RELEASE-ONLY-ON-FAILURE", "serveStream|release#"+itoa(n), u.Pos(cs.Instr.Pos()), "discarded under a failure test", "serveStream discards the turn's batches under ["+strings.Join(gs, " && ")+"], with no failure in sight: logs (or a data batch) written on the producer's finishing turn are dropped instead of delivered")
	}
	if n == 0 {
		r.Undec("R-RELEASE-ONLY-ON-FAILURE", "serveStream", u.Pos(fn.Pos()), "no discard found")
	}
	// R-DYNAMIC-INPUT-SCHEMA: the pipe loop's cast target falls back to the StreamResult's input
	// schema (runtime-typed streams register none).
	reads := false
	Instrs(fn, func(in ssa.Instruction) {
		if fa, ok := in.(*ssa.FieldAddr); ok && strings.HasSuffix(typeShort(derefType(fa.X.Type())), "StreamResult") && fieldName(derefType(fa.X.Type()), fa.Field) == "InputSchema" {
			reads = true
		}
	})
	r.Check(reads, "R-DYNAMIC-INPUT-SCHEMA", "serveStream", u.Pos(fn.Pos()), "StreamResult.InputSchema is consulted", "serveStream never reads StreamResult.InputSchema: a runtime-typed exchange gets no input cast, so a castable-but-unequal input reaches the state uncast")
	r.Floor("R-RELEASE-ONLY-ON-FAILURE", 2)
	r.Floor("R-DYNAMIC-INPUT-SCHEMA", 1)
}

func seedfix5C09(c *Ctx) {
	u, r := c.U, c.R
	// R-REGISTER-SIBLINGS: every registration function derives the advertised parameter schema
	// through paramsSchemaFor (which honours a declared wire schema).
	n := 0
	for _, name := range []string{"Unary", "UnaryVoid", "Producer", "ProducerWithHeader", "Exchange", "ExchangeWithHeader", "DynamicStreamWithHeader"} {
		fn := u.Func(name)
		if fn == nil {
			continue
		}
		n++
		via := len(u.Calls(fn, Is("paramsSchemaFor"))) > 0
		direct := len(u.Calls(fn, Is("structToSchema")))
		r.Check(via && direct == 0, "R-REGISTER-SIBLINGS", name, u.Pos(fn.Pos()), "parameter schema from paramsSchemaFor", name+" derives the parameter schema without paramsSchemaFor: a params type that declares its own wire schema is advertised (and hashed) with the flat Go-field schema on this registration path only")
	}
	r.Check(n >= 6, "R-REGISTER-SIBLINGS", "registrations", "-", itoa(n)+" registration functions examined", "only "+itoa(n)+" registration functions found")
	// R-METHOD-TYPE-BY-KIND: the advertised method_type is chosen by the method's kind.
	if fn := c.Fn("R-METHOD-TYPE-BY-KIND", "(*Server).buildDescribeBatch"); fn != nil {
		n2 := 0
		Instrs(fn, func(in ssa.Instruction) {
			phi, ok := in.(*ssa.Phi)
			if !ok {
				return
			}
			for i, e := range phi.Edges {
				if s, isS := ConstString(e); isS && s == "stream" {
					n2++
					p := phi.Block().Preds[i]
					gs := strings.Join(append(u.GuardStrings(p.Instrs[len(p.Instrs)-1]), func() []string {
						var o []string
						for _, g := range blockEntryGuard(p) {
							o = append(o, u.Describe(g.Cond))
						}
						return o
					}()...), " && ")
					r.Check(strings.Contains(gs, ".Type"), "R-METHOD-TYPE-BY-KIND", "buildDescribeBatch|stream", u.Pos(in.Pos()), "\"stream\" chosen by info.Type", "method_type \"stream\" is chosen under ["+gs+"], not by the method's kind: a runtime-typed stream (no registered output schema) is advertised as unary")
				}
			}
		})
		if n2 == 0 {
			r.Ok("R-METHOD-TYPE-BY-KIND", "buildDescribeBatch|shape", u.Pos(fn.Pos()), "method_type is not selected through a phi of constants (not the shape this rule judges)")
		}
	}
	r.Floor("R-REGISTER-SIBLINGS", 7)
}

// resolveResultAfterCheck: what ResolveShmBatch returned replaces req.Batch only once its error was seen nil.
func resolveResultAfterCheck(c *Ctx, rule string) {
	u, r := c.U, c.R
	n := 0
	for _, name := range []string{"(*Server).serveOne", "(*Server).serveStream"} {
		fn := u.Func(name)
		if fn == nil {
			continue
		}
		for _, cs := range u.Calls(fn, Is("ResolveShmBatch")) {
			call, ok := cs.Instr.(*ssa.Call)
			if !ok {
				continue
			}
			Instrs(fn, func(in ssa.Instruction) {
				st, ok := in.(*ssa.Store)
				if !ok {
					return
				}
				ex, isEx := st.Val.(*ssa.Extract)
				if !isEx || ex.Tuple != ssa.Value(call) || ex.Index != 0 {
					return
				}
				if _, isField := st.Addr.(*ssa.FieldAddr); !isField {
					return
				}
				n++
				r.Check(u.GuardedErrNilOf(in, call), rule, shortName(fn)+"|adopt#"+itoa(n), u.Pos(in.Pos()), "the resolved batch is adopted only after the resolve error was seen nil", shortName(fn)+" installs ResolveShmBatch's result before looking at its error: an ordinary resolve failure returns nil, and the deferred Release on it panics outside any recover")
			})
		}
	}
	if n == 0 {
		r.Ok(rule, "resolve-sites", "-", "no field is assigned from ResolveShmBatch's result")
	}
}

func seedfix5C04(c *Ctx) {
	u, r := c.U, c.R
	requestIDReadVerbatim(c)
	// R-HANDLER-ERROR-IN-STREAM: over HTTP a handler's error is answered by the logs-then-exception
	// stream, never by the bare error responder (which drops the logs the handler emitted).
	if fn := c.Fn("R-HANDLER-ERROR-IN-STREAM", "(*HttpServer).handleUnary"); fn != nil {
		n := 0
		for _, cs := range u.Calls(fn, Is("(*HttpServer).writeHttpError")) {
			d := u.Describe(cs.Arg(3))
			if d != "callErr" {
				continue
			}
			n++
			r.Viol("R-HANDLER-ERROR-IN-STREAM", "handleUnary|writeHttpError#"+itoa(n), u.Pos(cs.Instr.Pos()), "handleUnary answers the handler's own error through writeHttpError: the log batches the handler emitted before failing are dropped and the exception carries no request id, unlike the pipe transport")
		}
		if n == 0 {
			r.Ok("R-HANDLER-ERROR-IN-STREAM", "handleUnary", u.Pos(fn.Pos()), "the handler's error is never passed to the bare error responder")
		}
	}
	r.Floor("R-HANDLER-ERROR-IN-STREAM", 1)
}

func seedfix5C37(c *Ctx) {
	u, r := c.U, c.R
	producerErrIsReported(c)
	// R-UNARY-ERR-RECORDED: whenever serveUnary writes an exception batch, the error it returns to
	// the dispatch hook is the one written (non-nil).
	if fn := c.Fn("R-UNARY-ERR-RECORDED", "(*Server).serveUnary"); fn != nil {
		n := 0
		for _, cs := range u.Calls(fn, Or(Is("writeErrorBatch"), Is("writeErrorResponse"))) {
			var errArg ssa.Value
			for _, a := range cs.Common().Args {
				if isErrorType(a.Type()) {
					errArg = a
				}
			}
			if errArg == nil {
				continue
			}
			// the return reached from here
			Instrs(fn, func(in ssa.Instruction) {
				ret, ok := in.(*ssa.Return)
				if !ok || len(ret.Results) != 2 || InRecoverBlock(in) {
					return
				}
				if !(Dominates(cs.Instr, in) || cs.Instr.Block() == in.Block()) {
					return
				}
				n++
				h := ReturnValue(ret, 0)
				same := h == errArg || u.Describe(h) == u.Describe(errArg)
				r.Check(same, "R-UNARY-ERR-RECORDED", "serveUnary|"+exitKey(u, in.Block()), u.Pos(in.Pos()), "the error written is the error reported", "serveUnary writes "+u.Describe(errArg)+" to the client but reports "+u.Describe(h)+" to the dispatch hook: OnDispatchEnd sees success for a call that answered with an exception")
			})
		}
		if n == 0 {
			r.Undec("R-UNARY-ERR-RECORDED", "serveUnary", u.Pos(fn.Pos()), "no exception write followed by a return")
		}
	}
	r.Floor("R-UNARY-ERR-RECORDED", 2)
}

// ---------------------------------------------------------------- C01

func seedfix5C01(c *Ctx) {
	u, r := c.U, c.R
	// R-ONE-ROW: ReadRequest refuses every row count other than 1 (before the pointer exemptions).
	if fn := c.Fn("R-ONE-ROW", "ReadRequest"); fn != nil {
		n := 0
		Instrs(fn, func(in ssa.Instruction) {
			b, ok := in.(*ssa.BinOp)
			if !ok || !strings.Contains(u.Describe(b.X), "RecordBatch.NumRows(") {
				return
			}
			k, isK := ConstInt(b.Y)
			if !isK || k != 1 {
				return
			}
			n++
			r.Check(b.Op == token.NEQ || b.Op == token.EQL, "R-ONE-ROW", "ReadRequest|rows#"+itoa(n), u.Pos(in.Pos()), "row count compared with 1 for (in)equality", "ReadRequest tests the row count with "+u.Describe(b)+": a zero-row parameter batch is accepted instead of refused with the typed error")
		})
		if n == 0 {
			r.Undec("R-ONE-ROW", "ReadRequest", u.Pos(fn.Pos()), "no row-count test against 1 found")
		}
	}
	// R-TOKENS-INDEPENDENT: FindStreamTokens keeps the first cursor and the first call token
	// independently: each result is assigned under a test of that result alone.
	if fn := c.Fn("R-TOKENS-INDEPENDENT", "FindStreamTokens"); fn != nil {
		n := 0
		Instrs(fn, func(in ssa.Instruction) {
			phi, ok := in.(*ssa.Phi)
			if !ok {
				return
			}
			name := u.VarName(phi)
			if name != "state" && name != "call" && name != "callState" && name != "cursor" {
				return
			}
			for i, e := range phi.Edges {
				if e == ssa.Value(phi) || isNilConst(e) {
					continue
				}
				if _, isExt := e.(*ssa.Extract); !isExt {
					continue
				}
				n++
				p := phi.Block().Preds[i]
				gs := strings.Join(u.GuardStrings(p.Instrs[len(p.Instrs)-1]), " && ")
				other := "call"
				if name != "state" && name != "cursor" {
					other = "state"
				}
				// the edge that installs this result must not be conditioned on the *other* result
				bad := strings.Contains(gs, "("+other+" == nil)") || strings.Contains(gs, "("+other+" != nil)")
				r.Check(!bad, "R-TOKENS-INDEPENDENT", "FindStreamTokens|"+name+"#"+itoa(n), u.Pos(in.Pos()), name+" is taken from a stream independently of the other token", "FindStreamTokens installs "+name+" under ["+gs+"]: a call token stamped on an earlier stream than the cursor is lost (or the reverse)")
			}
		})
		if n == 0 {
			r.Ok("R-TOKENS-INDEPENDENT", "FindStreamTokens|shape", u.Pos(fn.Pos()), "results are not merged through phis of the two names (not the shape this rule judges)")
		}
	}
	r.Floor("R-ONE-ROW", 1)
}

// ---------------------------------------------------------------- C03 / C12

func seedfix5C03(c *Ctx) {
	if fn := c.Fn("R-TOKEN-BYTES-COVERED", "(*HttpServer).openToken"); fn != nil {
		constIndexCovered(c, "R-TOKEN-BYTES-COVERED", fn)
	}
	resolveResultAfterCheck(c, "R-RESOLVE-ADOPTED-AFTER-CHECK")
	c.R.Floor("R-TOKEN-BYTES-COVERED", 2)
	c.R.Floor("R-RESOLVE-ADOPTED-AFTER-CHECK", 1)
}

func seedfix5C12(c *Ctx) {
	u, r := c.U, c.R
	if fn := c.Fn("R-TOKEN-BYTES-COVERED", "(*HttpServer).openToken"); fn != nil {
		constIndexCovered(c, "R-TOKEN-BYTES-COVERED", fn)
	}
	// R-CURSOR-VERBATIM: the cursor text handed to openToken is the client's, not a repaired copy.
	if fn := c.Fn("R-CURSOR-VERBATIM", "(*HttpServer).openCursorToken"); fn != nil {
		n := 0
		for _, cs := range u.Calls(fn, Is("(*HttpServer).openToken")) {
			n++
			a := cs.Arg(2)
			r.Check(a == ssa.Value(fn.Params[1]), "R-CURSOR-VERBATIM", "openCursorToken|token#"+itoa(n), u.Pos(cs.Instr.Pos()), "openToken receives the presented cursor itself", "openCursorToken opens "+u.Describe(a)+" instead of the presented cursor: a truncated or otherwise altered cursor is repaired and accepted")
		}
		if n == 0 {
			r.Undec("R-CURSOR-VERBATIM", "openCursorToken", u.Pos(fn.Pos()), "no openToken call")
		}
	}
	r.Floor("R-TOKEN-BYTES-COVERED", 2)
	r.Floor("R-CURSOR-VERBATIM", 1)
}

// ---------------------------------------------------------------- C05

func seedfix5C05(c *Ctx) {
	u, r := c.U, c.R
	// R-EXTRA-IS-JSON: buildErrorExtra's result is json.Marshal output (or a constant fallback).
	if fn := c.Fn("R-EXTRA-IS-JSON", "buildErrorExtra"); fn != nil {
		n := 0
		Instrs(fn, func(in ssa.Instruction) {
			ret, ok := in.(*ssa.Return)
			if !ok || InRecoverBlock(in) {
				return
			}
			v := ReturnValue(ret, 0)
			if _, isK := ConstString(v); isK {
				return
			}
			n++
			viaJSON := false
			for _, o := range u.Origins(v, nil) {
				if o.Kind == "call" && strings.HasPrefix(o.Desc, "encoding/json.Marshal") {
					viaJSON = true
				}
			}
			r.Check(viaJSON || strings.Contains(u.Describe(v), "encoding/json.Marshal("), "R-EXTRA-IS-JSON", "buildErrorExtra|return@"+exitKey(u, in.Block()), u.Pos(in.Pos()), "envelope encoded with encoding/json", "buildErrorExtra returns "+u.Describe(v)+", not json.Marshal output: a message with control bytes or invalid UTF-8 yields an unparseable envelope, so no client can read exception_type")
		})
		if n == 0 {
			r.Undec("R-EXTRA-IS-JSON", "buildErrorExtra", u.Pos(fn.Pos()), "no non-constant return")
		}
	}
	// R-KIND-VERBATIM: (*RpcError).ErrorKind returns the Kind field itself.
	if fn := c.Fn("R-KIND-VERBATIM", "(*RpcError).ErrorKind"); fn != nil {
		okK, rets := true, 0
		Instrs(fn, func(in ssa.Instruction) {
			if ret, ok := in.(*ssa.Return); ok {
				rets++
				if !strings.HasSuffix(u.Describe(ReturnValue(ret, 0)), ".Kind") {
					okK = false
				}
			}
		})
		r.Check(okK && rets == 1, "R-KIND-VERBATIM", "RpcError.ErrorKind", u.Pos(fn.Pos()), "returns e.Kind on its only path", "(*RpcError).ErrorKind does not simply return the Kind field: some RpcError kinds never reach the wire")
	}
	// R-STACK-ONLY-IN-ENVELOPE: stack text is produced only by buildErrorExtra (under its debug guard).
	n := 0
	for _, top := range u.SrcFuncs() {
		for _, f := range WithAnon(top) {
			for _, cs := range u.Calls(f, Or(Is("runtime/debug.Stack"), Is("runtime.Stack"), Is("runtime/debug.PrintStack"))) {
				n++
				r.Check(shortName(top) == "buildErrorExtra", "R-STACK-ONLY-IN-ENVELOPE", shortName(top), u.Pos(cs.Instr.Pos()), "stack captured inside buildErrorExtra", shortName(top)+" captures a Go stack outside buildErrorExtra's debug guard: stack text (function names, source paths) can reach the client with debug errors off")
			}
		}
	}
	if n == 0 {
		r.Undec("R-STACK-ONLY-IN-ENVELOPE", "package", "-", "no stack capture found at all")
	}
	r.Floor("R-EXTRA-IS-JSON", 1)
	r.Floor("R-KIND-VERBATIM", 1)
	r.Floor("R-STACK-ONLY-IN-ENVELOPE", 1)
}

// ---------------------------------------------------------------- C07 / C08

// listIndexAgrees: in setListField the validity bit and the value of an item are read at the same child position.
func listIndexAgrees(c *Ctx, rule string) {
	u, r := c.U, c.R
	fn := c.Fn(rule, "setListField")
	if fn == nil {
		return
	}
	var nulls, reads []ssa.Value
	for _, cs := range u.Calls(fn, nil) {
		if cs.Common().IsInvoke() && cs.Common().Method.Name() == "IsNull" && len(cs.Common().Args) == 1 {
			nulls = append(nulls, cs.Common().Args[0])
		}
		if cs.Callee == "setFieldFromArrow" && len(cs.Common().Args) >= 4 {
			reads = append(reads, cs.Arg(3))
		}
	}
	if len(nulls) == 0 || len(reads) == 0 {
		r.Undec(rule, "setListField", u.Pos(fn.Pos()), "validity test or element read not found")
		return
	}
	for i, nv := range nulls {
		same := false
		for _, rv := range reads {
			if nv == rv || u.Describe(nv) == u.Describe(rv) {
				same = true
			}
		}
		r.Check(same, rule, "setListField|IsNull#"+itoa(i+1), u.Pos(fn.Pos()), "validity read at the element's own child position", "setListField tests validity at "+u.Describe(nv)+" but reads the value at "+u.Describe(reads[0])+": in any list that does not start at child offset 0 nulls and values come from different slots")
	}
	r.Floor(rule, 1)
}

func seedfix5C07(c *Ctx) {
	u, r := c.U, c.R
	listIndexAgrees(c, "R-LIST-INDEX-AGREES")
	// R-GATE-BEFORE-EVERY-SUCCESS: deserializeParams returns a value (nil error) only after the
	// Schema.Equal gate (or the wrapped-request unwrapping) has been evaluated.
	if fn := c.Fn("R-GATE-BEFORE-EVERY-SUCCESS", "deserializeParams"); fn != nil {
		gate := u.CallMatcher(Or(HasSuffix("arrow.Schema).Equal"), Is("deserializeParams")), false)
		n := 0
		Instrs(fn, func(in ssa.Instruction) {
			ret, ok := in.(*ssa.Return)
			if !ok || InRecoverBlock(in) || len(ret.Results) != 2 || !isNilConst(ReturnValue(ret, 1)) {
				return
			}
			n++
			first := fn.Blocks[0].Instrs[0]
			_, skip := ReachWithout(fn, first, isInstr(in), gate)
			r.Check(!skip, "R-GATE-BEFORE-EVERY-SUCCESS", "deserializeParams|success@"+exitKey(u, in.Block()), u.Pos(in.Pos()), "success only after the schema comparison", "deserializeParams can succeed without having compared the batch schema with the declared one: a widened batch dispatches to the handler")
		})
		if n == 0 {
			r.Undec("R-GATE-BEFORE-EVERY-SUCCESS", "deserializeParams", u.Pos(fn.Pos()), "no success return")
		}
	}
	r.Floor("R-GATE-BEFORE-EVERY-SUCCESS", 1)
}

func seedfix5C08(c *Ctx) {
	u, r := c.U, c.R
	listIndexAgrees(c, "R-LIST-INDEX-AGREES")
	// R-NO-NARROW-ARITH: a 32-bit column value (date32, time32) is widened before it is scaled.
	n := 0
	for _, name := range []string{"setFieldFromArrow", "setListField", "setMapField", "setStructField"} {
		fn := u.Func(name)
		if fn == nil {
			continue
		}
		n++
		Instrs(fn, func(in ssa.Instruction) {
			b, ok := in.(*ssa.BinOp)
			if !ok || (b.Op != token.MUL && b.Op != token.SHL) {
				return
			}
			bt, isB := b.Type().Underlying().(*types.Basic)
			if !isB || (bt.Kind() != types.Int32 && bt.Kind() != types.Uint32 && bt.Kind() != types.Int16) {
				return
			}
			if k, isK := ConstInt(b.Y); isK && k > 1 {
				r.Viol("R-NO-NARROW-ARITH", name+"|"+u.Describe(b), u.Pos(in.Pos()), name+" computes "+u.Describe(b)+" in "+bt.Name()+" before widening: the product wraps for values the column holds (dates after 2038 or before 1901)")
			}
		})
	}
	r.Check(n >= 1, "R-NO-NARROW-ARITH", "decoders-scanned", "-", "no 32-bit column value is scaled before being widened", "decoder functions not found")
	// R-FLOAT-NO-RANGE-REFUSAL: the float encoders refuse nothing (±Inf and NaN are values of the wire type).
	k := 0
	for _, name := range []string{"buildArray", "appendToBuilder"} {
		fn := u.Func(name)
		if fn == nil {
			continue
		}
		k++
		for _, f := range WithAnon(fn) {
			Instrs(f, func(in ssa.Instruction) {
				b, ok := in.(*ssa.BinOp)
				if !ok {
					return
				}
				for _, o := range []ssa.Value{b.X, b.Y} {
					if cst, isC := o.(*ssa.Const); isC && cst.Value != nil && strings.HasPrefix(cst.Value.String(), "3.40282") {
						r.Viol("R-FLOAT-NO-RANGE-REFUSAL", name+"|MaxFloat32", u.Pos(in.Pos()), name+" compares a float with MaxFloat32: ±Inf (a value of the wire type) is refused instead of encoded")
					}
				}
			})
		}
	}
	r.Check(k >= 1, "R-FLOAT-NO-RANGE-REFUSAL", "encoders-scanned", "-", "float encoders contain no range refusal", "encoders not found")
	r.Floor("R-NO-NARROW-ARITH", 1)
	r.Floor("R-FLOAT-NO-RANGE-REFUSAL", 1)
}

// ---------------------------------------------------------------- C11 / C14 / C15 / C21

// unboundCursorMinted: no handler mints a cursor through the method-less helper.
func unboundCursorMinted(c *Ctx, rule string) {
	u, r := c.U, c.R
	fn := u.Func("(*HttpServer).packCursorToken")
	if fn == nil {
		r.Ok(rule, "packCursorToken", "-", "no method-less cursor helper exists")
		return
	}
	callers := u.Callers(fn)
	for _, cs := range callers {
		r.Viol(rule, shortName(cs.Fn), u.Pos(cs.Instr.Pos()), shortName(cs.Fn)+" mints its cursor with packCursorToken, which binds no method name: the next continuation refuses it (method mismatch) and a multi-turn producer is cut off")
	}
	if len(callers) == 0 {
		r.Ok(rule, "packCursorToken", u.Pos(fn.Pos()), "the method-less cursor helper has no caller in the package")
	}
	r.Floor(rule, 1)
}

// clientKeepsCallToken: the client replaces its call token only with a non-empty one.
func clientKeepsCallToken(c *Ctx, rule string) {
	u, r := c.U, c.R
	n := 0
	for _, name := range []string{"(*HttpClientStream).Next", "(*HttpClientStream).Exchange", "(*HttpClientStream).adoptCursor"} {
		fn := u.Func(name)
		if fn == nil {
			continue
		}
		for _, st := range u.StoresToField(fn, "HttpClientStream", "callToken") {
			if !strings.HasSuffix(u.Describe(st.Val), ".callToken") {
				continue
			}
			n++
			r.Check(u.HasGuardContaining(st, ".callToken != \"\")"), rule, strings.TrimPrefix(name, "(*HttpClientStream).")+"|callToken", u.Pos(st.Pos()), "call token replaced only by a non-empty one", name+" overwrites the stream's call token with the response's even when that is empty (only /init carries one): the next turn that misses the server's call cache is refused")
		}
	}
	if n == 0 {
		r.Undec(rule, "HttpClientStream", "-", "no call-token update found")
	}
	r.Floor(rule, 2)
}

func seedfix5C11(c *Ctx) {
	u, r := c.U, c.R
	unboundCursorMinted(c, "R-CURSOR-ALWAYS-BOUND")
	clientKeepsCallToken(c, "R-CLIENT-KEEPS-CALL-TOKEN")
	// R-DEFAULT-LOG-LEVEL-AGREES: every dispatcher defaults an unspecified log level to the same level.
	levels := map[string]string{}
	for _, name := range []string{"(*Server).serveUnary", "(*Server).serveStream", "(*HttpServer).handleUnary", "(*HttpServer).handleStreamInit", "(*HttpServer).handleStreamExchange"} {
		fn := u.Func(name)
		if fn == nil {
			continue
		}
		for _, st := range u.StoresToField(fn, "CallContext", "LogLevel") {
			if s, ok := ConstString(st.Val); ok && u.HasGuardContaining(st, ".LogLevel == \"\")") {
				levels[name] = s
			}
		}
	}
	ref := levels["(*Server).serveStream"]
	for name, l := range levels {
		r.Check(l == ref, "R-DEFAULT-LOG-LEVEL-AGREES", name, u.Pos(u.Func(name).Pos()), "defaults to "+l, name+" defaults an unspecified log level to "+l+" while the pipe stream loop defaults to "+ref+": the same handler's logs differ between transports")
	}
	r.Check(len(levels) >= 3, "R-DEFAULT-LOG-LEVEL-AGREES", "dispatchers", "-", itoa(len(levels))+" dispatchers default the log level", "only "+itoa(len(levels))+" default-log-level sites found")
	r.Floor("R-DEFAULT-LOG-LEVEL-AGREES", 4)
}

func seedfix5C14(c *Ctx) { unboundCursorMinted(c, "R-CURSOR-ALWAYS-BOUND") }

func seedfix5C15(c *Ctx) {
	u, r := c.U, c.R
	clientKeepsCallToken(c, "R-CLIENT-KEEPS-CALL-TOKEN")
	// an expired or unreadable call token refuses the continuation, cancel turns included
	callTokenRequired(c, "R-CALL-TOKEN-REQUIRED")
	// R-CACHE-ENTRIES-IMMUTABLE: callStateCache.put never rewrites the key or value of an element
	// that is already indexed (eviction removes; it does not recycle in place).
	if fn := c.Fn("R-CACHE-ENTRIES-IMMUTABLE", "(*callStateCache).put"); fn != nil {
		bad := ""
		Instrs(fn, func(in ssa.Instruction) {
			st, ok := in.(*ssa.Store)
			if !ok {
				return
			}
			fa, ok := st.Addr.(*ssa.FieldAddr)
			if !ok {
				// `*entry = callStateEntry{…}`: the whole indexed entry, key included, is overwritten
				if _, isAlloc := st.Addr.(*ssa.Alloc); !isAlloc && strings.HasSuffix(typeShort(derefType(st.Addr.Type())), "callStateEntry") {
					if _, isStruct := derefType(st.Addr.Type()).Underlying().(*types.Struct); isStruct {
						bad = "*" + u.Describe(st.Addr) + " <- " + u.Describe(st.Val)
					}
				}
				return
			}
			if !strings.HasSuffix(typeShort(derefType(fa.X.Type())), "callStateEntry") {
				return
			}
			if _, isAlloc := fa.X.(*ssa.Alloc); isAlloc {
				return // a new entry under construction
			}
			if fieldName(derefType(fa.X.Type()), fa.Field) == "key" {
				bad = u.Describe(st.Addr) + " <- " + u.Describe(st.Val)
			}
		})
		r.Check(bad == "", "R-CACHE-ENTRIES-IMMUTABLE", "callStateCache.put", u.Pos(fn.Pos()), "an indexed entry's key is never rewritten", "callStateCache.put rewrites the key of an indexed entry ("+bad+"): the evicted call's key keeps pointing at the element that now holds another call, so a continuation resolves to a foreign call's state")
	}
	r.Floor("R-CACHE-ENTRIES-IMMUTABLE", 1)
}

func seedfix5C21(c *Ctx) {
	u, r := c.U, c.R
	clientKeepsCallToken(c, "R-CLIENT-KEEPS-CALL-TOKEN")
	// R-NON-2XX-IS-ERROR: post treats every status outside 200..299 as an HTTP status error.
	if fn := c.Fn("R-NON-2XX-IS-ERROR", "(*HttpClient).post"); fn != nil {
		lo, hi := false, false
		Instrs(fn, func(in ssa.Instruction) {
			b, ok := in.(*ssa.BinOp)
			if !ok || !strings.HasSuffix(u.Describe(b.X), ".StatusCode") {
				return
			}
			k, _ := ConstInt(b.Y)
			if (b.Op == token.LSS && k == 200) || (b.Op == token.GEQ && k == 200) || (b.Op == token.LEQ && k == 199) || (b.Op == token.GTR && k == 199) {
				lo = true
			}
			if (b.Op == token.GEQ && k == 300) || (b.Op == token.LSS && k == 300) || (b.Op == token.GTR && k == 299) || (b.Op == token.LEQ && k == 299) {
				hi = true
			}
		})
		r.Check(lo && hi, "R-NON-2XX-IS-ERROR", "post|status-range", u.Pos(fn.Pos()), "status tested against 200 and 300", "post does not test the status against both 200 and 300: a 3xx (or 1xx) answer to a turn is accepted, the new cursor adopted and the stream keeps going")
	}
	// R-LOGS-NEVER-DATA: a zero-row batch carrying a log level is discarded whether or not a log handler is installed.
	if fn := c.Fn("R-LOGS-NEVER-DATA", "(*HttpClient).parseIPCStream"); fn != nil {
		n := 0
		for _, cs := range u.Calls(fn, Is("dyn:c.onLog")) {
			_ = cs
		}
		Instrs(fn, func(in ssa.Instruction) {
			// the `continue` of the log branch: a Release followed by a jump, guarded by level != ""
			ci, ok := in.(*ssa.Call)
			if !ok || !ci.Call.IsInvoke() || ci.Call.Method.Name() != "Release" {
				return
			}
			gs := strings.Join(u.GuardStrings(in), " && ")
			if !strings.Contains(gs, "\"vgi_rpc.log_level\"] != \"\")") {
				return
			}
			n++
			r.Check(!strings.Contains(gs, "onLog"), "R-LOGS-NEVER-DATA", "parseIPCStream|log-discard#"+itoa(n), u.Pos(in.Pos()), "log envelopes are dropped from the data independently of the handler", "parseIPCStream discards a log envelope only under ["+gs+"]: without a log handler the envelope is returned to the caller as a data batch")
		})
		if n == 0 {
			r.Undec("R-LOGS-NEVER-DATA", "parseIPCStream", u.Pos(fn.Pos()), "log-envelope discard not found")
		}
		// path form: once a record is known to be zero-row with a log level, no path
		// reaches the append to the data batches before the next record is read.
		var appendBlocks, headers []*ssa.BasicBlock
		for _, st := range u.StoresToField(fn, "parsedClientStream", "batches") {
			appendBlocks = append(appendBlocks, st.Block())
		}
		for _, cs := range u.Calls(fn, HasSuffix("ipc.Reader).Next")) {
			headers = append(headers, cs.Instr.Block())
		}
		isLogKnown := func(b *ssa.BasicBlock) bool {
			if b == nil || len(b.Instrs) == 0 {
				return false
			}
			rows, lvl := false, false
			for _, g := range u.GuardStrings(b.Instrs[0]) {
				if strings.Contains(g, "NumRows") && strings.HasSuffix(g, " == 0)") {
					rows = true
				}
				if strings.Contains(g, "\"vgi_rpc.log_level\"] != \"\")") {
					lvl = true
				}
			}
			return rows && lvl
		}
		if len(appendBlocks) > 0 && len(headers) > 0 {
			m := 0
			for _, b := range fn.Blocks {
				if !isLogKnown(b) || isLogKnown(b.Idom()) {
					continue
				}
				m++
				seen := map[*ssa.BasicBlock]bool{}
				for _, h := range headers {
					seen[h] = true
				}
				hit := false
				var walk func(x *ssa.BasicBlock)
				walk = func(x *ssa.BasicBlock) {
					if seen[x] || hit {
						return
					}
					seen[x] = true
					for _, a := range appendBlocks {
						if a == x {
							hit = true
							return
						}
					}
					for _, s := range x.Succs {
						walk(s)
					}
				}
				walk(b)
				r.Check(!hit, "R-LOGS-NEVER-DATA", "parseIPCStream|log-region#"+itoa(m), u.Pos(b.Instrs[0].Pos()), "a zero-row record with a log level cannot reach the data append", "a record already known to be zero-row with a log level can still reach the append to the data batches (some further condition sends it on): the caller receives a log envelope as a data batch")
			}
		}
	}
	// R-EXCEPTION-SCAN-WHOLE-STREAM: the scan for an exception on a differing schema loops over the stream.
	if fn := u.Func("firstStreamException"); fn != nil {
		nx := u.Calls(fn, HasSuffix("ipc.Reader).Next"))
		loop := false
		if len(nx) == 1 {
			_, loop = ReachWithout(fn, nx[0].Instr, isInstr(nx[0].Instr), nil)
		}
		r.Check(loop, "R-EXCEPTION-SCAN-WHOLE-STREAM", "firstStreamException", u.Pos(fn.Pos()), "reads batches until the stream ends", "firstStreamException does not loop over Next(): an exception that follows a log batch is not found and surfaces as schema drift")
	}
	r.Floor("R-NON-2XX-IS-ERROR", 1)
	r.Floor("R-LOGS-NEVER-DATA", 1)
}

// ---------------------------------------------------------------- C13

func seedfix5C13(c *Ctx) {
	u, r := c.U, c.R
	// R-IDENTITY-AS-AUTHENTICATED: authenticate hands on the authenticator's AuthContext; it never
	// substitutes the shared anonymous identity for it.
	if fn := c.Fn("R-IDENTITY-AS-AUTHENTICATED", "(*HttpServer).authenticate"); fn != nil {
		n := 0
		for _, cs := range u.Calls(fn, Is("Anonymous")) {
			// the only legitimate use: no authenticator is configured at all
			if !u.HasGuardContaining(cs.Instr, "authenticateFunc == nil)") {
				n++
			}
		}
		r.Check(n == 0, "R-IDENTITY-AS-AUTHENTICATED", "authenticate", u.Pos(fn.Pos()), "no substitution of Anonymous()", "authenticate replaces an authenticator's result with Anonymous(): an authenticated caller with an empty principal shares the anonymous identity, so tokens cross between them")
	}
	seedfix5C15cache(c)
	r.Floor("R-IDENTITY-AS-AUTHENTICATED", 1)
}

func seedfix5C15cache(c *Ctx) {
	u, r := c.U, c.R
	if fn := u.Func("(*callStateCache).put"); fn != nil {
		bad := ""
		Instrs(fn, func(in ssa.Instruction) {
			st, ok := in.(*ssa.Store)
			if !ok {
				return
			}
			fa, ok := st.Addr.(*ssa.FieldAddr)
			if !ok || !strings.HasSuffix(typeShort(derefType(fa.X.Type())), "callStateEntry") {
				return
			}
			if _, isAlloc := fa.X.(*ssa.Alloc); !isAlloc && fieldName(derefType(fa.X.Type()), fa.Field) == "key" {
				bad = u.Describe(st.Addr)
			}
		})
		r.Check(bad == "", "R-CACHE-ENTRIES-IMMUTABLE", "callStateCache.put", u.Pos(fn.Pos()), "an indexed entry's key is never rewritten", "callStateCache.put rewrites the key of an indexed entry ("+bad+"): after an eviction one principal's cursor resolves to another principal's call state")
	}
}

// ---------------------------------------------------------------- C17 / C18 / C19 / C20

func seedfix5C17(c *Ctx) {
	u, r := c.U, c.R
	// R-CTORS-APPLY-LEVEL: every HttpServer constructor goes through applyCompressionLevel (which
	// also renders the advertisement).
	n := 0
	for _, top := range u.SrcFuncs() {
		if !strings.HasPrefix(top.Name(), "NewHttpServer") {
			continue
		}
		n++
		direct := len(u.Calls(top, Is("(*HttpServer).applyCompressionLevel"))) > 0
		via := false
		for _, cs := range u.Calls(top, nil) {
			if strings.HasPrefix(cs.Callee, "NewHttpServer") && cs.Callee != top.Name() {
				via = true
			}
		}
		r.Check(direct || via, "R-CTORS-APPLY-LEVEL", top.Name(), u.Pos(top.Pos()), "constructor applies the compression level through applyCompressionLevel", top.Name()+" sets the level without applyCompressionLevel: the server compresses but advertises no supported encodings")
	}
	if n == 0 {
		r.Undec("R-CTORS-APPLY-LEVEL", "constructors", "-", "no NewHttpServer* constructor found")
	}
	// R-ACCEPT-SPLIT-UNBOUNDED: the accept header is split on every comma.
	if fn := c.Fn("R-ACCEPT-SPLIT-UNBOUNDED", "parseAcceptEncoding"); fn != nil {
		bad := len(u.Calls(fn, Or(Is("strings.SplitN"), Is("strings.SplitAfterN"))))
		r.Check(bad == 0, "R-ACCEPT-SPLIT-UNBOUNDED", "parseAcceptEncoding", u.Pos(fn.Pos()), "no bounded split", "parseAcceptEncoding splits the header a bounded number of times: the tail stays one unsplit token, so a codec or an identity listed there is not seen")
	}
	// R-PROBE-SAME-LEVEL: SetCompressionLevel probes the very level value it stores.
	if fn := c.Fn("R-PROBE-SAME-LEVEL", "(*HttpServer).SetCompressionLevel"); fn != nil {
		bad := len(u.Calls(fn, HasSuffix("zstd.EncoderLevelFromZstd")))
		r.Check(bad == 0, "R-PROBE-SAME-LEVEL", "SetCompressionLevel", u.Pos(fn.Pos()), "the probe uses the level as given", "SetCompressionLevel maps the level (EncoderLevelFromZstd) for its probe while the encoder pool uses the raw value: levels are accepted and advertised that the real encoder cannot produce")
	}
	r.Floor("R-CTORS-APPLY-LEVEL", 2)
	r.Floor("R-ACCEPT-SPLIT-UNBOUNDED", 1)
	r.Floor("R-PROBE-SAME-LEVEL", 1)
}

func seedfix5C18(c *Ctx) {
	u, r := c.U, c.R
	// R-CAP-SINGLE-WRITER: the decoded-size cap is written by its own setter only.
	ws := fieldWriters(u, "maxDecompressedBodySize")
	okW := true
	for _, w := range ws {
		if w != "(*HttpServer).SetMaxDecompressedBodySize" {
			okW = false
		}
	}
	r.Check(okW && len(ws) >= 1, "R-CAP-SINGLE-WRITER", "maxDecompressedBodySize", "-", "written only by SetMaxDecompressedBodySize", "maxDecompressedBodySize is written by "+strings.Join(ws, ", ")+": another setter overwrites an explicitly configured decoded-size cap")
	// R-CODING-BEFORE-ACCEPT: readHTTPBody accepts a body only after the coding switch.
	if fn := c.Fn("R-CODING-BEFORE-ACCEPT", "(*HttpServer).readHTTPBody"); fn != nil {
		n := 0
		Instrs(fn, func(in ssa.Instruction) {
			ret, ok := in.(*ssa.Return)
			if !ok || len(ret.Results) != 2 || !isNilConst(ReturnValue(ret, 1)) {
				return
			}
			n++
			gs := strings.Join(u.GuardStrings(in), " && ")
			// every path to this success has compared the coding with a known name
			isCodingTest := func(x ssa.Instruction) bool {
				b, ok := x.(*ssa.BinOp)
				if !ok || (b.Op != token.EQL && b.Op != token.NEQ) {
					return false
				}
				s, isS := ConstString(b.Y)
				return isS && (s == "identity" || s == "zstd" || s == "gzip" || (s == "" && strings.Contains(u.Describe(b.X), "Header).Get(")))
			}
			_, skip := ReachWithout(fn, fn.Blocks[0].Instrs[0], isInstr(in), isCodingTest)
			r.Check(!skip, "R-CODING-BEFORE-ACCEPT", "readHTTPBody|accept@"+exitKey(u, in.Block()), u.Pos(in.Pos()), "the raw body is accepted only for an empty/identity coding", "readHTTPBody accepts the body under ["+gs+"] without having looked at Content-Encoding: an unknown coding on that path is not answered 415")
		})
		if n == 0 {
			r.Undec("R-CODING-BEFORE-ACCEPT", "readHTTPBody", u.Pos(fn.Pos()), "no success return with a nil error constant")
		}
	}
	r.Floor("R-CAP-SINGLE-WRITER", 1)
	r.Floor("R-CODING-BEFORE-ACCEPT", 1)
}

func seedfix5C19(c *Ctx) {
	u, r := c.U, c.R
	// R-BUDGET-AFTER-BODY: each enforceResponseBudgets call of the unary handler judges a buffer
	// that a response writer has already filled.
	if fn := c.Fn("R-BUDGET-AFTER-BODY", "(*HttpServer).handleUnary"); fn != nil {
		writes := u.Calls(fn, Or(Is("WriteVoidResponse"), Is("WriteUnaryResponse"), Is("writeErrorResponse"), Is("writeErrorBatch"), HasSuffix("ipc.Writer).Write"), HasSuffix("ipc.Writer).Close")))
		n := 0
		for _, cs := range u.Calls(fn, Is("enforceResponseBudgets")) {
			n++
			dom := false
			for _, w := range writes {
				if Dominates(w.Instr, cs.Instr) {
					dom = true
				}
			}
			r.Check(dom, "R-BUDGET-AFTER-BODY", "handleUnary|enforce#"+itoa(n), u.Pos(cs.Instr.Pos()), "the budget is checked after the response was written into the buffer", "enforceResponseBudgets runs before anything was written into the buffer it measures: the cap is vacuous on this path and an oversize body is delivered")
		}
		if n == 0 {
			r.Undec("R-BUDGET-AFTER-BODY", "handleUnary", u.Pos(fn.Pos()), "no budget check")
		}
	}
	r.Floor("R-BUDGET-AFTER-BODY", 2)
	softCapUnconditional(c)
}

// softCapUnconditional (R-SOFT-CAP-UNCONDITIONAL): the producer loop's
// (false, nil) hand-over on `bytes written >= max_response_bytes` is decided
// by that comparison, "a cap is set" and "there is a buffer" alone. Any other
// conjunct of the same short-circuit chain makes some turns run past the cap.
func softCapUnconditional(c *Ctx) {
	u, r := c.U, c.R
	const rule = "R-SOFT-CAP-UNCONDITIONAL"
	fn := u.Func("(*HttpServer).runProduceLoopCapped")
	if fn == nil {
		return // R-PRODUCER-SOFT-CAP reports the missing loop
	}
	n := 0
	for _, b := range fn.Blocks {
		if len(b.Instrs) == 0 {
			continue
		}
		ifi, ok := b.Instrs[len(b.Instrs)-1].(*ssa.If)
		if !ok {
			continue
		}
		cmp := strings.Join(u.guardAtoms(ifi.Cond, true), " ")
		if !strings.Contains(cmp, "maxResponseBytes") || !(strings.Contains(cmp, " >= ") || strings.Contains(cmp, " > ") || strings.Contains(cmp, " <= ") || strings.Contains(cmp, " < ")) || strings.Contains(cmp, "maxResponseBytes > 0)") {
			continue
		}
		// which successor is the (false, nil) exit
		var skip *ssa.BasicBlock
		for i, s := range b.Succs {
			if len(s.Instrs) == 0 {
				continue
			}
			if ret, isR := s.Instrs[len(s.Instrs)-1].(*ssa.Return); isR && len(ret.Results) == 2 && len(s.Preds) == 1 {
				if b0, isB := ret.Results[0].(*ssa.Const); isB && b0.Value != nil && b0.Value.String() == "false" {
					skip = b.Succs[1-i]
				}
			}
		}
		if skip == nil {
			continue
		}
		n++
		var atoms []string
		head := b
		for len(head.Preds) == 1 {
			p := head.Preds[0]
			pi, isIf := p.Instrs[len(p.Instrs)-1].(*ssa.If)
			if !isIf || len(p.Succs) != 2 {
				break
			}
			var other *ssa.BasicBlock
			truth := true
			if p.Succs[0] == head {
				other = p.Succs[1]
			} else {
				other, truth = p.Succs[0], false
			}
			if other != skip {
				break
			}
			atoms = append(atoms, u.guardAtoms(pi.Cond, truth)...)
			head = p
		}
		outer := map[string]bool{}
		if len(head.Instrs) > 0 {
			for _, g := range u.GuardStrings(head.Instrs[len(head.Instrs)-1]) {
				outer[g] = true
			}
		}
		foreign := ""
		for _, a := range atoms {
			if outer[a] || strings.Contains(a, "maxResponseBytes") {
				continue
			}
			if strings.HasSuffix(a, " != nil)") {
				x := strings.TrimSuffix(strings.TrimPrefix(a, "("), " != nil)")
				if strings.Contains(cmp, "Len("+x+")") {
					continue
				}
			}
			foreign = a
		}
		r.Check(foreign == "", rule, "runProduceLoopCapped|soft-cap#"+itoa(n), u.Pos(ifi.Cond.Pos()), "the hand-over depends only on the cap, the buffer and the byte comparison ("+itoa(len(atoms))+" other conjunct(s) examined)", "the max_response_bytes hand-over is additionally conditional on "+foreign+": a turn for which that is false keeps producing past the cap")
	}
	if n == 0 {
		r.Undec(rule, "runProduceLoopCapped", u.Pos(fn.Pos()), "no comparison of the bytes written with max_response_bytes ends the turn")
	}
	r.Floor(rule, 1)
}

func seedfix5C20(c *Ctx) {
	u, r := c.U, c.R
	// R-REQUEST-ID-ONE-SOURCE: X-Request-ID is only ever set from resolveRequestID's result.
	n := 0
	for _, top := range u.SrcFuncs() {
		for _, f := range WithAnon(top) {
			for _, cs := range u.Calls(f, Or(Is("(net/http.Header).Set"), Is("(net/http.Header).Add"))) {
				k, isK := ConstString(cs.Arg(1))
				if !isK || !strings.EqualFold(k, "X-Request-ID") {
					continue
				}
				if strings.Contains(u.Describe(cs.Arg(0)), "(*net/http.Request)") || strings.Contains(u.Describe(cs.Arg(0)), ".Header)") && !strings.Contains(u.Describe(cs.Arg(0)), "ResponseWriter") {
					continue // a request header (client side)
				}
				n++
				okS := false
				for _, o := range u.Origins(cs.Arg(2), &OriginOpts{MaxNodes: 300}) {
					if o.Kind == "call" && strings.Contains(o.Desc, "resolveRequestID") {
						okS = true
					}
				}
				r.Check(okS || strings.Contains(u.Describe(cs.Arg(2)), "resolveRequestID("), "R-REQUEST-ID-ONE-SOURCE", shortName(f), u.Pos(cs.Instr.Pos()), "header value comes from resolveRequestID", shortName(f)+" sets X-Request-ID from "+u.Describe(cs.Arg(2))+", not from resolveRequestID: the response no longer echoes the caller's (trimmed) id or a fresh one")
			}
		}
	}
	if n == 0 {
		r.Undec("R-REQUEST-ID-ONE-SOURCE", "package", "-", "X-Request-ID is never set")
	}
	// R-ID-BOUND-ON-TRIMMED: the length bound applies to the trimmed id.
	if fn := c.Fn("R-ID-BOUND-ON-TRIMMED", "resolveRequestID"); fn != nil {
		n2 := 0
		Instrs(fn, func(in ssa.Instruction) {
			b, ok := in.(*ssa.BinOp)
			if !ok || !strings.HasPrefix(u.Describe(b.X), "len(") {
				return
			}
			if _, isK := ConstInt(b.Y); !isK {
				return
			}
			n2++
			r.Check(strings.Contains(u.Describe(b.X), "strings.TrimSpace("), "R-ID-BOUND-ON-TRIMMED", "resolveRequestID|bound#"+itoa(n2), u.Pos(in.Pos()), "len() of the trimmed value", "resolveRequestID bounds "+u.Describe(b.X)+": a padded id whose trimmed form fits is replaced by a minted one")
		})
		if n2 == 0 {
			r.Undec("R-ID-BOUND-ON-TRIMMED", "resolveRequestID", u.Pos(fn.Pos()), "no length bound found")
		}
	}
	r.Floor("R-REQUEST-ID-ONE-SOURCE", 1)
	r.Floor("R-ID-BOUND-ON-TRIMMED", 1)
}

// ---------------------------------------------------------------- C24 / C25 / C26 / C28

func seedfix5C24(c *Ctx) {
	u, r := c.U, c.R
	// R-STATIC-KEYS-VERBATIM: the static token table is used as configured.
	if fn := c.Fn("R-STATIC-KEYS-VERBATIM", "BearerAuthenticateStatic"); fn != nil {
		tr := stringTransforms(u, fn)
		r.Check(len(tr) == 0, "R-STATIC-KEYS-VERBATIM", "BearerAuthenticateStatic", u.Pos(fn.Pos()), "no string transform on configured or presented tokens", "BearerAuthenticateStatic transforms tokens ("+strings.Join(tr, ", ")+"): a presented token no longer has to match a configured one byte for byte")
	}
	// R-ELEMENT-FRESH: ParseXfcc starts every element from an empty record.
	if fn := c.Fn("R-ELEMENT-FRESH", "ParseXfcc"); fn != nil {
		n := 0
		Instrs(fn, func(in ssa.Instruction) {
			al, ok := in.(*ssa.Alloc)
			if !ok || !strings.HasSuffix(typeShort(derefType(al.Type())), "XfccElement") {
				return
			}
			n++
			_, inLoop := ReachWithout(fn, in, isInstr(in), nil)
			r.Check(inLoop, "R-ELEMENT-FRESH", "ParseXfcc|element#"+itoa(n), u.Pos(in.Pos()), "the element record is created inside the per-element loop", "ParseXfcc keeps one element record across the elements of the header: fields of an earlier hop leak into a later hop that omits them (a last hop without Subject inherits the first hop's identity)")
		})
		if n == 0 {
			r.Undec("R-ELEMENT-FRESH", "ParseXfcc", u.Pos(fn.Pos()), "no element record found")
		}
	}
	r.Floor("R-STATIC-KEYS-VERBATIM", 1)
	r.Floor("R-ELEMENT-FRESH", 1)
}

func seedfix5C25(c *Ctx) {
	u, r := c.U, c.R
	nonceNeverBulkForgotten(c)
	// R-AGE-IN-SECONDS: the proof's age is judged in whole seconds; the parsed timestamp is never
	// scaled (seconds × 1e9 wraps for far-future values).
	if fn := c.Fn("R-AGE-IN-SECONDS", "VerifyProof"); fn != nil {
		bad := ""
		for _, f := range WithAnon(fn) {
			Instrs(f, func(in ssa.Instruction) {
				b, ok := in.(*ssa.BinOp)
				if !ok || b.Op != token.MUL {
					return
				}
				d := u.Describe(b)
				if strings.Contains(d, "ParseInt(") || strings.Contains(d, "time.Duration") && strings.Contains(d, "Unix(") {
					bad = d
				}
				if bt, isN := b.Type().(*types.Named); isN && bt.Obj().Name() == "Duration" {
					if _, isK := b.Y.(*ssa.Const); isK {
						if _, isConv := b.X.(*ssa.Convert); isConv {
							bad = d
						}
					}
				}
			})
		}
		r.Check(bad == "", "R-AGE-IN-SECONDS", "VerifyProof", u.Pos(fn.Pos()), "no scaled timestamp arithmetic", "VerifyProof scales a timestamp difference ("+bad+"): the product wraps in int64, so a proof dated far in the future has an age near zero and verifies")
	}
	r.Floor("R-AGE-IN-SECONDS", 1)
}

func seedfix5C26(c *Ctx) {
	u, r := c.U, c.R
	// R-LIMITER-KEY-IS-CALLER: the rate limiter is keyed by the authenticated principal alone.
	if fn := c.Fn("R-LIMITER-KEY-IS-CALLER", "(*HttpServer).handleIntrospectToken"); fn != nil {
		n := 0
		for _, cs := range u.Calls(fn, Is("(*introspectRateLimiter).allow")) {
			n++
			a := cs.Arg(1)
			_, isBin := a.(*ssa.BinOp)
			_, isCall := a.(*ssa.Call)
			bad := isBin || (isCall && !strings.Contains(u.Describe(a), "principalKeyFromAuth") && !strings.Contains(u.Describe(a), "authPrincipal"))
			r.Check(!bad, "R-LIMITER-KEY-IS-CALLER", "handleIntrospectToken|allow#"+itoa(n), u.Pos(cs.Instr.Pos()), "limited per principal", "the limiter is keyed by "+u.Describe(a)+": a principal gets a fresh budget per connection (or shares one with others)")
		}
		if n == 0 {
			r.Undec("R-LIMITER-KEY-IS-CALLER", "handleIntrospectToken", u.Pos(fn.Pos()), "no limiter call")
		}
		tr := stringTransforms(u, fn)
		if ef := u.Func("(*HttpServer).EnableTokenIntrospection"); ef != nil {
			tr = append(tr, stringTransforms(u, ef)...)
		}
		r.Check(len(tr) == 0, "R-ALLOWLIST-EXACT", "introspection", u.Pos(fn.Pos()), "principals are compared as configured", "principals are transformed ("+strings.Join(tr, ", ")+") before the allowlist lookup: a principal differing only in case (or spacing) from an allowlisted one is admitted")
	}
	r.Floor("R-LIMITER-KEY-IS-CALLER", 1)
	r.Floor("R-ALLOWLIST-EXACT", 1)
}

func seedfix5C28(c *Ctx) {
	u, r := c.U, c.R
	// R-VALUE-FROM-HEADER: parseQuotedParam cuts the value out of the header it was given.
	if fn := c.Fn("R-VALUE-FROM-HEADER", "parseQuotedParam"); fn != nil {
		tr := stringTransforms(u, fn)
		r.Check(len(tr) == 0, "R-VALUE-FROM-HEADER", "parseQuotedParam", u.Pos(fn.Pos()), "no transformed copy of the header", "parseQuotedParam works on a transformed copy of the header ("+strings.Join(tr, ", ")+"): values come back altered (lower-cased)")
	}
	// R-CHALLENGE-SINGLE-WRITER: the 401 challenge is built in one place.
	ws := fieldWriters(u, "wwwAuthenticate")
	okW := len(ws) >= 1
	for _, w := range ws {
		if w != "(*HttpServer).SetOAuthResourceMetadata" {
			okW = false
		}
	}
	r.Check(okW, "R-CHALLENGE-SINGLE-WRITER", "wwwAuthenticate", "-", "written only by SetOAuthResourceMetadata", "wwwAuthenticate is written by "+strings.Join(ws, ", ")+": another configuration call rebuilds the challenge from less than the metadata (device-code credentials disappear)")
	// R-URL-AS-GIVEN: the advertised metadata URL is the parsed URL's own String().
	if fn := c.Fn("R-URL-ESCAPED", "resourceMetadataURLFromResource"); fn != nil {
		n := 0
		Instrs(fn, func(in ssa.Instruction) {
			ret, ok := in.(*ssa.Return)
			if !ok || len(ret.Results) != 2 || !isNilConst(ReturnValue(ret, 1)) {
				return
			}
			n++
			d := u.Describe(ReturnValue(ret, 0))
			r.Check(strings.Contains(d, "url.URL).String(") && !strings.Contains(d, ".Path"), "R-URL-ESCAPED", "resourceMetadataURLFromResource", u.Pos(in.Pos()), "result rendered by URL.String() (escaped)", "resourceMetadataURLFromResource returns "+d+": a decoded path can carry a '\"', which ends the quoted parameter early")
		})
		if n == 0 {
			r.Undec("R-URL-ESCAPED", "resourceMetadataURLFromResource", u.Pos(fn.Pos()), "no success return")
		}
	}
	r.Floor("R-VALUE-FROM-HEADER", 1)
	r.Floor("R-CHALLENGE-SINGLE-WRITER", 1)
	r.Floor("R-URL-ESCAPED", 1)
}

// ---------------------------------------------------------------- C30 / C31

// argsMatchParams: where an argument of a call to a root-package function is rendered with the
// name of one of that function's parameters, it sits in that parameter's position.
func argsMatchParams(c *Ctx, rule string, callerName string, callees ...string) {
	u, r := c.U, c.R
	fn := c.Fn(rule, callerName)
	if fn == nil {
		return
	}
	n := 0
	for _, f := range WithAnon(fn) {
		for _, cs := range u.Calls(f, Is(callees...)) {
			sc := cs.Common().StaticCallee()
			if sc == nil {
				continue
			}
			for i, a := range cs.Common().Args {
				if i >= len(sc.Params) {
					break
				}
				d := strings.ToLower(u.Describe(a))
				for j, p := range sc.Params {
					pn := strings.ToLower(p.Name())
					if j == i || len(pn) < 6 {
						continue
					}
					if strings.Contains(d, pn+"(") || strings.HasSuffix(d, "."+pn) || d == pn {
						own := strings.ToLower(sc.Params[i].Name())
						if strings.Contains(d, own) {
							continue
						}
						n++
						r.Viol(rule, shortName(fn)+"→"+shortName(sc)+"|arg"+itoa(i), u.Pos(cs.Instr.Pos()), shortName(fn)+" passes "+u.Describe(a)+" as "+shortName(sc)+"'s "+sc.Params[i].Name()+" (it is named after the "+p.Name()+" parameter): the two limits are transposed")
					}
				}
			}
		}
	}
	r.Check(true, rule, shortName(fn)+"|positions", u.Pos(fn.Pos()), "limit arguments sit in the positions of the parameters they are named after ("+itoa(n)+" mismatches)", "")
}

func seedfix5C30(c *Ctx) {
	u, r := c.U, c.R
	argsMatchParams(c, "R-LIMITS-IN-PLACE", "ResolveExternalLocation", "fetchExternalData")
	argsMatchParams(c, "R-LIMITS-IN-PLACE", "fetchExternalData", "decompressZstdCapped")
	// R-THRESHOLD-AGREES: the predictor and the externalizer pass a batch inline under the same comparison.
	cmpOf := func(name string) string {
		fn := u.Func(name)
		if fn == nil {
			return "?"
		}
		out := ""
		Instrs(fn, func(in ssa.Instruction) {
			if b, ok := in.(*ssa.BinOp); ok && strings.Contains(u.Describe(b.Y), "threshold(") {
				out = b.Op.String()
			}
		})
		return out
	}
	a, b := cmpOf("externalizeBatchCtx"), cmpOf("predictExternalizeBytes")
	r.Check(a != "" && a == b, "R-THRESHOLD-AGREES", "externalize|predict", "-", "both compare size "+a+" threshold", "externalizeBatchCtx compares size "+a+" threshold but predictExternalizeBytes compares size "+b+" threshold: a batch exactly at the threshold is predicted as uploaded and then sent inline")
	// R-SCAN-OWN-METADATA: the resolve loop judges each fetched record by that record's own metadata.
	if fn := c.Fn("R-SCAN-OWN-METADATA", "ResolveExternalLocation"); fn != nil {
		n := 0
		for _, cs := range u.Calls(fn, Is("batchMetadata")) {
			if _, inLoop := ReachWithout(fn, cs.Instr, isInstr(cs.Instr), nil); !inLoop {
				continue
			}
			n++
			r.Check(cs.Arg(0) != ssa.Value(fn.Params[0]), "R-SCAN-OWN-METADATA", "ResolveExternalLocation|loop-meta#"+itoa(n), u.Pos(cs.Instr.Pos()), "metadata of the fetched record", "inside the scan of the fetched stream the metadata inspected is the pointer batch's: log batches and nested pointers in the fetched stream are never recognised")
		}
		if n == 0 {
			r.Undec("R-SCAN-OWN-METADATA", "ResolveExternalLocation", u.Pos(fn.Pos()), "no metadata read in the scan loop")
		}
	}
	r.Floor("R-THRESHOLD-AGREES", 1)
	r.Floor("R-SCAN-OWN-METADATA", 1)
	decodedCapProvenance(c)
}

// decodedCapProvenance (R-DECODED-CAP-PROVENANCE): the bound handed to the
// capped zstd decoder of a fetched payload comes, through parameters and the
// config accessor, from ExternalLocationConfig.MaxDecompressedBytes and from
// no other limit of that config.
func decodedCapProvenance(c *Ctx) {
	u, r := c.U, c.R
	const rule = "R-DECODED-CAP-PROVENANCE"
	fn := c.Fn(rule, "fetchExternalData")
	if fn == nil {
		return
	}
	n := 0
	for _, f := range WithAnon(fn) {
		for _, cs := range u.Calls(f, Is("decompressZstdCapped")) {
			if len(cs.Common().Args) < 2 {
				continue
			}
			n++
			os := u.Origins(cs.Arg(1), &OriginOpts{Into: true})
			sum := OriginSummary(os)
			right, wrong := false, ""
			for _, o := range os {
				switch {
				case strings.Contains(o.Desc, "MaxDecompressedBytes"):
					right = true
				case strings.Contains(o.Desc, "ExternalLocationConfig.Max") || strings.Contains(o.Desc, "ExternalLocationConfig.Externalize"):
					wrong = o.Desc
				}
			}
			key := "fetchExternalData|decode-cap#" + itoa(n)
			if os == nil || (!right && wrong == "") {
				r.Undec(rule, key, u.Pos(cs.Instr.Pos()), "cannot trace the decoder bound to a config field: "+sum)
				continue
			}
			r.Check(right && wrong == "", rule, key, u.Pos(cs.Instr.Pos()), "decoder bound comes from MaxDecompressedBytes", "the bound of the capped decoder traces to "+wrong+" ("+sum+"): the decoded payload is limited by the wrong one of the configured limits")
		}
	}
	r.Floor(rule, 1)
}

func seedfix5C31(c *Ctx) {
	u, r := c.U, c.R
	argsMatchParams(c, "R-LIMITS-IN-PLACE", "ResolveExternalLocation", "fetchExternalData")
	argsMatchParams(c, "R-LIMITS-IN-PLACE", "fetchExternalData", "decompressZstdCapped")
	// R-VALIDATE-REAL-URL: the redirect hook validates the URL that will actually be requested.
	if fn := c.Fn("R-VALIDATE-REAL-URL", "fetchExternalData"); fn != nil {
		n := 0
		for _, f := range WithAnon(fn) {
			if f == fn {
				continue
			}
			for _, cs := range u.Calls(f, func(s string) bool { return strings.HasPrefix(s, "dyn:validator") }) {
				n++
				d := u.Describe(cs.Arg(0))
				r.Check(!strings.Contains(d, "redactExternalURL(") && strings.Contains(d, ".URL"), "R-VALIDATE-REAL-URL", "CheckRedirect|validator-arg#"+itoa(n), u.Pos(cs.Instr.Pos()), "validator receives req.URL", "the redirect hook hands the validator "+d+" instead of the URL it is about to request: a validator that decides on user-info or query never sees them")
			}
		}
		if n == 0 {
			r.Undec("R-VALIDATE-REAL-URL", "fetchExternalData", u.Pos(fn.Pos()), "no validator call in the redirect hook")
		}
	}
	r.Floor("R-VALIDATE-REAL-URL", 1)
}

// ---------------------------------------------------------------- C35 / C36

func seedfix5C35(c *Ctx) {
	u, r := c.U, c.R
	// R-POINTER-BY-OFFSET-KEY: a zero-row batch is a pointer as soon as it carries shm_offset
	// (a missing or bad length is then an error, not "not a pointer").
	if fn := c.Fn("R-POINTER-BY-OFFSET-KEY", "IsShmPointerBatch"); fn != nil {
		keys := getValueKeys(u, fn)
		for _, cs := range u.Calls(fn, HasSuffix("arrow.Metadata).FindKey")) {
			if s, ok := ConstString(cs.Arg(1)); ok {
				keys[s] = true
			}
		}
		r.Check(keys["vgi_rpc.shm_offset"] && !keys["vgi_rpc.shm_length"], "R-POINTER-BY-OFFSET-KEY", "IsShmPointerBatch", u.Pos(fn.Pos()), "decided by shm_offset alone", "IsShmPointerBatch also requires "+setStr(keys)+": a pointer with no length key is passed on as an ordinary batch instead of refused")
	}
	seedfix4C34(c)
	r.Floor("R-POINTER-BY-OFFSET-KEY", 1)
}

func seedfix5C36(c *Ctx) {
	u, r := c.U, c.R
	pointerKeysStrippedByName(c)
	// R-READ-BOUND-IS-SEGMENT: ReadBatch bounds a region by the segment size itself.
	if fn := c.Fn("R-READ-BOUND-IS-SEGMENT", "(*ShmSegment).ReadBatch"); fn != nil {
		n := 0
		Instrs(fn, func(in ssa.Instruction) {
			b, ok := in.(*ssa.BinOp)
			if !ok || (b.Op != token.GTR && b.Op != token.GEQ && b.Op != token.LSS && b.Op != token.LEQ) {
				return
			}
			d := u.Describe(b.Y)
			if !strings.Contains(d, "s.size") {
				return
			}
			n++
			r.Check(!strings.Contains(d, "65536") && !strings.Contains(d, " - "), "R-READ-BOUND-IS-SEGMENT", "ReadBatch|bound#"+itoa(n), u.Pos(in.Pos()), "end compared with s.size", "ReadBatch bounds the region by "+d+": valid slots in the last part of the segment are refused (the session's results differ from a plain session and the slot leaks)")
		})
		if n == 0 {
			r.Undec("R-READ-BOUND-IS-SEGMENT", "ReadBatch", u.Pos(fn.Pos()), "no bound on s.size")
		}
	}
	// R-SEGMENT-IDENTITY: a cached attachment is reused only for the same name and size.
	if fn := c.Fn("R-SEGMENT-IDENTITY", "(*shmConnState).ensure"); fn != nil {
		name, size := false, false
		Instrs(fn, func(in ssa.Instruction) {
			if b, ok := in.(*ssa.BinOp); ok && (b.Op == token.EQL || b.Op == token.NEQ) {
				d := u.Describe(b)
				if strings.Contains(d, ".name") {
					name = true
				}
				if strings.Contains(d, ".size") {
					size = true
				}
			}
		})
		r.Check(name && size, "R-SEGMENT-IDENTITY", "shmConnState.ensure", u.Pos(fn.Pos()), "reuse decided by name and size", "shmConnState.ensure reuses the cached segment without comparing both its name and its size: a client that replaces its segment under the same name is served through the stale mapping")
	}
	r.Floor("R-READ-BOUND-IS-SEGMENT", 1)
	r.Floor("R-SEGMENT-IDENTITY", 1)
}

// ---------------------------------------------------------------- C38 / C40

func seedfix5C38(c *Ctx) {
	u, r := c.U, c.R
	// R-LINE-ATOMIC: writeRecord calls the sink's Write while holding the hook's mutex.
	if fn := c.Fn("R-LINE-ATOMIC", "(*AccessLogHook).writeRecord"); fn != nil {
		held := u.LockHeldAt(fn)
		n := 0
		for _, cs := range u.Calls(fn, nil) {
			if !cs.Common().IsInvoke() || cs.Common().Method.Name() != "Write" {
				continue
			}
			n++
			r.Check(len(held[cs.Instr]) > 0, "R-LINE-ATOMIC", "writeRecord|Write#"+itoa(n), u.Pos(cs.Instr.Pos()), "the sink is written under the hook's lock", "writeRecord writes to the sink without holding the hook's lock: two records finishing together interleave, and a line is no longer one JSON object")
		}
		if n == 0 {
			r.Undec("R-LINE-ATOMIC", "writeRecord", u.Pos(fn.Pos()), "no sink write")
		}
	}
	// R-PAYLOAD-CAPTURED-EVERYWHERE: each dispatcher that captures the request payload does so unconditionally.
	n := 0
	for _, top := range u.SrcFuncs() {
		for _, cs := range u.Calls(top, Is("SerializeRequestBatch")) {
			n++
			bad := ""
			for _, g := range u.GuardStrings(cs.Instr) {
				if strings.Contains(g, "NumCols(") || strings.Contains(g, "NumRows(") {
					bad = g
				}
			}
			r.Check(bad == "", "R-PAYLOAD-CAPTURED-EVERYWHERE", shortName(top), u.Pos(cs.Instr.Pos()), "captured whatever the batch's shape", shortName(top)+" captures the request payload only under "+bad+": a parameterless call's record carries neither the payload nor the omitted-marker")
		}
	}
	if n == 0 {
		r.Undec("R-PAYLOAD-CAPTURED-EVERYWHERE", "package", "-", "no payload capture")
	}
	// R-BYTES-AS-WRITTEN: the egress tally counts what the underlying writer reported.
	if fn := c.Fn("R-BYTES-AS-WRITTEN", "(*countingResponseWriter).Write"); fn != nil {
		n2 := 0
		Instrs(fn, func(in ssa.Instruction) {
			b, ok := in.(*ssa.BinOp)
			if !ok || b.Op != token.ADD {
				return
			}
			for _, o := range []ssa.Value{b.X, b.Y} {
				d := u.Describe(o)
				if strings.HasPrefix(d, "conv:int64(len(") || strings.HasPrefix(d, "len(") {
					n2++
					r.Viol("R-BYTES-AS-WRITTEN", "countingResponseWriter.Write", u.Pos(in.Pos()), "the tally adds "+d+" (what was offered) rather than the count the writer returned: response_bytes overstates a response cut short")
				}
			}
		})
		if n2 == 0 {
			r.Ok("R-BYTES-AS-WRITTEN", "countingResponseWriter.Write", u.Pos(fn.Pos()), "tally does not add the offered length")
		}
	}
	r.Floor("R-LINE-ATOMIC", 1)
	r.Floor("R-PAYLOAD-CAPTURED-EVERYWHERE", 2)
	r.Floor("R-BYTES-AS-WRITTEN", 1)
}

func seedfix5C16(c *Ctx) {
	u, r := c.U, c.R
	uploadedBatchVerbatim(c)
	// R-CANCEL-BY-KEY-ALONE: a continuation is a cancel exactly when it carries the cancel key
	// (the pipe loop goes by the key alone; the batch's contents play no part).
	if fn := c.Fn("R-CANCEL-BY-KEY-ALONE", "(*HttpServer).handleStreamExchange"); fn != nil {
		n := 0
		Instrs(fn, func(in ssa.Instruction) {
			var v ssa.Value
			switch x := in.(type) {
			case *ssa.Phi:
				if u.VarName(x) == "cancelled" {
					v = x
				}
			case *ssa.Store:
				if al, ok := x.Addr.(*ssa.Alloc); ok && u.VarName(al) == "cancelled" {
					v = x.Val
				}
			}
			if v == nil {
				return
			}
			n++
			d := u.describe(v, 12)
			bad := strings.Contains(d, "NumRows(") || strings.Contains(d, "NumCols(")
			if phi, ok := v.(*ssa.Phi); ok {
				for i := range phi.Edges {
					p := phi.Block().Preds[i]
					for _, g := range u.GuardStrings(p.Instrs[len(p.Instrs)-1]) {
						if strings.Contains(g, "NumRows(") {
							bad = true
						}
					}
				}
			}
			r.Check(!bad, "R-CANCEL-BY-KEY-ALONE", "handleStreamExchange|cancelled#"+itoa(n), u.Pos(in.Pos()), "cancel decided by the key alone", "handleStreamExchange decides `cancelled` with the batch's row count: a cancel key on a batch that has rows is dispatched as an ordinary turn (OnCancel never runs), unlike the pipe transport")
		})
		if n == 0 {
			r.Ok("R-CANCEL-BY-KEY-ALONE", "handleStreamExchange|shape", u.Pos(fn.Pos()), "`cancelled` is a plain value (judged by the cancel rules of the main check)")
		}
	}
}

func seedfix5C23(c *Ctx) {
	u, r := c.U, c.R
	// R-RETRY-AFTER-DEFAULTED: the Retry-After value is defaulted where it is read, so every way
	// of constructing the error (the constructor or a literal) gets a positive value.
	if fn := c.Fn("R-RETRY-AFTER-DEFAULTED", "(*AuthUnavailableError).retryAfterSeconds"); fn != nil {
		test := false
		Instrs(fn, func(in ssa.Instruction) {
			if b, ok := in.(*ssa.BinOp); ok && (b.Op == token.LEQ || b.Op == token.LSS || b.Op == token.GTR || b.Op == token.GEQ) {
				if k, isK := ConstInt(b.Y); isK && k <= 1 && strings.Contains(u.Describe(b.X), "RetryAfter") {
					test = true
				}
			}
		})
		r.Check(test, "R-RETRY-AFTER-DEFAULTED", "retryAfterSeconds", u.Pos(fn.Pos()), "a non-positive RetryAfter is replaced by the default at the point of use", "retryAfterSeconds returns the raw field: an AuthUnavailableError built as a literal (zero RetryAfter, documented as 'package default') answers 503 with Retry-After: 0")
	}
	r.Floor("R-RETRY-AFTER-DEFAULTED", 1)
}

func seedfix5C39(c *Ctx) {
	u, r := c.U, c.R
	// R-SAMPLE-AT-EMIT-ONLY: the sampling decision is taken once, in emit, on the complete record
	// (with its stream id) and before the record is queued.
	if fn := u.Func("(*accessLogSampler).keep"); fn != nil {
		var callers []string
		for _, cs := range u.Callers(fn) {
			callers = append(callers, shortName(cs.Fn))
		}
		sort.Strings(callers)
		r.Check(len(callers) == 1 && callers[0] == "(*AccessLogHook).emit", "R-SAMPLE-AT-EMIT-ONLY", "keep-callers", u.Pos(fn.Pos()), "keep is consulted only by emit", "the sampler is consulted from "+strings.Join(callers, ", ")+": a decision taken before the stream id is on the record splits a stream's records, and one taken in the writer goroutine can drop the record that carries dropped_records")
	} else {
		r.Undec("R-SAMPLE-AT-EMIT-ONLY", "keep", "-", "sampler not found")
	}
	r.Floor("R-SAMPLE-AT-EMIT-ONLY", 1)
}

func seedfix5C42(c *Ctx) {
	u, r := c.U, c.R
	// R-SERVE-UNLOCKED: a connection's serve loop calls serveOne holding no lock.
	n := 0
	for _, name := range []string{"(*Server).serveTcpConn", "(*Server).serveUnixConn"} {
		fn := u.Func(name)
		if fn == nil {
			continue
		}
		held := u.LockHeldAt(fn)
		for _, cs := range u.Calls(fn, Is("(*Server).serveOne")) {
			n++
			var hs []string
			for l := range held[cs.Instr] {
				hs = append(hs, l)
			}
			r.Check(len(hs) == 0, "R-SERVE-UNLOCKED", strings.TrimPrefix(name, "(*Server)."), u.Pos(cs.Instr.Pos()), "serveOne called with no lock held", name+" calls serveOne (which begins with a blocking read) holding "+strings.Join(hs, ", ")+": an idle connection blocks every other connection")
		}
	}
	if n == 0 {
		r.Undec("R-SERVE-UNLOCKED", "serve loops", "-", "no serveOne call in the connection loops")
	}
	// R-REMOVE-BOUND-PATH: the socket file removed on return is the path that was bound.
	if fn := c.Fn("R-REMOVE-BOUND-PATH", "(*Server).RunUnix"); fn != nil {
		n2 := 0
		for _, f := range WithAnon(fn) {
			for _, cs := range u.Calls(f, Is("os.Remove")) {
				if _, isDefer := cs.Instr.(*ssa.Defer); !isDefer && f == fn {
					continue // the stale-file removal before Listen
				}
				n2++
				d := u.Describe(cs.Arg(0))
				r.Check(d == u.VarName(fn.Params[1]), "R-REMOVE-BOUND-PATH", "RunUnix|remove#"+itoa(n2), u.Pos(cs.Instr.Pos()), "removes the path argument", "RunUnix removes "+d+" on return, not the socket path it serves on: the socket file is left behind")
			}
		}
		if n2 == 0 {
			r.Undec("R-REMOVE-BOUND-PATH", "RunUnix", u.Pos(fn.Pos()), "no deferred removal")
		}
	}
	r.Floor("R-SERVE-UNLOCKED", 2)
	r.Floor("R-REMOVE-BOUND-PATH", 1)
}

func seedfix5C43(c *Ctx) {
	u, r := c.Unit["otel"], c.R
	if u == nil {
		return
	}
	guardTestsWhatIsUsed(c, u)
	end := u.Func("(*otelHook).OnDispatchEnd")
	if end == nil {
		return
	}
	// R-END-IF-RECORDING: the span is finished under IsRecording() (a recording span that is not
	// sampled must still be ended), and the error status does not depend on RecordExceptions.
	n := 0
	for _, cs := range u.Calls(end, nil) {
		if !cs.Common().IsInvoke() {
			continue
		}
		switch cs.Common().Method.Name() {
		case "End":
			n++
			gs := strings.Join(u.GuardStrings(cs.Instr), " && ")
			r.Check(strings.Contains(gs, "IsRecording(") && !strings.Contains(gs, "IsSampled("), "R-END-IF-RECORDING", "End#"+itoa(n), u.Pos(cs.Instr.Pos()), "End under IsRecording()", "span.End() runs under ["+gs+"]: a span that records but is not sampled is never ended")
		case "SetStatus":
			gs := strings.Join(u.GuardStrings(cs.Instr), " && ")
			if strings.Contains(gs, "!= nil") {
				r.Check(!strings.Contains(gs, "RecordExceptions"), "R-END-IF-RECORDING", "SetStatus-error", u.Pos(cs.Instr.Pos()), "error status set whatever RecordExceptions says", "the error status is set only under RecordExceptions: with it off a failed call's span ends with status Unset")
			}
		}
	}
	if n == 0 {
		r.Undec("R-END-IF-RECORDING", "OnDispatchEnd", u.Pos(end.Pos()), "no End call")
	}
	r.Floor("R-END-IF-RECORDING", 1)
}

func seedfix5C40(c *Ctx) {
	u, r := c.U, c.R
	// the per-session lock is what keeps two requests of one session off the same state
	releaseDeferredOnly(c)
	// R-REDACT-COPIES: the default claim policy never writes into the map it was given
	// (authenticators hand the same claims map to every request of a principal).
	if fn := c.Fn("R-REDACT-COPIES", "RedactClaims"); fn != nil {
		bad := false
		Instrs(fn, func(in ssa.Instruction) {
			if mu, ok := in.(*ssa.MapUpdate); ok && mu.Map == ssa.Value(fn.Params[0]) {
				bad = true
			}
		})
		r.Check(!bad, "R-REDACT-COPIES", "RedactClaims", u.Pos(fn.Pos()), "input map is only read", "RedactClaims writes into the claims map it was given: that map is shared by every request of the principal, so concurrent dispatch-end hooks race on it (and handlers see redacted claims)")
	}
	// R-CLIENT-COPIED: the fetcher installs its redirect policy on its own copy of the client.
	if fn := c.Fn("R-CLIENT-COPIED", "fetchExternalData"); fn != nil {
		n := 0
		for _, st := range u.StoresToField(fn, "Client", "CheckRedirect") {
			n++
			fa := st.Addr.(*ssa.FieldAddr)
			_, isAlloc := fa.X.(*ssa.Alloc)
			r.Check(isAlloc, "R-CLIENT-COPIED", "fetchExternalData|CheckRedirect#"+itoa(n), u.Pos(st.Pos()), "policy set on a local copy", "fetchExternalData writes CheckRedirect on "+u.Describe(fa.X)+", the caller's shared client: concurrent fetches race on it and every fetch stacks another policy")
		}
		if n == 0 {
			r.Undec("R-CLIENT-COPIED", "fetchExternalData", u.Pos(fn.Pos()), "no redirect policy installed")
		}
	}
	r.Floor("R-REDACT-COPIES", 1)
	r.Floor("R-CLIENT-COPIED", 1)
}
