package main

import (
	"fmt"
	"go/ast"
	"go/parser"
	"go/token"
	"sort"
	"strings"
)

// flattenIIFEs rewrites immediately-invoked function literals without
// parameters — the form the inliner falls back to when a helper's body is not a
// single expression — into plain statements of the enclosing function:
//
//	x, err := func() (T, error) { S; if c { return a, b }; return d, e }()
//
// becomes
//
//	var x T; var err error
//	L: for { S; if c { x, err = a, b; break L }; x, err = d, e; break L }
//
// (the loop body runs once; `break L` stands for `return`). The same is done
// for `x = func(){…}()`, for the init statement of an if, and for
// `return func() T {…}()` (the body simply replaces the return). Literals that
// use defer, recover, named results, or declare a name that is also assigned
// from outside are left alone. The result is re-type-checked by the caller;
// when that fails the caller falls back to the literal form.
func flattenIIFEs(filename string, src []byte) ([]byte, int) {
	total := 0
	for pass := 0; pass < 20; pass++ {
		out, n := flattenOnce(filename, src, pass)
		if n == 0 {
			break
		}
		src = out
		total += n
	}
	return src, total
}

var flattenSeq int

type textEdit struct {
	s, e int
	t    string
}

func applyTextEdits(src []byte, eds []textEdit) []byte {
	sort.Slice(eds, func(i, j int) bool { return eds[i].s > eds[j].s })
	out := append([]byte{}, src...)
	for _, e := range eds {
		out = append(append(append([]byte{}, out[:e.s]...), e.t...), out[e.e:]...)
	}
	return out
}

// iife returns the literal when e is `func() R { … }()` with no parameters and no arguments.
func iifeOf(e ast.Expr) *ast.FuncLit {
	ce, ok := e.(*ast.CallExpr)
	if !ok || len(ce.Args) != 0 || ce.Ellipsis.IsValid() {
		return nil
	}
	fl, ok := ce.Fun.(*ast.FuncLit)
	if !ok {
		if pe, isP := ce.Fun.(*ast.ParenExpr); isP {
			fl, ok = pe.X.(*ast.FuncLit)
		}
		if !ok {
			return nil
		}
	}
	if fl.Type.Params != nil && len(fl.Type.Params.List) > 0 {
		return nil
	}
	if flattenSkipBodies != nil && flattenSrc != nil {
		if flattenSkipBodies[litKey(fl, flattenSrc, flattenFset)] {
			return nil // a literal the tree itself contains, not one the inliner introduced
		}
	}
	return fl
}

// iifeWithParams accepts `func(p T, q U) R { … }(a, b)`: the arguments are evaluated into
// fresh temporaries and bound to the parameter names at the top of the flattened body.
func iifeWithParams(e ast.Expr, src []byte, off func(token.Pos) int, label string) (fl *ast.FuncLit, bind string, names []string) {
	ce, ok := e.(*ast.CallExpr)
	if !ok || ce.Ellipsis.IsValid() {
		return nil, "", nil
	}
	fl, ok = ce.Fun.(*ast.FuncLit)
	if !ok || fl.Type.Params == nil || len(fl.Type.Params.List) == 0 {
		return nil, "", nil
	}
	if flattenSkipBodies != nil && flattenSrc != nil && flattenSkipBodies[litKey(fl, flattenSrc, flattenFset)] {
		return nil, "", nil
	}
	type pv struct{ name, typ string }
	var ps []pv
	for _, f := range fl.Type.Params.List {
		if _, variadic := f.Type.(*ast.Ellipsis); variadic || len(f.Names) == 0 {
			return nil, "", nil
		}
		t := string(src[off(f.Type.Pos()):off(f.Type.End())])
		for _, n := range f.Names {
			ps = append(ps, pv{n.Name, t})
		}
	}
	if len(ps) != len(ce.Args) {
		return nil, "", nil
	}
	var b strings.Builder
	for i, a := range ce.Args {
		fmt.Fprintf(&b, "var %sa%d %s = %s\n", label, i, ps[i].typ, string(src[off(a.Pos()):off(a.End())]))
	}
	for i, p := range ps {
		if p.name == "_" {
			fmt.Fprintf(&b, "_ = %sa%d\n", label, i)
			continue
		}
		fmt.Fprintf(&b, "var %s %s = %sa%d\n_ = %s\n", p.name, p.typ, label, i, p.name)
		names = append(names, p.name)
	}
	return fl, b.String(), names
}

// Context of the current flattening (set by flattenIIFEs' caller).
var (
	flattenReuse      map[string]bool // names a `:=` at the inlined call re-uses rather than declares
	flattenSkipBodies map[string]bool // immediately-invoked literals that existed before inlining
	flattenSrc        []byte
	flattenFset       *token.FileSet
)

func litKey(fl *ast.FuncLit, src []byte, fset *token.FileSet) string {
	s, e := fset.Position(fl.Pos()).Offset, fset.Position(fl.End()).Offset
	if s < 0 || e > len(src) || s > e {
		return ""
	}
	return strings.Join(strings.Fields(string(src[s:e])), " ")
}

// existingIIFEs lists the immediately-invoked parameterless literals of a file.
func existingIIFEs(filename string, src []byte) map[string]bool {
	out := map[string]bool{}
	fset := token.NewFileSet()
	f, err := parser.ParseFile(fset, filename, src, parser.SkipObjectResolution)
	if err != nil {
		return out
	}
	ast.Inspect(f, func(n ast.Node) bool {
		if ce, ok := n.(*ast.CallExpr); ok && len(ce.Args) == 0 {
			if fl, ok := ce.Fun.(*ast.FuncLit); ok {
				out[litKey(fl, src, fset)] = true
			}
		}
		return true
	})
	return out
}

// literalOK: no defer/recover/goto/labels, unnamed results; returns the result type texts.
// literalNamed is literalOK that also accepts named results (no defer can observe them, so
// they are ordinary locals declared at the top of the body; a bare return returns them).
func literalNamed(fl *ast.FuncLit, src []byte, off func(token.Pos) int) (types, names []string, ok bool) {
	if fl.Type.Results == nil {
		_, ok := literalOK(fl, src, off)
		return nil, nil, ok
	}
	named := false
	for _, f := range fl.Type.Results.List {
		t := string(src[off(f.Type.Pos()):off(f.Type.End())])
		if len(f.Names) == 0 {
			types = append(types, t)
			names = append(names, "")
			continue
		}
		named = true
		for _, n := range f.Names {
			types = append(types, t)
			names = append(names, n.Name)
		}
	}
	if !named {
		ts, ok := literalOK(fl, src, off)
		return ts, nil, ok
	}
	// same body restrictions as literalOK
	probe := *fl
	pt := *fl.Type
	pt.Results = nil
	probe.Type = &pt
	if _, ok := literalOK(&probe, src, off); !ok {
		return nil, nil, false
	}
	for _, n := range names {
		if n == "" || n == "_" {
			return nil, nil, false
		}
	}
	return types, names, true
}

func literalOK(fl *ast.FuncLit, src []byte, off func(token.Pos) int) ([]string, bool) {
	var types []string
	if fl.Type.Results != nil {
		for _, f := range fl.Type.Results.List {
			if len(f.Names) > 0 {
				return nil, false
			}
			types = append(types, string(src[off(f.Type.Pos()):off(f.Type.End())]))
		}
	}
	ok := true
	ast.Inspect(fl.Body, func(n ast.Node) bool {
		switch x := n.(type) {
		case *ast.FuncLit:
			return false
		case *ast.DeferStmt:
			ok = false
		case *ast.LabeledStmt:
			if !strings.HasPrefix(x.Label.Name, "verifInl") { // our own run-once loops are self-contained
				ok = false
			}
		case *ast.BranchStmt:
			if x.Tok == token.GOTO {
				ok = false
			}
		case *ast.CallExpr:
			if id, isId := x.Fun.(*ast.Ident); isId && id.Name == "recover" {
				ok = false
			}
		}
		return true
	})
	return types, ok
}

func declaredNames(body *ast.BlockStmt) map[string]bool {
	out := map[string]bool{}
	ast.Inspect(body, func(n ast.Node) bool {
		switch x := n.(type) {
		case *ast.FuncLit:
			return false
		case *ast.AssignStmt:
			if x.Tok == token.DEFINE {
				for _, l := range x.Lhs {
					if id, ok := l.(*ast.Ident); ok {
						out[id.Name] = true
					}
				}
			}
		case *ast.ValueSpec:
			for _, id := range x.Names {
				out[id.Name] = true
			}
		case *ast.RangeStmt:
			if x.Tok == token.DEFINE {
				for _, l := range []ast.Expr{x.Key, x.Value} {
					if id, ok := l.(*ast.Ident); ok {
						out[id.Name] = true
					}
				}
			}
		case *ast.TypeSwitchStmt:
			if as, ok := x.Assign.(*ast.AssignStmt); ok {
				for _, l := range as.Lhs {
					if id, ok := l.(*ast.Ident); ok {
						out[id.Name] = true
					}
				}
			}
		}
		return true
	})
	return out
}

// bodyWithReturns renders the literal's body statements with every return replaced by repl(results).
// knownNonNil maps a return statement that is a direct child of `if X != nil { … }` (with no
// assignment to X before it in that block) to X's name: at that point X is non-nil.
func knownNonNil(body *ast.BlockStmt) map[*ast.ReturnStmt]string {
	out := map[*ast.ReturnStmt]string{}
	ast.Inspect(body, func(n ast.Node) bool {
		switch x := n.(type) {
		case *ast.FuncLit:
			return false
		case *ast.IfStmt:
			b, ok := x.Cond.(*ast.BinaryExpr)
			if !ok || b.Op != token.NEQ {
				return true
			}
			id, okX := b.X.(*ast.Ident)
			nl, okY := b.Y.(*ast.Ident)
			if !okX || !okY || nl.Name != "nil" {
				return true
			}
			assigned := false
			for _, st := range x.Body.List {
				switch s := st.(type) {
				case *ast.AssignStmt:
					for _, l := range s.Lhs {
						if li, ok := l.(*ast.Ident); ok && li.Name == id.Name {
							assigned = true
						}
					}
				case *ast.ReturnStmt:
					if !assigned {
						out[s] = id.Name
					}
				default:
					if _, isExpr := st.(*ast.ExprStmt); !isExpr {
						assigned = true // anything but a plain call may rebind: stop trusting the test
					}
				}
			}
		}
		return true
	})
	return out
}

func bodyWithReturns(fl *ast.FuncLit, src []byte, off func(token.Pos) int, repl func(results []string) string) string {
	nn := knownNonNil(fl.Body)
	bs, be := off(fl.Body.Lbrace)+1, off(fl.Body.Rbrace)
	var eds []textEdit
	ast.Inspect(fl.Body, func(n ast.Node) bool {
		switch x := n.(type) {
		case *ast.FuncLit:
			return false
		case *ast.ReturnStmt:
			var rs []string
			for _, r := range x.Results {
				t := string(src[off(r.Pos()):off(r.End())])
				if nn[x] != "" && t == nn[x] {
					t = "\x00" + t // marker: known non-nil here
				}
				rs = append(rs, t)
			}
			eds = append(eds, textEdit{off(x.Pos()) - bs, off(x.End()) - bs, repl(rs)})
		}
		return true
	})
	return string(applyTextEdits(src[bs:be], eds))
}

// namedPassthrough handles `a, b := func() (a T, b U) { …; return a, b }()`: a literal whose
// named results carry the very names they are assigned to and whose returns return exactly
// them. It is the same as declaring a and b outside and running `func() { … }()` (which is
// how such code is usually written by hand: a recover-guarded call assigning captured
// variables).
func namedPassthrough(as *ast.AssignStmt, fl *ast.FuncLit, src []byte, off func(token.Pos) int) (string, bool) {
	if fl.Type.Results == nil {
		return "", false
	}
	var names, types []string
	for _, f := range fl.Type.Results.List {
		if len(f.Names) == 0 {
			return "", false
		}
		for _, n := range f.Names {
			names = append(names, n.Name)
			types = append(types, string(src[off(f.Type.Pos()):off(f.Type.End())]))
		}
	}
	if len(names) != len(as.Lhs) {
		return "", false
	}
	for i, l := range as.Lhs {
		id, ok := l.(*ast.Ident)
		if !ok || id.Name != names[i] || id.Name == "_" {
			return "", false
		}
	}
	okR := true
	var eds []textEdit
	bs, be := off(fl.Body.Lbrace), off(fl.Body.Rbrace)+1
	ast.Inspect(fl.Body, func(n ast.Node) bool {
		switch x := n.(type) {
		case *ast.FuncLit:
			return false
		case *ast.ReturnStmt:
			if len(x.Results) == 0 {
				return true
			}
			if len(x.Results) != len(names) {
				okR = false
				return true
			}
			for i, r := range x.Results {
				if id, ok := r.(*ast.Ident); !ok || id.Name != names[i] {
					okR = false
				}
			}
			eds = append(eds, textEdit{off(x.Pos()) - bs, off(x.End()) - bs, "return"})
		}
		return true
	})
	if !okR {
		return "", false
	}
	var pre strings.Builder
	if as.Tok == token.DEFINE {
		for i, n := range names {
			if !flattenReuse[n] {
				fmt.Fprintf(&pre, "var %s %s\n", n, types[i])
			}
		}
	}
	return pre.String() + "func() " + string(applyTextEdits(src[bs:be], eds)) + "()\n", true
}

// hasEscapingBranch: n contains an unlabelled break/continue (or any labelled branch, goto or
// fallthrough) that refers to a statement enclosing n.
func hasEscapingBranch(n ast.Node) bool {
	found := false
	var walk func(n ast.Node, inLoop, inBreakable bool)
	walk = func(n ast.Node, inLoop, inBreakable bool) {
		ast.Inspect(n, func(m ast.Node) bool {
			if found || m == nil {
				return false
			}
			if m == n {
				return true
			}
			switch x := m.(type) {
			case *ast.FuncLit:
				return false
			case *ast.ForStmt:
				walk(x.Body, true, true)
				return false
			case *ast.RangeStmt:
				walk(x.Body, true, true)
				return false
			case *ast.SwitchStmt:
				walk(x.Body, inLoop, true)
				return false
			case *ast.TypeSwitchStmt:
				walk(x.Body, inLoop, true)
				return false
			case *ast.SelectStmt:
				walk(x.Body, inLoop, true)
				return false
			case *ast.BranchStmt:
				switch {
				case x.Label != nil, x.Tok == token.GOTO, x.Tok == token.FALLTHROUGH:
					found = true
				case x.Tok == token.BREAK && !inBreakable:
					found = true
				case x.Tok == token.CONTINUE && !inLoop:
					found = true
				}
			}
			return true
		})
	}
	walk(n, false, false)
	return found
}

func flattenOnce(filename string, src []byte, pass int) ([]byte, int) {
	fset := token.NewFileSet()
	f, err := parser.ParseFile(fset, filename, src, parser.ParseComments|parser.SkipObjectResolution)
	if err != nil {
		return src, 0
	}
	off := func(p token.Pos) int { return fset.Position(p).Offset }
	flattenSrc, flattenFset = src, fset
	var edit *textEdit
	flattenSeq++
	label := fmt.Sprintf("verifInl%d", flattenSeq)
	assignForm := func(as *ast.AssignStmt, thread *ast.IfStmt) (string, bool) {
		if len(as.Rhs) != 1 {
			return "", false
		}
		fl := iifeOf(as.Rhs[0])
		bindText := ""
		var paramNames []string
		if fl == nil {
			fl, bindText, paramNames = iifeWithParams(as.Rhs[0], src, off, label)
		}
		if fl == nil {
			return "", false
		}
		if bindText == "" {
			if txt, ok := namedPassthrough(as, fl, src, off); ok && thread == nil {
				return txt, true
			}
		}
		types, resNames, ok := literalNamed(fl, src, off)
		if !ok || len(types) != len(as.Lhs) {
			return "", false
		}
		prelude := ""
		for i, n := range resNames {
			prelude += "var " + n + " " + types[i] + "\n_ = " + n + "\n"
		}
		arity := true
		ast.Inspect(fl.Body, func(n ast.Node) bool {
			switch x := n.(type) {
			case *ast.FuncLit:
				return false
			case *ast.ReturnStmt:
				if len(x.Results) != len(as.Lhs) && !(len(x.Results) == 0 && resNames != nil) {
					// `return f()` spreading a call's tuple is fine (t0, t1 = f()); anything else is not handled
					if _, isCall := x.Results[0].(*ast.CallExpr); !isCall || len(x.Results) != 1 {
						arity = false
					}
				}
			}
			return true
		})
		if !arity {
			return "", false
		}
		// results travel in fresh temporaries (the literal's body may declare the very names
		// that are assigned from outside); the real targets are assigned after the loop
		var lhs, tmp []string
		rename := map[string]string{}
		var pre, post strings.Builder
		for i, l := range as.Lhs {
			id, isId := l.(*ast.Ident)
			t := fmt.Sprintf("%sR%d", label, i)
			tmp = append(tmp, t)
			fmt.Fprintf(&pre, "var %s %s\n", t, types[i])
			if as.Tok == token.DEFINE {
				if !isId {
					return "", false
				}
				if id.Name != "_" {
					if !flattenReuse[id.Name] { // a := that re-uses a variable of the same scope declares nothing
						fmt.Fprintf(&pre, "var %s %s\n", id.Name, types[i])
					}
					fmt.Fprintf(&post, "%s = %s\n_ = %s\n", id.Name, t, id.Name)
					rename[id.Name] = t
				}
				lhs = append(lhs, id.Name)
			} else {
				txt := string(src[off(l.Pos()):off(l.End())])
				if txt != "_" {
					fmt.Fprintf(&post, "%s = %s\n", txt, t)
				}
				if isId && id.Name != "_" {
					rename[id.Name] = t
				}
				lhs = append(lhs, txt)
			}
		}
		// thread != nil: the if statement that tests one of the assigned variables against nil
		// right after the call is moved to each return point (where the value is known), so
		// that the refusal it guards stays under the helper's own condition
		tj, tneq := -1, false
		tbool := false // the test is on a boolean (`ok` / `!ok`): "nil" reads false, "non-nil" true
		if thread != nil {
			cond := thread.Cond
			neg := false
			if ue, ok := cond.(*ast.UnaryExpr); ok && ue.Op == token.NOT {
				cond, neg = ue.X, true
			}
			if id, ok := cond.(*ast.Ident); ok {
				for j, l := range lhs {
					if l == id.Name && l != "_" {
						tj, tneq, tbool = j, !neg, true
					}
				}
			}
			if b, ok := thread.Cond.(*ast.BinaryExpr); ok && (b.Op == token.NEQ || b.Op == token.EQL) {
				x, xok := b.X.(*ast.Ident)
				y, yok := b.Y.(*ast.Ident)
				if xok && yok && y.Name == "nil" {
					for j, l := range lhs {
						if l == x.Name && l != "_" {
							tj, tneq = j, b.Op == token.NEQ
						}
					}
				}
			}
			if tj < 0 || hasEscapingBranch(thread.Body) || (thread.Else != nil && hasEscapingBranch(thread.Else)) {
				return "", false
			}
			// the moved statement lands inside the literal's scope: a name it uses must not be
			// one the literal's body declares (it would be captured)
			inner := declaredNames(fl.Body)
			for _, n := range resNames {
				inner[n] = true
			}
			for _, n := range paramNames {
				inner[n] = true
			}
			captured := false
			for _, part := range []ast.Node{thread.Cond, thread.Body, thread.Else} {
				if part == nil || captured {
					continue
				}
				ast.Inspect(part, func(m ast.Node) bool {
					if id, ok := m.(*ast.Ident); ok && inner[id.Name] && rename[id.Name] == "" {
						captured = true
					}
					return !captured
				})
			}
			if captured {
				return "", false
			}
			// the moved statement reads the temporaries; it must not redeclare a target itself
			for n := range declaredNames(thread.Body) {
				if rename[n] != "" {
					return "", false
				}
			}
			if eb, ok := thread.Else.(*ast.BlockStmt); ok {
				for n := range declaredNames(eb) {
					if rename[n] != "" {
						return "", false
					}
				}
			} else if thread.Else != nil {
				return "", false
			}
		}
		renamed := func(n ast.Node) string {
			bs := off(n.Pos())
			var eds []textEdit
			skip := map[*ast.Ident]bool{}
			ast.Inspect(n, func(m ast.Node) bool {
				switch x := m.(type) {
				case *ast.SelectorExpr:
					skip[x.Sel] = true
				case *ast.KeyValueExpr:
					if id, ok := x.Key.(*ast.Ident); ok {
						skip[id] = true
					}
				case *ast.Ident:
					if t := rename[x.Name]; t != "" && !skip[x] {
						eds = append(eds, textEdit{off(x.Pos()) - bs, off(x.End()) - bs, t})
					}
				}
				return true
			})
			return string(applyTextEdits(src[bs:off(n.End())], eds))
		}
		body := bodyWithReturns(fl, src, off, func(rs []string) string {
			if len(rs) == 0 && resNames != nil {
				rs = append([]string{}, resNames...) // bare return: the named results
			}
			if len(rs) == 1 && len(lhs) > 1 {
				// a call's tuple returned as is: nothing is known about the tested value here
				cont := ""
				if thread != nil {
					cont = "; if " + renamed(thread.Cond) + " " + renamed(thread.Body)
					if thread.Else != nil {
						cont += " else " + renamed(thread.Else)
					}
				}
				return "{ " + strings.Join(tmp, ", ") + " = " + strings.TrimPrefix(rs[0], "\x00") + cont + "; break " + label + " }"
			}
			if len(rs) != len(lhs) {
				return "{ break " + label + " }" // cannot happen for unnamed results; keeps the text well-formed
			}
			cont := ""
			marked := map[int]bool{}
			for i := range rs {
				if strings.HasPrefix(rs[i], "\x00") {
					rs[i], marked[i] = rs[i][1:], true
				}
			}
			if thread != nil {
				bodyText := renamed(thread.Body)
				elseText := ""
				if thread.Else != nil {
					elseText = renamed(thread.Else)
				}
				nonNil := marked[tj] || (strings.HasPrefix(rs[tj], "&") && strings.Contains(rs[tj], "{")) || strings.HasPrefix(rs[tj], "errors.New(") || strings.HasPrefix(rs[tj], "fmt.Errorf(")
				isNil := rs[tj] == "nil"
				if tbool {
					nonNil, isNil = rs[tj] == "true", rs[tj] == "false"
				}
				switch {
				case isNil && tneq, nonNil && !tneq:
					cont = elseText
				case isNil && !tneq, nonNil && tneq:
					cont = bodyText
				default:
					cont = "if " + renamed(thread.Cond) + " " + bodyText
					if elseText != "" {
						cont += " else " + elseText
					}
				}
				if cont != "" {
					cont = "; " + cont
				}
			}
			return "{ " + strings.Join(tmp, ", ") + " = " + strings.Join(rs, ", ") + cont + "; break " + label + " }"
		})
		return pre.String() + label + ":\nfor {\n" + bindText + prelude + body + "\nbreak " + label + "\n}\n" + post.String(), true
	}
	ast.Inspect(f, func(n ast.Node) bool {
		if edit != nil {
			return false
		}
		switch x := n.(type) {
		case *ast.BlockStmt, *ast.CaseClause, *ast.CommClause:
			var list []ast.Stmt
			switch y := x.(type) {
			case *ast.BlockStmt:
				list = y.List
			case *ast.CaseClause:
				list = y.Body
			case *ast.CommClause:
				list = y.Body
			}
			for si, st := range list {
				switch s := st.(type) {
				case *ast.AssignStmt:
					// `x, err := helper(); if err != nil {…}`: thread the test into the return points
					if si+1 < len(list) {
						if nx, isIf := list[si+1].(*ast.IfStmt); isIf && nx.Init == nil {
							if txt, ok := assignForm(s, nx); ok {
								edit = &textEdit{off(s.Pos()), off(nx.End()), txt}
								return false
							}
						}
					}
					if txt, ok := assignForm(s, nil); ok {
						edit = &textEdit{off(s.Pos()), off(s.End()), txt}
						return false
					}
				case *ast.IfStmt:
					if as, ok := s.Init.(*ast.AssignStmt); ok && as.Tok == token.DEFINE {
						if txt, ok := assignForm(as, s); ok {
							edit = &textEdit{off(s.Pos()), off(s.End()), "{\n" + txt + "\n}"}
							return false
						}
						if txt, ok := assignForm(as, nil); ok {
							rest := string(src[off(s.Cond.Pos()):off(s.End())])
							edit = &textEdit{off(s.Pos()), off(s.End()), "{\n" + txt + "if " + rest + "\n}"}
							return false
						}
					}
				case *ast.ReturnStmt:
					if len(s.Results) == 1 {
						if fl := iifeOf(s.Results[0]); fl != nil {
							if _, ok := literalOK(fl, src, off); ok {
								bs, be := off(fl.Body.Lbrace), off(fl.Body.Rbrace)+1
								edit = &textEdit{off(s.Pos()), off(s.End()), string(src[bs:be])}
								return false
							}
						}
					}
				}
				// a literal used inside a larger expression (`if !func() bool {…}() {`, an argument,
				// an operand): give it a name first; the next pass flattens the assignment
				var scope ast.Node
				switch s := st.(type) {
				case *ast.ExprStmt:
					if iifeOf(s.X) == nil {
						scope = s.X
					}
				case *ast.AssignStmt:
					if len(s.Rhs) != 1 || iifeOf(s.Rhs[0]) == nil {
						scope = s
					}
				case *ast.ReturnStmt:
					if len(s.Results) != 1 || iifeOf(s.Results[0]) == nil {
						scope = s
					}
				case *ast.IfStmt:
					if s.Init == nil {
						scope = s.Cond
					}
				}
				if scope != nil && edit == nil {
					var inner *ast.CallExpr
					ast.Inspect(scope, func(m ast.Node) bool {
						if inner != nil {
							return false
						}
						switch y := m.(type) {
						case *ast.FuncLit:
							return false
						case *ast.CallExpr:
							if fl := iifeOf(y); fl != nil {
								if types, ok := literalOK(fl, src, off); ok && len(types) == 1 {
									inner = y
									return false
								}
								return false
							}
						}
						return true
					})
					if inner != nil {
						name := label + "v"
						ss, se := off(st.Pos()), off(st.End())
						cs, ce := off(inner.Pos()), off(inner.End())
						edit = &textEdit{ss, se, name + " := " + string(src[cs:ce]) + "\n" + string(src[ss:cs]) + name + string(src[ce:se])}
						return false
					}
				}
				switch s := st.(type) {
				case *ast.ExprStmt:
					if fl := iifeOf(s.X); fl != nil {
						if types, ok := literalOK(fl, src, off); ok && len(types) == 0 {
							body := bodyWithReturns(fl, src, off, func([]string) string { return "{ break " + label + " }" })
							edit = &textEdit{off(s.Pos()), off(s.End()), label + ":\nfor {\n" + body + "\nbreak " + label + "\n}\n"}
							return false
						}
					}
				}
			}
		}
		return true
	})
	if edit == nil {
		return src, 0
	}
	out := applyTextEdits(src, []textEdit{*edit})
	// must still parse
	if _, err := parser.ParseFile(token.NewFileSet(), filename, out, parser.SkipObjectResolution); err != nil {
		return src, 0
	}
	return out, 1
}
