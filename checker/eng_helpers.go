package main

import (
	"go/token"
	"go/types"
	"strings"

	"golang.org/x/tools/go/ssa"
)

// Fn resolves a root-package function or records an undecided obligation.
func (c *Ctx) Fn(rule, name string) *ssa.Function {
	fn := c.U.Func(name)
	if fn == nil || fn.Blocks == nil {
		c.R.Undec(rule, name, "-", "anchor function "+name+" no longer resolves")
		return nil
	}
	c.R.Analysed(name)
	return fn
}

// rootCall strips Extract/conversions and returns the call producing v.
func rootCall(v ssa.Value) *ssa.Call {
	for {
		switch x := v.(type) {
		case *ssa.Extract:
			v = x.Tuple
		case *ssa.Call:
			return x
		case *ssa.MakeInterface:
			v = x.X
		case *ssa.ChangeType:
			v = x.X
		case *ssa.ChangeInterface:
			v = x.X
		default:
			return nil
		}
	}
}

// nilCompare decodes a guard of the form `x == nil` / `x != nil` and returns
// x and whether the guard establishes x == nil.
func nilCompare(g Guard) (x ssa.Value, isNil bool, ok bool) {
	b, isBin := g.Cond.(*ssa.BinOp)
	if !isBin || (b.Op != token.EQL && b.Op != token.NEQ) {
		return nil, false, false
	}
	var v ssa.Value
	if c, ok := b.Y.(*ssa.Const); ok && c.Value == nil && isNilable(b.X.Type()) {
		v = b.X
	} else if c, ok := b.X.(*ssa.Const); ok && c.Value == nil && isNilable(b.Y.Type()) {
		v = b.Y
	} else {
		return nil, false, false
	}
	if b.Op == token.EQL {
		return v, g.Truth, true
	}
	return v, !g.Truth, true
}

func isNilable(t types.Type) bool {
	switch t.Underlying().(type) {
	case *types.Pointer, *types.Interface, *types.Slice, *types.Map, *types.Chan, *types.Signature:
		return true
	}
	return false
}

// derefType strips one pointer level.
func derefType(t types.Type) types.Type {
	if p, ok := t.Underlying().(*types.Pointer); ok {
		return p.Elem()
	}
	return t
}

func isErrorType(t types.Type) bool {
	return types.Identical(t, types.Universe.Lookup("error").Type())
}

// errOfCallGuard reports, for a guard, the callee whose error result is
// tested and whether the guard establishes err == nil.
func (u *Unit) errOfCallGuard(g Guard) (callee string, call *ssa.Call, errNil bool, ok bool) {
	x, isNil, ok := nilCompare(g)
	if !ok || !isErrorType(x.Type()) {
		return "", nil, false, false
	}
	// through a phi whose edges are all the same call's error (rare) — skip
	c := rootCall(x)
	if c == nil {
		return "", nil, false, false
	}
	return u.CalleeName(&c.Call), c, isNil, true
}

// GuardedErrNil: instruction in executes only after a call to callee (matched
// by name predicate) returned a nil error.
func (u *Unit) GuardedErrNil(in ssa.Instruction, m func(string) bool) bool {
	for _, g := range GuardsAt(in.Block()) {
		if name, _, isNil, ok := u.errOfCallGuard(g); ok && isNil && m(name) {
			return true
		}
	}
	return false
}

// GuardedErrNilOf: like GuardedErrNil for one specific call instruction.
func (u *Unit) GuardedErrNilOf(in ssa.Instruction, call *ssa.Call) bool {
	for _, g := range GuardsAt(in.Block()) {
		if _, c, isNil, ok := u.errOfCallGuard(g); ok && isNil && c == call {
			return true
		}
	}
	return false
}

// ErrBranch finds the `if err != nil` test on the error result of call and
// returns the block taken when the error is non-nil.
func (u *Unit) ErrBranch(call *ssa.Call) (*ssa.If, *ssa.BasicBlock) {
	var errVal ssa.Value = call
	if tup, ok := call.Type().(*types.Tuple); ok {
		errVal = nil
		for _, ref := range *call.Referrers() {
			if ex, ok := ref.(*ssa.Extract); ok && ex.Index == tup.Len()-1 {
				errVal = ex
			}
		}
		if errVal == nil {
			return nil, nil
		}
	}
	refs := errVal.Referrers()
	if refs == nil {
		return nil, nil
	}
	for _, ref := range *refs {
		b, ok := ref.(*ssa.BinOp)
		if !ok || (b.Op != token.EQL && b.Op != token.NEQ) {
			continue
		}
		for _, r2 := range *b.Referrers() {
			if ifi, ok := r2.(*ssa.If); ok {
				if b.Op == token.NEQ {
					return ifi, ifi.Block().Succs[0]
				}
				return ifi, ifi.Block().Succs[1]
			}
		}
	}
	return nil, nil
}

// BlockEndsInReturn: the block (following unconditional jumps) ends in Return.
func BlockEndsInReturn(b *ssa.BasicBlock) bool {
	for i := 0; i < 6 && b != nil; i++ {
		if len(b.Instrs) == 0 {
			return false
		}
		switch b.Instrs[len(b.Instrs)-1].(type) {
		case *ssa.Return:
			return true
		case *ssa.Jump:
			b = b.Succs[0]
		default:
			return false
		}
	}
	return false
}

// CallsInBlockChain returns the calls in b and the blocks reached from it by
// unconditional jumps.
func (u *Unit) CallsInBlockChain(b *ssa.BasicBlock) []CallSite {
	var out []CallSite
	for i := 0; i < 6 && b != nil; i++ {
		for _, in := range b.Instrs {
			if ci, ok := in.(ssa.CallInstruction); ok {
				out = append(out, CallSite{b.Parent(), ci, u.CalleeName(ci.Common())})
			}
		}
		if len(b.Instrs) == 0 {
			break
		}
		if _, ok := b.Instrs[len(b.Instrs)-1].(*ssa.Jump); ok {
			b = b.Succs[0]
		} else {
			break
		}
	}
	return out
}

// HasGuardContaining: some guard atom at in contains all given substrings.
func (u *Unit) HasGuardContaining(in ssa.Instruction, subs ...string) bool {
	for _, g := range u.GuardStrings(in) {
		all := true
		for _, s := range subs {
			if !strings.Contains(g, s) {
				all = false
			}
		}
		if all {
			return true
		}
	}
	return false
}

// FieldLoads returns the loads of field `name` from base value v (through
// FieldAddr+load or Field).
func FieldUses(v ssa.Value, name string) []ssa.Value {
	var out []ssa.Value
	refs := v.Referrers()
	if refs == nil {
		return nil
	}
	for _, ref := range *refs {
		switch x := ref.(type) {
		case *ssa.FieldAddr:
			if fieldName(x.X.Type(), x.Field) == name {
				for _, r2 := range *x.Referrers() {
					if ld, ok := r2.(*ssa.UnOp); ok && ld.Op == token.MUL {
						out = append(out, ld)
					}
				}
			}
		case *ssa.Field:
			if fieldName(x.X.Type(), x.Field) == name {
				out = append(out, x)
			}
		}
	}
	return out
}

// ExtractOf returns the Extract #idx of a tuple-returning call.
func ExtractOf(call *ssa.Call, idx int) ssa.Value {
	for _, ref := range *call.Referrers() {
		if ex, ok := ref.(*ssa.Extract); ok && ex.Index == idx {
			return ex
		}
	}
	return nil
}

// OneCall returns the single call in fn matching m, recording undecided
// obligations otherwise.
func (c *Ctx) OneCall(rule string, fn *ssa.Function, m func(string) bool, what string) *CallSite {
	cs := c.U.Calls(fn, m)
	if len(cs) != 1 {
		c.R.Undec(rule, shortName(fn)+"|"+what, c.U.Pos(fn.Pos()), "expected exactly one call to "+what+", found "+itoa(len(cs)))
		return nil
	}
	return &cs[0]
}

// StoresToField lists the values stored into field `name` of struct type
// `typeName` anywhere in fn (composite literals included).
func (u *Unit) StoresToField(fn *ssa.Function, typeName, name string) []*ssa.Store {
	var out []*ssa.Store
	Instrs(fn, func(in ssa.Instruction) {
		if s, ok := in.(*ssa.Store); ok {
			if fa, ok := s.Addr.(*ssa.FieldAddr); ok && fieldKey(fa.X.Type(), fa.Field) == typeName+"."+name {
				out = append(out, s)
			}
		}
	})
	return out
}

// ReturnValue resolves result i of a return: when the function spills its
// results to allocs (defer present), the value is the last store to that
// alloc in the returning block.
func ReturnValue(ret *ssa.Return, i int) ssa.Value {
	v := ret.Results[i]
	ld, ok := v.(*ssa.UnOp)
	if !ok || ld.Op != token.MUL {
		return v
	}
	al, ok := ld.X.(*ssa.Alloc)
	if !ok {
		return v
	}
	// search backwards from the load through single-predecessor chains
	b := ld.Block()
	idx := instrIndex(ld)
	for hops := 0; hops < 8 && b != nil; hops++ {
		for j := idx - 1; j >= 0; j-- {
			if s, ok := b.Instrs[j].(*ssa.Store); ok && s.Addr == ssa.Value(al) {
				return s.Val
			}
		}
		if len(b.Preds) != 1 {
			break
		}
		b = b.Preds[0]
		idx = len(b.Instrs)
	}
	return v
}

// InRecoverBlock reports whether in belongs to the function's synthetic
// recover block (reached only when a deferred call recovered a panic).
func InRecoverBlock(in ssa.Instruction) bool {
	fn := in.Parent()
	return fn != nil && fn.Recover != nil && in.Block() == fn.Recover
}

// DefinitelyNonNilStore: the stored value is provably non-nil — the address
// of a fresh composite, or a value tested != nil by a dominating guard.
func DefinitelyNonNilStore(s *ssa.Store) bool {
	v := s.Val
	v0 := v
	if mi, ok := v.(*ssa.MakeInterface); ok {
		v0 = mi.X
	}
	if _, ok := v0.(*ssa.Alloc); ok {
		return true
	}
	// result of a constructor whose every return is a fresh composite
	if call, ok := v0.(*ssa.Call); ok {
		if f, ok := call.Call.Value.(*ssa.Function); ok && f.Blocks != nil {
			allFresh := true
			Instrs(f, func(in ssa.Instruction) {
				if ret, ok := in.(*ssa.Return); ok {
					if len(ret.Results) != 1 {
						allFresh = false
					} else if _, isAlloc := ret.Results[0].(*ssa.Alloc); !isAlloc {
						allFresh = false
					}
				}
			})
			if allFresh {
				return true
			}
		}
	}
	for _, g := range GuardsAt(s.Block()) {
		if x, isNil, ok := nilCompare(g); ok && !isNil && (x == v || x == v0 || sameLocalLoad(x, v) || sameLocalLoad(x, v0)) {
			return true
		}
	}
	return false
}

// sameLocalLoad: a and b are loads of the same local variable cell with no
// direct store to it between them (a dominates b).
func sameLocalLoad(a, b ssa.Value) bool {
	la, ok1 := a.(*ssa.UnOp)
	lb, ok2 := b.(*ssa.UnOp)
	if !ok1 || !ok2 || la.Op != token.MUL || lb.Op != token.MUL || la.X != lb.X {
		return false
	}
	al, ok := la.X.(*ssa.Alloc)
	if !ok || !Dominates(la, lb) {
		return false
	}
	for _, ref := range *al.Referrers() {
		if st, ok := ref.(*ssa.Store); ok && st.Addr == ssa.Value(al) && Dominates(la, st) && Dominates(st, lb) {
			return false
		}
	}
	return true
}
