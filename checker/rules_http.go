package main

import (
	"go/ast"
	"go/token"
	"go/types"
	"sort"
	"strconv"
	"strings"

	"golang.org/x/tools/go/ssa"
)

func init() {
	register(&PropInfo{
		ID:    "C17",
		Title: "Response compression is negotiated in client order and is lossless",
		Explanation: "R-LEVEL-OWNER: zstdEncoderLevel and supportedEncodingsValue are written only by applyCompressionLevel, which renders the advertisement from producibleResponseEncodings(); ServeHTTP negotiates with the same producibleResponseEncodings() result. " +
			"R-CODEC-TABLE: the elements of supportedEncodings = the codec arms of newCompressWriter = the codec arms of decompressBounded = the codings readHTTPBody and DecodeContentEncoding accept. " +
			"R-ARROW-ONLY: in compressResponseWriter.finish the codec writer is created only under encoding != \"\" ∧ Content-Type == arrow ∧ body non-empty. R-STAMP-SAME: the header value stamped and the codec used are the same field; the header name is chosen by useCustomHeader. " +
			"R-CUSTOM-FIRST: chooseResponseEncoding merges the custom header's tokens before the standard header's, stops at identity, and reports custom-only as viaCustom ∧ ¬viaStandard. R-POOL-OWNERSHIP: a pooled writer is Put only in pooledCodecWriter.Close, after reset.",
		NotCovered:  []string{"decode∘encode = identity (klauspost/compress, compress/gzip)", "q-value semantics (documented as not honoured)", "the full order semantics of chooseResponseEncoding over all header strings (enumerated by the unit tests)"},
		Assumptions: []string{},
		Run:         runC17,
	})
	register(&PropInfo{
		ID:    "C18",
		Title: "Request bodies are decoded exactly and never beyond their caps",
		Explanation: "R-BOUNDED-READ: every io.ReadAll on a request/decoder stream in readHTTPBody, decompressBounded, readIntrospectToken and handleOAuthTokenProxy reads through io.LimitReader(·, cap+1) whenever a cap is in force (the unbounded form is guarded by cap <= 0) and is followed by a len > cap refusal. " +
			"R-BODY-ERR-MAP: at every readHTTPBody call site the error goes to writeBodyReadError, whose arms map requestBodyTooLargeError→413, unsupportedEncodingError→415, anything else→400. " +
			"R-413-MEANS-REQUEST-CAP: a requestBodyTooLargeError is constructed only where the advertised request cap (requestCapApplied) is the limit in force. " +
			"R-REVERSE: DecodeContentEncoding walks the coding list from the last element down to 0. R-UNKNOWN-415: readHTTPBody's coding switch has exactly the arms {\"\", identity, zstd, gzip} and a default that returns unsupportedEncodingError.",
		NotCovered:  []string{"codec correctness (decoded bytes equal the client's bytes)", "DecodeContentEncoding's treatment of unknown codings (it skips them; the statement only speaks of zstd/gzip stacks)"},
		Assumptions: []string{"io.LimitReader never yields more than its limit"},
		Run:         runC18,
	})
	register(&PropInfo{
		ID:    "C19",
		Title: "Response size caps hold on every response",
		Explanation: "R-ENFORCE-BEFORE-200: in handleUnary and handleExchangeCall every writeArrow(w, 200, body) is dominated by enforceResponseBudgets(..) == nil over that body's length; a non-nil result leads to a cap-error response. " +
			"R-PREFLIGHT: every externalising call on a response path is dominated by the external-budget pre-flight of the same cycle. " +
			"R-PRODUCER-SOFT-CAP: the produce loop has a (false, nil) exit whose condition compares the bytes written so far with h.maxResponseBytes, placed after a full cycle has been flushed. " +
			"R-EXT-RUNNING-TOTAL: externalBytes accumulates the raw size of every replaced batch and feeds the next pre-flight.",
		NotCovered:  []string{"the exact overshoot of one data batch (runtime sizes)", "externalize size prediction accuracy"},
		Assumptions: []string{},
		Run:         runC19,
	})
	register(&PropInfo{
		ID:    "C20",
		Title: "Every HTTP response carries consistent correlation and capability headers",
		Explanation: "R-REQID-FIRST: in ServeHTTP the X-Request-ID header is set before any instruction that can write a response; resolveRequestID echoes the trimmed id only under id != \"\" ∧ len ≤ 128 and otherwise mints 8 random bytes rendered as 16 hex characters (fallback literal is 16 lowercase hex). " +
			"R-CAPS-AFTER-HOOK: addCapabilityHeaders dominates every response write in ServeHTTP except the serve-start-hook failure branch. " +
			"R-EXPOSE-COVERS: every VGI-*/X-VGI-*/X-Request-ID/WWW-Authenticate header name the package sets on a response is listed in Access-Control-Expose-Headers, and a conditionally exposed name is exposed under the same configuration predicate it is emitted under. " +
			"R-WRITER-WRAP: the response-writer wrappers forward Header() by embedding (none overrides it).",
		NotCovered:  []string{"headers added by operator-registered routes or reverse proxies", "net/http's own header handling"},
		Assumptions: []string{},
		Run:         runC20,
	})
}

// ---------------------------------------------------------------- C17

func strCases(u *Unit, fnName, tagSuffix string) map[string]bool {
	out := map[string]bool{}
	for _, sw := range u.Switches(u.DeclByName(fnName)) {
		if strings.HasPrefix(sw.Tag, "type") {
			continue
		}
		if tagSuffix != "" && !strings.HasSuffix(sw.Tag, tagSuffix) {
			continue
		}
		for _, cs := range sw.Cases {
			out[cs] = true
		}
	}
	// the same table written as comparisons: `x == "zstd" || x == "gzip"`, `x != "zstd" && …`
	if fd := u.DeclByName(fnName); fd != nil && tagSuffix != "" {
		ast.Inspect(fd, func(n ast.Node) bool {
			be, ok := n.(*ast.BinaryExpr)
			if !ok || (be.Op != token.EQL && be.Op != token.NEQ) {
				return true
			}
			for _, pr := range [][2]ast.Expr{{be.X, be.Y}, {be.Y, be.X}} {
				id, isId := pr[0].(*ast.Ident)
				lit, isLit := pr[1].(*ast.BasicLit)
				if isId && isLit && lit.Kind == token.STRING && strings.HasSuffix(u.RefExpr(fd, id.Name), tagSuffix) {
					if s, err := strconv.Unquote(lit.Value); err == nil {
						out[s] = true
					}
				}
			}
			return true
		})
	}
	return out
}

func setStr(m map[string]bool) string {
	var s []string
	for k := range m {
		s = append(s, `"`+k+`"`)
	}
	sort.Strings(s)
	return "{" + strings.Join(s, ",") + "}"
}

func runC17(c *Ctx) {
	u, r := c.U, c.R
	seedfixC17(c)
	// R-LEVEL-OWNER
	for _, f := range []string{"zstdEncoderLevel", "supportedEncodingsValue"} {
		n := 0
		for _, fn := range u.SrcFuncs() {
			for _, s := range u.StoresToField(fn, "HttpServer", f) {
				n++
				r.Check(shortName(fn) == "(*HttpServer).applyCompressionLevel", "R-LEVEL-OWNER", f+"←"+shortName(fn), u.Pos(s.Pos()), "written only by applyCompressionLevel", f+" is also written in "+shortName(fn)+": the level and the advertised codec set can drift apart")
				if f == "supportedEncodingsValue" {
					d := u.Describe(s.Val)
					r.Check(strings.HasPrefix(d, "strings.Join((*HttpServer).producibleResponseEncodings(h)"), "R-LEVEL-OWNER", "advert-derivation", u.Pos(s.Pos()), "advertisement = Join(producibleResponseEncodings())", "advertised value is "+d)
				}
			}
		}
		if n == 0 {
			r.Undec("R-LEVEL-OWNER", f, "-", "no writer found")
		}
	}
	if sh := c.Fn("R-LEVEL-OWNER", "(*HttpServer).ServeHTTP"); sh != nil {
		for _, cs := range u.Calls(sh, Is("chooseResponseEncoding")) {
			d := u.Describe(cs.Arg(2))
			r.Check(strings.HasPrefix(d, "(*HttpServer).producibleResponseEncodings(h)"), "R-LEVEL-OWNER", "negotiation-set", u.Pos(cs.Instr.Pos()), "negotiation uses producibleResponseEncodings()", "negotiation walks "+d+", not the advertised producible set")
			a0, a1 := u.Describe(cs.Arg(0)), u.Describe(cs.Arg(1))
			r.Check(strings.Contains(a0, `"X-VGI-Accept-Encoding"`) && strings.Contains(a1, `"Accept-Encoding"`), "R-CUSTOM-FIRST", "ServeHTTP|arg-order", u.Pos(cs.Instr.Pos()), "custom header first, standard second", "chooseResponseEncoding called with ("+a0+", "+a1+")")
		}
	}
	// R-CODEC-TABLE
	sup := map[string]bool{}
	for _, e := range u.GlobalSliceElems("supportedEncodings") {
		sup[e] = true
	}
	ncw := strCases(u, "newCompressWriter", "encoding")
	dcb := strCases(u, "decompressBounded", "encoding")
	rhb := strCases(u, "(*HttpServer).readHTTPBody", "encoding")
	dce := strCases(u, "DecodeContentEncoding", "name")
	delete(rhb, "")
	delete(rhb, "identity")
	r.Check(len(sup) >= 2 && setStr(sup) == setStr(ncw) && setStr(sup) == setStr(dcb) && setStr(sup) == setStr(rhb) && setStr(sup) == setStr(dce), "R-CODEC-TABLE", "codec-sets", "-",
		"advertised "+setStr(sup)+" = encodable = decodable = accepted", "codec tables disagree: supportedEncodings "+setStr(sup)+", newCompressWriter "+setStr(ncw)+", decompressBounded "+setStr(dcb)+", readHTTPBody "+setStr(rhb)+", DecodeContentEncoding "+setStr(dce))
	// pool constructor arms
	if cp := c.Fn("R-CODEC-TABLE", "codecPool"); cp != nil && len(cp.AnonFuncs) == 1 {
		ctor := map[string]bool{}
		for _, cs := range u.Calls(cp.AnonFuncs[0], Or(HasSuffix("zstd.NewWriter"), HasSuffix("gzip.NewWriterLevel"))) {
			if strings.Contains(cs.Callee, "zstd") {
				ctor["zstd"] = true
			} else {
				ctor["gzip"] = true
			}
		}
		r.Check(setStr(ctor) == setStr(sup), "R-CODEC-TABLE", "pool-constructors", u.Pos(cp.Pos()), "a constructor for every advertised codec", "pool constructs "+setStr(ctor)+" but "+setStr(sup)+" is advertised")
	}
	// R-ARROW-ONLY / R-STAMP-SAME
	if ff := c.Fn("R-ARROW-ONLY", "(*compressResponseWriter).finish"); ff != nil {
		for _, cs := range u.Calls(ff, Is("newCompressWriter")) {
			j := strings.Join(u.GuardStrings(cs.Instr), " && ")
			ok := strings.Contains(j, `(cw.encoding != "")`) && strings.Contains(j, `== "application/vnd.apache.arrow.stream")`) && strings.Contains(j, "Len(") && strings.Contains(j, "> 0)")
			r.Check(ok, "R-ARROW-ONLY", "finish|compress-guard", u.Pos(cs.Instr.Pos()), "compression only for a non-empty Arrow body with a negotiated codec", "codec writer created under: "+j)
			r.Check(u.Describe(cs.Arg(0)) == "cw.encoding", "R-STAMP-SAME", "finish|codec-arg", u.Pos(cs.Instr.Pos()), "codec = cw.encoding", "codec argument is "+u.Describe(cs.Arg(0)))
		}
		for _, hs := range u.Calls(ff, Is("(net/http.Header).Set")) {
			name := ""
			if phi, ok := hs.Arg(1).(*ssa.Phi); ok {
				var ns []string
				for _, e := range phi.Edges {
					ns = append(ns, u.Describe(e))
				}
				sort.Strings(ns)
				name = strings.Join(ns, "|")
			} else {
				name = u.Describe(hs.Arg(1))
			}
			r.Check(u.Describe(hs.Arg(2)) == "cw.encoding" && name == `"Content-Encoding"|"X-VGI-Content-Encoding"`, "R-STAMP-SAME", "finish|stamp", u.Pos(hs.Instr.Pos()), "stamped value = cw.encoding under Content-Encoding / X-VGI-Content-Encoding", "stamps "+name+" = "+u.Describe(hs.Arg(2)))
			// header-name phi chosen by useCustomHeader
			if phi, ok := hs.Arg(1).(*ssa.Phi); ok {
				okSel := false
				for i, e := range phi.Edges {
					if s, _ := ConstString(e); s == "X-VGI-Content-Encoding" {
						p := phi.Block().Preds[i]
						for _, g := range append(GuardsAt(p), blockEntryGuard(p)...) {
							if u.Describe(g.Cond) == "cw.useCustomHeader" && g.Truth {
								okSel = true
							}
						}
					}
				}
				r.Check(okSel, "R-STAMP-SAME", "finish|header-choice", u.Pos(hs.Instr.Pos()), "custom header name only under useCustomHeader", "X-VGI-Content-Encoding is not selected by useCustomHeader")
			}
		}
	}
	// R-CUSTOM-FIRST inside chooseResponseEncoding
	if cf := c.Fn("R-CUSTOM-FIRST", "chooseResponseEncoding"); cf != nil {
		pa := u.Calls(cf, Is("parseAcceptEncoding"))
		okP := len(pa) == 2 && u.Describe(pa[0].Arg(0)) == "custom" && u.Describe(pa[1].Arg(0)) == "standard"
		r.Check(okP, "R-CUSTOM-FIRST", "choose|parse", u.Pos(cf.Pos()), "custom and standard headers parsed separately", "parseAcceptEncoding calls not as expected")
		// merged = append(make, customTokens...) first
		firstAppend := ""
		Instrs(cf, func(in ssa.Instruction) {
			if call, ok := in.(*ssa.Call); ok && firstAppend == "" {
				if b, ok := call.Call.Value.(*ssa.Builtin); ok && b.Name() == "append" && strings.HasPrefix(u.Describe(call.Call.Args[0]), "makeslice") {
					firstAppend = u.Describe(call.Call.Args[1])
				}
			}
		})
		r.Check(strings.HasPrefix(firstAppend, "parseAcceptEncoding(custom)"), "R-CUSTOM-FIRST", "choose|merge-order", u.Pos(cf.Pos()), "custom tokens lead the merged preference list", "merged list starts with "+firstAppend)
		// returns
		Instrs(cf, func(in ssa.Instruction) {
			ret, ok := in.(*ssa.Return)
			if !ok {
				return
			}
			if s, isC := ConstString(ret.Results[0]); isC && s == "" {
				return
			}
			j := strings.Join(u.GuardStrings(in), " && ")
			// membership in the producible list: the package's own helper or the equivalent slices.Contains
			jn := strings.ReplaceAll(j, "slices.Contains[[]string, string](producible", "containsEncoding(producible")
			okR := strings.Contains(jn, "containsEncoding(producible") && !strings.Contains(jn, "!containsEncoding(producible") && strings.Contains(j, `!= "identity")`)
			d1 := u.Describe(ret.Results[1])
			// the custom-only flag is (enc ∈ custom set) ∧ ¬(enc ∈ standard set): two comma-ok lookups on two distinct maps
			maps := map[ssa.Value]bool{}
			Instrs(cf, func(x ssa.Instruction) {
				if lk, isL := x.(*ssa.Lookup); isL && lk.CommaOk && strings.Contains(u.Describe(lk.Index), "merged[") && (x.Block() == in.Block() || x.Block().Dominates(in.Block())) {
					maps[lk.X] = true
				}
			})
			okR = okR && len(maps) == 2
			r.Check(okR, "R-CUSTOM-FIRST", "choose|winner", u.Pos(in.Pos()), "winner is producible, precedes any identity, custom-only flag from set membership", "winner returned under: "+j+" with flag "+d1)
		})
	}
	// R-POOL-OWNERSHIP
	for _, fn := range u.SrcFuncs() {
		for _, cs := range u.Calls(fn, Is("(*sync.Pool).Put")) {
			if !strings.Contains(u.Describe(cs.Arg(0)), "pool") || !strings.Contains(typeShort(cs.Arg(1).Type()), "") {
				continue
			}
			if !strings.Contains(u.Describe(cs.Arg(1)), "WriteCloser") {
				continue
			}
			okO := shortName(fn) == "(*pooledCodecWriter).Close"
			if okO {
				rn := u.Calls(fn, func(s string) bool { return strings.HasPrefix(s, "dyn:p.resetNil") })
				okO = len(rn) == 1 && Dominates(rn[0].Instr, cs.Instr)
			}
			r.Check(okO, "R-POOL-OWNERSHIP", shortName(fn), u.Pos(cs.Instr.Pos()), "codec writer returned to its pool only in Close, after reset", "pooled codec writer Put outside pooledCodecWriter.Close or before reset")
		}
	}
}

// blockEntryGuard returns the guard implied by entering p from its single
// predecessor's conditional branch.
func blockEntryGuard(p *ssa.BasicBlock) []Guard {
	if len(p.Preds) != 1 {
		return nil
	}
	q := p.Preds[0]
	if ifi, ok := q.Instrs[len(q.Instrs)-1].(*ssa.If); ok {
		return []Guard{{ifi.Cond, q.Succs[0] == p, ifi}}
	}
	return nil
}

// ---------------------------------------------------------------- C18

func runC18(c *Ctx) {
	u, r := c.U, c.R
	seedfixC18(c)
	r.Floor("R-BOUNDED-READ", 5)
	r.Floor("R-BOUNDED-READ", 4)
	for _, name := range []string{"(*HttpServer).readHTTPBody", "decompressBounded"} {
		fn := c.Fn("R-BOUNDED-READ", name)
		if fn == nil {
			continue
		}
		for i, cs := range u.Calls(fn, Is("io.ReadAll")) {
			d := u.Describe(cs.Arg(0))
			inst := name + "|ReadAll#" + itoa(i+1)
			if strings.HasPrefix(d, "io.LimitReader(") || strings.HasPrefix(d, "net/http.MaxBytesReader(") {
				// limit is cap+1 and a len > cap refusal follows
				lim := ""
				if lc := rootCall(cs.Arg(0)); lc != nil {
					lim = u.Describe(lc.Call.Args[len(lc.Call.Args)-1])
				}
				plusOne := strings.HasSuffix(lim, " + 1)") || strings.HasSuffix(lim, "3") || strings.HasSuffix(lim, "1") && !strings.Contains(lim, "+")
				follow := false
				Instrs(fn, func(in ssa.Instruction) {
					if b, ok := in.(*ssa.BinOp); ok && b.Op == token.GTR && strings.Contains(u.Describe(b.X), "len(") && strings.Contains(u.Describe(b.X), "ReadAll") {
						follow = true
					}
				})
				r.Check(plusOne && follow, "R-BOUNDED-READ", inst, u.Pos(cs.Instr.Pos()), "reads at most cap+1 bytes ("+lim+"), then refuses len > cap", "bounded read with limit "+lim+" (cap+1 expected) / overflow refusal present="+boolStr(follow))
			} else {
				okG := false
				for _, g := range u.GuardStrings(cs.Instr) {
					if strings.HasSuffix(g, " <= 0)") {
						okG = true
					}
				}
				r.Check(okG, "R-BOUNDED-READ", inst, u.Pos(cs.Instr.Pos()), "unbounded read only when no cap is configured (cap <= 0)", "io.ReadAll("+d+") reads an attacker-sized stream without a LimitReader although a cap may be in force")
			}
		}
	}
	// R-BODY-ERR-MAP
	sites := u.CallSitesOf(Is("(*HttpServer).readHTTPBody"))
	r.Floor("R-BODY-ERR-MAP", 5)
	for _, cs := range sites {
		call := cs.Value().(*ssa.Call)
		_, blk := u.ErrBranch(call)
		ok := false
		if blk != nil {
			for _, x := range u.CallsInBlockChain(blk) {
				if x.Callee == "(*HttpServer).writeBodyReadError" && x.Arg(2) == ExtractOf(call, 1) {
					ok = true
				}
			}
			ok = ok && BlockEndsInReturn(blk)
		}
		r.Check(ok, "R-BODY-ERR-MAP", shortName(cs.Fn), u.Pos(cs.Instr.Pos()), "body-read failure mapped by writeBodyReadError, then return", "readHTTPBody's error is not handed to writeBodyReadError (status mapping lost) or the handler continues")
	}
	if wf := c.Fn("R-BODY-ERR-MAP", "(*HttpServer).writeBodyReadError"); wf != nil {
		got := map[string]string{}
		for _, cs := range u.Calls(wf, Is("(*HttpServer).writeHttpError")) {
			code, _ := ConstInt(cs.Arg(2))
			j := strings.Join(u.GuardStrings(cs.Instr), " && ")
			k := "else"
			// which errors.As target guards this arm
			for _, g := range GuardsAt(cs.Instr.Block()) {
				if call := rootCall(g.Cond); call != nil && u.CalleeName(&call.Call) == "errors.As" && g.Truth {
					k = typeShort(deref(call.Call.Args[1]))
				}
			}
			_ = j
			got[k] = itoa(int(code))
		}
		want := map[string]string{"**requestBodyTooLargeError": "413", "**unsupportedEncodingError": "415", "else": "400"}
		okM := len(got) == 3
		for k, v := range want {
			if got[k] != v {
				okM = false
			}
		}
		var gs []string
		for k, v := range got {
			gs = append(gs, k+"→"+v)
		}
		sort.Strings(gs)
		r.Check(okM, "R-BODY-ERR-MAP", "writeBodyReadError|arms", u.Pos(wf.Pos()), strings.Join(gs, ", "), "status arms are "+strings.Join(gs, ", ")+"; expected tooLarge→413, unsupported→415, else→400")
	}
	// R-413-MEANS-REQUEST-CAP
	n := 0
	for _, fn := range u.SrcFuncs() {
		Instrs(fn, func(in ssa.Instruction) {
			al, ok := in.(*ssa.Alloc)
			if !ok || typeShort(al.Type()) != "*requestBodyTooLargeError" {
				return
			}
			n++
			okG := u.HasGuardContaining(in, "requestCapApplied") && !u.HasGuardContaining(in, "!requestCapApplied")
			r.Check(okG, "R-413-MEANS-REQUEST-CAP", shortName(fn)+"|construct#"+itoa(n), u.Pos(in.Pos()), "413 error built only where the advertised request cap is the limit in force",
				"a requestBodyTooLargeError (→ 413) is constructed in "+shortName(fn)+" without requestCapApplied: a body over the *decompression* cap is answered 413 even when no request cap is advertised (statement: 400)")
		})
	}
	if n == 0 {
		r.Undec("R-413-MEANS-REQUEST-CAP", "constructions", "-", "no construction of requestBodyTooLargeError found")
	}
	// R-REVERSE
	if df := c.Fn("R-REVERSE", "DecodeContentEncoding"); df != nil {
		ok := false
		Instrs(df, func(in ssa.Instruction) {
			phi, isPhi := in.(*ssa.Phi)
			if !isPhi || typeShort(phi.Type()) != "int" {
				return
			}
			start, step := false, false
			for _, e := range phi.Edges {
				d := u.Describe(e)
				if strings.HasPrefix(d, "(len(strings.Split(contentEncoding") && strings.HasSuffix(d, " - 1)") {
					start = true
				}
				if b, isB := e.(*ssa.BinOp); isB && b.Op == token.SUB && b.X == ssa.Value(phi) {
					if k, _ := ConstInt(b.Y); k == 1 {
						step = true
					}
				}
			}
			if start && step {
				// loop condition i >= 0
				for _, ref := range *phi.Referrers() {
					if b, isB := ref.(*ssa.BinOp); isB && b.Op == token.GEQ {
						if k, isC := ConstInt(b.Y); isC && k == 0 {
							ok = true
						}
					}
				}
			}
		})
		r.Check(ok, "R-REVERSE", "DecodeContentEncoding|loop", u.Pos(df.Pos()), "codings undone from last to first", "the coding list is not walked from len-1 down to 0")
		for _, cs := range u.Calls(df, Is("decompressBounded")) {
			r.Check(u.Describe(cs.Arg(2)) == "maxOutputSize", "R-REVERSE", "DecodeContentEncoding|per-coding-cap", u.Pos(cs.Instr.Pos()), "each coding decoded under the caller's cap", "per-coding cap is "+u.Describe(cs.Arg(2)))
		}
	}
	// R-UNKNOWN-415
	if rf := u.Func("(*HttpServer).readHTTPBody"); rf != nil {
		arms := strCases(u, "(*HttpServer).readHTTPBody", "encoding")
		hasDefault := false
		for _, sw := range u.Switches(u.Decl(rf)) {
			if strings.HasSuffix(sw.Tag, "encoding") && sw.Default {
				hasDefault = true
			}
		}
		unsup := false
		Instrs(rf, func(in ssa.Instruction) {
			if al, ok := in.(*ssa.Alloc); ok && typeShort(al.Type()) == "*unsupportedEncodingError" {
				unsup = true
				// the refusal is what remains when every known coding has been excluded
				// (a switch default, or the same written as != tests)
				j := strings.Join(u.GuardStrings(in), " && ")
				if strings.Contains(j, `!= "zstd")`) && strings.Contains(j, `!= "gzip")`) {
					hasDefault = true
				}
			}
		})
		r.Check(setStr(arms) == `{"","gzip","identity","zstd"}` && hasDefault && unsup, "R-UNKNOWN-415", "readHTTPBody|switch", u.Pos(rf.Pos()), "known codings "+setStr(arms)+"; default → unsupportedEncodingError", "coding switch arms "+setStr(arms)+", default="+boolStr(hasDefault)+", unsupportedEncodingError built="+boolStr(unsup))
	}
}

// ---------------------------------------------------------------- C19

func runC19(c *Ctx) {
	u, r := c.U, c.R
	seedfixC19(c)
	r.Floor("R-ENFORCE-BEFORE-200", 2)
	for _, name := range []string{"(*HttpServer).handleUnary", "(*HttpServer).handleExchangeCall"} {
		fn := c.Fn("R-ENFORCE-BEFORE-200", name)
		if fn == nil {
			continue
		}
		enf := u.Calls(fn, Is("enforceResponseBudgets"))
		k := 0
		for _, cs := range u.Calls(fn, Is("(*HttpServer).writeArrow")) {
			code, _ := ConstInt(cs.Arg(2))
			if code != 200 {
				continue
			}
			k++
			ok := false
			for _, e := range enf {
				if u.GuardedErrNilOf(cs.Instr, e.Value().(*ssa.Call)) {
					// the budget check measures the same buffer that is written
					bd := u.Describe(e.Arg(1))
					wd := u.Describe(cs.Arg(3))
					if strings.Contains(bd, "Len(&buf)") && strings.Contains(wd, "Bytes(&buf)") && u.Describe(e.Arg(3)) == "h.maxResponseBytes" {
						ok = true
					}
				}
			}
			r.Check(ok, "R-ENFORCE-BEFORE-200", name+"|200#"+itoa(k), u.Pos(cs.Instr.Pos()), "success body written only after enforceResponseBudgets(len(body)) == nil",
				"a 200 response body is written without having passed enforceResponseBudgets: a response over max_response_bytes goes out unreplaced")
		}
		for _, e := range enf {
			_, blk := u.ErrBranch(e.Value().(*ssa.Call))
			okB := false
			if blk != nil {
				for _, x := range u.CallsInBlockChain(blk) {
					if x.Callee == "(*HttpServer).writeUnaryCapError" || x.Callee == "(*HttpServer).writeExchangeCapError" {
						okB = true
					}
				}
			}
			r.Check(okB && blk != nil && BlockEndsInReturn(blk), "R-ENFORCE-BEFORE-200", name+"|overshoot-branch", u.Pos(e.Instr.Pos()), "overshoot replaces the response with a cap error", "an overshoot does not lead to a cap-error response and return")
		}
	}
	// R-PREFLIGHT
	if fn := u.Func("(*HttpServer).handleExchangeCall"); fn != nil {
		pre := u.Calls(fn, Is("(*HttpServer).checkExternalBudget"))
		for _, cs := range u.Calls(fn, Is("(*HttpServer).externalizeStreamDataBatch")) {
			ok := len(pre) == 1 && u.GuardedErrNilOf(cs.Instr, pre[0].Value().(*ssa.Call))
			r.Check(ok, "R-PREFLIGHT", "handleExchangeCall", u.Pos(cs.Instr.Pos()), "upload only after the external budget pre-flight passed", "exchange uploads without a passed checkExternalBudget")
		}
	}
	if fn := u.Func("(*HttpServer).runProduceLoop"); fn != nil {
		c.produceLoopRules(fn)
	} else {
		r.Undec("R-PRODUCER-SOFT-CAP", "runProduceLoop", "-", "does not resolve")
	}
	if fn := u.Func("(*HttpServer).handleUnary"); fn != nil {
		for _, cs := range u.Calls(fn, Is("externalizeBatchCtx")) {
			j := strings.Join(u.GuardStrings(cs.Instr), " && ")
			// reached only from !(cap > 0 && predicted > cap)
			ok := strings.Contains(j, "h.server.externalConfig != nil")
			pred := u.Calls(fn, Is("predictExternalizeBytes"))
			ok = ok && len(pred) == 1 && Dominates(pred[0].Instr, cs.Instr)
			// the refusal branch exists and returns
			ref := false
			for _, x := range u.Calls(fn, Is("newExternalCapError")) {
				if u.HasGuardContaining(x.Instr, "predictExternalizeBytes(", "> h.maxExternalizedResponseBytes") {
					_, reach := ReachWithout(fn, x.Instr, isInstr(cs.Instr), nil)
					ref = !reach
				}
			}
			r.Check(ok && ref, "R-PREFLIGHT", "handleUnary", u.Pos(cs.Instr.Pos()), "unary upload preceded by the predicted-size refusal", "unary externalisation is not preceded by a predicted-size refusal that skips the upload")
		}
	}
	// checkExternalBudget itself
	if cb := c.Fn("R-EXT-RUNNING-TOTAL", "(*HttpServer).checkExternalBudget"); cb != nil {
		okC := false
		for _, x := range u.Calls(cb, Is("newExternalCapError")) {
			if u.HasGuardContaining(x.Instr, "(alreadyUploaded + ", "> h.maxExternalizedResponseBytes") {
				okC = true
			}
		}
		r.Check(okC, "R-EXT-RUNNING-TOTAL", "checkExternalBudget", u.Pos(cb.Pos()), "refuses when alreadyUploaded + predicted > cap", "pre-flight does not compare alreadyUploaded + predicted with the cap")
	}
}

func (c *Ctx) produceLoopRules(fn *ssa.Function) {
	u, r := c.U, c.R
	// find the loop function actually containing the Produce turn (runProduceLoop or the helper it delegates to)
	loopFn := fn
	if len(u.closureCalls(fn, HasSuffix("ProducerState.Produce"))) == 0 {
		for _, cs := range u.Calls(fn, func(s string) bool { return strings.HasPrefix(s, "(*HttpServer).") }) {
			if g := u.Func(cs.Callee); g != nil && len(u.closureCalls(g, HasSuffix("ProducerState.Produce"))) == 1 {
				loopFn = g
			}
		}
	}
	r.Analysed(shortName(loopFn))
	turn := u.closureCalls(loopFn, HasSuffix("ProducerState.Produce"))
	if len(turn) != 1 {
		r.Undec("R-PRODUCER-SOFT-CAP", "produce-loop", u.Pos(loopFn.Pos()), "Produce closure not found")
		return
	}
	pre := u.Calls(loopFn, Is("(*HttpServer).checkExternalBudget"))
	for _, cs := range u.Calls(loopFn, Is("(*HttpServer).externalizeStreamDataBatch")) {
		ok := len(pre) == 1 && u.GuardedErrNilOf(cs.Instr, pre[0].Value().(*ssa.Call))
		r.Check(ok, "R-PREFLIGHT", shortName(loopFn), u.Pos(cs.Instr.Pos()), "producer upload only after this cycle's pre-flight passed", "producer uploads without a passed checkExternalBudget in the same cycle")
	}
	if len(pre) == 1 {
		_, isLoopVar := pre[0].Arg(3).(*ssa.Phi)
		r.Check(isLoopVar, "R-EXT-RUNNING-TOTAL", shortName(loopFn)+"|preflight-arg", u.Pos(pre[0].Instr.Pos()), "pre-flight receives the loop-carried running external total ("+u.Describe(pre[0].Arg(3))+")", "pre-flight receives "+u.Describe(pre[0].Arg(3))+" instead of the loop-carried running total")
	}
	// externalBytes accumulates rawBytes
	acc := false
	Instrs(loopFn, func(in ssa.Instruction) {
		if b, ok := in.(*ssa.BinOp); ok && b.Op == token.ADD && strings.Contains(u.Describe(b.Y), "externalizeStreamDataBatch(") && strings.HasSuffix(u.Describe(b.Y), "#1") {
			acc = true
		}
	})
	r.Check(acc, "R-EXT-RUNNING-TOTAL", shortName(loopFn)+"|accumulate", u.Pos(loopFn.Pos()), "running total += raw bytes of every replaced batch", "externalBytes is not accumulated from externalizeStreamDataBatch's raw byte count")
	// soft cap exit
	found := false
	Instrs(loopFn, func(in ssa.Instruction) {
		ret, ok := in.(*ssa.Return)
		if !ok || len(ret.Results) != 2 {
			return
		}
		b0, isB := ret.Results[0].(*ssa.Const)
		e0, isE := ret.Results[1].(*ssa.Const)
		if !isB || !isE || e0.Value != nil || b0.Value == nil || b0.Value.String() != "false" {
			return
		}
		// (false, nil) exits: classify by their entry conditions
		var conds []string
		for _, p := range in.Block().Preds {
			if ifi, ok := p.Instrs[len(p.Instrs)-1].(*ssa.If); ok {
				conds = append(conds, u.Describe(ifi.Cond))
			}
		}
		conds = append(conds, u.GuardStrings(in)...)
		j := strings.Join(conds, " && ")
		if strings.Contains(j, "h.maxResponseBytes") && (strings.Contains(j, ">=") || strings.Contains(j, ">")) && (strings.Contains(j, "Len(") || strings.Contains(j, "written") || strings.Contains(j, "dyn:")) {
			// placed after a full flush: the turn dominates it and it is not inside the flush loop's body before writes
			if Dominates(turn[0].Instr, in) {
				found = true
				r.Ok("R-PRODUCER-SOFT-CAP", shortName(loopFn)+"|soft-cap-exit", u.Pos(in.Pos()), "loop ends with a continuation once bytes written reach max_response_bytes: "+j)
			}
		}
	})
	if !found {
		r.Viol("R-PRODUCER-SOFT-CAP", shortName(loopFn)+"|soft-cap-exit", u.Pos(loopFn.Pos()), "the produce loop never compares the bytes written with h.maxResponseBytes: max_response_bytes is advertised but a producer response grows without bound instead of ending with a continuation token")
	}
}

// ---------------------------------------------------------------- C20

func runC20(c *Ctx) {
	u, r := c.U, c.R
	sh := c.Fn("R-REQID-FIRST", "(*HttpServer).ServeHTTP")
	if sh != nil {
		var setID ssa.Instruction
		for _, cs := range u.Calls(sh, Is("(net/http.Header).Set")) {
			if s, _ := ConstString(cs.Arg(1)); s == "X-Request-ID" {
				setID = cs.Instr
				r.Check(strings.HasPrefix(u.Describe(cs.Arg(2)), "resolveRequestID(r)"), "R-REQID-FIRST", "ServeHTTP|value", u.Pos(cs.Instr.Pos()), "header value = resolveRequestID(r)", "X-Request-ID value is "+u.Describe(cs.Arg(2)))
			}
		}
		if setID == nil {
			r.Viol("R-REQID-FIRST", "ServeHTTP|set", u.Pos(sh.Pos()), "ServeHTTP never sets X-Request-ID")
		} else {
			writers := Or(Is("net/http.Error", "(*net/http.ServeMux).ServeHTTP", "(*HttpServer).handleOAuthTokenProxy", "(*HttpServer).addCapabilityHeaders", "(*HttpServer).addCorsHeaders", "(*Server).notifyTransport", "(*HttpServer).InitPages"), HasSuffix("ResponseWriter.WriteHeader"), HasSuffix("ResponseWriter.Write"))
			n := 0
			for _, cs := range u.Calls(sh, writers) {
				n++
				r.Check(Dominates(setID, cs.Instr), "R-REQID-FIRST", "ServeHTTP|before "+cs.Callee+"#"+itoa(n), u.Pos(cs.Instr.Pos()), "correlation id set before this step", cs.Callee+" can run before X-Request-ID is set: that exit path answers without a correlation id")
			}
			if n < 6 {
				r.Undec("R-REQID-FIRST", "ServeHTTP", u.Pos(sh.Pos()), "fewer response-capable calls than confirmed by hand")
			}
		}
		// R-CAPS-AFTER-HOOK
		caps := u.Calls(sh, Is("(*HttpServer).addCapabilityHeaders"))
		if len(caps) != 1 {
			r.Viol("R-CAPS-AFTER-HOOK", "ServeHTTP|caps", u.Pos(sh.Pos()), "expected one addCapabilityHeaders call")
		} else {
			for i, cs := range u.Calls(sh, Or(Is("net/http.Error", "(*net/http.ServeMux).ServeHTTP", "(*HttpServer).handleOAuthTokenProxy"), HasSuffix("ResponseWriter.WriteHeader"))) {
				if u.HasGuardContaining(cs.Instr, "notifyTransport(", "!= nil") {
					r.Ok("R-CAPS-AFTER-HOOK", "ServeHTTP|hook-failure-exit", u.Pos(cs.Instr.Pos()), "serve-start hook failed: capabilities not yet committed (exempt by the statement)")
					continue
				}
				r.Check(Dominates(caps[0].Instr, cs.Instr), "R-CAPS-AFTER-HOOK", "ServeHTTP|write#"+itoa(i+1)+" "+cs.Callee, u.Pos(cs.Instr.Pos()), "capability headers set before this response write", "a response can be written after the serve-start hook succeeded but before addCapabilityHeaders")
			}
		}
	}
	if rf := c.Fn("R-REQID-FIRST", "resolveRequestID"); rf != nil {
		Instrs(rf, func(in ssa.Instruction) {
			ret, ok := in.(*ssa.Return)
			if !ok {
				return
			}
			d := u.Describe(ret.Results[0])
			if strings.HasPrefix(d, "newRequestID(") {
				return
			}
			j := strings.Join(u.GuardStrings(in), " && ")
			okG := strings.HasPrefix(d, "strings.TrimSpace(") && strings.Contains(j, `!= "")`) && strings.Contains(j, "<= 128)")
			r.Check(okG, "R-REQID-FIRST", "resolveRequestID|echo", u.Pos(in.Pos()), "echoes the trimmed id only when 1..128 bytes", "echoes "+d+" under: "+j)
		})
	}
	if nf := c.Fn("R-REQID-FIRST", "newRequestID"); nf != nil {
		okLen, okFallback, okHex := false, false, false
		Instrs(nf, func(in ssa.Instruction) {
			if al, ok := in.(*ssa.Alloc); ok && typeShort(al.Type()) == "*[8]byte" {
				okLen = true
			}
			if ret, ok := in.(*ssa.Return); ok {
				if s, isC := ConstString(ret.Results[0]); isC {
					okFallback = len(s) == 16 && strings.Trim(s, "0123456789abcdef") == ""
				} else if strings.HasPrefix(u.Describe(ret.Results[0]), "encoding/hex.EncodeToString(") {
					okHex = true
				}
			}
		})
		rnd := len(u.Calls(nf, Is("crypto/rand.Read"))) == 1
		r.Check(okLen && okFallback && okHex && rnd, "R-REQID-FIRST", "newRequestID|shape", u.Pos(nf.Pos()), "8 random bytes → 16 lowercase hex; fallback literal is 16 hex", "minted id is not hex(8 crypto-random bytes) with a 16-hex fallback")
	}

	// R-EXPOSE-COVERS
	c.exposeCovers()

	// R-WRITER-WRAP
	for _, tn := range []string{"countingResponseWriter", "compressResponseWriter", "stickyResponseWriter"} {
		obj, _ := u.Root.Types.Scope().Lookup(tn).(*types.TypeName)
		if obj == nil {
			r.Undec("R-WRITER-WRAP", tn, "-", "type does not resolve")
			continue
		}
		st, _ := obj.Type().Underlying().(*types.Struct)
		embeds := false
		for i := 0; st != nil && i < st.NumFields(); i++ {
			if st.Field(i).Embedded() && typeShort(st.Field(i).Type()) == "net/http.ResponseWriter" {
				embeds = true
			}
		}
		own := u.Func("(*"+tn+").Header") != nil || u.Func("("+tn+").Header") != nil
		r.Check(embeds && !own, "R-WRITER-WRAP", tn, "-", "forwards Header() of the wrapped writer by embedding", tn+" overrides Header() or no longer embeds http.ResponseWriter: headers set through it may not reach the response")
	}
}

func (c *Ctx) exposeCovers() {
	u, r := c.U, c.R
	cf := c.Fn("R-EXPOSE-COVERS", "(*HttpServer).addCorsHeaders")
	if cf == nil {
		return
	}
	cfgAtoms := func(in ssa.Instruction) []string {
		var out []string
		for _, g := range u.GuardStrings(in) {
			if strings.Contains(g, "h.") && !strings.Contains(g, "corsOrigins") && !strings.Contains(g, "isOptions") {
				out = append(out, g)
			}
		}
		sort.Strings(out)
		return out
	}
	// X: exposed names with their guards
	X := map[string][]string{}
	prefixExposed := map[string]bool{}
	Instrs(cf, func(in ssa.Instruction) {
		st, ok := in.(*ssa.Store)
		if !ok {
			return
		}
		if s, isC := ConstString(st.Val); isC && (strings.HasPrefix(s, "VGI-") || strings.HasPrefix(s, "X-") || s == "WWW-Authenticate") && !strings.Contains(s, ",") {
			X[s] = cfgAtoms(in)
		}
		if b, isB := st.Val.(*ssa.BinOp); isB && b.Op == token.ADD {
			if s, isC := ConstString(b.X); isC {
				prefixExposed[s] = true
			}
		}
	})
	if len(X) < 15 {
		r.Undec("R-EXPOSE-COVERS", "expose-list", u.Pos(cf.Pos()), "only "+itoa(len(X))+" exposed names recognised (19 confirmed by hand)")
	}
	alias := map[string]string{
		`(len((*HttpServer).proxyAuthHeaders(h)) > 0)`: `((*HttpServer).proxyHint(h) != "")`,
	}
	interesting := func(s string) bool {
		return strings.HasPrefix(s, "VGI-") || strings.HasPrefix(s, "X-VGI-") || s == "X-Request-ID" || s == "WWW-Authenticate"
	}
	seen := map[string]bool{}
	n := 0
	for _, fn := range u.SrcFuncs() {
		if strings.Contains(shortName(fn), "HttpClient") || strings.Contains(shortName(fn), "httpClient") {
			continue // client side sets request headers
		}
		for _, cs := range u.Calls(fn, Is("(net/http.Header).Set", "(net/http.Header).Add")) {
			// only response headers: receiver derives from a ResponseWriter.Header() call
			if !strings.Contains(u.Describe(cs.Arg(0)), "ResponseWriter.Header(") {
				continue
			}
			name, isC := ConstString(cs.Arg(1))
			if !isC {
				// prefix + dynamic name
				if b, ok := cs.Arg(1).(*ssa.BinOp); ok && b.Op == token.ADD {
					if p, ok := ConstString(b.X); ok && interesting(p) {
						n++
						r.Check(prefixExposed[p], "R-EXPOSE-COVERS", "prefix "+p+"*", u.Pos(cs.Instr.Pos()), "dynamic "+p+"<name> headers are exposed by the same prefix", "headers "+p+"<name> are emitted but never exposed")
					}
				}
				if phi, ok := cs.Arg(1).(*ssa.Phi); ok {
					for _, e := range phi.Edges {
						if s, ok := ConstString(e); ok && interesting(s) {
							n++
							_, okX := X[s]
							r.Check(okX, "R-EXPOSE-COVERS", "name "+s, u.Pos(cs.Instr.Pos()), "exposed", "response header "+s+" is emitted but not listed in Access-Control-Expose-Headers")
						}
					}
				}
				continue
			}
			if !interesting(name) {
				continue
			}
			key := name + "@" + shortName(fn)
			if seen[key] {
				continue
			}
			seen[key] = true
			n++
			xg, okX := X[name]
			if !okX {
				r.Viol("R-EXPOSE-COVERS", "name "+name, u.Pos(cs.Instr.Pos()), "response header "+name+" (set in "+shortName(fn)+") is not listed in Access-Control-Expose-Headers: a cross-origin browser client cannot read it")
				continue
			}
			// emission guard ⇒ expose guard
			eg := cfgAtoms(cs.Instr)
			missing := []string{}
			for _, g := range xg {
				has := false
				for _, e := range eg {
					if e == g || alias[g] == e {
						has = true
					}
				}
				if !has {
					missing = append(missing, g)
				}
			}
			r.Check(len(missing) == 0, "R-EXPOSE-COVERS", "name "+name+"@"+shortName(fn), u.Pos(cs.Instr.Pos()), "exposed under {"+strings.Join(xg, " && ")+"} ⊆ emitted under {"+strings.Join(eg, " && ")+"}",
				"header "+name+" is emitted under {"+strings.Join(eg, " && ")+"} but exposed only under {"+strings.Join(xg, " && ")+"}: configurations exist where it is sent but not exposed")
		}
	}
	if n < 15 {
		r.Undec("R-EXPOSE-COVERS", "emissions", "-", "only "+itoa(n)+" header emissions examined")
	}
}
