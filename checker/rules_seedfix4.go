package main

import (
	"go/token"
	"go/types"
	"strings"

	"golang.org/x/tools/go/ssa"
)

// Rules added after the second seeding round, part 2 (the remaining 26
// properties). Run after each property's main rules and seedfix3.
var seedfix4 = map[string]func(*Ctx){
	"C01": seedfix4C01, "C02": seedfix4C02, "C05": seedfix4C05, "C07": seedfix4C07, "C08": seedfix4C08,
	"C10": seedfix4C10, "C23": seedfix4C23, "C27": seedfix4C27,
	"C11": seedfix4C11, "C21": seedfix4C21, "C17": seedfix4C17, "C18": seedfix4C18, "C28": seedfix4C28,
	"C30": seedfix4C30, "C32": seedfix4C32, "C34": seedfix4C34, "C35": seedfix4C35,
	"C36": seedfix4C36, "C38": seedfix4C38, "C39": seedfix4C39, "C40": seedfix4C40,
	"C42": seedfix4C42, "C43": seedfix4C43,
}

// guardMentions: some guard dominating in has an atom containing sub.
func guardAtomsOf(u *Unit, in ssa.Instruction) []string { return u.GuardStrings(in) }

// storesOnEveryPath: every return of fn is preceded, on every path from the entry, by an
// instruction matching m. Returns the first return reachable without one.
func reachesReturnWithout(fn *ssa.Function, m func(ssa.Instruction) bool) (ssa.Instruction, bool) {
	if len(fn.Blocks) == 0 || len(fn.Blocks[0].Instrs) == 0 {
		return nil, false
	}
	first := fn.Blocks[0].Instrs[0]
	if m(first) {
		return nil, false
	}
	return ReachWithout(fn, first, IsReturn, m)
}

// pooledBufferEscapes: for every function of the root package that borrows a *bytes.Buffer
// from a sync.Pool and gives it back (Put, deferred or not), the slice returned by
// Bytes() must not be returned: it aliases storage the next borrower overwrites.
func pooledBufferEscapes(c *Ctx, rule string, only func(*ssa.Function) bool) {
	u, r := c.U, c.R
	n := 0
	for _, fn := range u.SrcFuncs() {
		if only != nil && !only(fn) {
			continue
		}
		gets := u.Calls(fn, Is("(*sync.Pool).Get"))
		puts := u.Calls(fn, Is("(*sync.Pool).Put"))
		n++
		if len(gets) == 0 || len(puts) == 0 {
			continue
		}
		for _, cs := range u.Calls(fn, Or(Is("(*bytes.Buffer).Bytes"), Is("(*bytes.Buffer).String"))) {
			call, ok := cs.Instr.(*ssa.Call)
			if !ok {
				continue
			}
			fromPool := false
			for _, g := range gets {
				if gc, ok := g.Instr.(*ssa.Call); ok && feeds(gc, cs.Arg(0)) {
					fromPool = true
				}
			}
			if !fromPool || cs.Callee == "(*bytes.Buffer).String" {
				continue
			}
			Instrs(fn, func(in ssa.Instruction) {
				ret, ok := in.(*ssa.Return)
				if !ok {
					return
				}
				for i := range ret.Results {
					v := ReturnValue(ret, i)
					if sl, isSl := v.(*ssa.Slice); isSl {
						v = sl.X
					}
					if v == ssa.Value(call) {
						r.Viol(rule, shortName(fn)+"|pooled-bytes", u.Pos(in.Pos()), shortName(fn)+" returns Bytes() of a buffer it hands back to a sync.Pool: the caller's slice is overwritten by the next call that borrows the buffer (two overlapping calls see each other's bytes)")
					}
				}
			})
		}
	}
	r.Check(n > 0, rule, "functions-scanned", "-", "no function returns the bytes of a buffer it returns to a sync.Pool ("+itoa(n)+" functions scanned)", "no functions scanned")
}

// ---------------------------------------------------------------- C02

func seedfix4C02(c *Ctx) {
	u, r := c.U, c.R
	// R-READER-PER-CONNECTION: the reader a serve loop hands to serveOne is the same object
	// for every request of the connection (a buffered reader built inside the loop throws its
	// read-ahead — the next request's bytes — away).
	so := u.Func("(*Server).serveOne")
	if so == nil {
		return
	}
	n := 0
	for _, cs := range u.Callers(so) {
		call, ok := cs.Instr.(*ssa.Call)
		if !ok {
			continue
		}
		if _, inLoop := ReachWithout(cs.Fn, call, isInstr(call), nil); !inLoop {
			continue
		}
		n++
		v := cs.Arg(2)
		if mi, isMI := v.(*ssa.MakeInterface); isMI {
			v = mi.X
		}
		ctor, isCall := v.(*ssa.Call)
		fresh := isCall && reachable(cs.Fn, call, ctor)
		r.Check(!fresh, "R-READER-PER-CONNECTION", shortName(cs.Fn), u.Pos(call.Pos()), "the request reader is created once per connection", shortName(cs.Fn)+" builds the request reader ("+u.Describe(v)+") anew for every request: bytes it read ahead of the current request are dropped, so a pipelined next request is swallowed or parsed from the middle of a message")
	}
	if n == 0 {
		r.Undec("R-READER-PER-CONNECTION", "serveOne", u.Pos(so.Pos()), "no serve loop calling serveOne found")
	}
	r.Floor("R-READER-PER-CONNECTION", 3)
}

// ---------------------------------------------------------------- C01

func seedfix4C01(c *Ctx) {
	u, r := c.U, c.R
	// R-FRAME-FRESH-META: the request frame's metadata is built from WriteRequest's own
	// arguments; metadata already attached to params is not read (a stale protocol_version
	// or method would otherwise shadow or duplicate the stamped one).
	if fn := c.Fn("R-FRAME-FRESH-META", "WriteRequest"); fn != nil {
		bad := ""
		for _, f := range WithAnon(fn) {
			for _, cs := range u.Calls(f, nil) {
				if strings.HasSuffix(cs.Callee, "RecordBatchWithMetadata.Metadata") || strings.HasSuffix(cs.Callee, "arrow.Metadata).Keys") || strings.HasSuffix(cs.Callee, "arrow.Metadata).Values") {
					bad = cs.Callee + " @ " + u.Pos(cs.Instr.Pos())
				}
			}
		}
		r.Check(bad == "", "R-FRAME-FRESH-META", "WriteRequest", u.Pos(fn.Pos()), "frame metadata comes from the arguments only", "WriteRequest reads the metadata already attached to params ("+bad+"): a re-framed batch carries its old vgi_rpc.* keys, so the protocol version (or request id) read back is not the one passed")
	}
	// R-METHOD-VERBATIM: the method ReadRequest reports is the metadata value itself, and
	// invalid UTF-8 is refused (not repaired).
	if fn := c.Fn("R-METHOD-VERBATIM", "ReadRequest"); fn != nil {
		tr := stringTransforms(u, fn)
		for _, cs := range u.Calls(fn, Or(Is("strings.ToValidUTF8"), Is("bytes.ToValidUTF8"), Is("strings.ToTitle"))) {
			tr = append(tr, cs.Callee)
		}
		r.Check(len(tr) == 0, "R-METHOD-VERBATIM", "ReadRequest|no-transform", u.Pos(fn.Pos()), "no string transform is applied to request metadata", "ReadRequest transforms metadata strings ("+strings.Join(tr, ", ")+"): the method read back is not the method framed, and malformed names are repaired instead of refused")
		vs := u.Calls(fn, Is("unicode/utf8.ValidString"))
		okV := false
		for _, cs := range vs {
			call, isCall := cs.Instr.(*ssa.Call)
			if !isCall {
				continue
			}
			// the false edge leads to a refusal: some return guarded by !ValidString(...) with a non-nil error
			Instrs(fn, func(in ssa.Instruction) {
				ret, ok := in.(*ssa.Return)
				if !ok || len(ret.Results) < 2 || isNilConst(ReturnValue(ret, 1)) {
					return
				}
				for _, g := range GuardsAt(in.Block()) {
					if g.Cond == ssa.Value(call) && !g.Truth {
						okV = true
					}
				}
			})
		}
		r.Check(okV, "R-METHOD-VERBATIM", "ReadRequest|utf8-refused", u.Pos(fn.Pos()), "a method name that is not valid UTF-8 is refused with an error", "ReadRequest has no refusal under !utf8.ValidString(method): a malformed name is dispatched (or silently rewritten) instead of rejected with a typed error")
	}
	// R-RESULT-VERBATIM: WriteUnaryResult appends exactly the bytes it was given, for every
	// value (empty included).
	if fn := c.Fn("R-RESULT-VERBATIM", "WriteUnaryResult"); fn != nil {
		apps := u.Calls(fn, HasSuffix("array.BinaryBuilder).Append"))
		nulls := u.Calls(fn, Or(HasSuffix("array.BinaryBuilder).AppendNull"), HasSuffix("array.BinaryBuilder).AppendEmptyValue"), HasSuffix("array.BinaryBuilder).AppendNulls")))
		okA := len(apps) == 1 && len(nulls) == 0
		why := ""
		if okA {
			a := apps[0]
			if len(fn.Params) < 3 || a.Arg(1) != ssa.Value(fn.Params[2]) {
				okA, why = false, "appends "+u.Describe(a.Arg(1))
			}
			for _, g := range u.GuardStrings(a.Instr) {
				if strings.Contains(g, u.VarName(fn.Params[2])) {
					okA, why = false, "appends only under "+g
				}
			}
		} else {
			why = itoa(len(apps)) + " Append and " + itoa(len(nulls)) + " AppendNull call(s)"
		}
		r.Check(okA, "R-RESULT-VERBATIM", "WriteUnaryResult", u.Pos(fn.Pos()), "the result cell is Append(resultBytes), unconditionally", "WriteUnaryResult does not write resultBytes verbatim ("+why+"): an empty result does not unwrap to the same bytes")
	}
	r.Floor("R-FRAME-FRESH-META", 1)
	r.Floor("R-METHOD-VERBATIM", 2)
	r.Floor("R-RESULT-VERBATIM", 1)
}

// ---------------------------------------------------------------- C05

func seedfix4C05(c *Ctx) {
	u, r := c.U, c.R
	// R-ENVELOPE-ERR-IS-HANDLERS: the error written into an exception batch is never
	// replaced by the context's own error.
	n := 0
	for _, fn := range u.SrcFuncs() {
		for _, cs := range u.Calls(fn, Or(Is("writeErrorBatch"), Is("writeErrorResponse"), Is("buildErrorExtra"), HasSuffix(").writeHttpError"), Is("writeErrorStream"))) {
			var errArg ssa.Value
			for _, a := range cs.Common().Args {
				if isErrorType(a.Type()) {
					errArg = a
				}
			}
			if errArg == nil {
				continue
			}
			n++
			bad := ""
			for _, o := range u.Origins(errArg, &OriginOpts{MaxNodes: 400}) {
				if o.Kind == "call" && (strings.Contains(o.Desc, "context.Context.Err") || strings.Contains(o.Desc, "context.Cause")) {
					bad = o.Desc
				}
			}
			if bad != "" {
				r.Viol("R-ENVELOPE-ERR-IS-HANDLERS", shortName(fn)+"|"+cs.Callee, u.Pos(cs.Instr.Pos()), shortName(fn)+" writes "+bad+" into the error envelope in place of the handler's error: the RpcError type / typed wire name / message / error_kind the handler returned is lost on this transport")
			}
		}
	}
	r.Check(n >= 6, "R-ENVELOPE-ERR-IS-HANDLERS", "envelope-sites", "-", itoa(n)+" envelope-writing sites: none takes its error from ctx.Err()/context.Cause", "only "+itoa(n)+" envelope-writing sites found")
	r.Floor("R-ENVELOPE-ERR-IS-HANDLERS", 1)
}

// ---------------------------------------------------------------- C07

func seedfix4C07(c *Ctx) {
	u, r := c.U, c.R
	// R-DEFAULT-OWN-CELL: the *string stored in tagInfo.Default points at a cell written once
	// (a cell shared by loop iterations or options is overwritten by the next option parsed).
	if fn := c.Fn("R-DEFAULT-OWN-CELL", "parseTag"); fn != nil {
		n := 0
		Instrs(fn, func(in ssa.Instruction) {
			st, ok := in.(*ssa.Store)
			if !ok {
				return
			}
			fa, ok := st.Addr.(*ssa.FieldAddr)
			if !ok || fieldName(derefType(fa.X.Type()), fa.Field) != "Default" {
				return
			}
			n++
			al, isAlloc := st.Val.(*ssa.Alloc)
			if !isAlloc {
				r.Ok("R-DEFAULT-OWN-CELL", "parseTag|Default#"+itoa(n), u.Pos(in.Pos()), "Default is not the address of a local")
				return
			}
			w := 0
			for _, ref := range *al.Referrers() {
				if s2, isSt := ref.(*ssa.Store); isSt && s2.Addr == ssa.Value(al) {
					w++
				}
			}
			r.Check(w == 1 && al.Block() == st.Block(), "R-DEFAULT-OWN-CELL", "parseTag|Default#"+itoa(n), u.Pos(in.Pos()), "Default points at a cell allocated and written once, beside the store", "tagInfo.Default points at a variable written "+itoa(w)+" times / declared outside the option's own scope: a later option (elem=…) overwrites the declared default")
		})
		if n == 0 {
			r.Undec("R-DEFAULT-OWN-CELL", "parseTag", u.Pos(fn.Pos()), "no store to tagInfo.Default")
		}
	}
	timestampNoScale(c, "R-INSTANT-NO-SCALE")
	r.Floor("R-DEFAULT-OWN-CELL", 1)
}

// timestampNoScale: timestampToTime hands the wire value to time.Unix/UnixMilli/UnixMicro
// itself; it is never multiplied in int64 (v*unit wraps for instants the wire type holds).
func timestampNoScale(c *Ctx, rule string) {
	u, r := c.U, c.R
	fn := c.Fn(rule, "timestampToTime")
	if fn == nil {
		return
	}
	n := 0
	for _, cs := range u.Calls(fn, Or(Is("time.Unix"), Is("time.UnixMilli"), Is("time.UnixMicro"))) {
		for i, a := range cs.Common().Args {
			if _, isK := a.(*ssa.Const); isK {
				continue
			}
			n++
			r.Check(a == ssa.Value(fn.Params[0]), rule, "timestampToTime|"+cs.Callee+"#"+itoa(i), u.Pos(cs.Instr.Pos()), "the wire value is passed unscaled", cs.Callee+" is given "+u.Describe(a)+": arithmetic on the wire value in int64 wraps for instants outside ±292 years although the column holds them")
		}
	}
	mul := false
	Instrs(fn, func(in ssa.Instruction) {
		if b, ok := in.(*ssa.BinOp); ok && (b.Op == token.MUL || b.Op == token.SHL) {
			mul = true
		}
	})
	r.Check(!mul && n >= 1, rule, "timestampToTime|no-multiply", u.Pos(fn.Pos()), "no multiplication of the wire value", "timestampToTime multiplies the wire value (or passes it to no time constructor)")
	r.Floor(rule, 2)
}

// ---------------------------------------------------------------- C08

func seedfix4C08(c *Ctx) {
	u, r := c.U, c.R
	pooledBufferEscapes(c, "R-NO-POOLED-BYTES", nil)
	timestampNoScale(c, "R-INSTANT-NO-SCALE")
	// R-DICT-BY-CODE: wherever a dictionary's value array is read, the index is the row's code.
	n := 0
	for _, fn := range u.SrcFuncs() {
		for _, cs := range u.Calls(fn, Or(HasSuffix("array.String).Value"), HasSuffix("array.LargeString).Value"), HasSuffix("array.Binary).Value"))) {
			if !strings.Contains(u.Describe(cs.Arg(0)), "array.Dictionary).Dictionary(") {
				continue
			}
			n++
			d := u.Describe(cs.Arg(1))
			r.Check(strings.Contains(d, "array.Dictionary).GetValueIndex("), "R-DICT-BY-CODE", shortName(fn)+"#"+itoa(n), u.Pos(cs.Instr.Pos()), "dictionary entry selected by GetValueIndex(row)", "a dictionary's values are indexed with "+d+", not with the row's code: rows sharing a value (or following a null) decode to the wrong entry")
		}
	}
	if n == 0 {
		r.Undec("R-DICT-BY-CODE", "package", "-", "no dictionary lookup found")
	}
	r.Floor("R-NO-POOLED-BYTES", 1)
	r.Floor("R-DICT-BY-CODE", 1)
}

// ---------------------------------------------------------------- C10

func seedfix4C10(c *Ctx) {
	u, r := c.U, c.R
	utf8GateOnMethodOnly(c)
	// R-VERSION-FLAG-ALWAYS-SET: SetProtocolVersion writes protocolVersionSet on every path
	// (true exactly with a non-empty version), so clearing the version reopens the gate.
	if fn := c.Fn("R-VERSION-FLAG-ALWAYS-SET", "(*Server).SetProtocolVersion"); fn != nil {
		isFlagStore := func(in ssa.Instruction) bool {
			st, ok := in.(*ssa.Store)
			if !ok {
				return false
			}
			fa, ok := st.Addr.(*ssa.FieldAddr)
			return ok && fieldName(derefType(fa.X.Type()), fa.Field) == "protocolVersionSet"
		}
		at, miss := reachesReturnWithout(fn, isFlagStore)
		pos := u.Pos(fn.Pos())
		if miss && at != nil {
			pos = u.Pos(at.Pos())
		}
		r.Check(!miss, "R-VERSION-FLAG-ALWAYS-SET", "SetProtocolVersion|every-path", pos, "every return is preceded by a write of protocolVersionSet", "SetProtocolVersion can return without writing protocolVersionSet: clearing the version leaves the gate armed (every call is then refused, though no version is declared)")
		Instrs(fn, func(in ssa.Instruction) {
			if !isFlagStore(in) {
				return
			}
			st := in.(*ssa.Store)
			k, isK := st.Val.(*ssa.Const)
			if !isK {
				return
			}
			want := "(" + u.VarName(fn.Params[1]) + " != \"\")"
			if k.Value != nil && k.Value.String() == "false" {
				want = "(" + u.VarName(fn.Params[1]) + " == \"\")"
			}
			r.Check(u.HasGuardContaining(in, want), "R-VERSION-FLAG-ALWAYS-SET", "SetProtocolVersion|"+k.Value.String(), u.Pos(in.Pos()), "written under "+want, "protocolVersionSet <- "+k.Value.String()+" is not under "+want)
		})
	}
	r.Floor("R-VERSION-FLAG-ALWAYS-SET", 3)
}

// ---------------------------------------------------------------- C23

func seedfix4C23(c *Ctx) {
	u, r := c.U, c.R
	// R-VALIDATOR-VERBATIM: BearerAuthenticate returns its validator's answer unchanged (a
	// plain error must reach the classifier as "anything else → 500").
	if outer := c.Fn("R-VALIDATOR-VERBATIM", "BearerAuthenticate"); outer != nil {
		n := 0
		for _, fn := range WithAnon(outer) {
			for _, cs := range u.Calls(fn, nil) {
				call, ok := cs.Instr.(*ssa.Call)
				if !ok || call.Call.IsInvoke() || call.Call.StaticCallee() != nil {
					continue
				}
				if _, isB := call.Call.Value.(*ssa.Builtin); isB {
					continue
				}
				n++
				Instrs(fn, func(in ssa.Instruction) {
					ret, ok := in.(*ssa.Return)
					if !ok || len(ret.Results) != 2 || !reachable(fn, call, in) {
						return
					}
					a, b := ReturnValue(ret, 0), ReturnValue(ret, 1)
					ea, okA := a.(*ssa.Extract)
					eb, okB := b.(*ssa.Extract)
					verb := okA && okB && ea.Tuple == ssa.Value(call) && eb.Tuple == ssa.Value(call) && ea.Index == 0 && eb.Index == 1
					r.Check(verb, "R-VALIDATOR-VERBATIM", "BearerAuthenticate|return@"+exitKey(u, in.Block()), u.Pos(in.Pos()), "the validator's (context, error) is returned as is", "after validate(token) the authenticator returns ("+u.Describe(a)+", "+u.Describe(b)+"): the validator's error is rewritten, so a fault that must answer 500 (or a typed failure) is reported as a different status")
				})
			}
		}
		if n != 1 {
			r.Undec("R-VALIDATOR-VERBATIM", "BearerAuthenticate", u.Pos(outer.Pos()), "expected one dynamic validator call, found "+itoa(n))
		}
	}
	// R-UNWRAP-UNBOUNDED: the Unwrap walks that look for AuthFailure / AuthUnavailableError
	// stop only at the end of the chain or at a match.
	for _, name := range []string{"asAuthFailure", "asAuthUnavailable"} {
		fn := u.Func(name)
		if fn == nil {
			continue
		}
		bad := ""
		Instrs(fn, func(in ssa.Instruction) {
			iff, ok := in.(*ssa.If)
			if !ok {
				return
			}
			if b, isB := iff.Cond.(*ssa.BinOp); isB {
				if bt, isBasic := b.X.Type().Underlying().(*types.Basic); isBasic && bt.Info()&types.IsInteger != 0 {
					bad = u.Describe(iff.Cond)
				}
			}
		})
		r.Check(bad == "", "R-UNWRAP-UNBOUNDED", name, u.Pos(fn.Pos()), "the walk ends only at nil or at a match", name+" stops walking the Unwrap chain under "+bad+": a failure wrapped deeper than that is classified as a server fault (500) instead of 401/503")
	}
	r.Floor("R-VALIDATOR-VERBATIM", 1)
	r.Floor("R-UNWRAP-UNBOUNDED", 1)
}

// ---------------------------------------------------------------- C27

func seedfix4C27(c *Ctx) {
	u, r := c.U, c.R
	deriveFromWholeKey(c)
	// R-ALLOWLIST-VERBATIM: the return-origin allowlist holds the operator's entries as
	// configured (an entry that names a port keeps it).
	if fn := c.Fn("R-ALLOWLIST-VERBATIM", "(*HttpServer).SetOAuthPkce"); fn != nil {
		n := 0
		for _, f := range WithAnon(fn) {
			Instrs(f, func(in ssa.Instruction) {
				mu, ok := in.(*ssa.MapUpdate)
				if !ok {
					return
				}
				if kt, isB := mu.Key.Type().Underlying().(*types.Basic); !isB || kt.Kind() != types.String {
					return
				}
				if _, isBool := mu.Value.(*ssa.Const); !isBool {
					return
				}
				n++
				// the key is a constant or the configured element itself (a load of config.AllowedReturnOrigins[i])
				_, isConst := mu.Key.(*ssa.Const)
				verbatim := isConst
				if ld, ok := mu.Key.(*ssa.UnOp); ok && ld.Op == token.MUL {
					if ia, ok := ld.X.(*ssa.IndexAddr); ok && strings.Contains(u.Describe(ia.X), "AllowedReturnOrigins") {
						verbatim = true
					}
				}
				if g, ok := mu.Key.(*ssa.UnOp); ok && g.Op == token.MUL {
					if _, isGlobal := g.X.(*ssa.Global); isGlobal {
						verbatim = true
					}
				}
				isCall := !verbatim
				r.Check(!isCall, "R-ALLOWLIST-VERBATIM", "SetOAuthPkce|entry#"+itoa(n), u.Pos(in.Pos()), "entry stored as configured", "the allowlist stores "+u.Describe(mu.Key)+" instead of the configured origin: an entry's port (or other component) is dropped, so a return URL on another port of that host is accepted")
			})
		}
		if n == 0 {
			r.Undec("R-ALLOWLIST-VERBATIM", "SetOAuthPkce", u.Pos(fn.Pos()), "no allowlist insertion found")
		}
	}
	// R-RELATIVE-ONLY: validateOriginalURL accepts a target only with empty scheme AND empty host.
	if fn := c.Fn("R-RELATIVE-ONLY", "validateOriginalURL"); fn != nil {
		sch, host := false, false
		Instrs(fn, func(in ssa.Instruction) {
			iff, ok := in.(*ssa.If)
			if !ok {
				return
			}
			d := u.Describe(iff.Cond)
			if strings.Contains(d, ".Scheme != \"\"") || strings.Contains(d, ".Scheme == \"\"") {
				sch = true
			}
			if strings.Contains(d, ".Host != \"\"") || strings.Contains(d, ".Host == \"\"") {
				host = true
			}
		})
		r.Check(sch && host, "R-RELATIVE-ONLY", "validateOriginalURL", u.Pos(fn.Pos()), "both Scheme and Host are tested empty", "validateOriginalURL does not test both parsed.Scheme and parsed.Host for emptiness: a scheme-relative //host/path target passes as same-origin")
	}
	// R-STATE-WHOLE: the callback compares the whole returned state with the whole packed state.
	if fn := c.Fn("R-STATE-WHOLE", "(*HttpServer).handleOAuthCallback"); fn != nil {
		n := 0
		for _, cs := range u.Calls(fn, Is("crypto/subtle.ConstantTimeCompare")) {
			n++
			for i := 0; i < 2; i++ {
				a := cs.Arg(i)
				_, isConv := a.(*ssa.Convert)
				r.Check(isConv, "R-STATE-WHOLE", "handleOAuthCallback|arg"+itoa(i)+"#"+itoa(n), u.Pos(cs.Instr.Pos()), "operand is the string itself, converted", "the state comparison is given "+u.Describe(a)+" rather than the whole string: a returned state that only shares a prefix (or is padded) is accepted")
			}
		}
		if n == 0 {
			r.Undec("R-STATE-WHOLE", "handleOAuthCallback", u.Pos(fn.Pos()), "no constant-time comparison found")
		}
	}
	r.Floor("R-ALLOWLIST-VERBATIM", 1)
	r.Floor("R-RELATIVE-ONLY", 1)
	r.Floor("R-STATE-WHOLE", 2)
}

// ---------------------------------------------------------------- C11

func seedfix4C11(c *Ctx) {
	u, r := c.U, c.R
	// R-CAST-KEEPS-META: the cast batch carries the source batch's custom metadata (the pipe
	// loop reads the user's input metadata from the batch after the cast).
	if fn := c.Fn("R-CAST-KEEPS-META", "castRecordBatch"); fn != nil {
		okM := false
		for _, cs := range u.Calls(fn, HasSuffix("array.NewRecordBatchWithMetadata")) {
			if len(cs.Common().Args) == 4 && strings.Contains(u.Describe(cs.Arg(3)), "RecordBatchWithMetadata.Metadata(") && strings.Contains(u.Describe(cs.Arg(3)), "("+u.VarName(fn.Params[0])+")") {
				okM = true
			}
		}
		r.Check(okM, "R-CAST-KEEPS-META", "castRecordBatch", u.Pos(fn.Pos()), "a cast batch is rebuilt with the source's Metadata()", "castRecordBatch does not carry the source batch's custom metadata onto the cast batch: a castable-but-not-equal input loses its user metadata over a pipe (the HTTP route captures it before the cast), so the two transports differ")
	}
	// R-CAST-WHENEVER-DIFFERENT: on both transports the input cast is decided by the schemas
	// (and cancellation) alone, never by the batch's contents.
	n := 0
	for _, name := range []string{"(*HttpServer).handleStreamExchange", "(*Server).serveStream"} {
		fn := u.Func(name)
		if fn == nil {
			continue
		}
		for _, cs := range u.Calls(fn, Is("castRecordBatch")) {
			n++
			bad := ""
			for _, g := range u.GuardStrings(cs.Instr) {
				if strings.Contains(g, ".NumRows(") || strings.Contains(g, ".NumCols(") || strings.Contains(g, ".Column(") {
					bad = g
				}
			}
			r.Check(bad == "", "R-CAST-WHENEVER-DIFFERENT", shortName(fn)+"|cast#"+itoa(n), u.Pos(cs.Instr.Pos()), "cast decided by schema inequality only", "the input cast in "+shortName(fn)+" also depends on "+bad+": a batch the other transport casts reaches the state uncast here")
		}
	}
	r.Check(n >= 3, "R-CAST-WHENEVER-DIFFERENT", "cast-sites", "-", itoa(n)+" cast sites examined", "only "+itoa(n)+" cast sites found (3 confirmed by hand)")
	// R-CALLTOKEN-SCHEMA: the call token minted by /init records the output schema the response
	// itself is written with (the StreamResult's), on the producer and the exchange branch.
	if fn := c.Fn("R-CALLTOKEN-SCHEMA", "(*HttpServer).handleStreamInit"); fn != nil {
		writerSchemas := map[string]bool{}
		for _, cs := range u.Calls(fn, HasSuffix("ipc.WithSchema")) {
			writerSchemas[u.Describe(cs.Arg(0))] = true
		}
		k := 0
		for _, cs := range u.Calls(fn, Or(Is("(*HttpServer).packCallToken"), Is("(*HttpServer).packCallTokenFor"))) {
			k++
			d := u.Describe(cs.Arg(2))
			r.Check(writerSchemas[d], "R-CALLTOKEN-SCHEMA", "handleStreamInit|"+strings.TrimPrefix(cs.Callee, "(*HttpServer).")+"#"+itoa(k), u.Pos(cs.Instr.Pos()), "token carries the schema the response is written with", "the call token is minted with "+d+", not with the schema the response stream is written with: a dynamic-schema stream cannot be continued (the continuation recovers a different/nil output schema)")
		}
		if k == 0 {
			r.Undec("R-CALLTOKEN-SCHEMA", "handleStreamInit", u.Pos(fn.Pos()), "no call-token minting found")
		}
	}
	r.Floor("R-CAST-KEEPS-META", 1)
	r.Floor("R-CAST-WHENEVER-DIFFERENT", 4)
	r.Floor("R-CALLTOKEN-SCHEMA", 2)
}

// ---------------------------------------------------------------- C17

// valueOnlyFrom: v is, on every path, a result of a call to `callee` (possibly returned
// through root-package helpers, to the given depth) or the empty string.
func valueOnlyFrom(u *Unit, v ssa.Value, callee string, depth int, seen map[ssa.Value]bool) (bool, string) {
	if seen[v] {
		return true, ""
	}
	seen[v] = true
	switch y := v.(type) {
	case *ssa.Const:
		return true, ""
	case *ssa.Phi:
		for _, e := range y.Edges {
			if ok, why := valueOnlyFrom(u, e, callee, depth, seen); !ok {
				return false, why
			}
		}
		return true, ""
	case *ssa.Extract:
		call, ok := y.Tuple.(*ssa.Call)
		if !ok {
			return false, u.Describe(v)
		}
		sc := call.Call.StaticCallee()
		if sc == nil {
			return false, u.Describe(v)
		}
		if shortName(sc) == callee {
			return true, ""
		}
		if depth <= 0 || sc.Pkg == nil || sc.Pkg.Pkg != u.Root.Types {
			return false, "a result of " + shortName(sc)
		}
		for _, b := range sc.Blocks {
			for _, in := range b.Instrs {
				ret, isRet := in.(*ssa.Return)
				if !isRet || y.Index >= len(ret.Results) {
					continue
				}
				if ok, why := valueOnlyFrom(u, ReturnValue(ret, y.Index), callee, depth-1, seen); !ok {
					return false, shortName(sc) + " returns " + why
				}
			}
		}
		return true, ""
	}
	return false, u.Describe(v)
}

func seedfix4C17(c *Ctx) {
	u, r := c.U, c.R
	// R-NEGOTIATE-PER-REQUEST: the codec a response is compressed with is what
	// chooseResponseEncoding answered for this request against the current producible set —
	// not a value remembered from an earlier request or configuration.
	if fn := c.Fn("R-NEGOTIATE-PER-REQUEST", "(*HttpServer).ServeHTTP"); fn != nil {
		n := 0
		Instrs(fn, func(in ssa.Instruction) {
			st, ok := in.(*ssa.Store)
			if !ok {
				return
			}
			fa, ok := st.Addr.(*ssa.FieldAddr)
			if !ok {
				return
			}
			fnm := fieldName(derefType(fa.X.Type()), fa.Field)
			if !strings.HasSuffix(typeShort(derefType(fa.X.Type())), "compressResponseWriter") || (fnm != "encoding" && fnm != "useCustomHeader") {
				return
			}
			n++
			okV, why := valueOnlyFrom(u, st.Val, "chooseResponseEncoding", 2, map[ssa.Value]bool{})
			r.Check(okV, "R-NEGOTIATE-PER-REQUEST", "ServeHTTP|"+fnm, u.Pos(in.Pos()), "taken from this request's chooseResponseEncoding result", "the response writer's "+fnm+" is "+why+", not this request's negotiation result: after a level change the server keeps producing (or refusing) a codec its advertisement no longer matches")
		})
		if n == 0 {
			r.Undec("R-NEGOTIATE-PER-REQUEST", "ServeHTTP", u.Pos(fn.Pos()), "no compressResponseWriter construction found")
		}
		// and the producible set given to the negotiation is computed at the call
		k := 0
		for _, f := range u.SrcFuncs() {
			for _, cs := range u.Calls(f, Is("chooseResponseEncoding")) {
				k++
				call, isCall := cs.Arg(2).(*ssa.Call)
				okP := isCall && u.CalleeName(&call.Call) == "(*HttpServer).producibleResponseEncodings"
				r.Check(okP, "R-NEGOTIATE-PER-REQUEST", shortName(f)+"|producible#"+itoa(k), u.Pos(cs.Instr.Pos()), "negotiates against producibleResponseEncodings() computed at the call", "chooseResponseEncoding is given "+u.Describe(cs.Arg(2))+" rather than the current producible set")
			}
		}
	}
	r.Floor("R-NEGOTIATE-PER-REQUEST", 3)
}

// ---------------------------------------------------------------- C18

func seedfix4C18(c *Ctx) {
	u, r := c.U, c.R
	// R-EXEMPT-WHOLE-SEGMENT: the size-cap exemption matches the health route exactly or as a
	// path prefix ending in "/".
	if fn := c.Fn("R-EXEMPT-WHOLE-SEGMENT", "(*HttpServer).isMaxBytesExempt"); fn != nil {
		n := 0
		for _, cs := range u.Calls(fn, Is("strings.HasPrefix")) {
			n++
			okS := false
			if b, isB := cs.Arg(1).(*ssa.BinOp); isB && b.Op == token.ADD {
				if s, isS := ConstString(b.Y); isS && strings.HasSuffix(s, "/") {
					okS = true
				}
			}
			if s, isS := ConstString(cs.Arg(1)); isS && strings.HasSuffix(s, "/") {
				okS = true
			}
			r.Check(okS, "R-EXEMPT-WHOLE-SEGMENT", "isMaxBytesExempt|prefix#"+itoa(n), u.Pos(cs.Instr.Pos()), "prefix test ends at a path separator", "the exemption tests HasPrefix(path, "+u.Describe(cs.Arg(1))+"), which also matches RPC routes whose name merely begins with the health route: their over-cap bodies are read in full and answered 400 instead of 413")
		}
		if n == 0 {
			r.Ok("R-EXEMPT-WHOLE-SEGMENT", "isMaxBytesExempt|no-prefix-test", u.Pos(fn.Pos()), "no prefix test (exact matches only)")
		}
	}
	// R-CLAMP-REACHES-DEFAULT: whenever the 16× default for the decoded-size cap is taken, the
	// request-cap clamp is consulted on the same path (before or after it).
	if fn := c.Fn("R-CLAMP-REACHES-DEFAULT", "(*HttpServer).readHTTPBody"); fn != nil {
		var mul ssa.Instruction
		Instrs(fn, func(in ssa.Instruction) {
			if b, ok := in.(*ssa.BinOp); ok && b.Op == token.MUL {
				if k, isK := ConstInt(b.Y); isK && k > 1 {
					mul = in
				} else if k, isK := ConstInt(b.X); isK && k > 1 {
					mul = in
				}
			}
		})
		var clampIfs []*ssa.If
		Instrs(fn, func(in ssa.Instruction) {
			if iff, ok := in.(*ssa.If); ok && strings.Contains(u.Describe(iff.Cond), "requestCapApplied") {
				clampIfs = append(clampIfs, iff)
			}
		})
		dec := u.Calls(fn, Is("decompressBounded"))
		if mul == nil || len(dec) != 1 || len(clampIfs) == 0 {
			r.Undec("R-CLAMP-REACHES-DEFAULT", "readHTTPBody", u.Pos(fn.Pos()), "default multiplication, clamp test or decompressBounded call not found")
		} else {
			before := false
			for _, iff := range clampIfs {
				if Dominates(iff, mul) {
					before = true
				}
			}
			isClamp := func(in ssa.Instruction) bool {
				for _, iff := range clampIfs {
					if in == ssa.Instruction(iff) {
						return true
					}
				}
				return false
			}
			_, skips := ReachWithout(fn, mul, isInstr(dec[0].Instr), isClamp)
			r.Check(before || !skips, "R-CLAMP-REACHES-DEFAULT", "readHTTPBody", u.Pos(mul.Pos()), "the 16× default is taken only on paths that test requestCapApplied", "the 16× default decoded-size cap reaches decompressBounded on a path that never tests requestCapApplied: with only max_request_bytes configured a compressed body decodes to 16× the advertised cap (and is refused 400, not 413, beyond that)")
		}
	}
	// R-GZIP-ALL-MEMBERS: gzip bodies are decoded to their end (multistream stays on).
	n := 0
	for _, f := range u.SrcFuncs() {
		for _, cs := range u.Calls(f, Is("(*compress/gzip.Reader).Multistream")) {
			n++
			r.Viol("R-GZIP-ALL-MEMBERS", shortName(f), u.Pos(cs.Instr.Pos()), shortName(f)+" changes the gzip reader's multistream mode: a multi-member body is silently truncated to its first member (decoded bytes differ, and an over-cap body whose first member fits is accepted)")
		}
	}
	if n == 0 {
		r.Ok("R-GZIP-ALL-MEMBERS", "package", "-", "no gzip reader has multistream switched off")
	}
	r.Floor("R-EXEMPT-WHOLE-SEGMENT", 1)
	r.Floor("R-CLAMP-REACHES-DEFAULT", 1)
	r.Floor("R-GZIP-ALL-MEMBERS", 1)
}

// ---------------------------------------------------------------- C28

func seedfix4C28(c *Ctx) {
	u, r := c.U, c.R
	// R-READER-SINGLE: each exported reader is one parseQuotedParam lookup of its own
	// parameter name — no fallback to another parameter.
	n := 0
	for _, name := range []string{"ParseResourceMetadataURL", "ParseClientID", "ParseUseIDTokenAsBearer", "ParseClientSecret", "ParseDeviceCodeClientID", "ParseDeviceCodeClientSecret"} {
		fn := u.Func(name)
		if fn == nil {
			continue
		}
		n++
		calls := 0
		lookups := 0
		for _, cs := range u.Calls(fn, nil) {
			if neutralCallee(cs.Callee) {
				continue
			}
			calls++
			if cs.Callee == "parseQuotedParam" {
				lookups++
			}
		}
		r.Check(calls == 1 && lookups == 1, "R-READER-SINGLE", name, u.Pos(fn.Pos()), "one lookup of its own parameter", name+" makes "+itoa(calls)+" call(s), "+itoa(lookups)+" of them parseQuotedParam: an absent parameter is answered from another one instead of read as empty")
	}
	r.Check(n == 6, "R-READER-SINGLE", "readers", "-", "6 readers examined", "only "+itoa(n)+" of the 6 readers found")
	// R-CHALLENGE-REBUILT: every successful SetOAuthResourceMetadata rebuilds the challenge from
	// the metadata just stored.
	if fn := c.Fn("R-CHALLENGE-REBUILT", "(*HttpServer).SetOAuthResourceMetadata"); fn != nil {
		isStore := func(in ssa.Instruction) bool {
			st, ok := in.(*ssa.Store)
			if !ok {
				return false
			}
			fa, ok := st.Addr.(*ssa.FieldAddr)
			return ok && fieldName(derefType(fa.X.Type()), fa.Field) == "wwwAuthenticate"
		}
		isSuccess := func(in ssa.Instruction) bool {
			ret, ok := in.(*ssa.Return)
			return ok && len(ret.Results) == 1 && isNilConst(ReturnValue(ret, 0))
		}
		first := fn.Blocks[0].Instrs[0]
		at, miss := ReachWithout(fn, first, isSuccess, isStore)
		pos := u.Pos(fn.Pos())
		if miss && at != nil {
			pos = u.Pos(at.Pos())
		}
		r.Check(!miss, "R-CHALLENGE-REBUILT", "SetOAuthResourceMetadata", pos, "every success return follows a store of wwwAuthenticate", "SetOAuthResourceMetadata can succeed without rebuilding wwwAuthenticate: after a reconfiguration the 401 challenge still carries the previous client id/secret/flags")
	}
	r.Floor("R-READER-SINGLE", 7)
	r.Floor("R-CHALLENGE-REBUILT", 1)
}

// ---------------------------------------------------------------- C30

func seedfix4C30(c *Ctx) {
	u, r := c.U, c.R
	pooledBufferEscapes(c, "R-NO-POOLED-BYTES", nil)
	// R-SHA-WHENEVER-PRESENT: the checksum comparison depends only on the pointer carrying a
	// checksum (and the fetch having succeeded) — never on how the body was encoded.
	if fn := c.Fn("R-SHA-WHENEVER-PRESENT", "ResolveExternalLocation"); fn != nil {
		n := 0
		for _, cs := range u.Calls(fn, Is("crypto/sha256.Sum256")) {
			n++
			var extra []string
			for _, g := range u.GuardStrings(cs.Instr) {
				switch {
				case strings.Contains(g, "vgi_rpc.location"), strings.Contains(g, "IsExternalLocationBatch("), strings.HasSuffix(g, " == nil)"), strings.HasSuffix(g, " != nil)"):
				default:
					extra = append(extra, g)
				}
			}
			r.Check(len(extra) == 0, "R-SHA-WHENEVER-PRESENT", "ResolveExternalLocation|sha#"+itoa(n), u.Pos(cs.Instr.Pos()), "checksum verified whenever the pointer names one", "the checksum is verified only under "+strings.Join(extra, " && ")+": a download that does not match its pointer's sha256 is accepted on the other paths")
		}
		if n == 0 {
			r.Undec("R-SHA-WHENEVER-PRESENT", "ResolveExternalLocation", u.Pos(fn.Pos()), "no sha256 computation found")
		}
	}
	r.Floor("R-NO-POOLED-BYTES", 1)
	r.Floor("R-SHA-WHENEVER-PRESENT", 1)
}

// ---------------------------------------------------------------- C21

func seedfix4C21(c *Ctx) {
	u, r := c.U, c.R
	// R-EXCEPTION-BEFORE-MISMATCH: a response whose schema differs from the declaration is
	// rejected as schema drift only after its batches were searched for an exception envelope
	// (the server frames pre-stream failures — a failed init, a refused request — on an empty
	// schema; they must surface as the typed error they carry).
	fn := c.Fn("R-EXCEPTION-BEFORE-MISMATCH", "(*HttpClient).parseIPCStream")
	if fn == nil {
		return
	}
	// a "read" is reader.Next() itself or a root-package helper that loops over it
	readsStream := func(f *ssa.Function) bool {
		return f != nil && len(u.Calls(f, HasSuffix("ipc.Reader).Next"))) > 0
	}
	returnsException := func(f *ssa.Function) bool {
		return f != nil && len(u.Calls(f, Is("rpcErrorFromMetadata"))) > 0
	}
	isNext := func(in ssa.Instruction) bool {
		ci, ok := in.(*ssa.Call)
		if !ok {
			return false
		}
		if strings.HasSuffix(u.CalleeName(&ci.Call), "ipc.Reader).Next") {
			return true
		}
		sc := ci.Call.StaticCallee()
		return sc != nil && sc.Pkg != nil && sc.Pkg.Pkg == u.Root.Types && sc != fn && readsStream(sc)
	}
	n := 0
	Instrs(fn, func(in ssa.Instruction) {
		ret, ok := in.(*ssa.Return)
		if !ok || len(ret.Results) != 2 || isNilConst(ReturnValue(ret, 1)) {
			return
		}
		mismatch := false
		for _, g := range GuardsAt(in.Block()) {
			if call, isCall := g.Cond.(*ssa.Call); isCall && !g.Truth && u.CalleeName(&call.Call) == "clientSchemasEqual" {
				mismatch = true
			}
		}
		if !mismatch {
			return
		}
		// the typed-exception return inside the mismatch branch is the point of the scan
		if call := rootCall(ReturnValue(ret, 1)); call != nil && (u.CalleeName(&call.Call) == "rpcErrorFromMetadata" || returnsException(call.Call.StaticCallee())) {
			return
		}
		n++
		first := fn.Blocks[0].Instrs[0]
		_, direct := ReachWithout(fn, first, isInstr(in), isNext)
		r.Check(!direct, "R-EXCEPTION-BEFORE-MISMATCH", "parseIPCStream|mismatch@"+exitKey(u, in.Block()), u.Pos(in.Pos()), "schema drift is reported only after the batches were read", "parseIPCStream rejects a differing schema without reading a batch: a server exception framed on the empty schema (failed stream init, refused request) surfaces as a 'response schema mismatch' TypeError instead of the typed error it carries")
	})
	if n == 0 {
		r.Undec("R-EXCEPTION-BEFORE-MISMATCH", "parseIPCStream", u.Pos(fn.Pos()), "no schema-mismatch refusal found")
	} else {
		scan := false
		for _, cs := range u.Calls(fn, nil) {
			if cs.Callee != "rpcErrorFromMetadata" && !returnsException(cs.Common().StaticCallee()) {
				continue
			}
			for _, g := range GuardsAt(cs.Instr.Block()) {
				if call, isCall := g.Cond.(*ssa.Call); isCall && !g.Truth && u.CalleeName(&call.Call) == "clientSchemasEqual" {
					scan = true
				}
			}
		}
		r.Check(scan, "R-EXCEPTION-BEFORE-MISMATCH", "parseIPCStream|typed-exception", u.Pos(fn.Pos()), "an exception envelope found on a differing schema is returned as the typed error", "the differing-schema branch never returns rpcErrorFromMetadata(...)")
	}
	r.Floor("R-EXCEPTION-BEFORE-MISMATCH", 2)
}

// ---------------------------------------------------------------- C32

func seedfix4C32(c *Ctx) {
	u, r := c.U, c.R
	fn := c.Fn("R-FIRST-RESULT-COUNTS", "FetchWithParallelRangeRequests")
	if fn == nil {
		return
	}
	// R-FIRST-RESULT-COUNTS: a chunk is stored and counted off only when its slot is still empty
	// (a second delivery of the same chunk — hedge or late original — changes nothing).
	n := 0
	Instrs(fn, func(in ssa.Instruction) {
		b, ok := in.(*ssa.BinOp)
		if !ok || b.Op != token.SUB {
			return
		}
		if k, isK := ConstInt(b.Y); !isK || k != 1 {
			return
		}
		if u.Describe(b.X) != "chunksRemaining" {
			return
		}
		n++
		okG := false
		for _, g := range u.GuardStrings(in) {
			if strings.HasPrefix(g, "(results[") && strings.HasSuffix(g, "== nil)") {
				okG = true
			}
		}
		r.Check(okG, "R-FIRST-RESULT-COUNTS", "FetchWithParallelRangeRequests|decrement#"+itoa(n), u.Pos(in.Pos()), "counted off only while results[index] is still nil", "chunksRemaining is decremented without results[index] == nil dominating it: a chunk delivered twice (original after its winning hedge) is counted twice, so the loop ends with another chunk still missing")
	})
	if n == 0 {
		r.Undec("R-FIRST-RESULT-COUNTS", "FetchWithParallelRangeRequests", u.Pos(fn.Pos()), "no decrement of chunksRemaining found")
	}
	// R-CHUNKS-TILE: the chunk count is ceil(length / S) for the very S the ranges are laid out
	// with, and neither is reassigned.
	var ceilDiv ssa.Value
	for _, cs := range u.Calls(fn, Is("math.Ceil")) {
		if q, ok := cs.Arg(0).(*ssa.BinOp); ok && q.Op == token.QUO {
			ceilDiv = q.Y
			if cv, isC := ceilDiv.(*ssa.Convert); isC {
				ceilDiv = cv.X
			}
		}
	}
	var strides []ssa.Value
	for _, f := range WithAnon(fn) {
		Instrs(f, func(in ssa.Instruction) {
			b, ok := in.(*ssa.BinOp)
			if !ok || b.Op != token.MUL {
				return
			}
			if cv, isC := b.X.(*ssa.Convert); isC && strings.HasSuffix(u.Describe(cv.X), "index") {
				strides = append(strides, b.Y)
			}
		})
	}
	if ceilDiv == nil || len(strides) == 0 {
		r.Undec("R-CHUNKS-TILE", "FetchWithParallelRangeRequests", u.Pos(fn.Pos()), "ceil division or range stride not found")
	} else {
		for i, s := range strides {
			r.Check(u.Describe(s) == u.Describe(ceilDiv) && !strings.Contains(u.Describe(s), "chunkSize"), "R-CHUNKS-TILE", "FetchWithParallelRangeRequests|stride#"+itoa(i+1), u.Pos(fn.Pos()), "ranges advance by the divisor of the chunk count", "ranges advance by "+u.Describe(s)+" but the chunk count is ceil(length / "+u.Describe(ceilDiv)+"): the chunks no longer tile the resource (a tail is never requested)")
		}
		stores := 0
		for _, f := range WithAnon(fn) {
			Instrs(f, func(in ssa.Instruction) {
				if st, ok := in.(*ssa.Store); ok && u.Describe(st.Addr) == "&numChunks" {
					stores++
				}
			})
		}
		r.Check(stores <= 1, "R-CHUNKS-TILE", "FetchWithParallelRangeRequests|numChunks-single", u.Pos(fn.Pos()), "numChunks is assigned once", "numChunks is assigned "+itoa(stores)+" times: the count the loop waits for is no longer ceil(length / chunk size)")
	}
	r.Floor("R-FIRST-RESULT-COUNTS", 1)
	r.Floor("R-CHUNKS-TILE", 2)
}

// ---------------------------------------------------------------- C34

func seedfix4C34(c *Ctx) {
	u, r := c.U, c.R
	// R-ATTACH-SIZE-EXACT: an attacher accepts a header only when its data_size equals the size
	// it mapped (a smaller view would place dataEnd before live table entries).
	if fn := c.Fn("R-ATTACH-SIZE-EXACT", "(*ShmSegment).validateHeader"); fn != nil {
		n := 0
		Instrs(fn, func(in ssa.Instruction) {
			iff, ok := in.(*ssa.If)
			if !ok {
				return
			}
			b, ok := iff.Cond.(*ssa.BinOp)
			if !ok || !strings.Contains(u.Describe(b), ".Uint64(") {
				return
			}
			n++
			r.Check(b.Op == token.NEQ || b.Op == token.EQL, "R-ATTACH-SIZE-EXACT", "validateHeader|data_size", u.Pos(in.Pos()), "data_size compared for equality", "validateHeader accepts a header under "+u.Describe(b)+" being false: a peer that maps less than the segment's data area computes gaps past its own dataEnd (unsigned underflow) and allocates outside the data area")
		})
		if n == 0 {
			r.Undec("R-ATTACH-SIZE-EXACT", "validateHeader", u.Pos(fn.Pos()), "no data_size comparison found")
		}
	}
	r.Floor("R-ATTACH-SIZE-EXACT", 1)
}

// ---------------------------------------------------------------- C35

func seedfix4C35(c *Ctx) {
	u, r := c.U, c.R
	// R-FREE-KEEPS-ORDER: freeAtLocked removes an entry by closing the gap (slice + append); it
	// never stores into a table slot (moving the tail entry breaks the offset order the
	// allocator's gap arithmetic depends on, and later writes overlap live batches).
	if fn := c.Fn("R-FREE-KEEPS-ORDER", "(*ShmSegment).freeAtLocked"); fn != nil {
		bad := ""
		Instrs(fn, func(in ssa.Instruction) {
			st, ok := in.(*ssa.Store)
			if !ok {
				return
			}
			if ia, isIA := st.Addr.(*ssa.IndexAddr); isIA && strings.Contains(u.Describe(ia.X), "readAllocs(") {
				bad = u.Describe(st.Addr) + " <- " + u.Describe(st.Val)
			}
		})
		apps := 0
		for _, cs := range u.Calls(fn, Is("append")) {
			if strings.Contains(u.Describe(cs.Arg(0)), "readAllocs(") {
				apps++
			}
		}
		r.Check(bad == "" && apps == 1, "R-FREE-KEEPS-ORDER", "freeAtLocked", u.Pos(fn.Pos()), "entry removed by append(allocs[:i], allocs[i+1:]...)", "freeAtLocked rewrites a table slot ("+bad+") instead of closing the gap: the table is no longer sorted by offset, so a later allocation overlaps a live batch and that batch no longer reads back")
	}
	// R-SOURCE-ALWAYS-STAMPED: a resolved batch records the segment it was resolved from,
	// whatever keys the pointer already carried.
	if fn := c.Fn("R-SOURCE-ALWAYS-STAMPED", "ResolveShmBatch"); fn != nil {
		n := 0
		Instrs(fn, func(in ssa.Instruction) {
			st, ok := in.(*ssa.Store)
			if !ok {
				return
			}
			if s, isS := ConstString(st.Val); !isS || s != "vgi_rpc.shm_source" {
				return
			}
			n++
			bad := ""
			for _, g := range u.GuardStrings(in) {
				if strings.Contains(g, "shm_source") {
					bad = g
				}
			}
			r.Check(bad == "", "R-SOURCE-ALWAYS-STAMPED", "ResolveShmBatch|source#"+itoa(n), u.Pos(in.Pos()), "source key appended regardless of the pointer's own metadata", "the source key is appended only under "+bad+": a batch relayed through a second segment keeps the first segment's name")
		})
		if n == 0 {
			r.Undec("R-SOURCE-ALWAYS-STAMPED", "ResolveShmBatch", u.Pos(fn.Pos()), "the source key is never appended")
		}
	}
	r.Floor("R-FREE-KEEPS-ORDER", 1)
	r.Floor("R-SOURCE-ALWAYS-STAMPED", 1)
}

// ---------------------------------------------------------------- C36

func seedfix4C36(c *Ctx) {
	// the shm write path's schema-header cache and nested-dictionary detection decide whether
	// a shm session's results equal the plain session's: R-NESTED-COVERAGE, R-SCHEMA-CACHE-KEY
	seedfixC35(c)
}

// ---------------------------------------------------------------- C38

func seedfix4C38(c *Ctx) {
	u, r := c.U, c.R
	pooledBufferEscapes(c, "R-NO-POOLED-BYTES", nil)
	// R-STREAM-ID-FIXED-WIDTH: RandomStreamID formats all 16 bytes with a fixed-width encoder.
	if fn := c.Fn("R-STREAM-ID-FIXED-WIDTH", "RandomStreamID"); fn != nil {
		n := 0
		Instrs(fn, func(in ssa.Instruction) {
			ret, ok := in.(*ssa.Return)
			if !ok {
				return
			}
			n++
			v := ReturnValue(ret, 0)
			if s, isS := ConstString(v); isS {
				r.Check(len(s) == 32, "R-STREAM-ID-FIXED-WIDTH", "RandomStreamID|const", u.Pos(in.Pos()), "fallback id has 32 characters", "fallback stream id has "+itoa(len(s))+" characters")
				return
			}
			okW := false
			if call, isCall := v.(*ssa.Call); isCall && u.CalleeName(&call.Call) == "encoding/hex.EncodeToString" {
				if sl, isSl := call.Call.Args[0].(*ssa.Slice); isSl && sl.Low == nil && sl.High == nil {
					if pt, isP := sl.X.Type().Underlying().(*types.Pointer); isP {
						if at, isA := pt.Elem().Underlying().(*types.Array); isA && at.Len() == 16 {
							okW = true
						}
					}
				}
			}
			r.Check(okW, "R-STREAM-ID-FIXED-WIDTH", "RandomStreamID|random", u.Pos(in.Pos()), "hex.EncodeToString over the whole 16-byte array (always 32 digits)", "RandomStreamID returns "+u.Describe(v)+": not a fixed-width encoding of all 16 bytes — ids with leading zero digits come out shorter than 32 hex characters")
		})
		if n == 0 {
			r.Undec("R-STREAM-ID-FIXED-WIDTH", "RandomStreamID", u.Pos(fn.Pos()), "no return")
		}
	}
	r.Floor("R-NO-POOLED-BYTES", 1)
	r.Floor("R-STREAM-ID-FIXED-WIDTH", 2)
}

// ---------------------------------------------------------------- C39

func seedfix4C39(c *Ctx) {
	u, r := c.U, c.R
	// R-ERROR-NEVER-SAMPLED-OUT: keep answers false only under status != "error" (standing
	// alone as a dominating test, not one conjunct of a wider condition).
	if fn := c.Fn("R-ERROR-NEVER-SAMPLED-OUT", "(*accessLogSampler).keep"); fn != nil {
		n := 0
		Instrs(fn, func(in ssa.Instruction) {
			ret, ok := in.(*ssa.Return)
			if !ok || len(ret.Results) != 1 {
				return
			}
			k, isK := ReturnValue(ret, 0).(*ssa.Const)
			if isK && k.Value != nil && k.Value.String() == "true" {
				return
			}
			n++
			okG := false
			for _, g := range u.GuardStrings(in) {
				if strings.Contains(g, "[\"status\"] != \"error\")") {
					okG = true
				}
			}
			r.Check(okG, "R-ERROR-NEVER-SAMPLED-OUT", "keep|drop@"+exitKey(u, in.Block()), u.Pos(in.Pos()), "a record can be dropped only under status != \"error\"", "keep can answer "+u.Describe(ReturnValue(ret, 0))+" without status != \"error\" dominating it: some error records (e.g. of cancelled streams) are sampled out")
		})
		if n == 0 {
			r.Undec("R-ERROR-NEVER-SAMPLED-OUT", "keep", u.Pos(fn.Pos()), "no dropping return found")
		}
	}
	// R-ENQUEUE-NO-LOCK: emit hands the record to the async emitter holding no lock (the writer
	// goroutine holds h.mu across the sink's Write).
	if fn := c.Fn("R-ENQUEUE-NO-LOCK", "(*AccessLogHook).emit"); fn != nil {
		held := u.LockHeldAt(fn)
		n := 0
		for _, cs := range u.Calls(fn, Is("(*asyncEmitter).enqueue")) {
			n++
			var hs []string
			for l := range held[cs.Instr] {
				hs = append(hs, l)
			}
			r.Check(len(hs) == 0, "R-ENQUEUE-NO-LOCK", "emit|enqueue#"+itoa(n), u.Pos(cs.Instr.Pos()), "enqueue is called with no lock held", "emit calls enqueue holding "+strings.Join(hs, ", ")+": the writer goroutine holds that lock across the sink's Write, so a stalled disk write blocks every dispatch end")
		}
		locks := 0
		for _, cs := range u.Calls(fn, Or(Is("(*sync.Mutex).Lock"), Is("(*sync.RWMutex).Lock"), Is("(*sync.RWMutex).RLock"))) {
			_ = cs
			locks++
		}
		r.Check(locks == 0, "R-ENQUEUE-NO-LOCK", "emit|lock-free", u.Pos(fn.Pos()), "emit takes no lock itself", "emit takes a lock on the dispatch path")
		if n == 0 {
			r.Undec("R-ENQUEUE-NO-LOCK", "emit", u.Pos(fn.Pos()), "no enqueue call found")
		}
	}
	r.Floor("R-ERROR-NEVER-SAMPLED-OUT", 1)
	r.Floor("R-ENQUEUE-NO-LOCK", 2)
}

// ---------------------------------------------------------------- C40

func seedfix4C40(c *Ctx) {
	u, r := c.U, c.R
	// R-START-HOOK-EVERY-REQUEST: ServeHTTP itself calls notifyTransport (which is idempotent
	// once committed), so a failed hook is run again by the next request — it is not parked
	// behind a sync.Once that is spent whatever the outcome.
	if fn := c.Fn("R-START-HOOK-EVERY-REQUEST", "(*HttpServer).ServeHTTP"); fn != nil {
		direct := len(u.Calls(fn, Is("(*Server).notifyTransport")))
		inOnce := 0
		for _, f := range WithAnon(fn) {
			if f == fn {
				continue
			}
			inOnce += len(u.Calls(f, Is("(*Server).notifyTransport")))
		}
		r.Check(direct >= 1 && inOnce == 0, "R-START-HOOK-EVERY-REQUEST", "ServeHTTP", u.Pos(fn.Pos()), "notifyTransport is called by ServeHTTP itself on every request", "ServeHTTP reaches notifyTransport "+itoa(direct)+" time(s) directly and "+itoa(inOnce)+" time(s) inside a closure (sync.Once): after the hook fails once it is never re-run and later requests are served with no transport committed")
	}
	// R-ENCODER-RETURNED-ONCE: finish gives the pooled encoder back exactly once on every path.
	if fn := c.Fn("R-ENCODER-RETURNED-ONCE", "(*compressResponseWriter).finish"); fn != nil {
		ncw := u.Calls(fn, Is("newCompressWriter"))
		if len(ncw) != 1 {
			r.Undec("R-ENCODER-RETURNED-ONCE", "finish", u.Pos(fn.Pos()), "expected one newCompressWriter call")
		} else {
			isClose := func(in ssa.Instruction) bool {
				ci, ok := in.(*ssa.Call)
				return ok && ci.Call.IsInvoke() && ci.Call.Method.Name() == "Close"
			}
			worstMax, worstMin := 0, 99
			for _, mm := range CountOnPaths(fn, ncw[0].Instr, isClose, IsReturn) {
				if mm.Max > worstMax {
					worstMax = mm.Max
				}
				if mm.Min < worstMin {
					worstMin = mm.Min
				}
			}
			// the init-failure return closes nothing; every other return closes once
			r.Check(worstMax == 1, "R-ENCODER-RETURNED-ONCE", "finish", u.Pos(ncw[0].Instr.Pos()), "the codec writer is closed at most once on every path", "finish can Close the pooled codec writer "+itoa(worstMax)+" times on one path: the same encoder is put into the pool twice and two concurrent responses then share it (a data race; bodies are corrupted)")
		}
	}
	r.Floor("R-START-HOOK-EVERY-REQUEST", 1)
	r.Floor("R-ENCODER-RETURNED-ONCE", 1)
}

// ---------------------------------------------------------------- C42

// closureTargets resolves a dynamically called closure value to the functions it may be.
func closureTargets(u *Unit, v ssa.Value) []*ssa.Function {
	var out []*ssa.Function
	fromAlloc := func(al *ssa.Alloc) {
		for _, ref := range *al.Referrers() {
			if st, ok := ref.(*ssa.Store); ok && st.Addr == ssa.Value(al) {
				if mc, isMC := st.Val.(*ssa.MakeClosure); isMC {
					out = append(out, mc.Fn.(*ssa.Function))
				}
			}
		}
	}
	switch y := v.(type) {
	case *ssa.MakeClosure:
		out = append(out, y.Fn.(*ssa.Function))
	case *ssa.Function:
		out = append(out, y)
	case *ssa.UnOp:
		switch x := y.X.(type) {
		case *ssa.Alloc:
			fromAlloc(x)
		case *ssa.FreeVar:
			if b, ok := u.freeVarBinding(x).(*ssa.Alloc); ok {
				fromAlloc(b)
			}
		}
	}
	return out
}

func seedfix4C42(c *Ctx) {
	u, r := c.U, c.R
	// R-NO-STALE-TIMER: a pending idle timer from an earlier quiet period is stopped before it
	// can fire in a later one: either arming a timer first stops the previous one, or
	// accepting a connection does.
	for _, name := range []string{"(*Server).RunTcp", "(*Server).RunUnix"} {
		fn := u.Func(name)
		if fn == nil {
			continue
		}
		anons := WithAnon(fn)
		stops := map[*ssa.Function]bool{}
		for _, f := range anons {
			if f != fn && len(u.Calls(f, Is("(*time.Timer).Stop"))) > 0 {
				stops[f] = true
			}
		}
		stopsTimer := func(in ssa.Instruction) bool {
			ci, ok := in.(*ssa.Call)
			if !ok {
				return false
			}
			if u.CalleeName(&ci.Call) == "(*time.Timer).Stop" {
				return true
			}
			for _, t := range closureTargets(u, ci.Call.Value) {
				if stops[t] {
					return true
				}
			}
			return false
		}
		armed := 0
		armStops := false
		for _, f := range anons {
			for _, af := range u.Calls(f, Is("time.AfterFunc")) {
				armed++
				Instrs(f, func(in ssa.Instruction) {
					if stopsTimer(in) && Dominates(in, af.Instr) {
						armStops = true
					}
				})
			}
		}
		if armed == 0 {
			continue
		}
		acceptStops := false
		var goInstr ssa.Instruction
		Instrs(fn, func(in ssa.Instruction) {
			if _, ok := in.(*ssa.Go); ok {
				goInstr = in
			}
		})
		for _, acc := range u.Calls(fn, Or(HasSuffix(").Accept"), HasSuffix(".Accept"))) {
			Instrs(fn, func(in ssa.Instruction) {
				if goInstr != nil && stopsTimer(in) && Dominates(acc.Instr, in) && Dominates(in, goInstr) {
					acceptStops = true
				}
			})
		}
		r.Check(armStops || acceptStops, "R-NO-STALE-TIMER", shortName(fn), u.Pos(fn.Pos()), "a pending timer is stopped when a new one is armed or when a connection is accepted", shortName(fn)+" never stops a pending idle timer (neither when arming a new one nor when accepting a connection): a timer left from an earlier quiet period fires during a later, shorter one and closes the listener before a full idle period has passed")
	}
	r.Floor("R-NO-STALE-TIMER", 2)
}

// ---------------------------------------------------------------- C43

func seedfix4C43(c *Ctx) {
	u, r := c.Unit["otel"], c.R
	if u == nil {
		return
	}
	end := u.Func("(*otelHook).OnDispatchEnd")
	start := u.Func("(*otelHook).OnDispatchStart")
	if end == nil || start == nil {
		r.Undec("R-TOKEN-TYPE-AGREES", "otelHook", "-", "OnDispatchStart/OnDispatchEnd not found")
		return
	}
	// R-TOKEN-TYPE-AGREES: every token OnDispatchStart hands out has the dynamic type
	// OnDispatchEnd asserts.
	var asserted types.Type
	Instrs(end, func(in ssa.Instruction) {
		if ta, ok := in.(*ssa.TypeAssert); ok && ta.X == ssa.Value(end.Params[2]) {
			asserted = ta.AssertedType
		}
	})
	n := 0
	Instrs(start, func(in ssa.Instruction) {
		ret, ok := in.(*ssa.Return)
		if !ok || len(ret.Results) != 2 {
			return
		}
		v := ReturnValue(ret, 1)
		if isNilConst(v) {
			return
		}
		mi, isMI := v.(*ssa.MakeInterface)
		if !isMI {
			return
		}
		n++
		r.Check(asserted != nil && types.Identical(mi.X.Type(), asserted), "R-TOKEN-TYPE-AGREES", "OnDispatchStart|token@"+exitKey(u, in.Block()), u.Pos(in.Pos()), "token has the type OnDispatchEnd asserts", "OnDispatchStart returns a token of type "+typeShort(mi.X.Type())+" but OnDispatchEnd asserts "+typeShortOrNil(asserted)+": the end hook silently ignores such dispatches (no metrics, span never ended)")
	})
	if n == 0 {
		r.Undec("R-TOKEN-TYPE-AGREES", "OnDispatchStart", u.Pos(start.Pos()), "no token return found")
	}
	// R-METRIC-ATTRS-PER-CALL: the attribute set given to the instruments is built in this
	// call (it contains the status) — not looked up from a cache keyed without the status.
	k := 0
	for _, suf := range []string{"metric.Int64Counter.Add", "metric.Float64Histogram.Record"} {
		for _, cs := range u.Calls(end, HasSuffix(suf)) {
			k++
			bad := ""
			args := cs.Common().Args
			for _, o := range u.Origins(args[len(args)-1], &OriginOpts{MaxNodes: 300}) {
				if o.Kind == "call" && (strings.Contains(o.Desc, "sync.Map") || strings.Contains(o.Desc, "sync.Pool")) {
					bad = o.Desc
				}
				if o.Kind == "field" || o.Kind == "global" {
					if strings.Contains(strings.ToLower(o.Desc), "attr") {
						bad = o.Kind + " " + o.Desc
					}
				}
			}
			r.Check(bad == "", "R-METRIC-ATTRS-PER-CALL", suf[strings.LastIndex(suf, ".")+1:], u.Pos(cs.Instr.Pos()), "attributes built for this dispatch", "the measurement's attributes come from "+bad+": the status label is the one cached for the first dispatch of that method, so a later failure is counted as ok")
		}
	}
	if k == 0 {
		r.Undec("R-METRIC-ATTRS-PER-CALL", "OnDispatchEnd", u.Pos(end.Pos()), "no instrument call found")
	}
	r.Floor("R-TOKEN-TYPE-AGREES", 2)
	r.Floor("R-METRIC-ATTRS-PER-CALL", 2)
}

func typeShortOrNil(t types.Type) string {
	if t == nil {
		return "no type"
	}
	return typeShort(t)
}
