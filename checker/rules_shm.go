package main

import (
	"go/ast"
	"go/token"
	"sort"
	"strings"

	"golang.org/x/tools/go/ssa"
)

func init() {
	register(&PropInfo{
		ID:    "C34",
		Title: "The shared-memory allocator keeps its table consistent",
		Explanation: "R-HEADER-CONST: ShmHeaderSize=65536, fixed part 24, entry 16, ShmMaxAllocs=4094, magic 'VGIS', version 1. R-HEADER-LAYOUT: every access to the mapped header in initializeHeader / validateHeader / numAllocs / readAllocs / writeAllocs / Reset touches exactly the documented little-endian field (magic [0:4], version [4:8], data_size [8:16] = size-65536, num_allocs [16:20], pad [20:24], entry i at 24+16i: offset u64 then length u64), evaluated as linear forms in the entry index. " +
			"R-FIRST-FIT: allocateLocked refuses size<=0 and a full table, walks entries in table order with prevEnd starting at the header size and advancing to offset+length, succeeds at the first gap >= size by inserting {prevEnd,size} at that index (order preserved), otherwise appends at the tail when dataEnd-prevEnd >= size, otherwise fails; it returns the inserted offset. R-SIBLING-FIT: canFitLocked makes exactly the same comparisons. " +
			"R-FREE-EXACT: freeAtLocked rewrites the table without index i only under entry[i].offset == offset and fails when no entry matches. R-LOCKED-CALLS: allocateLocked/freeAtLocked/canFitLocked are called, and Reset writes the count, only with s.mu held; readAllocs/writeAllocs/numAllocs are called only from those functions. R-CLOSED-UNDER-LOCK: every public entry re-checks closed after taking s.mu before touching the mapping.",
		NotCovered:  []string{"disjointness/in-range of the table after arbitrary histories as an arithmetic fact (follows from first-fit + ordered insertion, not proven here)", "corrupt tables written by a peer process", "behaviour of the OS mapping"},
		Assumptions: []string{"Go slice bounds checks are enabled (no -B build)"},
		Run:         runC34,
	})
	register(&PropInfo{
		ID:    "C35",
		Title: "Batches written to shared memory read back identically and pointers are safe",
		Explanation: "R-DISCRIMINATOR: writer and reader branch on the same predicate — AllocateAndWrite stores the stripped form (serializeForShm) iff schemaHasTopLevelDictionary, the full stream (serializeForShmFull) iff only a nested dictionary exists, and uses the payload fast path only when neither holds; ReadBatch re-synthesises schema+EOS iff schemaHasTopLevelDictionary and otherwise opens the region directly. R-STRIP-SYMMETRY: what serializeForShm removes (first message, trailing 8-byte EOS) is what ReadBatch adds back (schema-only stream minus its EOS, then EOS). R-FASTPATH-LAYOUT: the fast path writes schema bytes, payload, EOS in that order into a slot of exactly their summed size obtained from allocateLocked. " +
			"R-POINTER-PARSE: ResolveShmBatch reads the two pointer keys that makeShmPointerBatch writes, parses them with ParseUint(10,64)/Atoi matching FormatUint(10)/Itoa, and calls ReadBatch only when both parses succeeded, with the parsed values. R-BOUNDS: ReadBatch slices the mapping only under offset+length <= size, after re-checking closed under s.mu; every other variable-bound slice of the mapping uses an offset returned by allocateLocked. R-RECOVER: ResolveShmBatch and MaybeWriteToShm install a recover handler that assigns a non-nil error before any operation that can panic (wrapping offsets, Arrow reader). " +
			"R-KEYS-REPLACED: the resolved batch's metadata is the pointer's minus the two pointer keys plus shm_source=segment name. R-NO-UNSAFE: shm.go neither imports unsafe nor converts through unsafe.Pointer, so every access to the mapping is a bounds-checked slice operation.",
		NotCovered:  []string{"value equality of a written and re-read batch (Arrow IPC encode/decode)", "ReadBatch called directly (not through ResolveShmBatch) with a negative or wrapping length panics on the slice expression; the pointer path recovers it into an error"},
		Assumptions: []string{"Go slice bounds checks are enabled (no -B build)"},
		Run:         runC35,
	})
}

// linForm evaluates v as c + k*i where i is the single non-constant leaf.
func linForm(v ssa.Value, leaf *ssa.Value) (c, k int64, ok bool) {
	switch x := v.(type) {
	case *ssa.Const:
		if n, isI := ConstInt(x); isI {
			return n, 0, true
		}
		return 0, 0, false
	case *ssa.Convert:
		return linForm(x.X, leaf)
	case *ssa.ChangeType:
		return linForm(x.X, leaf)
	case *ssa.BinOp:
		// the rotated range index (phi + 1) is the loop variable itself
		if p, isPhi := x.X.(*ssa.Phi); isPhi && p.Comment == "rangeindex" && x.Op == token.ADD {
			break
		}
		c1, k1, ok1 := linForm(x.X, leaf)
		c2, k2, ok2 := linForm(x.Y, leaf)
		if !ok1 || !ok2 {
			return 0, 0, false
		}
		switch x.Op {
		case token.ADD:
			return c1 + c2, k1 + k2, true
		case token.SUB:
			return c1 - c2, k1 - k2, true
		case token.MUL:
			if k1 == 0 {
				return c1 * c2, c1 * k2, true
			}
			if k2 == 0 {
				return c1 * c2, c2 * k1, true
			}
		}
		return 0, 0, false
	}
	if *leaf == nil {
		*leaf = v
	}
	if *leaf != v {
		return 0, 0, false
	}
	return 0, 1, true
}

func linStr(c, k int64) string {
	if k == 0 {
		return itoa(int(c))
	}
	return itoa(int(c)) + "+" + itoa(int(k)) + "i"
}

// headerAccesses lists, for fn, the accesses to slices of the mapped region
// (s.data[lo:hi]) as "<op>[lo:hi]" with lo/hi in linear form.
func headerAccesses(u *Unit, fn *ssa.Function) []string {
	var out []string
	Instrs(fn, func(in ssa.Instruction) {
		ci, ok := in.(*ssa.Call)
		if !ok {
			return
		}
		name := u.CalleeName(&ci.Call)
		for ai, a := range ci.Call.Args {
			sl, isS := a.(*ssa.Slice)
			if !isS || !strings.HasSuffix(u.Describe(sl.X), "s.data") {
				continue
			}
			var leaf ssa.Value
			lo, hi := "?", "?"
			if sl.Low == nil {
				lo = "0"
			} else if c, k, ok := linForm(sl.Low, &leaf); ok {
				lo = linStr(c, k)
			}
			if sl.High == nil {
				hi = "end"
			} else if c, k, ok := linForm(sl.High, &leaf); ok {
				hi = linStr(c, k)
			}
			short := name
			if i := strings.LastIndex(short, "."); i >= 0 {
				short = short[i+1:]
			}
			val := ""
			if (strings.HasPrefix(short, "Put") || short == "copy") && ai+1 < len(ci.Call.Args) {
				val = "<-" + u.describe(ci.Call.Args[ai+1], 10)
			}
			out = append(out, short+"["+lo+":"+hi+"]"+val)
		}
	})
	sort.Strings(out)
	return out
}

func runC34(c *Ctx) {
	u, r := c.U, c.R
	// R-HEADER-CONST
	for name, want := range map[string]string{"ShmHeaderSize": "65536", "shmHeaderFixedSize": "24", "shmAllocEntrySize": "16", "ShmMaxAllocs": "4094"} {
		got, ok := u.ConstValue(name)
		r.Check(ok && got == want, "R-HEADER-CONST", name, "vgirpc/shm.go", name+" = "+want, name+" = "+got+" (documented layout needs "+want+")")
	}
	if e := u.globalInit("shmMagic"); e != nil {
		var bs []string
		if cl, ok := e.(*ast.CompositeLit); ok {
			for _, el := range cl.Elts {
				if v, ok := u.constOf(el); ok {
					bs = append(bs, v)
				}
			}
		}
		r.Check(strings.Join(bs, ",") == "86,71,73,83", "R-HEADER-CONST", "shmMagic", "vgirpc/shm.go", "magic = 'VGIS'", "magic bytes = "+strings.Join(bs, ","))
	} else {
		r.Undec("R-HEADER-CONST", "shmMagic", "vgirpc/shm.go", "shmMagic initialiser not found")
	}
	if e := u.globalInit("shmVersion"); e != nil {
		v := ""
		if ce, ok := e.(*ast.CallExpr); ok && len(ce.Args) == 1 {
			v, _ = u.constOf(ce.Args[0])
		} else {
			v, _ = u.constOf(e)
		}
		r.Check(v == "1", "R-HEADER-CONST", "shmVersion", "vgirpc/shm.go", "version = 1", "version = "+v)
	} else {
		r.Undec("R-HEADER-CONST", "shmVersion", "vgirpc/shm.go", "shmVersion initialiser not found")
	}

	// R-HEADER-LAYOUT
	layout := map[string][]string{
		"(*ShmSegment).initializeHeader": {
			"PutUint32[16:20]<-0", "PutUint32[20:24]<-0", "PutUint32[4:8]<-global:shmVersion",
			"PutUint64[8:16]<-conv:uint64((s.size - 65536))", "copy[0:4]<-global:shmMagic[:]"},
		"(*ShmSegment).validateHeader": {"Equal[0:4]", "Uint32[4:8]", "Uint64[8:16]"},
		"(*ShmSegment).numAllocs":      {"Uint32[16:20]"},
		"(*ShmSegment).readAllocs":     {"Uint64[24+16i:32+16i]", "Uint64[32+16i:40+16i]"},
		"(*ShmSegment).writeAllocs":    {"PutUint32[16:20]<-conv:uint32(len(allocs))", "PutUint64[24+16i:32+16i]<-&e[0]", "PutUint64[32+16i:40+16i]<-&e[1]"},
		"(*ShmSegment).Reset":          {"PutUint32[16:20]<-0"},
	}
	var names []string
	for n := range layout {
		names = append(names, n)
	}
	sort.Strings(names)
	for _, n := range names {
		fn := c.Fn("R-HEADER-LAYOUT", n)
		if fn == nil {
			continue
		}
		got := headerAccesses(u, fn)
		want := append([]string{}, layout[n]...)
		sort.Strings(want)
		r.Check(strings.Join(got, " ; ") == strings.Join(want, " ; "), "R-HEADER-LAYOUT", n, u.Pos(fn.Pos()), "header accesses: "+strings.Join(got, " ; "), "header accesses are ["+strings.Join(got, " ; ")+"], documented layout needs ["+strings.Join(want, " ; ")+"]")
	}
	// readAllocs stores (offset,length) in that order and sizes the result by numAllocs
	if fn := u.Func("(*ShmSegment).readAllocs"); fn != nil {
		ok0, ok1 := false, false
		Instrs(fn, func(in ssa.Instruction) {
			if st, ok := in.(*ssa.Store); ok {
				d, v := u.Describe(st.Addr), u.describe(st.Val, 10)
				if d == "&&complit[0]" && strings.Contains(v, ":((24 + (i * 16)) + 8)]") {
					ok0 = true
				}
				if d == "&&complit[1]" && strings.Contains(v, ":((24 + (i * 16)) + 16)]") {
					ok1 = true
				}
			}
		})
		r.Check(ok0 && ok1, "R-HEADER-LAYOUT", "readAllocs|pair-order", u.Pos(fn.Pos()), "entry = (offset,length)", "readAllocs does not read (offset,length) in that order")
		okN := false
		Instrs(fn, func(in ssa.Instruction) {
			if ms, ok := in.(*ssa.MakeSlice); ok && strings.Contains(u.Describe(ms.Len), "numAllocs(s)") {
				okN = true
			}
		})
		r.Check(okN, "R-HEADER-LAYOUT", "readAllocs|count", u.Pos(fn.Pos()), "reads numAllocs() entries", "readAllocs does not size the table from numAllocs()")
	}
	// no other function touches s.data[const ranges] inside the header
	for _, f := range u.SrcFuncs() {
		sn := shortName(f)
		if _, ok := layout[sn]; ok || !strings.HasSuffix(u.Pos(f.Pos()), ".go") {
			continue
		}
		for _, a := range headerAccesses(u, f) {
			// variable-bound accesses are data-area accesses (C35 R-BOUNDS)
			if strings.Contains(a, "?") {
				continue
			}
			r.Viol("R-HEADER-LAYOUT", "foreign|"+sn, u.Pos(f.Pos()), sn+" accesses the mapped header directly: "+a)
		}
	}

	// R-FIRST-FIT
	al := c.Fn("R-FIRST-FIT", "(*ShmSegment).allocateLocked")
	cf := c.Fn("R-SIBLING-FIT", "(*ShmSegment).canFitLocked")
	cmps := func(fn *ssa.Function) []string {
		set := map[string]bool{}
		Instrs(fn, func(in ssa.Instruction) {
			b, ok := in.(*ssa.BinOp)
			if !ok {
				return
			}
			switch b.Op {
			case token.LSS, token.LEQ, token.GTR, token.GEQ, token.EQL, token.NEQ:
				d := u.describe(b, 10)
				if strings.Contains(d, "rangeindex") {
					return
				}
				// a decision and its negation with the branches swapped are the same decision:
				// list each under its >= / <= / == form
				x, y := u.describe(b.X, 9), u.describe(b.Y, 9)
				switch b.Op {
				case token.LSS:
					d = "(" + x + " >= " + y + ")"
				case token.GTR:
					d = "(" + x + " <= " + y + ")"
				case token.NEQ:
					d = "(" + x + " == " + y + ")"
				}
				set[d] = true
			}
		})
		var out []string
		for k := range set {
			out = append(out, k)
		}
		sort.Strings(out)
		return out
	}
	phiEdges := func(fn *ssa.Function, name string) []string {
		var out []string
		Instrs(fn, func(in ssa.Instruction) {
			if p, ok := in.(*ssa.Phi); ok && u.VarName(p) == name {
				for _, e := range p.Edges {
					if e == ssa.Value(p) {
						continue
					}
					out = append(out, u.describe(e, 10))
				}
			}
		})
		sort.Strings(out)
		// dedupe
		var d []string
		for i, s := range out {
			if i == 0 || s != out[i-1] {
				d = append(d, s)
			}
		}
		return d
	}
	wantCmps := []string{"((&e[0] - prevEnd) >= conv:uint64(size))", "((conv:uint64(s.size) - prevEnd) >= conv:uint64(size))", "(len((*ShmSegment).readAllocs(s)) >= 4094)", "(size <= 0)"}
	if al != nil {
		got := cmps(al)
		r.Check(strings.Join(got, " ") == strings.Join(wantCmps, " "), "R-FIRST-FIT", "allocateLocked|decisions", u.Pos(al.Pos()), "decisions: "+strings.Join(got, " "), "allocateLocked decides on ["+strings.Join(got, " ")+"], first-fit needs ["+strings.Join(wantCmps, " ")+"]")
		pe := phiEdges(al, "prevEnd")
		r.Check(strings.Join(pe, " | ") == "(&e[0] + &e[1]) | 65536", "R-FIRST-FIT", "allocateLocked|prevEnd", u.Pos(al.Pos()), "prevEnd starts at the header size and advances to offset+length", "prevEnd takes values "+strings.Join(pe, " | "))
		// returns
		nOK := 0
		Instrs(al, func(in ssa.Instruction) {
			ret, ok := in.(*ssa.Return)
			if !ok {
				return
			}
			okV := ReturnValue(ret, 1)
			k, isC := okV.(*ssa.Const)
			if !isC || k.Value == nil {
				r.Viol("R-FIRST-FIT", "allocateLocked|ok-const", u.Pos(in.Pos()), "ok result is not a constant")
				return
			}
			g := strings.Join(u.GuardStrings(in), " && ")
			if k.Value.String() == "true" {
				nOK++
				gap := strings.Contains(g, "((&e[0] - prevEnd) >= conv:uint64(size))")
				tail := strings.Contains(g, "((conv:uint64(s.size) - prevEnd) >= conv:uint64(size))") && strings.Contains(g, "((rangeindex + 1) >= len(")
				okRet := u.Describe(ReturnValue(ret, 0)) == "prevEnd"
				// the table written on this edge
				var wa *ssa.Call
				for _, x := range in.Block().Instrs {
					if ci, ok := x.(*ssa.Call); ok && u.CalleeName(&ci.Call) == "(*ShmSegment).writeAllocs" {
						wa = ci
					}
				}
				shape := ""
				if wa != nil {
					shape = u.describe(wa.Call.Args[1], 12)
				}
				okShape := false
				switch {
				case gap:
					okShape = shape == "append(append(append(makeslice, (*ShmSegment).readAllocs(s)[:(rangeindex + 1)]), &varargs[:]), (*ShmSegment).readAllocs(s)[(rangeindex + 1):])"
				case tail:
					okShape = shape == "append((*ShmSegment).readAllocs(s), &varargs[:])"
				}
				// the inserted entry is {prevEnd, size}
				e0, e1 := false, false
				for _, x := range in.Block().Instrs {
					if st, ok := x.(*ssa.Store); ok {
						switch u.Describe(st.Addr) {
						case "&&complit[0]":
							e0 = u.Describe(st.Val) == "prevEnd"
						case "&&complit[1]":
							e1 = u.Describe(st.Val) == "conv:uint64(size)"
						}
					}
				}
				inst := "allocateLocked|success-tail"
				if gap {
					inst = "allocateLocked|success-gap"
				}
				r.Check((gap || tail) && okRet && okShape && e0 && e1, "R-FIRST-FIT", inst, u.Pos(in.Pos()), "inserts {prevEnd,size} in table order and returns prevEnd", "success edge under ["+g+"] writes "+shape+" entry-ok="+boolStr(e0 && e1)+" returns "+u.Describe(ReturnValue(ret, 0)))
			} else {
				// failure: either size<=0, table full, or loop exhausted and the tail too small
				okF := strings.Contains(g, "(size <= 0)") || strings.Contains(g, ">= 4094)") ||
					(strings.Contains(g, "((conv:uint64(s.size) - prevEnd) < conv:uint64(size))") && strings.Contains(g, "((rangeindex + 1) >= len("))
				r.Check(okF, "R-FIRST-FIT", "allocateLocked|fail@b"+itoa(in.Block().Index), u.Pos(in.Pos()), "fails only for size<=0, a full table, or no gap", "allocation fails under ["+g+"]")
			}
		})
		r.Check(nOK == 2, "R-FIRST-FIT", "allocateLocked|two-success-edges", u.Pos(al.Pos()), "gap and tail success edges", itoa(nOK)+" success edges")
	}
	if al != nil && cf != nil {
		got := cmps(cf)
		r.Check(strings.Join(got, " ") == strings.Join(wantCmps, " "), "R-SIBLING-FIT", "canFitLocked|decisions", u.Pos(cf.Pos()), "same comparisons as allocateLocked", "canFitLocked decides on ["+strings.Join(got, " ")+"] but allocateLocked on ["+strings.Join(wantCmps, " ")+"]")
		pe := phiEdges(cf, "prevEnd")
		r.Check(strings.Join(pe, " | ") == "(&e[0] + &e[1]) | 65536", "R-SIBLING-FIT", "canFitLocked|prevEnd", u.Pos(cf.Pos()), "same gap walk as allocateLocked", "prevEnd takes values "+strings.Join(pe, " | "))
	}
	// R-FREE-EXACT
	if ff := c.Fn("R-FREE-EXACT", "(*ShmSegment).freeAtLocked"); ff != nil {
		ws := u.Calls(ff, Is("(*ShmSegment).writeAllocs"))
		ok := len(ws) == 1
		if ok {
			g := strings.Join(u.GuardStrings(ws[0].Instr), " && ")
			shape := u.describe(ws[0].Arg(1), 12)
			ok = strings.Contains(g, "(&e[0] == offset)") && shape == "append((*ShmSegment).readAllocs(s)[:(rangeindex + 1)], (*ShmSegment).readAllocs(s)[((rangeindex + 1) + 1):])"
			r.Check(ok, "R-FREE-EXACT", "freeAtLocked|remove", u.Pos(ws[0].Instr.Pos()), "removes exactly entry i where entry[i].offset == offset", "table rewritten as "+shape+" under ["+g+"]")
		} else {
			r.Viol("R-FREE-EXACT", "freeAtLocked|remove", u.Pos(ff.Pos()), itoa(len(ws))+" writeAllocs calls")
		}
		Instrs(ff, func(in ssa.Instruction) {
			ret, isR := in.(*ssa.Return)
			if !isR {
				return
			}
			g := strings.Join(u.GuardStrings(in), " && ")
			if k, isC := ReturnValue(ret, 0).(*ssa.Const); isC && k.Value == nil {
				r.Check(strings.Contains(g, "(&e[0] == offset)"), "R-FREE-EXACT", "freeAtLocked|nil", u.Pos(in.Pos()), "nil only after a removal", "freeAtLocked reports success under ["+g+"]")
			} else {
				r.Check(strings.Contains(g, "((rangeindex + 1) >= len("), "R-FREE-EXACT", "freeAtLocked|not-found", u.Pos(in.Pos()), "error once every entry was compared", "freeAtLocked fails under ["+g+"]")
			}
		})
	}
	// R-LOCKED-CALLS
	locked := map[string]bool{"(*ShmSegment).allocateLocked": true, "(*ShmSegment).freeAtLocked": true, "(*ShmSegment).canFitLocked": true}
	inner := map[string]bool{"(*ShmSegment).readAllocs": true, "(*ShmSegment).writeAllocs": true, "(*ShmSegment).numAllocs": true}
	nL := 0
	for _, f := range u.SrcFuncs() {
		var held map[ssa.Instruction]map[string]bool
		Instrs(f, func(in ssa.Instruction) {
			ci, ok := in.(ssa.CallInstruction)
			if !ok {
				return
			}
			name := u.CalleeName(ci.Common())
			if locked[name] {
				nL++
				if held == nil {
					held = u.LockHeldAt(f)
				}
				r.Check(held[in]["s.mu"], "R-LOCKED-CALLS", shortName(f)+"→"+strings.TrimPrefix(name, "(*ShmSegment)."), u.Pos(in.Pos()), "called with s.mu held", name+" called without s.mu held")
				// closed re-checked under the lock
				if name != "(*ShmSegment).canFitLocked" {
					r.Check(closedCheckedUnderLock(u, f, in), "R-CLOSED-UNDER-LOCK", shortName(f)+"→"+strings.TrimPrefix(name, "(*ShmSegment)."), u.Pos(in.Pos()), "closed re-checked after Lock", "the table is modified without re-checking s.closed after taking s.mu")
				}
			}
			if inner[name] {
				sn := shortName(f)
				r.Check(locked[sn] || inner[sn], "R-LOCKED-CALLS", sn+"→"+strings.TrimPrefix(name, "(*ShmSegment)."), u.Pos(in.Pos()), "table accessor used only inside the *Locked functions", name+" called from "+sn+", outside the lock-holding allocator functions")
			}
		})
	}
	if rs := c.Fn("R-LOCKED-CALLS", "(*ShmSegment).Reset"); rs != nil {
		held := u.LockHeldAt(rs)
		Instrs(rs, func(in ssa.Instruction) {
			if ci, ok := in.(*ssa.Call); ok && strings.HasSuffix(u.CalleeName(&ci.Call), ".PutUint32") {
				r.Check(held[in]["s.mu"], "R-LOCKED-CALLS", "Reset→count", u.Pos(in.Pos()), "count cleared with s.mu held", "Reset clears the count without s.mu")
				r.Check(closedCheckedUnderLock(u, rs, in), "R-CLOSED-UNDER-LOCK", "Reset→count", u.Pos(in.Pos()), "closed re-checked after Lock", "Reset writes the header without re-checking s.closed under the lock")
			}
		})
	}
	r.Floor("R-HEADER-CONST", 6)
	r.Floor("R-HEADER-LAYOUT", 8)
	r.Floor("R-FIRST-FIT", 6)
	r.Floor("R-SIBLING-FIT", 2)
	r.Floor("R-FREE-EXACT", 3)
	r.Floor("R-LOCKED-CALLS", 10)
	r.Floor("R-CLOSED-UNDER-LOCK", 4)
}

// closedCheckedUnderLock: at is guarded by !s.closed.Load() where that Load
// call executes after the dominating s.mu.Lock().
func closedCheckedUnderLock(u *Unit, fn *ssa.Function, at ssa.Instruction) bool {
	for _, g := range GuardsAt(at.Block()) {
		if g.Truth {
			continue
		}
		ld, ok := g.Cond.(*ssa.Call)
		if !ok || u.CalleeName(&ld.Call) != "(*sync/atomic.Bool).Load" || !strings.HasSuffix(u.Describe(ld.Call.Args[0]), "s.closed") {
			continue
		}
		for _, lk := range u.Calls(fn, Is("(*sync.Mutex).Lock")) {
			if Dominates(lk.Instr, ld) && Dominates(ld, at) {
				// no unlock between the lock and at on any path
				_, unl := ReachWithout(fn, lk.Instr, isInstr(at), u.CallMatcher(Is("(*sync.Mutex).Unlock"), false))
				if unl {
					return true
				}
			}
		}
	}
	return false
}

func runC35(c *Ctx) {
	u, r := c.U, c.R
	seedfixC35(c)
	G := func(in ssa.Instruction) string { return strings.Join(u.GuardStrings(in), " && ") }
	// R-DISCRIMINATOR
	if aw := c.Fn("R-DISCRIMINATOR", "(*ShmSegment).AllocateAndWrite"); aw != nil {
		top := "schemaHasTopLevelDictionary(invoke v18/arrow.RecordBatch.Schema(batch))"
		nest := "schemaHasNestedDictionary(invoke v18/arrow.RecordBatch.Schema(batch))"
		n := 0
		for _, cs := range u.Calls(aw, Is("(*ShmSegment).allocateAndWriteSerialized")) {
			n++
			ser := u.Describe(cs.Arg(2))
			gs := u.GuardStrings(cs.Instr)
			has := func(s string) bool {
				for _, g := range gs {
					if g == s {
						return true
					}
				}
				return false
			}
			switch ser {
			case "func:serializeForShm":
				r.Check(has(top), "R-DISCRIMINATOR", "write|stripped", u.Pos(cs.Instr.Pos()), "stripped form iff top-level dictionary", "stripped form written under ["+G(cs.Instr)+"]")
			case "func:serializeForShmFull":
				r.Check(has("!"+top) && has(nest), "R-DISCRIMINATOR", "write|full", u.Pos(cs.Instr.Pos()), "full stream iff nested-only dictionary", "full stream written under ["+G(cs.Instr)+"]")
			default:
				r.Viol("R-DISCRIMINATOR", "write|"+ser, u.Pos(cs.Instr.Pos()), "unknown serializer "+ser)
			}
			r.Check(cs.Arg(1) == ssa.Value(aw.Params[1]), "R-DISCRIMINATOR", "write|same-batch|"+ser, u.Pos(cs.Instr.Pos()), "the caller's batch is what is serialised", "serialises "+u.Describe(cs.Arg(1)))
		}
		r.Check(n == 2, "R-DISCRIMINATOR", "write|two-dictionary-paths", u.Pos(aw.Pos()), "two dictionary paths", itoa(n)+" allocateAndWriteSerialized calls")
		for _, cs := range u.Calls(aw, HasSuffix("ipc.GetRecordBatchPayload")) {
			gs := G(cs.Instr)
			r.Check(strings.Contains(gs, "!"+top) && strings.Contains(gs, "!"+nest), "R-DISCRIMINATOR", "write|fastpath", u.Pos(cs.Instr.Pos()), "payload fast path only for dictionary-free schemas", "fast path (omits dictionary messages) reached under ["+gs+"]")
			r.Check(cs.Arg(0) == ssa.Value(aw.Params[1]), "R-DISCRIMINATOR", "write|fastpath-batch", u.Pos(cs.Instr.Pos()), "payload built from the caller's batch", "payload built from "+u.Describe(cs.Arg(0)))
		}
		// R-FASTPATH-LAYOUT
		als := u.Calls(aw, Is("(*ShmSegment).allocateLocked"))
		if len(als) == 1 {
			sz := u.describe(als[0].Arg(1), 12)
			okSz := strings.Contains(sz, "cachedSchemaBytes(") && strings.Contains(sz, "&complit.n") && strings.HasSuffix(sz, "+ 8)")
			r.Check(okSz, "R-FASTPATH-LAYOUT", "slot-size", u.Pos(als[0].Instr.Pos()), "slot = schema bytes + counted payload + 8-byte EOS", "slot size is "+sz)
			// order: copy(schema) → WritePayload(slice writer) → copy(EOS)
			var seq []string
			Instrs(aw, func(in ssa.Instruction) {
				ci, ok := in.(*ssa.Call)
				if !ok || !Dominates(als[0].Instr, in) {
					return
				}
				d := u.describe(ci, 8)
				switch {
				case strings.HasPrefix(d, "copy(") && strings.HasSuffix(d, "global:ipcEOS[:])"):
					if strings.Contains(d, "+ &complit.n):]") {
						seq = append(seq, "eos")
					} else {
						seq = append(seq, "eos-not-after-payload")
					}
				case strings.Contains(d, "ipc.Payload).WritePayload("):
					seq = append(seq, "payload")
				case strings.HasPrefix(d, "copy(") && strings.Contains(d, "cachedSchemaBytes("):
					seq = append(seq, "schema")
				}
			})
			r.Check(strings.Join(seq, ",") == "schema,payload,eos", "R-FASTPATH-LAYOUT", "write-order", u.Pos(aw.Pos()), "schema, payload, EOS written in stream order", "fast path writes "+strings.Join(seq, ","))
			// the success return reports the allocated offset and exact total
			Instrs(aw, func(in ssa.Instruction) {
				ret, ok := in.(*ssa.Return)
				if !ok || InRecoverBlock(in) {
					return
				}
				if k, isC := ReturnValue(ret, 2).(*ssa.Const); isC && k.Value != nil && k.Value.String() == "true" {
					o, l := u.describe(ReturnValue(ret, 0), 12), u.describe(ReturnValue(ret, 1), 12)
					r.Check(strings.HasPrefix(o, "(*ShmSegment).allocateLocked(") && strings.HasSuffix(o, "#0") && l == sz, "R-FASTPATH-LAYOUT", "returned-pointer", u.Pos(in.Pos()), "returns (allocated offset, slot size)", "returns offset "+o+" length "+l)
				}
			})
		} else {
			r.Undec("R-FASTPATH-LAYOUT", "slot-size", u.Pos(aw.Pos()), "allocateLocked call not unique")
		}
	}
	if ws := c.Fn("R-FASTPATH-LAYOUT", "(*ShmSegment).allocateAndWriteSerialized"); ws != nil {
		als := u.Calls(ws, Is("(*ShmSegment).allocateLocked"))
		ok := false
		if len(als) == 1 {
			sz := u.Describe(als[0].Arg(1))
			Instrs(ws, func(in ssa.Instruction) {
				if ci, isC := in.(*ssa.Call); isC {
					d := u.describe(ci, 10)
					if strings.HasPrefix(d, "copy(s.data[(*ShmSegment).allocateLocked(") && strings.HasSuffix(d, ", dyn:serialize(batch)#0)") && sz == "len(dyn:serialize(batch)#0)" &&
						strings.Contains(d, "#0 + conv:uint64(len(dyn:serialize(batch)#0)))]") {
						ok = true
					}
				}
			})
		}
		r.Check(ok, "R-FASTPATH-LAYOUT", "serialized-copy", u.Pos(ws.Pos()), "serialised bytes copied into a slot of exactly their length", "allocateAndWriteSerialized does not copy serialize(batch) into a slot of len(buf)")
	}
	if rb := c.Fn("R-DISCRIMINATOR", "(*ShmSegment).ReadBatch"); rb != nil {
		n := 0
		for _, cs := range u.Calls(rb, Is("readIPCStream")) {
			n++
			d := u.describe(cs.Arg(0), 20)
			g := G(cs.Instr)
			if strings.HasPrefix(d, "s.data[") {
				r.Check(strings.Contains(g, "!schemaHasTopLevelDictionary(schema)"), "R-DISCRIMINATOR", "read|direct", u.Pos(cs.Instr.Pos()), "region opened directly iff no top-level dictionary", "region opened directly under ["+g+"]")
			} else {
				okS := d == "append(append(append(makeslice, writeSchemaOnlyStream(schema)#0[:(len(writeSchemaOnlyStream(schema)#0) - 8)]), s.data[offset:(offset + conv:uint64(length))]), global:ipcEOS[:])"
				r.Check(strings.Contains(g, "schemaHasTopLevelDictionary(schema)") && !strings.Contains(g, "!schemaHasTopLevelDictionary(schema)") && okS, "R-STRIP-SYMMETRY", "read|resynth", u.Pos(cs.Instr.Pos()), "schema message + region + EOS iff top-level dictionary", "re-synthesised stream is "+d+" under ["+g+"]")
			}
		}
		r.Check(n == 2, "R-DISCRIMINATOR", "read|two-paths", u.Pos(rb.Pos()), "two read paths", itoa(n)+" readIPCStream calls")
		// R-BOUNDS
		nS := 0
		Instrs(rb, func(in ssa.Instruction) {
			sl, ok := in.(*ssa.Slice)
			if !ok || !strings.HasSuffix(u.Describe(sl.X), "s.data") {
				return
			}
			nS++
			g := G(in)
			okB := strings.Contains(g, "((offset + conv:uint64(length)) <= conv:uint64(s.size))") && u.Describe(sl.Low) == "offset" && u.Describe(sl.High) == "(offset + conv:uint64(length))"
			r.Check(okB, "R-BOUNDS", "ReadBatch|region", u.Pos(in.Pos()), "region sliced only under offset+length <= size", "mapping sliced ["+u.Describe(sl.Low)+":"+u.Describe(sl.High)+"] under ["+g+"]")
			r.Check(closedCheckedUnderLock(u, rb, in), "R-BOUNDS", "ReadBatch|closed-under-lock", u.Pos(in.Pos()), "closed re-checked under s.mu before reading the mapping", "mapping read without re-checking s.closed under the lock")
		})
		r.Check(nS == 1, "R-BOUNDS", "ReadBatch|one-slice", u.Pos(rb.Pos()), "one region slice", itoa(nS)+" slices of the mapping")
	}
	// every variable-bound slice of the mapping elsewhere starts at an allocateLocked offset
	for _, f := range u.SrcFuncs() {
		sn := shortName(f)
		if sn == "(*ShmSegment).ReadBatch" {
			continue
		}
		Instrs(f, func(in ssa.Instruction) {
			sl, ok := in.(*ssa.Slice)
			if !ok || !isSegmentData(sl.X) {
				return
			}
			var leaf ssa.Value
			if sl.Low != nil {
				if _, _, lin := linForm(sl.Low, &leaf); lin {
					if _, isAlloc := leafIsAllocOffset(u, leaf); !isAlloc && leaf != nil && !isLoopIndex(leaf) {
						r.Viol("R-BOUNDS", sn+"|slice", u.Pos(in.Pos()), "mapping sliced from "+u.Describe(sl.Low)+", not an allocator-issued offset")
					} else if leaf != nil && !isLoopIndex(leaf) {
						r.Ok("R-BOUNDS", sn+"|slice", u.Pos(in.Pos()), "slice starts at an allocateLocked offset")
					}
				} else {
					r.Viol("R-BOUNDS", sn+"|slice", u.Pos(in.Pos()), "mapping sliced from "+u.Describe(sl.Low))
				}
			}
		})
	}
	// R-STRIP-SYMMETRY writer side
	if sf := c.Fn("R-STRIP-SYMMETRY", "serializeForShm"); sf != nil {
		ok := false
		Instrs(sf, func(in ssa.Instruction) {
			ret, isR := in.(*ssa.Return)
			if !isR {
				return
			}
			if k, isC := ReturnValue(ret, 1).(*ssa.Const); isC && k.Value == nil {
				d := u.describe(ReturnValue(ret, 0), 12)
				g := G(in)
				ok = d == "serializeForShmFull(batch)#0[skipOneIPCMessage(serializeForShmFull(batch)#0)#0:(len(serializeForShmFull(batch)#0) - 8)]" && strings.Contains(g, "bytes.HasSuffix(serializeForShmFull(batch)#0, global:ipcEOS[:])") && !strings.Contains(g, "!bytes.HasSuffix(")
				if !ok {
					r.Viol("R-STRIP-SYMMETRY", "write|strip", u.Pos(in.Pos()), "stripped form is "+d+" under ["+g+"]")
				}
			}
		})
		if ok {
			r.Ok("R-STRIP-SYMMETRY", "write|strip", u.Pos(sf.Pos()), "drops exactly the first message and the trailing EOS")
		}
	}
	if e := u.globalInit("ipcEOS"); e != nil {
		var bs []string
		if cl, ok := e.(*ast.CompositeLit); ok {
			for _, el := range cl.Elts {
				if v, ok := u.constOf(el); ok {
					bs = append(bs, v)
				}
			}
		}
		r.Check(strings.Join(bs, ",") == "255,255,255,255,0,0,0,0", "R-STRIP-SYMMETRY", "ipcEOS", "vgirpc/shm.go", "EOS marker = FFFFFFFF 00000000", "EOS marker bytes "+strings.Join(bs, ","))
	}
	// R-POINTER-PARSE
	rs := c.Fn("R-POINTER-PARSE", "ResolveShmBatch")
	mk := c.Fn("R-POINTER-PARSE", "makeShmPointerBatch")
	if rs != nil && mk != nil {
		rbs := u.Calls(rs, Is("(*ShmSegment).ReadBatch"))
		if len(rbs) == 1 {
			cs := rbs[0]
			okG := u.GuardedErrNil(cs.Instr, Is("strconv.ParseUint")) && u.GuardedErrNil(cs.Instr, Is("strconv.Atoi"))
			o, l := u.describe(cs.Arg(1), 10), u.describe(cs.Arg(2), 10)
			okA := strings.HasPrefix(o, "strconv.ParseUint(") && strings.Contains(o, `"vgi_rpc.shm_offset")#0, 10, 64)#0`) &&
				strings.HasPrefix(l, "strconv.Atoi(") && strings.Contains(l, `"vgi_rpc.shm_length")#0)#0`)
			r.Check(okG && okA, "R-POINTER-PARSE", "ResolveShmBatch|parse", u.Pos(cs.Instr.Pos()), "ReadBatch(parsed offset, parsed length) only after both parses succeeded", "ReadBatch("+o+", "+l+") guarded="+boolStr(okG))
			r.Check(cs.Arg(0) == ssa.Value(rs.Params[1]) && strings.HasSuffix(u.Describe(cs.Arg(3)), "RecordBatch.Schema(batch)"), "R-POINTER-PARSE", "ResolveShmBatch|segment+schema", u.Pos(cs.Instr.Pos()), "reads the given segment with the pointer batch's schema", "ReadBatch receiver/schema are "+u.Describe(cs.Arg(0))+" / "+u.Describe(cs.Arg(3)))
		} else {
			r.Undec("R-POINTER-PARSE", "ResolveShmBatch|parse", u.Pos(rs.Pos()), "ReadBatch call not unique")
		}
		// writer formats
		ws := constStringsStored(u, mk)
		f1, f2 := u.Calls(mk, Is("strconv.FormatUint")), u.Calls(mk, Is("strconv.Itoa"))
		okW := ws["vgi_rpc.shm_offset"] && ws["vgi_rpc.shm_length"] && len(f1) == 1 && len(f2) == 1 && f1[0].Arg(0) == ssa.Value(mk.Params[1]) && f2[0].Arg(0) == ssa.Value(mk.Params[2])
		if okW {
			b, _ := ConstInt(f1[0].Arg(1))
			okW = b == 10
		}
		r.Check(okW, "R-POINTER-PARSE", "makeShmPointerBatch|format", u.Pos(mk.Pos()), "offset/length written in base 10 under the two pointer keys", "pointer batch does not carry FormatUint(offset,10)/Itoa(length) under the pointer keys")
		// the keys arrays line up: keys[0]↔vals[0]
		k0, v0 := "", ""
		Instrs(mk, func(in ssa.Instruction) {
			if st, ok := in.(*ssa.Store); ok {
				if ia, ok := st.Addr.(*ssa.IndexAddr); ok {
					if idx, isI := ConstInt(ia.Index); isI && idx == 0 {
						if s, isS := ConstString(st.Val); isS {
							k0 = s
						} else if strings.HasPrefix(u.Describe(st.Val), "strconv.") {
							v0 = u.Describe(st.Val)
						}
					}
				}
			}
		})
		r.Check(k0 == "vgi_rpc.shm_offset" && strings.HasPrefix(v0, "strconv.FormatUint("), "R-POINTER-PARSE", "makeShmPointerBatch|pairing", u.Pos(mk.Pos()), "offset key paired with the offset value", "key[0]="+k0+" val[0]="+v0)
		// extra metadata cannot override pointer keys
		okSkip := false
		Instrs(mk, func(in ssa.Instruction) {
			if _, ok := in.(*ssa.Call); ok {
				g := G(in)
				if strings.Contains(g, `!= "vgi_rpc.shm_offset")`) && strings.Contains(g, `!= "vgi_rpc.shm_length")`) {
					okSkip = true
				}
			}
		})
		r.Check(okSkip, "R-POINTER-PARSE", "makeShmPointerBatch|no-override", u.Pos(mk.Pos()), "caller metadata cannot override the pointer keys", "caller metadata is appended without excluding the pointer keys")
	}
	// R-RECOVER
	for _, name := range []string{"ResolveShmBatch", "MaybeWriteToShm"} {
		fn := c.Fn("R-RECOVER", name)
		if fn == nil {
			continue
		}
		ds := u.RecoverDefers(fn)
		if len(ds) != 1 {
			r.Viol("R-RECOVER", name+"|defer", u.Pos(fn.Pos()), itoa(len(ds))+" containing recover handlers")
			continue
		}
		d := ds[0]
		target := "(*ShmSegment).ReadBatch"
		if name == "MaybeWriteToShm" {
			target = "(*ShmSegment).AllocateAndWrite"
		}
		for _, cs := range u.Calls(fn, Is(target)) {
			r.Check(Dominates(d, cs.Instr), "R-RECOVER", name+"|covers "+strings.TrimPrefix(target, "(*ShmSegment)."), u.Pos(cs.Instr.Pos()), "recover installed before the segment operation", target+" can panic past the recover handler")
		}
		// nothing that can panic precedes the defer: only nil/IsShmPointerBatch/size gates
		Instrs(fn, func(in ssa.Instruction) {
			if in.Block() != d.Block() && Dominates(in, d) || (in.Block() == d.Block() && instrIndex(in) < instrIndex(d)) {
				switch x := in.(type) {
				case *ssa.TypeAssert:
					if !x.CommaOk {
						r.Viol("R-RECOVER", name+"|pre-defer", u.Pos(in.Pos()), "unchecked type assertion before the recover handler is installed")
					}
				case *ssa.Index, *ssa.IndexAddr, *ssa.Slice:
					r.Viol("R-RECOVER", name+"|pre-defer", u.Pos(in.Pos()), "indexing before the recover handler is installed")
				}
			}
		})
		// handler assigns a non-nil error
		var hf *ssa.Function
		if mc, ok := d.Call.Value.(*ssa.MakeClosure); ok {
			hf = mc.Fn.(*ssa.Function)
		}
		okE := false
		if hf != nil {
			Instrs(hf, func(in ssa.Instruction) {
				if st, ok := in.(*ssa.Store); ok && isErrorType(derefType(st.Addr.Type())) {
					if strings.HasPrefix(u.Describe(st.Val), "fmt.Errorf(") && strings.Contains(strings.Join(u.GuardStrings(in), " "), "recover() != nil") {
						okE = true
					}
				}
			})
		}
		r.Check(okE, "R-RECOVER", name+"|handler-sets-err", u.Pos(d.Pos()), "a recovered panic becomes a non-nil error", "the recover handler does not assign a non-nil error")
	}
	// R-KEYS-REPLACED
	if rs != nil {
		okSkip, okSrc := false, false
		Instrs(rs, func(in ssa.Instruction) {
			ci, ok := in.(*ssa.Call)
			if !ok {
				return
			}
			if b, isB := ci.Call.Value.(*ssa.Builtin); isB && b.Name() == "append" {
				g := G(in)
				d := u.describe(ci, 8)
				if strings.Contains(g, `!= "vgi_rpc.shm_offset")`) && strings.Contains(g, `!= "vgi_rpc.shm_length")`) {
					okSkip = true
				}
				if strings.Contains(d, "seg.name") || strings.Contains(d, `"vgi_rpc.shm_source"`) {
					okSrc = true
				}
			}
		})
		cs := constStringsStored(u, rs)
		r.Check(okSkip, "R-KEYS-REPLACED", "ResolveShmBatch|strip", u.Pos(rs.Pos()), "pointer keys dropped from the resolved batch", "pointer keys are copied into the resolved batch's metadata")
		srcVal := false
		Instrs(rs, func(in ssa.Instruction) {
			if st, ok := in.(*ssa.Store); ok && strings.HasSuffix(u.Describe(st.Val), "seg.name") {
				srcVal = true
			}
		})
		r.Check(cs["vgi_rpc.shm_source"] && srcVal && okSrc || cs["vgi_rpc.shm_source"] && srcVal, "R-KEYS-REPLACED", "ResolveShmBatch|source", u.Pos(rs.Pos()), "shm_source = segment name added", "resolved batch lacks shm_source=segment name")
		// the resolved batch is built from ReadBatch's result
		okOut := false
		for _, nb := range u.Calls(rs, HasSuffix("array.NewRecordBatchWithMetadata")) {
			if strings.Contains(u.Describe(nb.Arg(1)), "ReadBatch(") && strings.Contains(u.Describe(nb.Arg(0)), "ReadBatch(") {
				okOut = true
			}
		}
		r.Check(okOut, "R-KEYS-REPLACED", "ResolveShmBatch|columns", u.Pos(rs.Pos()), "resolved batch = ReadBatch result's schema and columns", "resolved batch is not built from ReadBatch's result")
		// success return hands back the parsed offset with release=true
		Instrs(rs, func(in ssa.Instruction) {
			ret, ok := in.(*ssa.Return)
			if !ok || InRecoverBlock(in) {
				return
			}
			if k, isC := ReturnValue(ret, 2).(*ssa.Const); isC && k.Value != nil && k.Value.String() == "true" {
				o := u.Describe(ReturnValue(ret, 1))
				r.Check(strings.HasPrefix(o, "strconv.ParseUint(") && u.GuardedErrNil(in, Is("(*ShmSegment).ReadBatch")), "R-KEYS-REPLACED", "ResolveShmBatch|release-offset", u.Pos(in.Pos()), "release offset = the parsed pointer offset, only after a successful read", "release=true with offset "+o)
			}
		})
	}
	// R-NO-UNSAFE
	nFiles := 0
	// the portable segment code = the file(s) declaring ReadBatch / AllocateAndWrite / allocateLocked
	portable := map[string]bool{}
	for _, n := range []string{"(*ShmSegment).ReadBatch", "(*ShmSegment).AllocateAndWrite", "(*ShmSegment).allocateLocked", "ResolveShmBatch"} {
		if f := u.Func(n); f != nil {
			portable[u.Fset.Position(f.Pos()).Filename] = true
		}
	}
	for _, f := range u.Root.Syntax {
		name := u.Fset.Position(f.Pos()).Filename
		if !portable[name] {
			continue
		}
		nFiles++
		bad := ""
		for _, im := range f.Imports {
			if im.Path.Value == `"unsafe"` || im.Path.Value == `"reflect"` || im.Path.Value == `"C"` {
				bad = im.Path.Value
			}
		}
		r.Check(bad == "", "R-NO-UNSAFE", "shm.go|imports", "vgirpc/shm.go", "no unsafe/reflect/cgo in the portable segment code", "shm.go imports "+bad+": accesses to the mapping are no longer all bounds-checked slice operations")
	}
	if nFiles == 0 {
		r.Undec("R-NO-UNSAFE", "shm.go|imports", "vgirpc/shm.go", "shm.go not in this build")
	}
	r.Floor("R-DISCRIMINATOR", 8)
	r.Floor("R-STRIP-SYMMETRY", 3)
	r.Floor("R-FASTPATH-LAYOUT", 4)
	r.Floor("R-POINTER-PARSE", 5)
	r.Floor("R-BOUNDS", 4)
	r.Floor("R-RECOVER", 4)
	r.Floor("R-KEYS-REPLACED", 4)
}

func isLoopIndex(v ssa.Value) bool {
	if b, ok := v.(*ssa.BinOp); ok {
		if p, isPhi := b.X.(*ssa.Phi); isPhi && p.Comment == "rangeindex" {
			return true
		}
	}
	// an explicit `for i := 0; …; i++` counter: a phi one of whose edges is itself plus a constant
	if p, ok := v.(*ssa.Phi); ok {
		if p.Comment == "rangeindex" {
			return true
		}
		for _, e := range p.Edges {
			if b, isB := e.(*ssa.BinOp); isB && b.Op == token.ADD && b.X == ssa.Value(p) {
				if _, isK := ConstInt(b.Y); isK {
					return true
				}
			}
		}
	}
	return false
}

// isSegmentData: v is a load of the ShmSegment.data field (the mapping).
func isSegmentData(v ssa.Value) bool {
	ld, ok := v.(*ssa.UnOp)
	if !ok || ld.Op != token.MUL {
		return false
	}
	fa, ok := ld.X.(*ssa.FieldAddr)
	return ok && fieldKey(fa.X.Type(), fa.Field) == "ShmSegment.data"
}

// leafIsAllocOffset: v is result #0 of an allocateLocked call.
func leafIsAllocOffset(u *Unit, v ssa.Value) (*ssa.Call, bool) {
	ex, ok := v.(*ssa.Extract)
	if !ok || ex.Index != 0 {
		return nil, false
	}
	call, ok := ex.Tuple.(*ssa.Call)
	if !ok || u.CalleeName(&call.Call) != "(*ShmSegment).allocateLocked" {
		return nil, false
	}
	return call, true
}
