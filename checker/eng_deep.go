package main

import (
	"golang.org/x/tools/go/ssa"
)

// Helper transparency. A rule that counts or requires calls "to X" along the
// paths of a function must not change its verdict when a maintainer moves a
// block containing the call into an unexported helper (or inlines one). The
// functions below summarise a root-package callee by the minimum and maximum
// number of matching calls on its entry→return paths (capped at 2 = many,
// transitively, depth-bounded) and let a call to the helper weigh as much as
// the calls it makes.

const deepDepth = 3

type deepKey struct {
	fn  *ssa.Function
	tag string
}

type deepCounter struct {
	u     *Unit
	m     func(string) bool
	tag   string
	memo  map[*ssa.Function]MinMax
	stack map[*ssa.Function]bool
}

// DeepCounter returns a weight function for instructions: a call whose callee
// name satisfies m weighs (1,1); a call to a root-package function weighs the
// (min,max) number of matching calls that function makes on its paths;
// anything else weighs (0,0).
func (u *Unit) DeepCounter(m func(string) bool) func(ssa.Instruction) MinMax {
	dc := &deepCounter{u: u, m: m, memo: map[*ssa.Function]MinMax{}, stack: map[*ssa.Function]bool{}}
	return func(in ssa.Instruction) MinMax { return dc.weight(in, 0) }
}

func (dc *deepCounter) weight(in ssa.Instruction, depth int) MinMax {
	ci, ok := in.(*ssa.Call)
	if !ok {
		return MinMax{}
	}
	if dc.m(dc.u.CalleeName(&ci.Call)) {
		return MinMax{1, 1}
	}
	sc := ci.Call.StaticCallee()
	if sc == nil || depth >= deepDepth || sc.Pkg == nil || dc.u.Root == nil || sc.Pkg.Pkg != dc.u.Root.Types || len(sc.Blocks) == 0 {
		return MinMax{}
	}
	return dc.summary(sc, depth+1)
}

func (dc *deepCounter) summary(fn *ssa.Function, depth int) MinMax {
	if mm, ok := dc.memo[fn]; ok {
		return mm
	}
	if dc.stack[fn] {
		return MinMax{} // recursion: no contribution
	}
	dc.stack[fn] = true
	defer delete(dc.stack, fn)
	res := CountWeighted(fn, nil, func(in ssa.Instruction) MinMax { return dc.weight(in, depth) }, IsReturn)
	out := MinMax{Min: 99, Max: 0}
	for _, mm := range res {
		if mm.Min < out.Min {
			out.Min = mm.Min
		}
		if mm.Max > out.Max {
			out.Max = mm.Max
		}
	}
	if out.Min == 99 {
		out = MinMax{} // no return (panics): contributes nothing to a caller's continuing paths
	}
	dc.memo[fn] = out
	return out
}

// DeepMust: the instruction is a call that executes at least one matching call
// on every path (directly or inside root-package helpers).
func (u *Unit) DeepMust(m func(string) bool) func(ssa.Instruction) bool {
	w := u.DeepCounter(m)
	return func(in ssa.Instruction) bool { return w(in).Min >= 1 }
}

// DeepMay: the instruction is a call that can execute a matching call.
func (u *Unit) DeepMay(m func(string) bool) func(ssa.Instruction) bool {
	w := u.DeepCounter(m)
	return func(in ssa.Instruction) bool { return w(in).Max >= 1 }
}

// CountWeighted is CountOnPaths with a (min,max) weight per instruction.
func CountWeighted(fn *ssa.Function, from ssa.Instruction, weight func(ssa.Instruction) MinMax, exit func(ssa.Instruction) bool) map[ssa.Instruction]MinMax {
	const capN = 2
	type st struct {
		min, max int
		set      bool
	}
	in := map[*ssa.BasicBlock]*st{}
	res := map[ssa.Instruction]MinMax{}
	if len(fn.Blocks) == 0 {
		return res
	}
	startB := fn.Blocks[0]
	startI := 0
	if from != nil {
		startB, startI = from.Block(), instrIndex(from)+1
	}
	type item struct {
		b      *ssa.BasicBlock
		i      int
		mn, mx int
	}
	work := []item{{startB, startI, 0, 0}}
	iter := 0
	for len(work) > 0 && iter < 100000 {
		iter++
		it := work[len(work)-1]
		work = work[:len(work)-1]
		mn, mx := it.mn, it.mx
		if it.i == 0 {
			s := in[it.b]
			if s == nil {
				s = &st{}
				in[it.b] = s
			}
			if s.set && mn >= s.min && mx <= s.max {
				continue
			}
			if !s.set {
				s.min, s.max, s.set = mn, mx, true
			} else {
				if mn < s.min {
					s.min = mn
				}
				if mx > s.max {
					s.max = mx
				}
			}
			mn, mx = s.min, s.max
		}
		stopped := false
		for i := it.i; i < len(it.b.Instrs); i++ {
			x := it.b.Instrs[i]
			w := weight(x)
			mn += w.Min
			mx += w.Max
			if mn > capN {
				mn = capN
			}
			if mx > capN {
				mx = capN
			}
			if exit(x) {
				stopped = true
				if r, ok := res[x]; ok {
					if mn < r.Min {
						r.Min = mn
					}
					if mx > r.Max {
						r.Max = mx
					}
					res[x] = r
				} else {
					res[x] = MinMax{mn, mx}
				}
				break
			}
		}
		if stopped {
			continue
		}
		for _, s := range it.b.Succs {
			work = append(work, item{s, 0, mn, mx})
		}
	}
	return res
}

// WithHelpers returns fn, its anonymous functions and the root-package
// functions it calls statically (transitively, depth-bounded): the region a
// maintainer may redistribute fn's statements over without changing behaviour.
func (u *Unit) WithHelpers(fn *ssa.Function, depth int) []*ssa.Function {
	seen := map[*ssa.Function]bool{}
	var out []*ssa.Function
	var walk func(f *ssa.Function, d int)
	walk = func(f *ssa.Function, d int) {
		for _, g := range WithAnon(f) {
			if seen[g] {
				continue
			}
			seen[g] = true
			out = append(out, g)
			if d >= depth {
				continue
			}
			for _, cs := range u.Calls(g, nil) {
				sc := cs.Common().StaticCallee()
				if sc != nil && sc.Pkg != nil && u.Root != nil && sc.Pkg.Pkg == u.Root.Types && len(sc.Blocks) > 0 {
					walk(sc, d+1)
				}
			}
		}
	}
	walk(fn, 0)
	return out
}
