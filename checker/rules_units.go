package main

import (
	"strings"

	"golang.org/x/tools/go/ssa"
)

func init() {
	register(&PropInfo{
		ID:    "C33",
		Title: "Storage backends never reuse an object key",
		Units: []string{"s3", "gcs"},
		Explanation: "R-KEY-ENTROPY: in each backend's Upload the object key handed to the storage client (PutObject Key / Bucket.Object / SignedURL) is traced backwards — through the module's own helper functions and formatting calls — and must include a cryptographically random or UUIDv4 source (crypto/rand.Read filling the formatted buffer, uuid.New/NewRandom/NewString); a key whose only varying sources are the clock and constants is reported. R-KEY-SAME: the key uploaded to and the key presigned/returned are the same value.",
		NotCovered:  []string{"collision probability of 122 random bits", "storage service semantics (overwrite on same key)"},
		Assumptions: []string{"uuid.New and crypto/rand.Read yield values that do not repeat in practice"},
		Run:         runC33,
	})
	register(&PropInfo{
		ID:    "C43",
		Title: "The OpenTelemetry hook ends every span it started with the call's outcome",
		Units: []string{"otel"},
		Explanation: "R-SPAN-END: in OnDispatchEnd every path through the IsRecording() branch calls span.End() exactly once, after SetStatus; End is called nowhere else. R-STATUS-IFF: SetStatus(codes.Error, …) only under err != nil and SetStatus(codes.Ok) only under err == nil. R-COUNTER-ONCE: requestCounter.Add(ctx, 1, …) at most once per call with a status attribute that is \"error\" exactly when err != nil. R-PARENT: the context passed to tracer.Start derives from Propagator.Extract(ctx, MapCarrier(info.TransportMetadata)). R-TOKEN: the span stored in the returned token is the one Start returned; OnDispatchEnd uses the token's span.",
		NotCovered:  []string{"OpenTelemetry SDK behaviour", "that the transports put W3C keys into TransportMetadata (checked by C38's trace rule on the vgirpc side)"},
		Assumptions: []string{},
		Run:         runC43,
	})
}

// ---------------------------------------------------------------- C33

func runC33(c *Ctx) {
	r := c.R
	for _, un := range []string{"s3", "gcs"} {
		u := c.Unit[un]
		if u == nil {
			r.Undec("R-KEY-ENTROPY", un, "-", "unit not loaded")
			continue
		}
		var up *ssa.Function
		for _, n := range u.FuncNames() {
			if strings.HasSuffix(n, ").Upload") {
				up = u.Func(n)
			}
		}
		if up == nil {
			r.Undec("R-KEY-ENTROPY", un+"|Upload", "-", "Upload method not found")
			continue
		}
		r.Analysed(un + ":" + shortName(up))
		// key sinks
		var keys []ssa.Value
		var at []ssa.Instruction
		Instrs(up, func(in ssa.Instruction) {
			switch x := in.(type) {
			case *ssa.Store:
				if fa, ok := x.Addr.(*ssa.FieldAddr); ok && fieldName(fa.X.Type(), fa.Field) == "Key" {
					keys = append(keys, x.Val)
					at = append(at, in)
				}
			case ssa.CallInstruction:
				n := u.CalleeName(x.Common())
				if strings.HasSuffix(n, "BucketHandle).Object") || strings.HasSuffix(n, "BucketHandle).SignedURL") {
					keys = append(keys, x.Common().Args[1])
					at = append(at, in)
				}
			}
		})
		if len(keys) < 2 {
			r.Undec("R-KEY-ENTROPY", un+"|sinks", u.Pos(up.Pos()), "fewer than two key sinks found")
			continue
		}
		// all sinks use the same key value
		root := func(v ssa.Value) ssa.Value {
			for {
				switch x := v.(type) {
				case *ssa.Call:
					if strings.HasSuffix(u.CalleeName(&x.Call), "aws.String") && len(x.Call.Args) == 1 {
						v = x.Call.Args[0]
						continue
					}
				case *ssa.MakeInterface:
					v = x.X
					continue
				}
				return v
			}
		}
		same := true
		for _, k := range keys[1:] {
			if root(k) != root(keys[0]) {
				same = false
			}
		}
		r.Check(same, "R-KEY-SAME", un+"|Upload", u.Pos(at[0].Pos()), "the uploaded key and the presigned/returned key are one value", "Upload writes to one key and signs/returns another")
		seedfixC33(c, un, u, root(keys[0]), u.Pos(at[0].Pos()))
		uploadKeepsNoState(c, un, u, up)
		os := u.Origins(root(keys[0]), &OriginOpts{Into: true, MaxNodes: 1500})
		random := []string{}
		clock := []string{}
		for _, o := range os {
			d := o.Desc
			switch {
			case o.Kind == "fill" && strings.HasPrefix(d, "crypto/rand."):
				random = append(random, "fill:"+d)
			case o.Kind == "call" && (strings.HasSuffix(d, "uuid.New") || strings.HasSuffix(d, "uuid.NewRandom") || strings.HasSuffix(d, "uuid.NewString") || strings.HasPrefix(d, "crypto/rand.")):
				random = append(random, d)
			case strings.Contains(d, "time.Now") || strings.Contains(d, "UnixNano") || strings.Contains(d, ").Unix"):
				clock = append(clock, d)
			}
		}
		r.Check(len(random) > 0, "R-KEY-ENTROPY", un+"|Upload key", u.Pos(at[0].Pos()), "object key includes "+strings.Join(dedup(random), ", "),
			"the object key's only varying sources are {"+strings.Join(dedup(clock), ", ")+"} (all origins: "+OriginSummary(os)+"): two uploads in the same clock tick write to the same key and the later payload overwrites the earlier one")
	}
}

// ---------------------------------------------------------------- C43

func runC43(c *Ctx) {
	r := c.R
	u := c.Unit["otel"]
	if u == nil {
		r.Undec("R-SPAN-END", "otel", "-", "unit not loaded")
		return
	}
	end := u.Func("(*otelHook).OnDispatchEnd")
	start := u.Func("(*otelHook).OnDispatchStart")
	if end == nil || start == nil {
		r.Undec("R-SPAN-END", "hooks", "-", "otelHook methods do not resolve")
		return
	}
	r.Analysed("otel:"+shortName(end), "otel:"+shortName(start))
	seedfixC43(c, u)
	isEnd := u.CallMatcher(HasSuffix("trace.Span.End"), true)
	ends := u.Calls(end, HasSuffix("trace.Span.End"))
	// End nowhere else in the module
	total := 0
	for _, f := range u.SrcFuncs() {
		total += len(u.Calls(f, HasSuffix("trace.Span.End")))
	}
	r.Check(len(ends) == 1 && total == 1, "R-SPAN-END", "single-site", u.Pos(end.Pos()), "span.End() is called at exactly one site, in OnDispatchEnd", "span.End() call sites: "+itoa(total)+" (expected exactly one, in OnDispatchEnd)")
	if len(ends) == 1 {
		e := ends[0]
		j := strings.Join(u.GuardStrings(e.Instr), " && ")
		okG := strings.Contains(j, "IsRecording(") && !strings.Contains(j, "!invoke") && strings.Contains(j, ".span != nil)")
		r.Check(okG, "R-SPAN-END", "guard", u.Pos(e.Instr.Pos()), "End under span != nil ∧ IsRecording()", "End guarded by: "+j)
		// every path from the IsRecording true edge to return passes End exactly once
		rec := u.Calls(end, HasSuffix("trace.Span.IsRecording"))
		if len(rec) == 1 {
			var trueBlk *ssa.BasicBlock
			for _, ref := range *rec[0].Value().Referrers() {
				if ifi, ok := ref.(*ssa.If); ok {
					trueBlk = ifi.Block().Succs[0]
				}
			}
			if trueBlk != nil {
				_, skip := ReachWithout(end, trueBlk.Instrs[0], IsReturn, isEnd)
				mm := CountOnPaths(end, trueBlk.Instrs[0], isEnd, IsReturn)
				many := false
				for _, v := range mm {
					if v.Max > 1 {
						many = true
					}
				}
				r.Check(!skip && !many, "R-SPAN-END", "exactly-once", u.Pos(e.Instr.Pos()), "every path through the recording branch ends the span exactly once", "a path through the recording branch ends the span zero or several times")
			} else {
				r.Undec("R-SPAN-END", "exactly-once", u.Pos(end.Pos()), "IsRecording branch not found")
			}
		}
		// SetStatus precedes End
		for _, ss := range u.Calls(end, HasSuffix("trace.Span.SetStatus")) {
			_, after := ReachWithout(end, e.Instr, isInstr(ss.Instr), nil)
			r.Check(!after && reachable(end, ss.Instr, e.Instr), "R-SPAN-END", "status-before-end", u.Pos(ss.Instr.Pos()), "status set before End", "SetStatus can run after End (ignored by the SDK)")
		}
	}
	// R-STATUS-IFF
	n := 0
	for _, ss := range u.Calls(end, HasSuffix("trace.Span.SetStatus")) {
		n++
		code := u.Describe(ss.Arg(0))
		errNonNil := u.HasGuardContaining(ss.Instr, "(err != nil)")
		errNil := u.HasGuardContaining(ss.Instr, "(err == nil)")
		switch code {
		case "1": // codes.Error
			r.Check(errNonNil, "R-STATUS-IFF", "Error", u.Pos(ss.Instr.Pos()), "Error status only for a failed call", "codes.Error set without err != nil")
		case "2": // codes.Ok
			r.Check(errNil, "R-STATUS-IFF", "Ok", u.Pos(ss.Instr.Pos()), "Ok status only for a successful call", "codes.Ok set without err == nil")
		default:
			r.Viol("R-STATUS-IFF", "code "+code, u.Pos(ss.Instr.Pos()), "unexpected status code")
		}
	}
	if n != 2 {
		r.Undec("R-STATUS-IFF", "sites", u.Pos(end.Pos()), "expected two SetStatus sites")
	}
	// R-COUNTER-ONCE
	adds := u.Calls(end, HasSuffix("metric.Int64Counter.Add"))
	if len(adds) != 1 {
		r.Viol("R-COUNTER-ONCE", "Add-sites", u.Pos(end.Pos()), "requestCounter.Add sites: "+itoa(len(adds)))
	} else {
		a := adds[0]
		mm := CountOnPaths(end, nil, isInstr(a.Instr), IsReturn)
		many := false
		for _, v := range mm {
			if v.Max > 1 {
				many = true
			}
		}
		k, _ := ConstInt(a.Arg(1))
		r.Check(!many && k == 1, "R-COUNTER-ONCE", "once", u.Pos(a.Instr.Pos()), "counter incremented by 1 at most once per call", "counter can be incremented more than once / by "+itoa(int(k)))
		// status attribute: phi("ok","error") selected by err != nil
		okStatus := false
		Instrs(end, func(in ssa.Instruction) {
			phi, ok := in.(*ssa.Phi)
			if !ok || len(phi.Edges) != 2 {
				return
			}
			vals := map[string]int{}
			for i, e := range phi.Edges {
				if s, ok := ConstString(e); ok {
					vals[s] = i
				}
			}
			ie, hasE := vals["error"]
			io, hasO := vals["ok"]
			if !hasE || !hasO {
				return
			}
			// …or, written the other way round, the "ok" edge comes from the block entered on err == nil
			po := phi.Block().Preds[io]
			for _, g := range append(blockEntryGuard(po), GuardsAt(po)...) {
				if x, isNil, ok := nilCompare(g); ok && isNil && u.Describe(x) == "err" {
					okStatus = true
				}
			}
			// the "error" edge comes from the block entered on err != nil
			p := phi.Block().Preds[ie]
			for _, g := range append(blockEntryGuard(p), GuardsAt(p)...) {
				if x, isNil, ok := nilCompare(g); ok && !isNil && u.Describe(x) == "err" {
					okStatus = true
				}
			}
		})
		r.Check(okStatus, "R-COUNTER-ONCE", "status-attr", u.Pos(a.Instr.Pos()), "status attribute is \"error\" exactly when err != nil", "the status attribute is not selected by err != nil")
	}
	// R-PARENT
	st := u.Calls(start, HasSuffix("trace.Tracer.Start"))
	if len(st) != 1 {
		r.Viol("R-PARENT", "Start-sites", u.Pos(start.Pos()), "tracer.Start sites: "+itoa(len(st)))
		return
	}
	os := u.Origins(st[0].Arg(0), &OriginOpts{MaxNodes: 200})
	hasExtract := false
	for _, o := range os {
		if o.Kind == "call" && strings.HasSuffix(o.Desc, "TextMapPropagator.Extract") {
			hasExtract = true
		}
	}
	exOK := false
	for _, ex := range u.Calls(start, HasSuffix("TextMapPropagator.Extract")) {
		if strings.Contains(u.Describe(ex.Arg(1)), "info.TransportMetadata") {
			exOK = true
		}
	}
	r.Check(hasExtract && exOK, "R-PARENT", "Start-context", u.Pos(st[0].Instr.Pos()), "span context derives from Propagator.Extract over the transport metadata", "tracer.Start's context does not derive from Propagator.Extract(ctx, MapCarrier(info.TransportMetadata))")
	// R-TOKEN
	okTok := false
	for _, s := range u.StoresToField(start, "spanToken", "span") {
		if rootCall(s.Val) == st[0].Value().(*ssa.Call) {
			okTok = true
		}
	}
	r.Check(okTok, "R-TOKEN", "token-span", u.Pos(st[0].Instr.Pos()), "the token carries the span Start returned", "the token's span is not the one tracer.Start returned")
	usesTok := false
	for _, e := range ends {
		if strings.Contains(u.Describe(e.Common().Value), "spanToken(token)") {
			usesTok = true
		}
	}
	r.Check(usesTok, "R-TOKEN", "end-uses-token", u.Pos(end.Pos()), "End is called on the token's span", "End is not called on the span carried by the token")
}
