package main

import (
	"regexp"
	"strings"

	"golang.org/x/tools/go/ssa"
)

var reCache = map[string]*regexp.Regexp{}

func mustRe(s string) *regexp.Regexp {
	if r, ok := reCache[s]; ok {
		return r
	}
	r := regexp.MustCompile(s)
	reCache[s] = r
	return r
}

// lockName renders the mutex operand of a Lock/Unlock call: "c.mu", "r.mu",
// "s.transportMu", "entry.lock".
func (u *Unit) lockName(v ssa.Value) string {
	d := u.Describe(v)
	return strings.TrimPrefix(d, "&")
}

// LockHeldAt computes, for every instruction of fn, the set of mutexes that
// are definitely held when it executes (must-analysis: intersection at
// joins). Lock/RLock add, Unlock/RUnlock remove; deferred unlocks do not
// release before the return. Locks taken by callees are not modelled.
func (u *Unit) LockHeldAt(fn *ssa.Function) map[ssa.Instruction]map[string]bool {
	type set map[string]bool
	clone := func(s set) set {
		o := set{}
		for k := range s {
			o[k] = true
		}
		return o
	}
	in := map[*ssa.BasicBlock]set{}
	out := map[*ssa.BasicBlock]set{}
	res := map[ssa.Instruction]map[string]bool{}
	if len(fn.Blocks) == 0 {
		return res
	}
	transfer := func(b *ssa.BasicBlock, s set, record bool) set {
		cur := clone(s)
		for _, ins := range b.Instrs {
			if record {
				res[ins] = clone(cur)
			}
			c, ok := ins.(*ssa.Call)
			if !ok {
				continue
			}
			name := u.CalleeName(&c.Call)
			switch name {
			case "(*sync.Mutex).Lock", "(*sync.RWMutex).Lock", "(*sync.RWMutex).RLock":
				cur[u.lockName(c.Call.Args[0])] = true
			case "(*sync.Mutex).Unlock", "(*sync.RWMutex).Unlock", "(*sync.RWMutex).RUnlock":
				delete(cur, u.lockName(c.Call.Args[0]))
			}
		}
		return cur
	}
	// initialise: entry empty, others "top" (nil = unvisited)
	in[fn.Blocks[0]] = set{}
	changed := true
	for iter := 0; changed && iter < 200; iter++ {
		changed = false
		for _, b := range fn.Blocks {
			if b != fn.Blocks[0] {
				var m set
				for _, p := range b.Preds {
					po, ok := out[p]
					if !ok {
						continue
					}
					if m == nil {
						m = clone(po)
					} else {
						for k := range m {
							if !po[k] {
								delete(m, k)
							}
						}
					}
				}
				if m == nil {
					continue
				}
				in[b] = m
			}
			no := transfer(b, in[b], false)
			old, had := out[b]
			same := had && len(old) == len(no)
			if same {
				for k := range no {
					if !old[k] {
						same = false
					}
				}
			}
			if !same {
				out[b] = no
				changed = true
			}
		}
	}
	for _, b := range fn.Blocks {
		if s, ok := in[b]; ok {
			transfer(b, s, true)
		}
	}
	return res
}
