package main

import (
	"go/token"
	"regexp/syntax"
	"sort"
	"strings"

	"golang.org/x/tools/go/ssa"
)

// Additional C28 rules.
//
//	R-BOUNDARY-EXACT  the parser's "whole parameter name" test is made of equality
//	                  tests of the preceding byte against exactly the separator bytes
//	                  the builder writes between parameters (", "), plus idx == 0.
//	R-EMIT-INDEPENDENT every optional parameter is written under its own
//	                  non-emptiness test and nothing else, with its own field as value.
//	R-PAIRING         reader function ↔ parameter name ↔ metadata field agree.
//	R-QUOTE-EXCLUDED  every pattern Validate applies to an interpolated field
//	                  is an anchored character class that excludes '"'.
func runC28Extra(c *Ctx) {
	u, r := c.U, c.R
	G := func(in ssa.Instruction) []string { return u.GuardStrings(in) }
	bf := u.Func("buildWWWAuthenticate")
	pq := u.Func("parseQuotedParam")
	if bf == nil || pq == nil {
		return
	}
	// separators written by the builder: the bytes before each name in `, name="`
	seps := map[int64]bool{}
	Instrs(bf, func(in ssa.Instruction) {
		for _, op := range in.Operands(nil) {
			if s, ok := ConstString(*op); ok {
				if i := strings.Index(s, `="`); i > 0 {
					j := i
					for j > 0 && (s[j-1] == '_' || s[j-1] >= 'a' && s[j-1] <= 'z') {
						j--
					}
					for _, b := range []byte(s[:j]) {
						if b == ' ' || b == ',' {
							seps[int64(b)] = true
						}
					}
				}
			}
		}
	})
	// R-BOUNDARY-EXACT
	var consts []int64
	bad := ""
	nUses := 0
	Instrs(pq, func(in ssa.Instruction) {
		var v ssa.Value
		switch x := in.(type) {
		case *ssa.Lookup:
			v = x
		case *ssa.Index:
			v = x
		default:
			return
		}
		if !strings.HasSuffix(u.Describe(v), "[(idx - 1)]") && !strings.Contains(u.Describe(v), " - 1)]") {
			return
		}
		for _, ref := range *v.Referrers() {
			nUses++
			b, ok := ref.(*ssa.BinOp)
			if !ok || (b.Op != token.EQL && b.Op != token.NEQ) {
				bad = "the byte before the match is used by " + strings.TrimSpace(ref.String()) + ", not compared for equality with a separator"
				continue
			}
			k, isK := ConstInt(b.Y)
			if !isK {
				k, isK = ConstInt(b.X)
			}
			if !isK {
				bad = "the byte before the match is compared with a non-constant"
				continue
			}
			consts = append(consts, k)
		}
	})
	sort.Slice(consts, func(i, j int) bool { return consts[i] < consts[j] })
	okB := bad == "" && nUses > 0
	var cs []string
	for _, k := range consts {
		cs = append(cs, itoa(int(k)))
		if !seps[k] {
			okB = false
		}
	}
	det := bad
	if det == "" {
		det = "preceding byte compared with {" + strings.Join(cs, ",") + "}, the builder separates parameters with bytes {44,32}"
	}
	r.Check(okB, "R-BOUNDARY-EXACT", "parseQuotedParam", u.Pos(pq.Pos()), "a match counts only at the start or right after a separator byte the builder writes ({"+strings.Join(cs, ",")+"})", "parseQuotedParam's whole-name test is not an exact separator test: "+det+" — a name that is the tail of a longer name (client_id in device_code_client_id) can match inside it")
	// R-EMIT-INDEPENDENT + R-PAIRING (writer side)
	wantField := map[string]string{"client_id": "ClientID", "client_secret": "ClientSecret", "device_code_client_id": "DeviceCodeClientID", "device_code_client_secret": "DeviceCodeClientSecret"}
	seen := map[string]bool{}
	for _, cs := range u.Calls(bf, Is("fmt.Sprintf")) {
		f, ok := ConstString(cs.Arg(0))
		if !ok {
			continue
		}
		i := strings.Index(f, `="%s"`)
		if i < 0 {
			continue
		}
		j := i
		for j > 0 && (f[j-1] == '_' || f[j-1] >= 'a' && f[j-1] <= 'z') {
			j--
		}
		name := f[j:i]
		if name == "resource_metadata" {
			r.Check(len(G(cs.Instr)) == 0, "R-EMIT-INDEPENDENT", "resource_metadata", u.Pos(cs.Instr.Pos()), "always written", "resource_metadata written only under "+strings.Join(G(cs.Instr), " && "))
			continue
		}
		field := wantField[name]
		if field == "" {
			r.Viol("R-PAIRING", "writer|"+name, u.Pos(cs.Instr.Pos()), "unknown parameter "+name+" written")
			continue
		}
		seen[name] = true
		gs := G(cs.Instr)
		okG := len(gs) == 1 && gs[0] == `(m.`+field+` != "")`
		r.Check(okG, "R-EMIT-INDEPENDENT", name, u.Pos(cs.Instr.Pos()), "written exactly when m."+field+" is non-empty", name+" is written under ["+strings.Join(gs, " && ")+"], not exactly (m."+field+` != "")`+": a value that is set is not advertised (or an empty one is)")
		// the value interpolated is that field
		val := ""
		Instrs(bf, func(in ssa.Instruction) {
			if st, ok := in.(*ssa.Store); ok && st.Block() == cs.Instr.Block() {
				if d := u.Describe(st.Val); strings.HasPrefix(d, "m.") {
					val = d
				}
			}
		})
		r.Check(val == "m."+field, "R-PAIRING", "writer|"+name, u.Pos(cs.Instr.Pos()), name+" carries m."+field, name+" carries "+val)
	}
	for n := range wantField {
		if !seen[n] {
			r.Viol("R-EMIT-INDEPENDENT", n, u.Pos(bf.Pos()), "parameter "+n+" is never written")
		}
	}
	// reader side: ParseX looks up its own name
	readers := map[string]string{"ParseClientID": "client_id", "ParseClientSecret": "client_secret", "ParseDeviceCodeClientID": "device_code_client_id", "ParseDeviceCodeClientSecret": "device_code_client_secret", "ParseResourceMetadataURL": "resource_metadata"}
	var rn []string
	for n := range readers {
		rn = append(rn, n)
	}
	sort.Strings(rn)
	for _, n := range rn {
		f := u.Func(n)
		if f == nil {
			continue // optional helper names; the table below requires at least four
		}
		got := ""
		for _, cs := range u.Calls(f, Is("parseQuotedParam")) {
			got, _ = ConstString(cs.Arg(1))
		}
		r.Check(got == readers[n], "R-PAIRING", "reader|"+n, u.Pos(f.Pos()), n+" reads "+readers[n], n+" reads parameter "+got)
	}
	// R-QUOTE-EXCLUDED
	if vf := u.Func("(*OAuthResourceMetadata).Validate"); vf != nil {
		pats := map[string]bool{}
		for _, cs := range u.Calls(vf, Is("(*regexp.Regexp).MatchString")) {
			g := u.Describe(cs.Arg(0))
			pats[strings.TrimPrefix(g, "global:")] = true
		}
		var pn []string
		for p := range pats {
			pn = append(pn, p)
		}
		sort.Strings(pn)
		for _, p := range pn {
			pat, ok := c.globalRegexPattern(p)
			if !ok {
				r.Undec("R-QUOTE-EXCLUDED", p, u.Pos(vf.Pos()), "pattern of "+p+" not a constant")
				continue
			}
			why := classExcludesQuote(pat)
			r.Check(why == "", "R-QUOTE-EXCLUDED", p, u.Pos(vf.Pos()), "pattern "+pat+" is anchored and cannot match a double quote", "pattern "+pat+" "+why+": a validated value can end the quoted parameter early and inject another one")
		}
		if len(pn) == 0 {
			r.Viol("R-QUOTE-EXCLUDED", "patterns", u.Pos(vf.Pos()), "Validate applies no pattern")
		}
	}
	r.Floor("R-BOUNDARY-EXACT", 1)
	r.Floor("R-EMIT-INDEPENDENT", 5)
	r.Floor("R-PAIRING", 8)
	r.Floor("R-QUOTE-EXCLUDED", 1)
}

// classExcludesQuote returns "" when pat is ^class+$ / ^class*$ with a class
// that does not contain '"'; otherwise the reason.
func classExcludesQuote(pat string) string {
	re, err := syntax.Parse(pat, syntax.Perl)
	if err != nil {
		return "does not parse"
	}
	re = re.Simplify()
	if re.Op != syntax.OpConcat || len(re.Sub) != 3 || re.Sub[0].Op != syntax.OpBeginText || re.Sub[2].Op != syntax.OpEndText {
		return "is not of the anchored form ^[class]+$"
	}
	body := re.Sub[1]
	if body.Op != syntax.OpPlus && body.Op != syntax.OpStar {
		return "is not a repeated character class"
	}
	cl := body.Sub[0]
	if cl.Op != syntax.OpCharClass {
		return "is not a character class"
	}
	for i := 0; i+1 < len(cl.Rune); i += 2 {
		if cl.Rune[i] <= '"' && '"' <= cl.Rune[i+1] {
			return "admits the double quote"
		}
	}
	return ""
}
