package main

import (
	"go/token"
	"go/types"
	"sort"
	"strings"

	"golang.org/x/tools/go/ssa"
)

// ---------- package-wide indexes ----------

type flowIndex struct {
	callers     map[*ssa.Function][]CallSite        // static call sites per callee (root package)
	fieldStores map[string][]*ssa.Store             // "Type.field" → stores
	closureOf   map[*ssa.Function]*ssa.MakeClosure  // anon fn → its MakeClosure
	allocStores map[*ssa.Alloc][]*ssa.Store         // stores directly to an alloc
	elemStores  map[*ssa.Alloc][]*ssa.Store         // stores to elements of a local array (varargs etc.)
	globalStore map[*ssa.Global][]*ssa.Store
}

func (u *Unit) flow() *flowIndex {
	if u.fidx != nil {
		return u.fidx
	}
	fi := &flowIndex{
		callers:     map[*ssa.Function][]CallSite{},
		fieldStores: map[string][]*ssa.Store{},
		closureOf:   map[*ssa.Function]*ssa.MakeClosure{},
		allocStores: map[*ssa.Alloc][]*ssa.Store{},
		elemStores:  map[*ssa.Alloc][]*ssa.Store{},
		globalStore: map[*ssa.Global][]*ssa.Store{},
	}
	for _, fn := range u.SrcFuncs() {
		Instrs(fn, func(in ssa.Instruction) {
			switch x := in.(type) {
			case ssa.CallInstruction:
				c := x.Common()
				if !c.IsInvoke() {
					switch f := c.Value.(type) {
					case *ssa.Function:
						fi.callers[f] = append(fi.callers[f], CallSite{fn, x, u.qualName(f)})
					case *ssa.MakeClosure:
						g := f.Fn.(*ssa.Function)
						fi.callers[g] = append(fi.callers[g], CallSite{fn, x, u.qualName(g)})
					}
				}
			case *ssa.Store:
				switch a := x.Addr.(type) {
				case *ssa.FieldAddr:
					fi.fieldStores[fieldKey(a.X.Type(), a.Field)] = append(fi.fieldStores[fieldKey(a.X.Type(), a.Field)], x)
				case *ssa.IndexAddr:
					if al, ok := a.X.(*ssa.Alloc); ok {
						fi.elemStores[al] = append(fi.elemStores[al], x)
					}
				case *ssa.Alloc:
					fi.allocStores[a] = append(fi.allocStores[a], x)
				case *ssa.Global:
					fi.globalStore[a] = append(fi.globalStore[a], x)
				}
			case *ssa.MakeClosure:
				fi.closureOf[x.Fn.(*ssa.Function)] = x
			}
		})
	}
	u.fidx = fi
	return fi
}

// fieldKey names a struct field by its owning named type: "stickySink.auth".
func fieldKey(t types.Type, idx int) string {
	if p, ok := t.Underlying().(*types.Pointer); ok {
		t = p.Elem()
	}
	name := "?"
	if n, ok := t.(*types.Named); ok {
		name = n.Obj().Name()
	}
	return name + "." + fieldName(t, idx)
}

// isRootStruct: t (or *t) is a named struct type declared in the analysed package.
func (u *Unit) isRootStruct(t types.Type) bool {
	if p, ok := t.Underlying().(*types.Pointer); ok {
		t = p.Elem()
	}
	n, ok := t.(*types.Named)
	return ok && n.Obj().Pkg() == u.Root.Types
}

// Callers returns the static call sites of fn within the root package.
func (u *Unit) Callers(fn *ssa.Function) []CallSite { return u.flow().callers[fn] }

// CallersByName returns call sites (shallow+closures, whole package) whose
// callee name matches.
func (u *Unit) CallSitesOf(match func(string) bool) []CallSite {
	var out []CallSite
	for _, fn := range u.SrcFuncs() {
		out = append(out, u.Calls(fn, match)...)
	}
	return out
}

// ---------- backward provenance ----------

// Origin is a root of a backward data-flow walk.
type Origin struct {
	Kind string // call | const | param | alloc | global | field | other
	Desc string
	Val  ssa.Value
}

// OriginOpts tunes the walk.
type OriginOpts struct {
	// Through lists callee names whose result is treated as derived from the
	// given argument indices (data passes through).
	Through map[string][]int
	// Into: also walk into the returned values of root-package callees and
	// through library formatting helpers (fmt.Sprint*, hex, base64, String()).
	Into bool
	MaxNodes int
}

// Origins walks backwards from v through phis, conversions, extracts,
// loads of locals/fields/globals (flow-insensitively: any store to the same
// alloc/field/global anywhere in the package), closure free variables and —
// inter-procedurally — parameters to the arguments of every static call site
// in the package. It returns the set of roots reached.
func (u *Unit) Origins(v ssa.Value, opt *OriginOpts) []Origin {
	if opt == nil {
		opt = &OriginOpts{}
	}
	max := opt.MaxNodes
	if max == 0 {
		max = 4000
	}
	fi := u.flow()
	seen := map[ssa.Value]bool{}
	var out []Origin
	outSeen := map[string]bool{}
	add := func(kind, desc string, val ssa.Value) {
		k := kind + "|" + desc
		if !outSeen[k] {
			outSeen[k] = true
			out = append(out, Origin{kind, desc, val})
		}
	}
	// a buffer's content comes from whatever fills it: calls that receive the
	// buffer (or a slice of it) are reported as "fill" origins
	var walk func(v ssa.Value)
	var addFills func(v ssa.Value, depth int)
	addFills = func(v ssa.Value, depth int) {
		if depth > 3 || v.Referrers() == nil {
			return
		}
		for _, ref := range *v.Referrers() {
			switch y := ref.(type) {
			case ssa.CallInstruction:
				cn := u.CalleeName(y.Common())
				add("fill", cn, v)
				// an encoder writing dst from src: the content is src's
				if args := y.Common().Args; len(args) >= 2 && args[0] == v {
					switch {
					case cn == "encoding/hex.Encode", cn == "copy", strings.HasSuffix(cn, "Encoding).Encode"):
						walk(args[1])
					}
				}
			case *ssa.Slice:
				addFills(y, depth+1)
			}
		}
	}
	walk = func(v ssa.Value) {
		if v == nil || seen[v] {
			return
		}
		if len(seen) > max {
			add("other", "walk-budget-exceeded", v)
			return
		}
		seen[v] = true
		switch x := v.(type) {
		case *ssa.Const:
			add("const", u.Describe(x), x)
		case *ssa.Phi:
			for _, e := range x.Edges {
				walk(e)
			}
		case *ssa.MakeInterface:
			walk(x.X)
		case *ssa.ChangeType:
			walk(x.X)
		case *ssa.ChangeInterface:
			walk(x.X)
		case *ssa.Convert:
			walk(x.X)
		case *ssa.Slice:
			walk(x.X)
		case *ssa.TypeAssert:
			walk(x.X)
		case *ssa.Extract:
			if call, ok := x.Tuple.(*ssa.Call); ok {
				name := u.CalleeName(&call.Call)
				if idxs, ok := opt.Through[name]; ok {
					for _, i := range idxs {
						if i < len(call.Call.Args) {
							walk(call.Call.Args[i])
						}
					}
					return
				}
				add("call", name+"#"+itoa(x.Index), x)
				return
			}
			walk(x.Tuple)
		case *ssa.Call:
			name := u.CalleeName(&x.Call)
			if b, isB := x.Call.Value.(*ssa.Builtin); isB && (b.Name() == "append" || b.Name() == "min" || b.Name() == "max") {
				for _, a := range x.Call.Args {
					walk(a)
				}
				return
			}
			if idxs, ok := opt.Through[name]; ok {
				for _, i := range idxs {
					if i < len(x.Call.Args) {
						walk(x.Call.Args[i])
					}
				}
				return
			}
			add("call", name, x)
			if opt.Into {
				if f, ok := x.Call.Value.(*ssa.Function); ok && f.Pkg == u.SPkg && f.Blocks != nil {
					Instrs(f, func(in ssa.Instruction) {
						if ret, ok := in.(*ssa.Return); ok {
							for _, rv := range ret.Results {
								walk(rv)
							}
						}
					})
				}
				// library formatting/encoding helpers pass their arguments through
				if strings.HasPrefix(name, "fmt.Sprint") || strings.HasPrefix(name, "encoding/hex.") || strings.HasPrefix(name, "encoding/base64.") || strings.HasSuffix(name, ").String") {
					for _, a := range x.Call.Args {
						walk(a)
					}
				}
			}
		case *ssa.MakeSlice:
			add("other", "makeslice", x)
			addFills(x, 0)
		case *ssa.BinOp:
			walk(x.X)
			walk(x.Y)
		case *ssa.UnOp:
			if x.Op != token.MUL {
				walk(x.X)
				return
			}
			switch a := x.X.(type) {
			case *ssa.Alloc:
				sts := fi.allocStores[a]
				if len(sts) == 0 {
					add("alloc", u.Describe(a), a)
				}
				for _, s := range sts {
					walk(s.Val)
				}
				// alloc captured by closures: stores happen through FreeVars
				for _, s := range u.freeVarStores(a) {
					walk(s.Val)
				}
			case *ssa.FieldAddr:
				key := fieldKey(a.X.Type(), a.Field)
				sts := fi.fieldStores[key]
				add("field", key, x)
				for _, s := range sts {
					walk(s.Val)
				}
				// field of a local struct copy: the whole value was stored to the alloc
				if base, ok := a.X.(*ssa.Alloc); ok {
					for _, s := range fi.allocStores[base] {
						walk(s.Val)
					}
				}
			case *ssa.Global:
				add("global", a.Name(), a)
				for _, s := range fi.globalStore[a] {
					walk(s.Val)
				}
			case *ssa.FreeVar:
				// load through a captured variable: resolve to the captured alloc
				if b := u.freeVarBinding(a); b != nil {
					if al, ok := b.(*ssa.Alloc); ok {
						for _, s := range fi.allocStores[al] {
							walk(s.Val)
						}
						for _, s := range u.freeVarStores(al) {
							walk(s.Val)
						}
						return
					}
					walk(b)
					return
				}
				add("other", "freevar:"+a.Name(), a)
			case *ssa.IndexAddr:
				walk(a.X)
			default:
				walk(x.X)
			}
		case *ssa.Field:
			add("field", fieldKey(x.X.Type(), x.Field), x)
			walk(x.X)
		case *ssa.FieldAddr:
			walk(x.X)
		case *ssa.Lookup:
			walk(x.X)
		case *ssa.Index:
			walk(x.X)
		case *ssa.IndexAddr:
			walk(x.X)
		case *ssa.Parameter:
			fn := x.Parent()
			idx := -1
			for i, p := range fn.Params {
				if p == x {
					idx = i
				}
			}
			sites := fi.callers[fn]
			if len(sites) == 0 || idx < 0 {
				// method value / interface dispatch / exported entry point
				add("param", x.Name()+"@"+u.qualName(fn), x)
				return
			}
			for _, cs := range sites {
				args := cs.Common().Args
				if idx < len(args) {
					walk(args[idx])
				}
			}
		case *ssa.FreeVar:
			if b := u.freeVarBinding(x); b != nil {
				walk(b)
			} else {
				add("other", "freevar:"+x.Name(), x)
			}
		case *ssa.Alloc:
			add("alloc", u.Describe(x)+":"+typeShort(x.Type()), x)
			// the address of a local whose whole value was stored: the stored values flow too
			for _, s := range fi.allocStores[x] {
				walk(s.Val)
			}
			// elements / fields stored into the local (varargs arrays, composite literals)
			for _, s := range fi.elemStores[x] {
				walk(s.Val)
			}
			if opt.Into {
				addFills(x, 0)
			}
		case *ssa.MakeClosure:
			add("other", "closure:"+u.qualName(x.Fn.(*ssa.Function)), x)
		case *ssa.Global:
			add("global", x.Name(), x)
		case *ssa.Function:
			add("other", "func:"+u.qualName(x), x)
		default:
			add("other", u.Describe(v), v)
		}
	}
	walk(v)
	sort.Slice(out, func(i, j int) bool { return out[i].Kind+out[i].Desc < out[j].Kind+out[j].Desc })
	return out
}

// freeVarBinding maps a FreeVar of an anonymous function to the value bound
// by its MakeClosure.
func (u *Unit) freeVarBinding(fv *ssa.FreeVar) ssa.Value {
	fn := fv.Parent()
	mc := u.flow().closureOf[fn]
	if mc == nil {
		return nil
	}
	for i, f := range fn.FreeVars {
		if f == fv && i < len(mc.Bindings) {
			return mc.Bindings[i]
		}
	}
	return nil
}

// freeVarStores finds stores made through closures that captured alloc a.
func (u *Unit) freeVarStores(a *ssa.Alloc) []*ssa.Store {
	var out []*ssa.Store
	fn := a.Parent()
	if fn == nil {
		return nil
	}
	for _, g := range WithAnon(fn)[1:] {
		for i, fv := range g.FreeVars {
			mc := u.flow().closureOf[g]
			if mc == nil || i >= len(mc.Bindings) {
				continue
			}
			// binding may itself be a freevar of an outer closure bound to a
			b := mc.Bindings[i]
			for {
				if f2, ok := b.(*ssa.FreeVar); ok {
					b = u.freeVarBinding(f2)
					continue
				}
				break
			}
			if b != ssa.Value(a) {
				continue
			}
			Instrs(g, func(in ssa.Instruction) {
				if s, ok := in.(*ssa.Store); ok && s.Addr == ssa.Value(fv) {
					out = append(out, s)
				}
			})
		}
	}
	return out
}

// OriginSummary renders origins compactly.
func OriginSummary(os []Origin) string {
	var parts []string
	for _, o := range os {
		parts = append(parts, o.Kind+":"+o.Desc)
	}
	return strings.Join(parts, ", ")
}

// OriginsOfKind filters.
func OriginsOfKind(os []Origin, kind string) []Origin {
	var out []Origin
	for _, o := range os {
		if o.Kind == kind {
			out = append(out, o)
		}
	}
	return out
}

// ---------- forward taint ----------

// TaintOpts configures a forward walk.
type TaintOpts struct {
	// Sanitizers: callee names whose result is clean even if an argument is tainted.
	Sanitizers map[string]bool
	// Neutral: callee names that consume the value without propagating it
	// (result not tainted, not a sink): e.g. len, regexp.MatchString.
	Neutral map[string]bool
	// Sink decides whether passing tainted data as argument argIdx to callee is a violation.
	Sink func(callee string, argIdx int, cs CallSite) bool
	// Stop: callees (by predicate) that consume the value; neither sink nor propagation.
	Stop func(callee string) bool
	// FollowInto: descend into root-package callees through parameters.
	FollowInto bool
	MaxNodes   int
}

// TaintHit is one tainted value reaching a sink.
type TaintHit struct {
	Site   CallSite
	ArgIdx int
	Path   string
}

// Taint walks forward from src through referrers and returns the sink hits.
func (u *Unit) Taint(src ssa.Value, opt *TaintOpts) []TaintHit {
	fi := u.flow()
	seen := map[ssa.Value]bool{}
	var hits []TaintHit
	max := opt.MaxNodes
	if max == 0 {
		max = 5000
	}
	type item struct {
		v    ssa.Value
		path string
	}
	work := []item{{src, u.Describe(src)}}
	push := func(v ssa.Value, path string) {
		if v != nil && !seen[v] {
			work = append(work, item{v, path})
		}
	}
	for len(work) > 0 && len(seen) < max {
		it := work[len(work)-1]
		work = work[:len(work)-1]
		if seen[it.v] {
			continue
		}
		seen[it.v] = true
		refs := it.v.Referrers()
		if refs == nil {
			continue
		}
		for _, ref := range *refs {
			switch x := ref.(type) {
			case ssa.CallInstruction:
				c := x.Common()
				name := u.CalleeName(c)
				cs := CallSite{x.Parent(), x, name}
				if opt.Sanitizers[name] || opt.Neutral[name] || (opt.Stop != nil && opt.Stop(name)) {
					continue
				}
				for i, a := range c.Args {
					if a != it.v {
						continue
					}
					if opt.Sink != nil && opt.Sink(name, i, cs) {
						hits = append(hits, TaintHit{cs, i, it.path + " → " + name})
					}
					if opt.FollowInto && !c.IsInvoke() {
						if f, ok := c.Value.(*ssa.Function); ok && f.Pkg == u.SPkg && i < len(f.Params) && f.Blocks != nil {
							push(f.Params[i], it.path+" → param "+f.Params[i].Name()+"@"+u.qualName(f))
						}
					}
				}
				if c.Value == it.v {
					continue
				}
				if opt.Sanitizers[name] || opt.Neutral[name] {
					continue
				}
				if call, ok := x.(*ssa.Call); ok {
					// default: the result of a call with a tainted argument is tainted
					// unless the callee is a root-package function we descend into.
					if f, ok := c.Value.(*ssa.Function); ok && opt.FollowInto && f.Pkg == u.SPkg && f.Blocks != nil {
						// results handled by Return propagation below
						_ = f
					} else {
						push(call, it.path+" → "+name+"()")
					}
				}
			case *ssa.Return:
				// propagate to callers' call values
				fn := x.Parent()
				for _, cs := range fi.callers[fn] {
					v := cs.Value()
					if v == nil {
						continue
					}
					if len(x.Results) <= 1 {
						push(v, it.path+" → return of "+u.qualName(fn))
						continue
					}
					// multi-result: only the matching component of the tuple is tainted
					for ri, rv := range x.Results {
						if rv != it.v {
							continue
						}
						if refs := v.Referrers(); refs != nil {
							for _, ref := range *refs {
								if ex, ok := ref.(*ssa.Extract); ok && ex.Index == ri {
									push(ex, it.path+" → result "+itoa(ri)+" of "+u.qualName(fn))
								}
							}
						}
					}
				}
			case *ssa.Store:
				if x.Val != it.v {
					continue
				}
				switch a := x.Addr.(type) {
				case *ssa.Alloc:
					for _, r2 := range *a.Referrers() {
						if ld, ok := r2.(*ssa.UnOp); ok && ld.Op == token.MUL {
							push(ld, it.path+" → local")
						}
					}
				case *ssa.FieldAddr:
					// taint the base object's field: any load of that field key
					// (only for struct types of the analysed package; for foreign
					// types such as http.Cookie only the base object is tainted)
					key := fieldKey(a.X.Type(), a.Field)
					srcFuncs := u.SrcFuncs()
					if !u.isRootStruct(a.X.Type()) {
						srcFuncs = nil
					}
					for _, fn := range srcFuncs {
						Instrs(fn, func(in ssa.Instruction) {
							if ld, ok := in.(*ssa.UnOp); ok && ld.Op == token.MUL {
								if fa, ok := ld.X.(*ssa.FieldAddr); ok && fieldKey(fa.X.Type(), fa.Field) == key {
									push(ld, it.path+" → field "+key)
								}
							}
						})
					}
					// storing into a field of a local composite also taints the composite value
					push(a.X, it.path+" → &"+key)
				case *ssa.IndexAddr:
					push(a.X, it.path+" → element")
				}
			case *ssa.MapUpdate:
				if x.Value == it.v || x.Key == it.v {
					push(x.Map, it.path+" → map")
				}
			case ssa.Value:
				switch x.(type) {
				case *ssa.Phi, *ssa.Extract, *ssa.MakeInterface, *ssa.ChangeType, *ssa.ChangeInterface, *ssa.Convert,
					*ssa.Slice, *ssa.BinOp, *ssa.TypeAssert, *ssa.Field, *ssa.FieldAddr, *ssa.Index, *ssa.IndexAddr, *ssa.Lookup, *ssa.UnOp, *ssa.MakeClosure:
					if mc, ok := x.(*ssa.MakeClosure); ok {
						g := mc.Fn.(*ssa.Function)
						for i, b := range mc.Bindings {
							if b == it.v && i < len(g.FreeVars) {
								push(g.FreeVars[i], it.path+" → captured by "+u.qualName(g))
							}
						}
						continue
					}
					if b, ok := x.(*ssa.BinOp); ok {
						switch b.Op {
						case token.EQL, token.NEQ, token.LSS, token.GTR, token.LEQ, token.GEQ:
							continue // comparisons yield booleans, not data
						}
					}
					push(x, it.path)
				}
			}
		}
	}
	return hits
}

// DeadUnexported reports whether fn is an unexported root-package function
// with no static caller and no use as a value anywhere in the (non-test)
// package: it cannot run in production.
func (u *Unit) DeadUnexported(fn *ssa.Function) bool {
	if fn == nil || fn.Parent() != nil {
		return false
	}
	if obj := fn.Object(); obj == nil || obj.Exported() {
		return false
	}
	if len(u.flow().callers[fn]) > 0 {
		return false
	}
	used := false
	for _, g := range u.SrcFuncs() {
		Instrs(g, func(in ssa.Instruction) {
			for _, op := range in.Operands(nil) {
				if *op == ssa.Value(fn) {
					if ci, ok := in.(ssa.CallInstruction); ok && ci.Common().Value == ssa.Value(fn) {
						continue
					}
					used = true
				}
				if mc, ok := (*op).(*ssa.MakeClosure); ok && strings.HasPrefix(mc.Fn.Name(), fn.Name()+"$bound") {
					used = true
				}
			}
		})
	}
	return !used
}
