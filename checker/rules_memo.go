package main

import (
	"encoding/json"
	"go/token"
	"os"
	"path/filepath"
	"sort"
	"strings"

	"golang.org/x/tools/go/ssa"
)

// R-MEMO-KEY-COMPLETE. A memo site stores a computed value for later calls: a
// sync.Map Store/LoadOrStore, an assignment into a map held in a field or a
// package variable, a sync.Once body. The value a later call gets back is the
// one computed by an earlier call, so every input the value depends on must be
// part of the key (or be immutable configuration of the object that owns the
// cache). The sites of the reference tree were confirmed by hand and are
// listed in refmemo.json; a site that is not in that list is analysed: the
// inputs (parameters, receiver fields, captured variables, package variables)
// that flow into the stored value but not into the key are reported.

const refMemoFile = "/verif/refmemo.json"

type memoSite struct {
	fn     *ssa.Function
	in     ssa.Instruction
	kind   string
	target ssa.Value
	key    ssa.Value   // nil for sync.Once
	vals   []ssa.Value // values stored
}

func (u *Unit) memoSites() []memoSite {
	var out []memoSite
	for _, top := range u.SrcFuncs() {
		for _, f := range WithAnon(top) {
			Instrs(f, func(in ssa.Instruction) {
				switch x := in.(type) {
				case *ssa.Call:
					switch u.CalleeName(&x.Call) {
					case "(*sync.Map).Store", "(*sync.Map).LoadOrStore", "(*sync.Map).Swap":
						if len(x.Call.Args) >= 3 {
							out = append(out, memoSite{f, in, "sync.Map", x.Call.Args[0], x.Call.Args[1], []ssa.Value{x.Call.Args[2]}})
						}
					case "(*sync.Once).Do":
						if len(x.Call.Args) >= 2 {
							var vals []ssa.Value
							if mc, ok := x.Call.Args[1].(*ssa.MakeClosure); ok {
								g := mc.Fn.(*ssa.Function)
								Instrs(g, func(y ssa.Instruction) {
									if st, ok := y.(*ssa.Store); ok {
										switch st.Addr.(type) {
										case *ssa.Global, *ssa.FieldAddr, *ssa.FreeVar:
											vals = append(vals, st.Val)
										}
									}
								})
								out = append(out, memoSite{g, in, "sync.Once", x.Call.Args[0], nil, vals})
							}
						}
					}
				case *ssa.MapUpdate:
					// a map that lives in a field or a package variable
					if ld, ok := x.Map.(*ssa.UnOp); ok && ld.Op == token.MUL {
						switch ld.X.(type) {
						case *ssa.FieldAddr, *ssa.Global:
							out = append(out, memoSite{f, in, "map", ld.X, x.Key, []ssa.Value{x.Value}})
						}
					}
				}
			})
		}
	}
	return out
}

func (u *Unit) memoKey(s memoSite) string {
	t := u.Describe(s.target)
	return u.Name + "|" + u.topDeclKey(s.fn) + "|" + s.kind + "|" + t
}

func (u *Unit) topDeclKey(fn *ssa.Function) string {
	for fn.Parent() != nil {
		fn = fn.Parent()
	}
	return shortName(fn)
}

func writeRefMemo(units []*Unit) error {
	var keys []string
	for _, u := range units {
		for _, s := range u.memoSites() {
			keys = append(keys, u.memoKey(s))
		}
		for _, s := range u.poolPutSites() {
			keys = append(keys, u.memoKey(s))
		}
	}
	sort.Strings(keys)
	b, _ := json.MarshalIndent(keys, "", " ")
	return os.WriteFile(refMemoFile, b, 0o644)
}

var refMemo map[string]bool

func loadRefMemo() {
	if refMemo != nil {
		return
	}
	refMemo = map[string]bool{}
	b, err := os.ReadFile(refMemoFile)
	if err != nil {
		b, err = os.ReadFile(filepath.Join(filepath.Dir(refNamesFile), "refmemo.json"))
		if err != nil {
			return
		}
	}
	var keys []string
	if json.Unmarshal(b, &keys) == nil {
		for _, k := range keys {
			refMemo[k] = true
		}
	}
}

// inputAtoms: the inputs of fn that v is computed from.
func (u *Unit) inputAtoms(fn *ssa.Function, v ssa.Value) map[string]bool {
	out := map[string]bool{}
	seen := map[ssa.Value]bool{}
	var path func(v ssa.Value) (string, bool)
	path = func(v ssa.Value) (string, bool) {
		switch y := v.(type) {
		case *ssa.Parameter:
			return u.VarName(y), true
		case *ssa.FreeVar:
			return u.VarName(y), true
		case *ssa.Global:
			return "global:" + y.Name(), true
		case *ssa.FieldAddr:
			if p, ok := path(y.X); ok {
				return p + "." + fieldName(derefType(y.X.Type()), y.Field), true
			}
		case *ssa.Field:
			if p, ok := path(y.X); ok {
				return p + "." + fieldName(y.X.Type(), y.Field), true
			}
		case *ssa.UnOp:
			if y.Op == token.MUL {
				return path(y.X)
			}
		}
		return "", false
	}
	var walk func(v ssa.Value, d int)
	// fields of the receiver that a root-package callee reads (transitively, bounded)
	var calleeReads func(f *ssa.Function, recvPath string, d int)
	seenFn := map[*ssa.Function]bool{}
	calleeReads = func(f *ssa.Function, recvPath string, d int) {
		if f == nil || d > 2 || seenFn[f] || len(f.Params) == 0 {
			return
		}
		seenFn[f] = true
		recv := f.Params[0]
		Instrs(f, func(in ssa.Instruction) {
			switch x := in.(type) {
			case *ssa.FieldAddr:
				if x.X == ssa.Value(recv) {
					out[recvPath+"."+fieldName(derefType(recv.Type()), x.Field)] = true
				}
			case *ssa.Call:
				if sc := x.Call.StaticCallee(); sc != nil && sc.Pkg != nil && u.Root != nil && sc.Pkg.Pkg == u.Root.Types && len(x.Call.Args) > 0 && x.Call.Args[0] == ssa.Value(recv) && sc.Signature.Recv() != nil {
					calleeReads(sc, recvPath, d+1)
				}
			}
		})
	}
	walk = func(v ssa.Value, d int) {
		if v == nil || d > 14 || seen[v] || len(seen) > 600 {
			return
		}
		seen[v] = true
		if p, ok := path(v); ok {
			out[p] = true
			return
		}
		switch y := v.(type) {
		case *ssa.Const, *ssa.Function, *ssa.Builtin:
		case *ssa.Phi:
			for _, e := range y.Edges {
				walk(e, d+1)
			}
		case *ssa.BinOp:
			walk(y.X, d+1)
			walk(y.Y, d+1)
		case *ssa.UnOp:
			if al, ok := y.X.(*ssa.Alloc); ok {
				walk(al, d+1)
			} else {
				walk(y.X, d+1)
			}
		case *ssa.Alloc:
			for _, ref := range *y.Referrers() {
				switch r := ref.(type) {
				case *ssa.Store:
					if r.Addr == ssa.Value(y) {
						walk(r.Val, d+1)
					}
				case *ssa.FieldAddr:
					for _, r2 := range *r.Referrers() {
						if st, ok := r2.(*ssa.Store); ok && st.Addr == ssa.Value(r) {
							walk(st.Val, d+1)
						}
					}
				case *ssa.IndexAddr:
					for _, r2 := range *r.Referrers() {
						if st, ok := r2.(*ssa.Store); ok && st.Addr == ssa.Value(r) {
							walk(st.Val, d+1)
						}
					}
				}
			}
		case *ssa.Call:
			for _, a := range y.Call.Args {
				walk(a, d+1)
			}
			if y.Call.IsInvoke() {
				walk(y.Call.Value, d+1)
			} else if sc := y.Call.StaticCallee(); sc != nil && sc.Pkg != nil && u.Root != nil && sc.Pkg.Pkg == u.Root.Types && sc.Signature.Recv() != nil && len(y.Call.Args) > 0 {
				if p, ok := path(y.Call.Args[0]); ok {
					delete(out, p) // the receiver as a whole is refined to the fields the method reads
					calleeReads(sc, p, 0)
				}
			} else if _, isFn := y.Call.Value.(*ssa.Function); !isFn {
				walk(y.Call.Value, d+1)
			}
		case *ssa.Convert:
			walk(y.X, d+1)
		case *ssa.ChangeType:
			walk(y.X, d+1)
		case *ssa.ChangeInterface:
			walk(y.X, d+1)
		case *ssa.MakeInterface:
			walk(y.X, d+1)
		case *ssa.TypeAssert:
			walk(y.X, d+1)
		case *ssa.Extract:
			walk(y.Tuple, d+1)
		case *ssa.Slice:
			walk(y.X, d+1)
		case *ssa.IndexAddr:
			walk(y.X, d+1)
			walk(y.Index, d+1)
		case *ssa.Index:
			walk(y.X, d+1)
			walk(y.Index, d+1)
		case *ssa.Lookup:
			walk(y.X, d+1)
			walk(y.Index, d+1)
		case *ssa.MakeClosure:
			for _, b := range y.Bindings {
				walk(b, d+1)
			}
		case *ssa.FieldAddr:
			walk(y.X, d+1)
		case *ssa.Field:
			walk(y.X, d+1)
		}
	}
	walk(v, 0)
	return out
}

func findIncompleteMemo(u *Unit) []genFinding {
	loadRefMemo()
	var out []genFinding
	if len(refMemo) == 0 {
		return nil // no reference inventory: nothing can be called "new"
	}
	for _, s := range u.memoSites() {
		if refMemo[u.memoKey(s)] {
			continue
		}
		keyAtoms := map[string]bool{}
		if s.key != nil {
			keyAtoms = u.inputAtoms(s.fn, s.key)
		}
		valAtoms := map[string]bool{}
		for _, v := range s.vals {
			for a := range u.inputAtoms(s.fn, v) {
				valAtoms[a] = true
			}
		}
		target, _ := func() (string, bool) {
			d := strings.TrimPrefix(u.Describe(s.target), "&")
			return d, true
		}()
		ownerRoot := target
		if i := strings.Index(ownerRoot, "."); i > 0 {
			ownerRoot = ownerRoot[:i]
		}
		perObject := !strings.HasPrefix(target, "global:")
		var missing []string
		for a := range valAtoms {
			covered := false
			for k := range keyAtoms {
				if a == k || strings.HasPrefix(a, k+".") {
					covered = true
				}
			}
			if covered || a == target || strings.HasPrefix(target, a+".") && a != ownerRoot {
				continue
			}
			// immutable configuration of the object that owns the cache
			if perObject && strings.HasPrefix(a, ownerRoot+".") {
				parts := strings.Split(a, ".")
				if len(parts) >= 2 && !u.fieldWrittenOutsideConstructors(parts[1]) {
					continue
				}
			}
			if a == ownerRoot && perObject {
				continue // the owner itself
			}
			missing = append(missing, a)
		}
		sort.Strings(missing)
		if len(missing) == 0 {
			continue
		}
		keyDesc := "no key (sync.Once)"
		if s.key != nil {
			var ks []string
			for k := range keyAtoms {
				ks = append(ks, k)
			}
			sort.Strings(ks)
			keyDesc = "key built from {" + strings.Join(ks, ", ") + "}"
		}
		out = append(out, genFinding{"R-MEMO-KEY-COMPLETE", u.topDeclKey(s.fn) + "|" + s.kind + " " + target, u.Pos(s.in.Pos()),
			"new memo site in " + shortName(s.fn) + " (" + s.kind + " " + target + ", " + keyDesc + ") stores a value that also depends on {" + strings.Join(missing, ", ") + "}: a later call with the same key gets the value computed for other inputs, so the outcome depends on call history"})
	}
	return out
}

// fieldWrittenOutsideConstructors: some function other than a New*/constructor stores to a
// field of that name (on any root-package struct).
func (u *Unit) fieldWrittenOutsideConstructors(field string) bool {
	for _, f := range u.SrcFuncs() {
		sn := f.Name()
		if strings.HasPrefix(sn, "New") || strings.HasPrefix(sn, "new") || sn == "init" {
			continue
		}
		found := false
		Instrs(f, func(in ssa.Instruction) {
			if st, ok := in.(*ssa.Store); ok {
				if fa, ok := st.Addr.(*ssa.FieldAddr); ok && fieldName(derefType(fa.X.Type()), fa.Field) == field {
					// composite literals under construction do not count
					if _, isAlloc := fa.X.(*ssa.Alloc); !isAlloc {
						found = true
					}
				}
			}
		})
		if found {
			return true
		}
	}
	return false
}
