package main

import (
	"go/token"
	"go/types"
	"sort"
	"strings"

	"golang.org/x/tools/go/ssa"
)

// Ownership (acquire/release pairing) analysis for reference-counted Arrow
// objects. Intra-procedural, path-sensitive over the CFG, with per-function
// summaries ("result i is owned by the caller", "parameter j is consumed")
// computed to a fixpoint over the root package.
//
// An obligation starts at an acquire site (a constructor from arrow-go, a
// Retain() on a borrowed value, or a call to a root-package function whose
// summary says it returns an owned object). Along every CFG path from the site
// the obligation must be discharged before the function exits or the site is
// executed again: by Release (direct, deferred, or through a local closure that
// releases the captured variable), by returning the object, by storing it into
// a container (field, element, map, global, append), or by passing it to a
// root-package function that consumes that parameter on all of its paths.
// Paths on which the object is nil (error result non-nil, nil test) or is
// pointer-identical to another value (x != y test) carry no obligation.

type ownSite struct {
	Fn    *ssa.Function
	Instr ssa.Instruction // the acquiring instruction
	Val   ssa.Value       // the owned SSA value
	Call  *ssa.Call       // the call that produced it (nil for none)
	Kind  string          // ctor | retain | owned-call | param
	Desc  string
}

type ownLeak struct {
	Site ownSite
	Exit ssa.Instruction // return (or the site itself when re-executed in a loop)
	Why  string
}

type OwnEngine struct {
	u            *Unit
	returnsOwned map[*ssa.Function]map[int]bool
	ownedIff     map[*ssa.Function]map[int]int // result i owned iff bool result k
	consumes     map[*ssa.Function]map[int]bool
	closureRel   map[*ssa.Function]map[int]bool // closure fn → free var index released
	// Borrow lists root-package functions whose results are never treated as
	// owned (accessors returning a field).
}

func NewOwnEngine(u *Unit) *OwnEngine {
	e := &OwnEngine{u: u, returnsOwned: map[*ssa.Function]map[int]bool{}, ownedIff: map[*ssa.Function]map[int]int{}, consumes: map[*ssa.Function]map[int]bool{}, closureRel: map[*ssa.Function]map[int]bool{}}
	e.fixpoint()
	return e
}

func isArrowPkgPath(p string) bool {
	return strings.Contains(p, "github.com/apache/arrow-go/")
}

// releasable: t (or *t) is an Arrow reference-counted type: declared in
// arrow-go with a Release() method.
func releasable(t types.Type) bool {
	if t == nil {
		return false
	}
	n, ok := t.(*types.Named)
	if p, isP := t.(*types.Pointer); isP {
		n, ok = p.Elem().(*types.Named)
	}
	if !ok || n.Obj().Pkg() == nil || !isArrowPkgPath(n.Obj().Pkg().Path()) {
		return false
	}
	ms := types.NewMethodSet(t)
	if ms.Lookup(nil, "Release") == nil {
		ms = types.NewMethodSet(types.NewPointer(t))
	}
	return ms.Lookup(n.Obj().Pkg(), "Release") != nil || ms.Lookup(nil, "Release") != nil
}

func resultType(t types.Type, i int) types.Type {
	if tup, ok := t.(*types.Tuple); ok {
		if i < tup.Len() {
			return tup.At(i).Type()
		}
		return nil
	}
	if i == 0 {
		return t
	}
	return nil
}

// arrowCtor: external callee that hands a new reference to its caller.
func arrowCtor(name string) bool {
	if !isArrowPkgPath(name) && !strings.Contains(name, "arrow/") && !strings.Contains(name, "v18/") {
		return false
	}
	base := name
	if i := strings.LastIndex(base, "."); i >= 0 {
		base = base[i+1:]
	}
	base = strings.TrimSuffix(base, ")")
	switch {
	case strings.HasPrefix(base, "New"), strings.HasPrefix(base, "Make"), strings.HasPrefix(base, "Cast"), strings.HasPrefix(base, "Concatenate"),
		base == "GetRecordBatchPayload", base == "RecordFromJSON", base == "FromJSON", base == "SetColumn", base == "AddColumn":
		return true
	}
	return false
}

// borrowedAccessor: constructor-looking arrow-go calls that do not hand out a
// reference the caller must drop.
func borrowedAccessor(name string) bool {
	for _, s := range []string{".NewMetadata", ".NewSchema", ".NewField", "memory.New", ".NewWriter", "ipc.NewMessageReader", "arrow.New", "NewGoAllocator", "NewCheckedAllocator"} {
		if strings.Contains(name, s) {
			return true
		}
	}
	return false
}

func (e *OwnEngine) sitesOf(fn *ssa.Function) []ownSite {
	u := e.u
	var out []ownSite
	Instrs(fn, func(in ssa.Instruction) {
		call, ok := in.(*ssa.Call)
		if !ok {
			return
		}
		name := u.CalleeName(&call.Call)
		// Retain on a value: one more reference to drop
		if strings.HasSuffix(name, ".Retain") || strings.HasSuffix(name, ").Retain") {
			var recv ssa.Value
			if call.Call.IsInvoke() {
				recv = call.Call.Value
			} else if len(call.Call.Args) > 0 {
				recv = call.Call.Args[0]
			}
			if recv != nil && releasable(recv.Type()) {
				out = append(out, ownSite{fn, in, recv, call, "retain", "Retain(" + u.Describe(recv) + ")"})
			}
			return
		}
		if call.Call.IsInvoke() {
			// interface constructors such as Builder.NewArray()
			m := call.Call.Method.Name()
			if (strings.HasPrefix(m, "New") || m == "NewSlice") && releasable(resultType(call.Type(), 0)) {
				out = append(out, e.siteFor(fn, call, 0, "ctor", name)...)
			}
			return
		}
		callee, _ := call.Call.Value.(*ssa.Function)
		if callee == nil {
			return
		}
		if callee.Pkg == u.SPkg || (callee.Origin() != nil && callee.Origin().Pkg == u.SPkg) {
			f := callee
			if callee.Origin() != nil {
				f = callee.Origin()
			}
			var idx []int
			for i := range e.returnsOwned[f] {
				idx = append(idx, i)
			}
			sort.Ints(idx)
			for _, i := range idx {
				out = append(out, e.siteFor(fn, call, i, "owned-call", name)...)
			}
			return
		}
		if arrowCtor(name) && !borrowedAccessor(name) {
			n := 1
			if tup, ok := call.Type().(*types.Tuple); ok {
				n = tup.Len()
			}
			for i := 0; i < n; i++ {
				if releasable(resultType(call.Type(), i)) {
					out = append(out, e.siteFor(fn, call, i, "ctor", name)...)
				}
			}
		}
	})
	return out
}

func (e *OwnEngine) siteFor(fn *ssa.Function, call *ssa.Call, i int, kind, name string) []ownSite {
	if _, isTup := call.Type().(*types.Tuple); isTup {
		ex := ExtractOf(call, i)
		if ex == nil {
			return nil // result discarded with _: reported by callers that care
		}
		return []ownSite{{fn, call, ex, call, kind, name + "#" + itoa(i)}}
	}
	if i != 0 {
		return nil
	}
	return []ownSite{{fn, call, call, call, kind, name}}
}

type ownState struct {
	alias map[ssa.Value]bool
	count int
	// flags: boolean phis / cells whose value is known on this path (the
	// `owned := false … owned = true … if owned { x.Release() }` idiom)
	flags map[ssa.Value]bool
}

func (s ownState) clone() ownState {
	n := ownState{alias: make(map[ssa.Value]bool, len(s.alias)), count: s.count, flags: make(map[ssa.Value]bool, len(s.flags))}
	for k := range s.alias {
		n.alias[k] = true
	}
	for k, v := range s.flags {
		n.flags[k] = v
	}
	return n
}

func (s ownState) key(b *ssa.BasicBlock, idx int) string {
	var names []string
	for v := range s.alias {
		names = append(names, v.Name())
	}
	for v, t := range s.flags {
		names = append(names, v.Name()+"="+boolStr(t))
	}
	sort.Strings(names)
	return itoa(b.Index) + ":" + itoa(idx) + ":" + itoa(s.count) + ":" + strings.Join(names, ",")
}

func constBool(v ssa.Value) (bool, bool) {
	c, ok := v.(*ssa.Const)
	if !ok || c.Value == nil {
		return false, false
	}
	if b, isB := c.Type().Underlying().(*types.Basic); !isB || b.Info()&types.IsBoolean == 0 {
		return false, false
	}
	return c.Value.String() == "true", true
}

// closureReleases: free variable i of closure fn (or a cell it points to) is
// released inside fn (directly or through a nested closure call).
func (e *OwnEngine) closureReleases(fn *ssa.Function) map[int]bool {
	if r, ok := e.closureRel[fn]; ok {
		return r
	}
	res := map[int]bool{}
	e.closureRel[fn] = res
	u := e.u
	fvIndex := func(v ssa.Value) int {
		// v is FreeVar, or a load of a FreeVar cell
		for depth := 0; depth < 4 && v != nil; depth++ {
			switch x := v.(type) {
			case *ssa.FreeVar:
				for i, f := range fn.FreeVars {
					if f == x {
						return i
					}
				}
				return -1
			case *ssa.UnOp:
				v = x.X
			case *ssa.MakeInterface:
				v = x.X
			case *ssa.ChangeInterface:
				v = x.X
			case *ssa.Phi:
				return -1
			default:
				return -1
			}
		}
		return -1
	}
	Instrs(fn, func(in ssa.Instruction) {
		ci, ok := in.(ssa.CallInstruction)
		if !ok {
			return
		}
		c := ci.Common()
		name := u.CalleeName(c)
		if strings.HasSuffix(name, ".Release") || strings.HasSuffix(name, ").Release") {
			var recv ssa.Value
			if c.IsInvoke() {
				recv = c.Value
			} else if len(c.Args) > 0 {
				recv = c.Args[0]
			}
			if i := fvIndex(recv); i >= 0 {
				res[i] = true
			}
			return
		}
		// nested closure call: the callee's released free vars map back
		var inner *ssa.Function
		var bindings []ssa.Value
		switch f := c.Value.(type) {
		case *ssa.MakeClosure:
			inner, bindings = f.Fn.(*ssa.Function), f.Bindings
		case *ssa.UnOp:
			// call through a captured closure variable: resolve single store
			if fv, ok := f.X.(*ssa.FreeVar); ok {
				if b := u.freeVarBinding(fv); b != nil {
					if al, ok := b.(*ssa.Alloc); ok {
						for _, st := range u.flow().allocStores[al] {
							if mc, ok := st.Val.(*ssa.MakeClosure); ok {
								inner, bindings = mc.Fn.(*ssa.Function), mc.Bindings
							}
						}
					}
				}
			}
		case *ssa.FreeVar:
			if b := u.freeVarBinding(f); b != nil {
				if mc, ok := b.(*ssa.MakeClosure); ok {
					inner, bindings = mc.Fn.(*ssa.Function), mc.Bindings
				}
			}
		}
		if inner != nil && inner != fn {
			for j := range e.closureReleases(inner) {
				if j < len(bindings) {
					if i := fvIndex(bindings[j]); i >= 0 {
						res[i] = true
					}
				}
			}
		}
	})
	return res
}

// walk explores all paths from the site; it returns the first leaking exit
// found (nil when every path discharges), and the set of result indices
// through which the object is returned to the caller.
func (e *OwnEngine) walk(site ownSite) (*ownLeak, map[int]bool) {
	u := e.u
	fn := site.Fn
	returned := map[int]bool{}
	start := ownState{alias: map[ssa.Value]bool{site.Val: true}, count: 1, flags: map[ssa.Value]bool{}}
	type item struct {
		b   *ssa.BasicBlock
		idx int
		st  ownState
		// pred for phi resolution
		pred *ssa.BasicBlock
	}
	var work []item
	if site.Kind == "param" {
		work = append(work, item{fn.Blocks[0], 0, start, nil})
	} else {
		work = append(work, item{site.Instr.Block(), instrIndex(site.Instr) + 1, start, nil})
	}
	seen := map[string]bool{}
	var leak *ownLeak
	// cells released by deferred closures registered before the site: whatever
	// they hold when the function exits is released then
	deferredCells := map[ssa.Value]bool{}
	Instrs(fn, func(in ssa.Instruction) {
		d, ok := in.(*ssa.Defer)
		if !ok || site.Kind != "param" && !Dominates(d, site.Instr) {
			return
		}
		if mc, ok := d.Call.Value.(*ssa.MakeClosure); ok {
			for j := range e.closureReleases(mc.Fn.(*ssa.Function)) {
				if j < len(mc.Bindings) {
					deferredCells[mc.Bindings[j]] = true
				}
			}
		}
	})
	var errVal ssa.Value
	var okFlag ssa.Value
	if site.Call != nil {
		if tup, ok := site.Call.Type().(*types.Tuple); ok && tup.Len() > 0 {
			last := tup.Len() - 1
			if isErrorType(tup.At(last).Type()) {
				errVal = ExtractOf(site.Call, last)
			}
			if callee, ok := site.Call.Call.Value.(*ssa.Function); ok {
				f := callee
				if callee.Origin() != nil {
					f = callee.Origin()
				}
				if ex, isEx := site.Val.(*ssa.Extract); isEx {
					if k, has := e.ownedIff[f][ex.Index]; has {
						okFlag = ExtractOf(site.Call, k)
					}
				}
			}
		}
	}
	siteFieldPath := ""
	if ld, ok := site.Val.(*ssa.UnOp); ok && ld.Op == token.MUL {
		if _, isF := ld.X.(*ssa.FieldAddr); isF {
			siteFieldPath = u.Describe(ld)
		}
	}
	isAlias := func(st ownState, v ssa.Value) bool {
		for d := 0; d < 6 && v != nil; d++ {
			if st.alias[v] {
				return true
			}
			switch x := v.(type) {
			case *ssa.MakeInterface:
				v = x.X
			case *ssa.ChangeInterface:
				v = x.X
			case *ssa.ChangeType:
				v = x.X
			case *ssa.TypeAssert:
				v = x.X
			case *ssa.Extract:
				if ta, ok := x.Tuple.(*ssa.TypeAssert); ok && x.Index == 0 {
					v = ta.X
				} else {
					return false
				}
			case *ssa.UnOp:
				if x.Op != token.MUL {
					return false
				}
				// load of a cell that currently holds the object
				if st.alias[x.X] {
					return true
				}
				fa, ok := x.X.(*ssa.FieldAddr)
				if !ok {
					return false
				}
				if isEmbeddedField(fa.X.Type(), fa.Field) {
					// promoted method through an embedded pointer (StringBuilder{*BinaryBuilder})
					v = fa.X
					continue
				}
				// another load of the field the site's object was read from
				if siteFieldPath != "" && u.Describe(x) == siteFieldPath {
					return true
				}
				return false
			case *ssa.FieldAddr:
				if isEmbeddedField(x.X.Type(), x.Field) {
					v = x.X
					continue
				}
				return false
			case *ssa.Field:
				if isEmbeddedField(x.X.Type(), x.Field) {
					v = x.X
					continue
				}
				return false
			default:
				return false
			}
		}
		return false
	}
	recvOf := func(c *ssa.CallCommon) ssa.Value {
		if c.IsInvoke() {
			return c.Value
		}
		if len(c.Args) > 0 {
			return c.Args[0]
		}
		return nil
	}
	for len(work) > 0 && leak == nil {
		it := work[len(work)-1]
		work = work[:len(work)-1]
		st := it.st.clone()
		b := it.b
		if it.idx == 0 {
			// phis: alias iff the incoming edge value is an alias
			if it.pred != nil {
				pi := -1
				for i, p := range b.Preds {
					if p == it.pred {
						pi = i
					}
				}
				for _, in := range b.Instrs {
					phi, ok := in.(*ssa.Phi)
					if !ok {
						break
					}
					if pi >= 0 && isAlias(it.st, phi.Edges[pi]) {
						st.alias[phi] = true
					} else {
						delete(st.alias, phi)
					}
					delete(st.flags, phi)
					if pi >= 0 {
						if v, ok := constBool(phi.Edges[pi]); ok {
							st.flags[phi] = v
						} else if v, ok := it.st.flags[phi.Edges[pi]]; ok {
							st.flags[phi] = v
						}
					}
				}
			}
		}
		k := st.key(b, it.idx)
		if seen[k] {
			continue
		}
		seen[k] = true
		done := false // obligation discharged or path abandoned
		for i := it.idx; i < len(b.Instrs) && !done; i++ {
			in := b.Instrs[i]
			if in == site.Instr && site.Kind != "param" && st.count > 0 {
				// the site runs again: registers computed in the previous iteration are
				// rebound; the previous object lives on only in loop-carried phis and cells
				for v := range st.alias {
					switch v.(type) {
					case *ssa.Alloc, *ssa.FreeVar, *ssa.Phi:
						continue
					}
					delete(st.alias, v)
				}
				if len(st.alias) == 0 {
					leak = &ownLeak{site, in, "acquired again (next loop iteration) while the previous object is still owned and no variable holds it"}
					done = true
					break
				}
				continue
			}
			switch x := in.(type) {
			case *ssa.Store:
				if al, isCell := x.Addr.(*ssa.Alloc); isCell {
					if v, ok := constBool(x.Val); ok {
						st.flags[al] = v
					} else if v, ok := st.flags[x.Val]; ok {
						st.flags[al] = v
					} else {
						delete(st.flags, al)
					}
				}
				if isAlias(st, x.Val) {
					switch a := x.Addr.(type) {
					case *ssa.Alloc:
						st.alias[a] = true
					case *ssa.FreeVar:
						st.alias[a] = true
					default:
						// field, element, global, pointer parameter: handed to a container / the caller
						st.count--
					}
				} else {
					switch a := x.Addr.(type) {
					case *ssa.Alloc:
						delete(st.alias, a)
					case *ssa.FreeVar:
						delete(st.alias, a)
					}
				}
			case *ssa.MapUpdate:
				if isAlias(st, x.Value) {
					st.count--
				}
			case *ssa.Send:
				if isAlias(st, x.X) {
					st.count--
				}
			case *ssa.UnOp:
				if x.Op == token.MUL && st.alias[x.X] {
					st.alias[x] = true
				}
				if x.Op == token.MUL {
					if v, ok := st.flags[x.X]; ok {
						st.flags[x] = v
					}
				}
			case *ssa.MakeInterface:
				if isAlias(st, x.X) {
					st.alias[x] = true
				}
			case *ssa.ChangeInterface:
				if isAlias(st, x.X) {
					st.alias[x] = true
				}
			case *ssa.ChangeType:
				if isAlias(st, x.X) {
					st.alias[x] = true
				}
			case *ssa.TypeAssert:
				if isAlias(st, x.X) {
					st.alias[x] = true
				}
			case *ssa.Extract:
				if ta, ok := x.Tuple.(*ssa.TypeAssert); ok && x.Index == 0 && isAlias(st, ta.X) {
					st.alias[x] = true
				}
			case *ssa.MakeClosure:
				// a closure capturing the object itself (by value) keeps it reachable;
				// capture of a cell is resolved when the closure is called/deferred.
			case *ssa.Go:
				for _, a := range x.Call.Args {
					if isAlias(st, a) {
						st.count--
					}
				}
			case *ssa.Panic:
				done = true
			case *ssa.Return:
				for ri, rv := range x.Results {
					if isAlias(st, rv) {
						returned[ri] = true
						st.count--
					}
				}
				if st.count > 0 {
					for c := range deferredCells {
						if st.alias[c] {
							st.count--
							break
						}
					}
				}
				if st.count > 0 {
					leak = &ownLeak{site, in, "function returns while the object is still owned"}
				}
				done = true
			case ssa.CallInstruction:
				c := x.Common()
				name := u.CalleeName(c)
				_, isDefer := in.(*ssa.Defer)
				if strings.HasSuffix(name, ".Release") || strings.HasSuffix(name, ").Release") {
					if r := recvOf(c); r != nil && isAlias(st, r) {
						st.count--
					}
					break
				}
				if strings.HasSuffix(name, ".Retain") || strings.HasSuffix(name, ").Retain") {
					if r := recvOf(c); r != nil && isAlias(st, r) && in != site.Instr {
						st.count++
					}
					break
				}
				// closures that release a captured cell / value
				var cfn *ssa.Function
				var bindings []ssa.Value
				switch f := c.Value.(type) {
				case *ssa.MakeClosure:
					cfn, bindings = f.Fn.(*ssa.Function), f.Bindings
				case *ssa.UnOp:
					if al, ok := f.X.(*ssa.Alloc); ok {
						for _, s2 := range u.flow().allocStores[al] {
							if mc, ok := s2.Val.(*ssa.MakeClosure); ok {
								cfn, bindings = mc.Fn.(*ssa.Function), mc.Bindings
							}
						}
					}
				}
				if cfn != nil {
					rel := e.closureReleases(cfn)
					hit := false
					for j := range rel {
						if j < len(bindings) && (st.alias[bindings[j]] || isAlias(st, bindings[j])) {
							hit = true
						}
					}
					if hit {
						st.count--
						// the closure typically nils the cell afterwards
						for j := range rel {
							if j < len(bindings) {
								delete(st.alias, bindings[j])
							}
						}
					}
					break
				}
				if b2, isB := c.Value.(*ssa.Builtin); isB {
					_ = b2
					break // append's elements arrive through varargs stores
				}
				// a user-supplied callback held in a field (EmitInterceptor) receives
				// ownership of what it is given: it returns the replacement
				if !c.IsInvoke() {
					if _, static := c.Value.(*ssa.Function); !static {
						if ld, isLoad := c.Value.(*ssa.UnOp); isLoad {
							if _, isField := ld.X.(*ssa.FieldAddr); isField {
								for _, a := range c.Args {
									if isAlias(st, a) {
										st.count--
									}
								}
							}
						}
					}
				}
				// root-package callee consuming the parameter
				if callee, ok := c.Value.(*ssa.Function); ok {
					f := callee
					if callee.Origin() != nil {
						f = callee.Origin()
					}
					for ai, a := range c.Args {
						if isAlias(st, a) && e.consumes[f][ai] {
							st.count--
						}
					}
				}
				_ = isDefer
			}
			if st.count <= 0 {
				done = true
			}
		}
		if done || leak != nil {
			continue
		}
		// successors with edge pruning
		last := b.Instrs[len(b.Instrs)-1]
		if ifi, ok := last.(*ssa.If); ok {
			skipTrue, skipFalse := false, false
			cond := ifi.Cond
			neg := false
			if un, ok := cond.(*ssa.UnOp); ok && un.Op == token.NOT {
				cond, neg = un.X, true
			}
			if bo, ok := cond.(*ssa.BinOp); ok && (bo.Op == token.EQL || bo.Op == token.NEQ) {
				x, y := bo.X, bo.Y
				isNil := func(v ssa.Value) bool { c, ok := v.(*ssa.Const); return ok && c.Value == nil }
				eqEdgeTrue := bo.Op == token.EQL // true edge is the "equal" edge
				if neg {
					eqEdgeTrue = !eqEdgeTrue
				}
				switch {
				case errVal != nil && (x == errVal && isNil(y) || y == errVal && isNil(x)):
					// err != nil ⇒ no object
					if eqEdgeTrue {
						skipFalse = true
					} else {
						skipTrue = true
					}
				case isAlias(st, x) && isNil(y) || isAlias(st, y) && isNil(x):
					// object == nil edge carries nothing
					if eqEdgeTrue {
						skipTrue = true
					} else {
						skipFalse = true
					}
				case (isAlias(st, x) && !isNil(y) && releasable(y.Type()) || isAlias(st, y) && !isNil(x) && releasable(x.Type())) && site.Kind == "owned-call":
					// pointer identity with another object: on the equal edge the result is that object
					if eqEdgeTrue {
						skipTrue = true
					} else {
						skipFalse = true
					}
				}
			} else if okFlag != nil && cond == okFlag {
				if neg {
					skipTrue = true
				} else {
					skipFalse = true
				}
			} else if v, known := st.flags[cond]; known {
				if v != neg {
					skipFalse = true
				} else {
					skipTrue = true
				}
			}
			if !skipTrue {
				work = append(work, item{b.Succs[0], 0, st, b})
			}
			if !skipFalse {
				work = append(work, item{b.Succs[1], 0, st, b})
			}
			continue
		}
		for _, s := range b.Succs {
			work = append(work, item{s, 0, st, b})
		}
	}
	return leak, returned
}

// fixpoint computes returnsOwned / ownedIff / consumes for root-package functions.
func (e *OwnEngine) fixpoint() {
	u := e.u
	var fns []*ssa.Function
	for _, f := range u.SrcFuncs() {
		if f.Parent() == nil {
			fns = append(fns, f)
		}
	}
	for round := 0; round < 6; round++ {
		changed := false
		for _, f := range fns {
			sig := f.Signature
			// returnsOwned
			hasRel := false
			for i := 0; i < sig.Results().Len(); i++ {
				if releasable(sig.Results().At(i).Type()) {
					hasRel = true
				}
			}
			if hasRel {
				for _, site := range e.sitesOf(f) {
					_, ret := e.walk(site)
					for i := range ret {
						if e.returnsOwned[f] == nil {
							e.returnsOwned[f] = map[int]bool{}
						}
						if !e.returnsOwned[f][i] {
							e.returnsOwned[f][i] = true
							changed = true
						}
					}
				}
				e.computeOwnedIff(f)
			}
			// consumes
			for j, p := range f.Params {
				if !releasable(p.Type()) {
					continue
				}
				leak, ret := e.walk(ownSite{Fn: f, Val: p, Kind: "param", Desc: "param " + p.Name()})
				cons := leak == nil && len(ret) == 0
				if e.consumes[f] == nil {
					e.consumes[f] = map[int]bool{}
				}
				if e.consumes[f][j] != cons {
					e.consumes[f][j] = cons
					changed = true
				}
			}
		}
		if !changed {
			break
		}
	}
}

// computeOwnedIff: result i (owned on some returns) is owned exactly on the
// returns where bool result k is the constant true.
func (e *OwnEngine) computeOwnedIff(f *ssa.Function) {
	sig := f.Signature
	for i := range e.returnsOwned[f] {
		for k := 0; k < sig.Results().Len(); k++ {
			if b, ok := sig.Results().At(k).Type().Underlying().(*types.Basic); !ok || b.Kind() != types.Bool {
				continue
			}
			ok := true
			nTrue := 0
			for _, pr := range returnPairs(f, i, k) {
				rv := pr[0]
				flag, isC := pr[1].(*ssa.Const)
				if !isC || flag.Value == nil {
					ok = false
					continue
				}
				isParam := e.isParamValue(rv)
				isNilC := false
				if c, isK := rv.(*ssa.Const); isK && c.Value == nil {
					isNilC = true
				}
				if flag.Value.String() == "true" {
					nTrue++
					if isParam || isNilC {
						ok = false
					}
				} else if !isParam && !isNilC {
					ok = false
				}
			}
			if ok && nTrue > 0 {
				if e.ownedIff[f] == nil {
					e.ownedIff[f] = map[int]int{}
				}
				e.ownedIff[f][i] = k
			}
		}
	}
}

// isParamValue: v is a parameter, or a reload of the cell a parameter was
// spilled to (parameters captured by closures) that nothing else is stored in.
func (e *OwnEngine) isParamValue(v ssa.Value) bool {
	if _, ok := v.(*ssa.Parameter); ok {
		return true
	}
	ld, ok := v.(*ssa.UnOp)
	if !ok || ld.Op != token.MUL {
		return false
	}
	al, ok := ld.X.(*ssa.Alloc)
	if !ok {
		return false
	}
	sts := e.u.flow().allocStores[al]
	if len(sts) != 1 {
		return false
	}
	if _, ok := sts[0].Val.(*ssa.Parameter); !ok {
		return false
	}
	return len(e.u.freeVarStores(al)) == 0
}

// returnPairs lists, per return statement of f, the values given to results i
// and k. Functions with deferred calls spill named results to cells and have
// one Return that reloads them: there the pairs are the stores made together
// in one block (one `return a, b, c` statement).
func returnPairs(f *ssa.Function, i, k int) [][2]ssa.Value {
	var out [][2]ssa.Value
	Instrs(f, func(in ssa.Instruction) {
		ret, isR := in.(*ssa.Return)
		if !isR || InRecoverBlock(in) || i >= len(ret.Results) || k >= len(ret.Results) {
			return
		}
		li, okI := ret.Results[i].(*ssa.UnOp)
		lk, okK := ret.Results[k].(*ssa.UnOp)
		var ai, ak *ssa.Alloc
		if okI && okK && li.Op == token.MUL && lk.Op == token.MUL {
			ai, _ = li.X.(*ssa.Alloc)
			ak, _ = lk.X.(*ssa.Alloc)
		}
		if ai == nil || ak == nil {
			out = append(out, [2]ssa.Value{ret.Results[i], ret.Results[k]})
			return
		}
		Instrs(f, func(in2 ssa.Instruction) {
			sk, ok := in2.(*ssa.Store)
			if !ok || sk.Addr != ssa.Value(ak) {
				return
			}
			var vi ssa.Value = li // unknown: the reload itself
			for _, x := range sk.Block().Instrs {
				if si, ok := x.(*ssa.Store); ok && si.Addr == ssa.Value(ai) {
					vi = si.Val
				}
			}
			out = append(out, [2]ssa.Value{vi, sk.Val})
		})
	})
	return out
}

// isEmbeddedField: field idx of the struct (or pointer to struct) type t is an
// embedded field.
func isEmbeddedField(t types.Type, idx int) bool {
	if p, ok := t.Underlying().(*types.Pointer); ok {
		t = p.Elem()
	}
	st, ok := t.Underlying().(*types.Struct)
	if !ok || idx >= st.NumFields() {
		return false
	}
	return st.Field(idx).Embedded()
}
