package main

import (
	"go/token"
	"go/types"
	"regexp/syntax"
	"sort"
	"strings"

	"golang.org/x/tools/go/ssa"
)

// Rules added after the fourth and fifth seed batches: each closes a gap a
// blind sub-agent change slipped through. They are called from the run
// function of the property they belong to.

func gjoin(u *Unit, in ssa.Instruction) string { return strings.Join(u.GuardStrings(in), " && ") }

// ---------------------------------------------------------------- C01

func seedfixC01(c *Ctx) {
	u, r := c.U, c.R
	// R-TOKEN-ANY-BATCH: the token lookups run for every batch that has metadata —
	// no row-count (or other) precondition.
	if sc := u.Func("scanStreamForTokens"); sc != nil {
		for _, cs := range u.Calls(sc, HasSuffix("arrow.Metadata).GetValue")) {
			k, _ := ConstString(cs.Arg(1))
			var extra []string
			for _, g := range u.GuardStrings(cs.Instr) {
				switch {
				case strings.Contains(g, "ipc.NewReader(") && strings.HasSuffix(g, "#1 == nil)"):
				case strings.Contains(g, "ipc.Reader).Next("):
				case strings.HasPrefix(g, "assertok:v18/arrow.RecordBatchWithMetadata("):
				default:
					extra = append(extra, g)
				}
			}
			r.Check(len(extra) == 0, "R-TOKEN-ANY-BATCH", "scan|"+k, u.Pos(cs.Instr.Pos()), "looked up on every batch that carries metadata", "the "+k+" lookup is skipped unless ["+strings.Join(extra, " && ")+"]: a token riding a batch that fails that test is not found")
		}
	}
	// R-METHOD-ANY-VALUE: ReadRequest never compares the method value with a constant
	// (every UTF-8 name, the empty one included, is a method name).
	if rd := u.Func("ReadRequest"); rd != nil {
		n := 0
		Instrs(rd, func(in ssa.Instruction) {
			b, ok := in.(*ssa.BinOp)
			if !ok || (b.Op != token.EQL && b.Op != token.NEQ) {
				return
			}
			for _, pair := range [][2]ssa.Value{{b.X, b.Y}, {b.Y, b.X}} {
				if _, isC := ConstString(pair[1]); isC && strings.Contains(u.Describe(pair[0]), `"vgi_rpc.method")#0`) {
					n++
					r.Viol("R-METHOD-ANY-VALUE", "ReadRequest|compare", u.Pos(in.Pos()), "the method name is compared with the constant "+u.Describe(pair[1])+": that name no longer round-trips")
				}
			}
		})
		if n == 0 {
			r.Ok("R-METHOD-ANY-VALUE", "ReadRequest", u.Pos(rd.Pos()), "the method value is only tested for presence and UTF-8 validity")
		}
	}
	r.Floor("R-TOKEN-ANY-BATCH", 2)
	r.Floor("R-METHOD-ANY-VALUE", 1)
}

// ---------------------------------------------------------------- C09

// noPackageState: fn neither reads nor writes package-level variables (other
// than function values and the allowed names).
func noPackageState(u *Unit, fn *ssa.Function, allowed map[string]bool) []string {
	var out []string
	for _, f := range WithAnon(fn) {
		Instrs(f, func(in ssa.Instruction) {
			for _, op := range in.Operands(nil) {
				if g, ok := (*op).(*ssa.Global); ok && g.Pkg == u.SPkg && !allowed[g.Name()] {
					out = append(out, g.Name())
				}
			}
		})
	}
	sort.Strings(out)
	return out
}

func seedfixC09(c *Ctx) {
	u, r := c.U, c.R
	if fn := u.Func("serializeSchema"); fn != nil {
		gs := noPackageState(u, fn, nil)
		r.Check(len(gs) == 0, "R-SCHEMA-BYTES-PURE", "serializeSchema", u.Pos(fn.Pos()), "schema bytes are a function of the schema argument alone", "serializeSchema consults package state ("+strings.Join(gs, ",")+"): two schemas that share the cache key but differ (e.g. in metadata) are described with the same bytes")
		ok := false
		for _, cs := range u.Calls(fn, HasSuffix("ipc.WithSchema")) {
			if cs.Arg(0) == ssa.Value(fn.Params[0]) {
				ok = true
			}
		}
		r.Check(ok, "R-SCHEMA-BYTES-PURE", "serializeSchema|input", u.Pos(fn.Pos()), "encodes the schema it is given", "serializeSchema does not encode its own argument")
	}
	r.Floor("R-SCHEMA-BYTES-PURE", 2)
}

// ---------------------------------------------------------------- C11 / C15 / C38

// checkResolvedCallFields: the cached form of a call (resolvedCall) is built at
// two sites — when the call token is minted and when it is reopened after a
// cache miss. Both must fill every field, each from the token field of the
// same meaning, or a cache hit and a cache miss behave differently.
func checkResolvedCallFields(c *Ctx, rule string) {
	u, r := c.U, c.R
	var fields []string
	if obj := u.Root.Types.Scope().Lookup("resolvedCall"); obj != nil {
		if st, ok := obj.Type().Underlying().(*types.Struct); ok {
			for i := 0; i < st.NumFields(); i++ {
				fields = append(fields, st.Field(i).Name())
			}
		}
	}
	if len(fields) == 0 {
		r.Undec(rule, "resolvedCall", "-", "type not found")
		return
	}
	source := map[string]string{"SchemaIPC": "SchemaIPC", "InputSchemaIPC": "InputSchemaIPC", "StreamID": "StreamID", "CreatedAt": "CreatedAt"}
	for _, name := range []string{"(*HttpServer).packCallTokenFor", "(*HttpServer).resolveCall"} {
		fn := c.Fn(rule, name)
		if fn == nil {
			continue
		}
		got := map[string]string{}
		for _, f := range fields {
			for _, st := range u.StoresToField(fn, "resolvedCall", f) {
				got[f] = u.Describe(st.Val)
			}
		}
		for _, f := range fields {
			v, ok := got[f]
			src := source[f]
			okV := ok && src != "" && (strings.HasSuffix(v, "data."+src) || (f == "StreamID" && v == "streamID"))
			if src == "" {
				okV = ok // a field this rule has no mapping for must at least be filled at both sites
			}
			det := "not filled"
			if ok {
				det = "filled from " + v
			}
			r.Check(okV, rule, strings.TrimPrefix(name, "(*HttpServer).")+"|"+f, u.Pos(fn.Pos()), "resolvedCall."+f+" carried over from the call token", "resolvedCall."+f+" is "+det+" in "+name+": a continuation served from this copy loses the call's "+f+" (a cache hit and a cache miss no longer agree)")
		}
	}
}

func seedfixC11(c *Ctx) {
	u, r := c.U, c.R
	checkResolvedCallFields(c, "R-CACHE-SAME-FIELDS")
	// R-INIT-LOGS-ONCE: a drained batch of init logs is written to the client once.
	for _, name := range []string{"(*Server).serveStream", "(*HttpServer).handleStreamInit"} {
		fn := c.Fn("R-INIT-LOGS-ONCE", name)
		if fn == nil {
			continue
		}
		for i, cs := range u.Calls(fn, Is("(*CallContext).drainLogs")) {
			v := cs.Value()
			consumers := map[string]bool{}
			if v != nil && v.Referrers() != nil {
				for _, ref := range *v.Referrers() {
					switch x := ref.(type) {
					case ssa.CallInstruction:
						n := u.CalleeName(x.Common())
						if n == "len" {
							consumers["range-loop"] = true
						} else {
							consumers[n] = true
						}
					case *ssa.Index, *ssa.IndexAddr, *ssa.Range, *ssa.Lookup:
						consumers["range-loop"] = true
					case *ssa.DebugRef:
					default:
						consumers[strings.TrimSpace(ref.String())] = true
					}
				}
			}
			var cn []string
			for k := range consumers {
				cn = append(cn, k)
			}
			sort.Strings(cn)
			r.Check(len(cn) <= 1, "R-INIT-LOGS-ONCE", strings.TrimPrefix(strings.TrimPrefix(name, "(*Server)."), "(*HttpServer).")+"|drain#"+itoa(i+1), u.Pos(cs.Instr.Pos()), "one consumer per drained log batch", "one drained set of init logs is written by "+strings.Join(cn, " and ")+": the client sees each init log twice on this transport")
		}
	}
	r.Floor("R-CACHE-SAME-FIELDS", 8)
	r.Floor("R-INIT-LOGS-ONCE", 3)
}

// ---------------------------------------------------------------- C21

func seedfixC21(c *Ctx) {
	u, r := c.U, c.R
	fn := c.Fn("R-SCHEMA-EQUALITY", "clientSchemasEqual")
	if fn == nil {
		return
	}
	// every return that can be true goes through Schema.Equal(left,right) (or pointer identity)
	n := 0
	Instrs(fn, func(in ssa.Instruction) {
		ret, ok := in.(*ssa.Return)
		if !ok {
			return
		}
		v := ret.Results[0]
		if b, isC := constBool(v); isC && !b {
			return
		}
		n++
		viaEqual := func(g string) bool {
			return strings.Contains(g, "arrow.Schema).Equal(left, right)") && !strings.Contains(g, "!(*github.com/apache/arrow-go/v18/arrow.Schema).Equal(left, right)")
		}
		ok2 := false
		switch x := v.(type) {
		case *ssa.BinOp:
			ok2 = x.Op == token.EQL && u.Describe(x) == "(left == right)"
		case *ssa.Phi:
			ok2 = true
			for i, e := range x.Edges {
				if b, isC := constBool(e); isC && !b {
					continue
				}
				p := x.Block().Preds[i]
				g := gjoin(u, p.Instrs[len(p.Instrs)-1])
				if !viaEqual(g) {
					ok2 = false
				}
			}
		case *ssa.Const:
			g := gjoin(u, in)
			ok2 = strings.Contains(g, "(left == right)") || viaEqual(g)
		default:
			ok2 = viaEqual(gjoin(u, in))
		}
		r.Check(ok2, "R-SCHEMA-EQUALITY", "clientSchemasEqual|true@b"+itoa(in.Block().Index), u.Pos(in.Pos()), "equality is decided by Schema.Equal (fields, types, nullability, field metadata) plus schema metadata", "clientSchemasEqual can answer true without left.Equal(right): a weaker comparison (fingerprint, field count) lets a drifted response schema through")
	})
	if n == 0 {
		r.Undec("R-SCHEMA-EQUALITY", "clientSchemasEqual", u.Pos(fn.Pos()), "no non-false return")
	}
	mdEq := len(u.Calls(fn, HasSuffix("arrow.Metadata).Equal"))) >= 1
	r.Check(mdEq, "R-SCHEMA-EQUALITY", "clientSchemasEqual|metadata", u.Pos(fn.Pos()), "schema-level metadata compared", "schema-level metadata is not compared")
	r.Floor("R-SCHEMA-EQUALITY", 3)
}

// ---------------------------------------------------------------- C29

func seedfixC29(c *Ctx) {
	u, r := c.U, c.R
	n := 0
	for _, f := range u.SrcFuncs() {
		for _, st := range u.StoresToField(f, "sessionRegistry", "draining") {
			n++
			sn := shortName(f)
			r.Check(strings.EqualFold(sn, "(*sessionRegistry).setDraining"), "R-DRAIN-WRITERS", sn, u.Pos(st.Pos()), "the drain flag is written only by setDraining", sn+" writes sessionRegistry.draining: a drain in progress can be cancelled behind the operator's back and new sessions are admitted again")
		}
	}
	if n == 0 {
		r.Undec("R-DRAIN-WRITERS", "draining", "-", "no writer of the drain flag found")
	}
	// the flag is consulted before a new entry is inserted
	if op := u.Func("(*sessionRegistry).open"); op != nil {
		okD := false
		Instrs(op, func(in ssa.Instruction) {
			if mu, ok := in.(*ssa.MapUpdate); ok && strings.HasSuffix(u.Describe(mu.Map), "r.entries") {
				okD = u.HasGuardContaining(in, "!r.draining")
			}
		})
		r.Check(okD, "R-DRAIN-WRITERS", "open|refuses-while-draining", u.Pos(op.Pos()), "a session is inserted only under !draining", "sessionRegistry.open inserts a session without testing the drain flag")
	}
	r.Floor("R-DRAIN-WRITERS", 2)
}

// ---------------------------------------------------------------- C31

func seedfixC31(c *Ctx) {
	u, r := c.U, c.R
	ff := u.Func("fetchExternalData")
	if ff != nil {
		n := 0
		for _, a := range ff.AnonFuncs {
			Instrs(a, func(in ssa.Instruction) {
				ci, ok := in.(*ssa.Call)
				if !ok || u.Describe(ci.Call.Value) != "validator" && !strings.HasSuffix(u.CalleeName(&ci.Call), "validator") {
					return
				}
				n++
				var extra []string
				for _, g := range u.GuardStrings(in) {
					switch {
					case g == "(validator != nil)":
					case strings.HasPrefix(g, "(len(via) <= ") || strings.HasPrefix(g, "(len(via) < "):
					default:
						extra = append(extra, g)
					}
				}
				r.Check(len(extra) == 0, "R-VALIDATE-EVERY-HOP", "redirect-hook", u.Pos(in.Pos()), "every redirect target is put to the validator", "the redirect hook consults the validator only when ["+strings.Join(extra, " && ")+"]: a hop that fails that test is followed unvetted")
			})
		}
		if n == 0 {
			r.Viol("R-VALIDATE-EVERY-HOP", "redirect-hook", u.Pos(ff.Pos()), "no validator call in the redirect hook")
		}
	}
	if dz := c.Fn("R-DECOMPRESS-CAP", "decompressZstdCapped"); dz != nil {
		for i, cs := range u.Calls(dz, HasSuffix("zstd.Decoder).DecodeAll")) {
			g := gjoin(u, cs.Instr)
			r.Check(strings.Contains(g, "(cap <= 0)"), "R-DECOMPRESS-CAP", "DecodeAll#"+itoa(i+1), u.Pos(cs.Instr.Pos()), "whole-buffer decode only when no cap is configured", "DecodeAll (unbounded output) runs under ["+g+"], i.e. with a cap configured: a multi-frame or lying header inflates past it")
		}
		// the capped path: LimitReader(cap+1) and the length test before the success return
		okL := false
		for _, cs := range u.Calls(dz, Is("io.ReadAll")) {
			d := u.Describe(cs.Arg(0))
			if strings.HasPrefix(d, "io.LimitReader(") && strings.HasSuffix(d, "(cap + 1))") {
				okL = true
			}
		}
		r.Check(okL, "R-DECOMPRESS-CAP", "bounded-read", u.Pos(dz.Pos()), "capped path reads through io.LimitReader(cap+1)", "the capped path does not read through io.LimitReader(reader, cap+1)")
		Instrs(dz, func(in ssa.Instruction) {
			ret, ok := in.(*ssa.Return)
			if !ok || InRecoverBlock(in) {
				return
			}
			if k, isC := ReturnValue(ret, 1).(*ssa.Const); isC && k.Value == nil {
				g := gjoin(u, in)
				if strings.Contains(g, "(cap <= 0)") {
					return
				}
				r.Check(strings.Contains(g, "<= cap)"), "R-DECOMPRESS-CAP", "success@b"+itoa(in.Block().Index), u.Pos(in.Pos()), "success under len(out) <= cap", "decompression succeeds under ["+g+"] without len(out) <= cap")
			}
		})
	}
	r.Floor("R-VALIDATE-EVERY-HOP", 1)
	r.Floor("R-DECOMPRESS-CAP", 3)
}

// ---------------------------------------------------------------- C33

// seedfixC33: the key's derivation must not pass through mutable state of the
// storage value (a field written outside the constructor) or a package variable
// written after init: fresh randomness has to be drawn in the Upload call itself.
func seedfixC33(c *Ctx, un string, u *Unit, key ssa.Value, at string) {
	r := c.R
	os := u.Origins(key, &OriginOpts{Into: true})
	var bad []string
	for _, o := range os {
		switch o.Kind {
		case "field":
			// who writes this field?
			for _, f := range u.SrcFuncs() {
				parts := strings.SplitN(o.Desc, ".", 2)
				if len(parts) != 2 {
					continue
				}
				for range u.StoresToField(f, parts[0], parts[1]) {
					sn := shortName(f)
					if !strings.HasPrefix(sn, "New") {
						bad = append(bad, o.Desc+" (written by "+sn+")")
					}
				}
			}
		case "global":
			for _, f := range u.SrcFuncs() {
				Instrs(f, func(in ssa.Instruction) {
					if st, ok := in.(*ssa.Store); ok {
						if g, isG := st.Addr.(*ssa.Global); isG && g.Name() == o.Desc && f.Name() != "init" {
							bad = append(bad, "package variable "+o.Desc+" (written by "+shortName(f)+")")
						}
					}
				})
			}
		}
	}
	// R-KEY-ENTROPY: the random part is drawn from the system source by a call that fills its
	// buffer completely (crypto/rand.Read, io.ReadFull, uuid.New/NewRandom); no pooled or
	// seeded generator, no single Read whose count is ignored.
	var ent []string
	for _, o := range os {
		if o.Kind != "call" {
			continue
		}
		switch {
		case strings.Contains(o.Desc, "sync.Pool).Get"), strings.Contains(o.Desc, "math/rand"), strings.Contains(o.Desc, "NewRandomFromReader"):
			ent = append(ent, o.Desc)
		case strings.Contains(o.Desc, "io.Reader.Read"), strings.Contains(o.Desc, ".Reader).Read"):
			ent = append(ent, o.Desc+" (a single Read may fill only part of the buffer)")
		}
	}
	for _, f := range u.SrcFuncs() {
		// a Read on crypto/rand.Reader whose buffer becomes the key without io.ReadFull
		if sn := shortName(f); sn != "generateUUID" && sn != "newObjectID" {
			continue
		}
		for _, cs := range u.Calls(f, nil) {
			if cs.Common().IsInvoke() && cs.Common().Method.Name() == "Read" {
				ent = append(ent, shortName(f)+" reads its entropy with one "+cs.Callee+" call (short reads leave the rest of the id zero)")
			}
			if strings.Contains(cs.Callee, "math/rand") || strings.Contains(cs.Callee, "sync.Pool).Get") {
				ent = append(ent, shortName(f)+" calls "+cs.Callee)
			}
		}
	}
	sort.Strings(ent)
	r.Check(len(ent) == 0, "R-KEY-FULL-READ", un+"|Upload key", at, "the key's random part comes from a full read of the system entropy source", "the object key's random part is drawn through "+strings.Join(ent, "; ")+": distinct uploads can be handed the same id")
	// R-KEY-WHOLE: the key handed to the store is the whole prefix+id string, never a slice of it.
	sliced := ""
	seenV := map[ssa.Value]bool{}
	var walkK func(v ssa.Value, d int)
	walkK = func(v ssa.Value, d int) {
		if v == nil || d > 12 || seenV[v] {
			return
		}
		seenV[v] = true
		switch y := v.(type) {
		case *ssa.Slice:
			if bt, ok := y.X.Type().Underlying().(*types.Basic); ok && bt.Info()&types.IsString != 0 {
				sliced = u.Describe(y)
			}
			walkK(y.X, d+1)
		case *ssa.BinOp:
			walkK(y.X, d+1)
			walkK(y.Y, d+1)
		case *ssa.Phi:
			for _, e := range y.Edges {
				walkK(e, d+1)
			}
		case *ssa.UnOp:
			if al, ok := y.X.(*ssa.Alloc); ok {
				for _, ref := range *al.Referrers() {
					if st, isSt := ref.(*ssa.Store); isSt && st.Addr == ssa.Value(al) {
						walkK(st.Val, d+1)
					}
				}
			}
			walkK(y.X, d+1)
		case *ssa.Call:
			// aws.String(key) and the like
			if len(y.Call.Args) == 1 {
				walkK(y.Call.Args[0], d+1)
			}
		case *ssa.MakeInterface:
			walkK(y.X, d+1)
		case *ssa.ChangeType:
			walkK(y.X, d+1)
		case *ssa.Convert:
			walkK(y.X, d+1)
		}
	}
	walkK(key, 0)
	r.Check(sliced == "", "R-KEY-WHOLE", un+"|Upload key", at, "the key is the whole prefix+id string", "the object key is cut ("+sliced+"): with a long prefix the random id is cut away and every upload lands on the same key")
	sort.Strings(bad)
	var dd []string
	for i, b := range bad {
		if i == 0 || b != bad[i-1] {
			dd = append(dd, b)
		}
	}
	r.Check(len(dd) == 0, "R-KEY-FRESH", un+"|Upload key", at, "the key is drawn afresh inside each Upload call (no reusable state in its derivation)", "the object key derives from state that outlives the call: "+strings.Join(dd, "; ")+" — two uploads (overlapping, or after a wrap/retry) can be handed the same key")
}

// ---------------------------------------------------------------- C35

func seedfixC35(c *Ctx) {
	u, r := c.U, c.R
	// R-NESTED-COVERAGE: typeHasDictionary reaches the children of every nested Arrow type.
	if fn := c.Fn("R-NESTED-COVERAGE", "typeHasDictionary"); fn != nil {
		generic := false
		var cases []string
		var caseIfaces []*types.Interface
		Instrs(fn, func(in ssa.Instruction) {
			ta, ok := in.(*ssa.TypeAssert)
			if !ok {
				return
			}
			if it, isI := ta.AssertedType.Underlying().(*types.Interface); isI {
				// only the one-method interface {Fields()} (or arrow.NestedType) is satisfied by every nested type
				if it.NumMethods() == 1 && it.Method(0).Name() == "Fields" || strings.HasSuffix(typeShort(ta.AssertedType), "arrow.NestedType") {
					generic = true
				}
				caseIfaces = append(caseIfaces, it)
				cases = append(cases, typeShort(ta.AssertedType))
				return
			}
			cases = append(cases, typeShort(ta.AssertedType))
		})
		if generic {
			r.Ok("R-NESTED-COVERAGE", "typeHasDictionary", u.Pos(fn.Pos()), "recurses through the Fields() of any nested type")
		} else {
			// every arrow type with a Fields() method must be a case
			var missing []string
			nArrow := 0
			for _, tp := range u.Root.Types.Imports() {
				if !strings.HasSuffix(tp.Path(), "arrow-go/v18/arrow") {
					continue
				}
				nArrow++
				sc := tp.Scope()
				for _, n := range sc.Names() {
					tn, ok := sc.Lookup(n).(*types.TypeName)
					if !ok || !tn.Exported() {
						continue
					}
					if _, isS := tn.Type().Underlying().(*types.Struct); !isS {
						continue
					}
					ms := types.NewMethodSet(types.NewPointer(tn.Type()))
					if ms.Lookup(nil, "Fields") == nil || ms.Lookup(nil, "ID") == nil {
						continue
					}
					found := false
					for _, cse := range cases {
						if strings.HasSuffix(cse, "."+n) {
							found = true
						}
					}
					for _, it := range caseIfaces {
						if types.Implements(types.NewPointer(tn.Type()), it) || types.Implements(tn.Type(), it) {
							found = true
						}
					}
					if !found && n != "Schema" {
						missing = append(missing, n)
					}
				}
			}
			sort.Strings(missing)
			if nArrow == 0 {
				r.Undec("R-NESTED-COVERAGE", "typeHasDictionary|arrow", u.Pos(fn.Pos()), "arrow package not among the imports")
			}
			r.Check(len(missing) == 0, "R-NESTED-COVERAGE", "typeHasDictionary", u.Pos(fn.Pos()), "explicit cases cover every nested Arrow type", "typeHasDictionary enumerates nested types but misses "+strings.Join(missing, ", ")+": a dictionary below one of them takes the fast write path, which omits dictionary messages")
		}
	}
	// R-SCHEMA-CACHE-KEY: the schema-message cache is keyed by the schema's identity.
	if fn := c.Fn("R-SCHEMA-CACHE-KEY", "(*ShmSegment).cachedSchemaBytes"); fn != nil {
		n := 0
		for _, cs := range u.Calls(fn, Or(Is("(*sync.Map).Load"), Is("(*sync.Map).LoadOrStore"), Is("(*sync.Map).Store"))) {
			n++
			k := cs.Arg(1)
			if mi, ok := k.(*ssa.MakeInterface); ok {
				k = mi.X
			}
			r.Check(k == ssa.Value(fn.Params[1]), "R-SCHEMA-CACHE-KEY", strings.TrimPrefix(cs.Callee, "(*sync.Map).")+"#"+itoa(n), u.Pos(cs.Instr.Pos()), "cache keyed by the *arrow.Schema itself", "the schema-bytes cache is keyed by "+u.Describe(cs.Arg(1))+": schemas that collide on that key but differ (metadata) are written with the wrong schema message")
		}
		if n == 0 {
			r.Undec("R-SCHEMA-CACHE-KEY", "cachedSchemaBytes", u.Pos(fn.Pos()), "no cache access found")
		}
	}
	r.Floor("R-NESTED-COVERAGE", 1)
	r.Floor("R-SCHEMA-CACHE-KEY", 2)
}

// ---------------------------------------------------------------- C36

func seedfixC36(c *Ctx) {
	u, r := c.U, c.R
	so := u.Func("(*Server).serveOne")
	if so != nil {
		// R-POINTER-TEST-ON-ORIGINAL: the pointer test that decides whether the segment is
		// exposed to dispatch looks at the request batch as received.
		var batchStores []ssa.Instruction
		for _, st := range u.StoresToField(so, "Request", "Batch") {
			batchStores = append(batchStores, st)
		}
		n := 0
		for _, st := range u.StoresToField(so, "Request", "Shm") {
			// the pointer tests feeding this store's guards
			for _, cs := range u.Calls(so, Is("IsShmPointerBatch")) {
				if !strings.HasSuffix(u.Describe(cs.Arg(0)), "req.Batch") {
					continue
				}
				// is this call's result part of the decision for the store?
				if !Dominates(cs.Instr, st) && !reachable(so, cs.Instr, st) {
					continue
				}
				n++
				stale := false
				for _, bs := range batchStores {
					if reachable(so, bs, cs.Instr) {
						stale = true
					}
				}
				r.Check(!stale, "R-POINTER-TEST-ON-ORIGINAL", "serveOne|test#"+itoa(n), u.Pos(cs.Instr.Pos()), "pointer test evaluated before the request batch is replaced", "IsShmPointerBatch(req.Batch) can run after req.Batch was replaced by its resolved form: a request that engaged the segment only by sending a pointer no longer exposes it to dispatch")
			}
		}
		if n == 0 {
			r.Undec("R-POINTER-TEST-ON-ORIGINAL", "serveOne", u.Pos(so.Pos()), "no pointer test feeding req.Shm found")
		}
	}
	// R-NO-SEGMENT-EXACT: the stream's no-segment refusal depends on nothing but
	// req.Shm == nil ∧ IsShmPointerBatch(input).
	if ss := u.Func("(*Server).serveStream"); ss != nil {
		n := 0
		Instrs(ss, func(in ssa.Instruction) {
			st, ok := in.(*ssa.Store)
			if !ok {
				return
			}
			s, isS := ConstString(st.Val)
			if !isS || !strings.Contains(s, "no segment is attached") {
				return
			}
			n++
			gs := u.GuardStrings(in)
			var own []string
			for _, g := range gs {
				if strings.Contains(g, "IsShmPointerBatch(") || strings.Contains(g, "req.Shm") {
					own = append(own, g)
					continue
				}
				// conditions that hold for the whole loop body are shared with every other instruction of it
				break
			}
			sort.Strings(own)
			okE := len(own) == 2 && own[0] == "(req.Shm == nil)" && strings.HasPrefix(own[1], "IsShmPointerBatch(")
			// nothing between the loop-level guards and those two
			idx := 0
			for i, g := range gs {
				if strings.Contains(g, "IsShmPointerBatch(") || strings.Contains(g, "req.Shm") {
					idx = i
				}
			}
			for _, g := range gs[:idx] {
				if !strings.Contains(g, "IsShmPointerBatch(") && !strings.Contains(g, "req.Shm") {
					okE = false
					own = append(own, g)
				}
			}
			r.Check(okE, "R-NO-SEGMENT-EXACT", "serveStream", u.Pos(in.Pos()), "refusal ⇔ no segment ∧ pointer batch", "the no-segment refusal also requires ["+strings.Join(own, " && ")+"]: some pointer batches on a connection without a segment reach the state as empty input")
		})
		if n == 0 {
			r.Undec("R-NO-SEGMENT-EXACT", "serveStream", u.Pos(ss.Pos()), "refusal not found")
		}
	}
	r.Floor("R-POINTER-TEST-ON-ORIGINAL", 1)
	r.Floor("R-NO-SEGMENT-EXACT", 1)
}

// ---------------------------------------------------------------- C38

func seedfixC38(c *Ctx) {
	u, r := c.U, c.R
	checkResolvedCallFields(c, "R-STREAM-ID-CARRIED")
	// R-REDACT-FOLD: the default claim-redaction pattern matches every alternative case-insensitively.
	if pat, ok := c.globalRegexPattern("defaultClaimRedactPattern"); ok {
		re, err := syntax.Parse(pat, syntax.Perl)
		bad := ""
		if err != nil {
			bad = "does not parse"
		} else {
			var walk func(x *syntax.Regexp)
			walk = func(x *syntax.Regexp) {
				if x.Op == syntax.OpLiteral && x.Flags&syntax.FoldCase == 0 {
					hasLetter := false
					for _, ch := range x.Rune {
						if ch >= 'a' && ch <= 'z' || ch >= 'A' && ch <= 'Z' {
							hasLetter = true
						}
					}
					if hasLetter && bad == "" {
						bad = "matches " + string(x.Rune) + " case-sensitively"
					}
				}
				for _, s := range x.Sub {
					walk(s)
				}
			}
			walk(re)
		}
		r.Check(bad == "", "R-REDACT-FOLD", "defaultClaimRedactPattern", "vgirpc/accesslog_redact.go", "every alternative is case-insensitive", "the default redaction pattern "+bad+": a claim keyed with different capitalisation is logged in clear")
	} else {
		r.Undec("R-REDACT-FOLD", "defaultClaimRedactPattern", "-", "pattern not constant")
	}
	// R-REQUEST-BYTES-WRITER: request_bytes is the on-wire size: written once, in ServeHTTP, from Content-Length.
	n := 0
	for _, f := range u.SrcFuncs() {
		for _, st := range u.StoresToField(f, "egressRecorder", "requestBytes") {
			n++
			sn := shortName(f)
			d := u.Describe(st.Val)
			r.Check(sn == "(*HttpServer).ServeHTTP" && strings.HasSuffix(d, ".ContentLength"), "R-REQUEST-BYTES-WRITER", sn, u.Pos(st.Pos()), "request_bytes = the request's Content-Length, stamped at the front door", sn+" sets request_bytes to "+d+": the record no longer reports the body as received (before decompression)")
		}
	}
	if n == 0 {
		r.Undec("R-REQUEST-BYTES-WRITER", "requestBytes", "-", "no writer found")
	}
	r.Floor("R-STREAM-ID-CARRIED", 8)
	r.Floor("R-REDACT-FOLD", 1)
	r.Floor("R-REQUEST-BYTES-WRITER", 1)
}

// ---------------------------------------------------------------- C40

func seedfixC40(c *Ctx) {
	u, r := c.U, c.R
	// R-ONCE-READS: fields initialised under a sync.Once are read only through the function that runs the Once.
	once := u.onceFuncs()
	readers := map[string]string{"protocolHash": "(*Server).ProtocolHash"}
	for field, accessor := range readers {
		n := 0
		for _, f := range u.SrcFuncs() {
			Instrs(f, func(in ssa.Instruction) {
				ld, ok := in.(*ssa.UnOp)
				if !ok || ld.Op != token.MUL {
					return
				}
				fa, ok := ld.X.(*ssa.FieldAddr)
				if !ok || fieldKey(fa.X.Type(), fa.Field) != "Server."+field {
					return
				}
				n++
				sn := shortName(f)
				r.Check(sn == accessor || once[f], "R-ONCE-READS", field+"@"+sn, u.Pos(in.Pos()), "read through "+accessor, sn+" reads Server."+field+" directly, not through "+accessor+": on a worker whose first request takes this path the value is still empty, and the read races with the Once body")
			})
		}
		if n == 0 {
			r.Undec("R-ONCE-READS", field, "-", "no read of Server."+field+" found")
		}
	}
	// R-TEARDOWN-SERIALISED: session teardown by DELETE holds the per-session lock around registry.close.
	if fn := u.Func("(*HttpServer).handleStickyDelete"); fn != nil {
		held := u.LockHeldAt(fn)
		n := 0
		for _, cs := range u.Calls(fn, Is("(*sessionRegistry).close")) {
			n++
			ok := false
			for l := range held[cs.Instr] {
				if strings.HasSuffix(l, "entry.lock") || strings.HasSuffix(l, ".lock") {
					ok = true
				}
			}
			r.Check(ok, "R-TEARDOWN-SERIALISED", "handleStickyDelete", u.Pos(cs.Instr.Pos()), "registry.close runs with the session's lock held", "DELETE closes the session without holding its lock: state.Close() runs concurrently with a call still using that state")
		}
		if n == 0 {
			r.Undec("R-TEARDOWN-SERIALISED", "handleStickyDelete", u.Pos(fn.Pos()), "no registry.close call")
		}
	}
	r.Floor("R-ONCE-READS", 1)
	r.Floor("R-TEARDOWN-SERIALISED", 1)
}

// ---------------------------------------------------------------- C42

func seedfixC42(c *Ctx) {
	u, r := c.U, c.R
	// R-NO-CONN-DEADLINE: the listeners never put a deadline on an accepted connection —
	// an open connection must be able to outlive the idle window.
	witness := 0
	for _, name := range []string{"(*Server).RunTcp", "(*Server).RunUnix", "(*Server).serveTcpConn", "(*Server).serveUnixConn"} {
		fn := u.Func(name)
		if fn == nil {
			continue
		}
		for _, f := range WithAnon(fn) {
			Instrs(f, func(in ssa.Instruction) {
				ci, ok := in.(ssa.CallInstruction)
				if !ok {
					return
				}
				n := u.CalleeName(ci.Common())
				if strings.HasSuffix(n, ".SetNoDelay") || strings.HasSuffix(n, "net.Listener.Accept") || strings.HasSuffix(n, ".Accept") {
					witness++
				}
				if strings.HasSuffix(n, ".SetReadDeadline") || strings.HasSuffix(n, ".SetDeadline") || strings.HasSuffix(n, ".SetWriteDeadline") {
					recv := ""
					if ci.Common().IsInvoke() {
						recv = typeShort(ci.Common().Value.Type())
					} else if len(ci.Common().Args) > 0 {
						recv = typeShort(ci.Common().Args[0].Type())
					}
					if strings.Contains(recv, "Listener") {
						return // deadlines on the listener implement the idle timer
					}
					r.Viol("R-NO-CONN-DEADLINE", shortName(f)+"|"+n[strings.LastIndex(n, ".")+1:], u.Pos(in.Pos()), "an accepted connection is given a deadline ("+n+"): a client that keeps its connection open past it is cut off and the idle timer can then stop the listener under it")
				}
			})
		}
	}
	r.Check(witness >= 2, "R-NO-CONN-DEADLINE", "witness", "-", "listener code visible to the rule (Accept/SetNoDelay calls seen: "+itoa(witness)+")", "the rule no longer sees the listeners' connection calls")
	r.Floor("R-NO-CONN-DEADLINE", 1)
}

// reachFromBlock: like ReachWithout, starting at the first instruction of b.
func reachFromBlock(fn *ssa.Function, b *ssa.BasicBlock, target, block func(ssa.Instruction) bool) (ssa.Instruction, bool) {
	seen := map[*ssa.BasicBlock]bool{}
	work := []*ssa.BasicBlock{b}
	for len(work) > 0 {
		x := work[len(work)-1]
		work = work[:len(work)-1]
		if seen[x] {
			continue
		}
		seen[x] = true
		blocked := false
		for _, in := range x.Instrs {
			if block != nil && block(in) {
				blocked = true
				break
			}
			if target(in) {
				return in, true
			}
		}
		if !blocked {
			work = append(work, x.Succs...)
		}
	}
	return nil, false
}

// ---------------------------------------------------------------- C43

func seedfixC43(c *Ctx, u *Unit) {
	r := c.R
	end := u.Func("(*otelHook).OnDispatchEnd")
	start := u.Func("(*otelHook).OnDispatchStart")
	if end == nil || start == nil {
		return
	}
	// R-METRICS-UNCONDITIONAL: the request counter and the duration histogram depend only on
	// the token being ours, metrics being enabled and the instrument existing.
	for _, suf := range []string{"metric.Int64Counter.Add", "metric.Float64Histogram.Record"} {
		for _, cs := range u.Calls(end, HasSuffix(suf)) {
			var extra []string
			for _, g := range u.GuardStrings(cs.Instr) {
				g = strings.NewReplacer("(&", "(").Replace(strings.TrimPrefix(g, "&"))
				switch {
				case strings.HasPrefix(g, "assertok:*") && strings.Contains(g, "spanToken(token)#1"):
				case g == "h.cfg.EnableMetrics":
				case g == "(h.requestCounter != nil)" || g == "(h.durationHistogram != nil)":
				default:
					extra = append(extra, g)
				}
			}
			r.Check(len(extra) == 0, "R-METRICS-UNCONDITIONAL", suf[strings.LastIndex(suf, ".")+1:], u.Pos(cs.Instr.Pos()), "recorded for every dispatch when metrics are on", "the metric is recorded only when ["+strings.Join(extra, " && ")+"]: dispatches failing that test (e.g. an unsampled span) are not counted")
		}
	}
	// …and no exit between the token test and the metrics block: from the token-accepted edge,
	// a return is reachable only through the Add call or the false edge of one of its two switches.
	var okEdge *ssa.BasicBlock
	Instrs(end, func(in ssa.Instruction) {
		ifi, ok := in.(*ssa.If)
		if !ok {
			return
		}
		if d := u.Describe(ifi.Cond); strings.HasPrefix(d, "assertok:*") && strings.Contains(d, "spanToken(token)#1") {
			okEdge = ifi.Block().Succs[0]
		}
	})
	if okEdge == nil {
		r.Undec("R-METRICS-UNCONDITIONAL", "no-early-exit", u.Pos(end.Pos()), "token test not found")
	} else {
		for _, suf := range []string{"metric.Int64Counter.Add", "metric.Float64Histogram.Record"} {
			isRec := u.CallMatcher(HasSuffix(suf), false)
			sw := "h.requestCounter"
			if strings.HasSuffix(suf, "Record") {
				sw = "h.durationHistogram"
			}
			blocker := func(in ssa.Instruction) bool {
				if isRec(in) {
					return true
				}
				if ifi, ok := in.(*ssa.If); ok {
					d := strings.NewReplacer("(&", "(").Replace(strings.TrimPrefix(u.Describe(ifi.Cond), "&"))
					return d == "h.cfg.EnableMetrics" || d == "("+sw+" != nil)"
				}
				return false
			}
			w2, open2 := reachFromBlock(end, okEdge, IsReturn, blocker)
			det := ""
			if open2 {
				det = "OnDispatchEnd can return at " + u.Pos(w2.Pos()) + " for an accepted token without reaching " + suf[strings.LastIndex(suf, ".")+1:] + " or one of its switches: those dispatches are missing from the metric"
			}
			r.Check(!open2, "R-METRICS-UNCONDITIONAL", "no-early-exit|"+suf[strings.LastIndex(suf, ".")+1:], u.Pos(end.Pos()), "no exit between the token test and the metric", det)
		}
	}
	// R-EXTRACT-UNCONDITIONAL: the caller's trace context is extracted whenever a propagator
	// and transport metadata exist.
	n := 0
	for _, cs := range u.Calls(start, HasSuffix("propagation.TextMapPropagator.Extract")) {
		n++
		var extra []string
		for _, g := range u.GuardStrings(cs.Instr) {
			g = strings.NewReplacer("(&", "(").Replace(g)
			switch g {
			case "(h.cfg.Propagator != nil)", "(info.TransportMetadata != nil)":
			default:
				extra = append(extra, g)
			}
		}
		r.Check(len(extra) == 0, "R-EXTRACT-UNCONDITIONAL", "OnDispatchStart", u.Pos(cs.Instr.Pos()), "traceparent honoured whenever present", "the caller's trace context is extracted only when ["+strings.Join(extra, " && ")+"]: otherwise the span is parented on whatever the context already held")
	}
	if n == 0 {
		r.Viol("R-EXTRACT-UNCONDITIONAL", "OnDispatchStart", u.Pos(start.Pos()), "no Extract call")
	}
	r.Floor("R-METRICS-UNCONDITIONAL", 2)
	r.Floor("R-EXTRACT-UNCONDITIONAL", 1)
}
