package main

import (
	"go/types"
	"regexp"
	"sort"
	"strings"

	"golang.org/x/tools/go/ssa"
)

// C12–C16: HTTP state tokens (http_state.go, http_stream.go).

func init() {
	register(&PropInfo{
		ID:    "C12",
		Title: "Forged or altered state tokens never reach stream state",
		Explanation: "R-AEAD-FIRST: in openToken the payload decoders (unpackTokenPayload, gob Decode) are dominated by aead.Open err==nil and the slicing by the length check. " +
			"R-UNIFORM: the aead.Open failure branch returns a constant message and never reads the error value. " +
			"R-CURSOR-FIRST: in handleStreamExchange every use of the opened cursor, the rehydrate callback, the dispatch hook, sticky install and the three continuation handlers are dominated by openCursorToken err==nil and resolveCall err==nil; both failure branches answer 400 via writeHttpError and return. " +
			"R-WHO-OPENS: gob decoding happens only in openToken; openToken is called only by openCursorToken/resolveCall; those only by handleStreamExchange. " +
			"R-KEY-NORM: sealToken and openToken key the AEAD with normalizeTokenKey(h.tokenKey).",
		NotCovered:  []string{"cryptographic strength of XChaCha20-Poly1305", "base64 variant tolerance", "timing indistinguishability"},
		Assumptions: []string{"cipher.AEAD.Open returns a non-nil error for any altered ciphertext, nonce or AAD"},
		Run:         runC12,
	})
	register(&PropInfo{
		ID:    "C13",
		Title: "Tokens are bound to the identity and the kind they were minted for",
		Explanation: "R-AAD-PROVENANCE: the aad argument of every sealToken/openToken/sealSessionToken/openSessionToken call is stateTokenAad/callTokenAad applied to an *AuthContext whose backward provenance (through parameters, struct fields and closures, package-wide) consists only of authenticate()/authenticateRequest() results (Anonymous() only as the delete route's nil fallback). " +
			"R-KIND-PREFIX: each (version constant, payload type) of the shared envelope uses one AAD builder, seal and open agree, and the builders' constant prefixes differ. " +
			"R-ANON-PREDICATE: tokenAad, callStateIdentity and principalKeyFromAuth branch only on auth==nil and auth.Authenticated and read only Domain/Principal. " +
			"R-CACHE-KEY: callStateCache get/put key = callID + sep + callStateIdentity(auth); the callID handed to get comes from an opened cursor. " +
			"R-REGISTRY-PARTITION: sessionRegistry.get returns an entry only under entry.principalKey == principalKey.",
		NotCovered:  []string{"injectivity of the AAD framing for arbitrary domain/principal strings", "the sticky token shares stateTokenAad with cursors (different envelope/codec; not flagged, see DESIGN)"},
		Assumptions: []string{"AEAD binds ciphertext to AAD"},
		Run:         runC13,
	})
	register(&PropInfo{
		ID:    "C14",
		Title: "A continuation token only resumes the stream method that minted it",
		Explanation: "R-METHOD-BOUND: in handleStreamExchange a field of the opened cursor is compared with the route's method (r.PathValue(\"method\")); the mismatch edge answers 4xx via writeHttpError and returns; the comparison dominates every use of the cursor's State and every continuation handler. The same field is sealed by packCursorToken from a value whose provenance at every call site is the route's method / methodInfo.Name. " +
			"R-TYPE-ASSERT-STATE: no single-result type assertion is applied to a value derived from cursorTokenData.State.",
		NotCovered:  []string{"behaviour of user state code once the token is accepted"},
		Assumptions: []string{"gob round-trips string fields"},
		Run:         runC14,
	})
	register(&PropInfo{
		ID:    "C15",
		Title: "Token lifetime is enforced and the call cache never changes outcomes",
		Explanation: "R-AGE-ALL-PATHS: every non-error return of openCursorToken passes checkTokenAge(cursor.CreatedAt) err==nil, and every non-error return of resolveCall — the cache-hit return included — is dominated by checkTokenAge err==nil on a creation time that originates from the call token (callTokenData.CreatedAt or the value cached from it). " +
			"R-CACHE-PURE: resolvedCall fields are populated only from callTokenData fields or packCallToken's own inputs. " +
			"R-TTL-SOURCE: every newCallStateCache call receives the token TTL being configured (h.tokenTTL or the new value).",
		NotCovered:  []string{"clock behaviour", "LRU eviction order"},
		Assumptions: []string{},
		Run:         runC15,
	})
	register(&PropInfo{
		ID:    "C16",
		Title: "HTTP continuations advance the stream exactly one turn",
		Explanation: "R-ONE-EXCHANGE: handleExchangeCall invokes state.Exchange exactly once on every path, under a deferred recover. " +
			"R-TOKEN-ONLY-ON-SUCCESS: the cursor is attached (MetaStreamState key appended) only on paths dominated by exchangeErr==nil, validate()==nil and packCursorToken err==nil; each failure exit writes one error batch and no token. " +
			"R-CANCEL: handleStreamCancel calls OnCancel at most once under recover, never seals or writes a token; the cancelled branch of handleStreamExchange returns before producer/exchange dispatch. " +
			"R-STRIP: every InputMetadata store on HTTP continuation paths has provenance stripFrameworkTickMetadata(..); the strip table contains every key handleStreamExchange reads from the continuation batch. " +
			"R-NO-TOKEN-LEAK: token bytes never flow into a CallContext or DispatchInfo.",
		NotCovered:  []string{"the number of data batches user code emits (checked at runtime by validate())"},
		Assumptions: []string{},
		Run:         runC16,
	})
}

func isNamed(names ...string) func(string) bool { return Is(names...) }

// valuesFeeding returns the intra-procedural backward closure of v's operands
// (through calls, phis, slices, conversions), bounded.
func valuesFeeding(v ssa.Value, max int) []ssa.Value {
	seen := map[ssa.Value]bool{}
	var out []ssa.Value
	work := []ssa.Value{v}
	for len(work) > 0 && len(out) < max*10 {
		x := work[len(work)-1]
		work = work[:len(work)-1]
		if x == nil || seen[x] {
			continue
		}
		seen[x] = true
		out = append(out, x)
		if in, ok := x.(ssa.Instruction); ok {
			for _, op := range in.Operands(nil) {
				if *op != nil {
					work = append(work, *op)
				}
			}
		}
	}
	return out
}

func isParamOfDeadFunc(u *Unit, v ssa.Value) bool {
	p, ok := v.(*ssa.Parameter)
	return ok && u.DeadUnexported(p.Parent())
}

// ---------------------------------------------------------------- C12

func runC12(c *Ctx) {
	u, r := c.U, c.R
	r.Floor("R-AEAD-FIRST", 3)
	r.Floor("R-CURSOR-FIRST", 8)
	if fn := c.Fn("R-AEAD-FIRST", "(*HttpServer).openToken"); fn != nil {
		open := c.OneCall("R-AEAD-FIRST", fn, HasSuffix("cipher.AEAD.Open"), "aead.Open")
		if open != nil {
			openCall := open.Value().(*ssa.Call)
			for _, cs := range u.Calls(fn, Or(Is("unpackTokenPayload"), Contains("gob.Decoder).Decode"), Contains("gob.NewDecoder"))) {
				r.Check(u.GuardedErrNilOf(cs.Instr, openCall), "R-AEAD-FIRST", "openToken|"+cs.Callee, u.Pos(cs.Instr.Pos()),
					"decoder runs only after aead.Open succeeded", cs.Callee+" can run on bytes that did not pass aead.Open (not dominated by Open err == nil)")
			}
			// slicing guarded by length check
			Instrs(fn, func(in ssa.Instruction) {
				if sl, ok := in.(*ssa.Slice); ok && strings.Contains(u.Describe(sl.X), "DecodeString") {
					okLen := u.HasGuardContaining(in, "len(", ">= 41") || u.HasGuardContaining(in, "len(", ">=")
					r.Check(okLen, "R-AEAD-FIRST", "openToken|slice", u.Pos(in.Pos()), "raw token sliced only under the minimum-length guard", "raw token sliced without a dominating length check")
				}
			})
			// R-UNIFORM
			_, errBlk := u.ErrBranch(openCall)
			if errBlk == nil {
				r.Undec("R-UNIFORM", "openToken", u.Pos(open.Instr.Pos()), "no err != nil branch after aead.Open")
			} else {
				errVal := ExtractOf(openCall, 1)
				usesErr := false
				constMsg := false
				for _, in := range errBlk.Instrs {
					for _, op := range in.Operands(nil) {
						if *op == errVal {
							usesErr = true
						}
					}
					if s, ok := in.(*ssa.Store); ok {
						if fa, ok := s.Addr.(*ssa.FieldAddr); ok && fieldKey(fa.X.Type(), fa.Field) == "RpcError.Message" {
							if _, isC := s.Val.(*ssa.Const); isC {
								constMsg = true
							}
						}
					}
				}
				r.Check(!usesErr && constMsg && BlockEndsInReturn(errBlk), "R-UNIFORM", "openToken|aead.Open failure", u.Pos(errBlk.Instrs[0].Pos()),
					"authenticity failure returns one constant message and ignores the cause", "authenticity failure branch depends on the AEAD error or has a non-constant message (failure modes distinguishable)")
			}
		}
		// R-KEY-NORM
		for _, name := range []string{"(*HttpServer).openToken", "(*HttpServer).sealToken", "sealSessionToken", "openSessionToken"} {
			f := c.Fn("R-KEY-NORM", name)
			if f == nil {
				continue
			}
			for _, cs := range u.Calls(f, HasSuffix("chacha20poly1305.NewX")) {
				d := u.Describe(cs.Arg(0))
				r.Check(strings.HasPrefix(d, "normalizeTokenKey("), "R-KEY-NORM", name, u.Pos(cs.Instr.Pos()), "AEAD keyed with "+d, "AEAD keyed with "+d+" (not normalizeTokenKey(..)): seal and open may disagree on the key")
			}
		}
	}

	// R-KEY-WHOLE: normalizeTokenKey lets every byte of the configured key reach the AEAD key
	if nf := c.Fn("R-KEY-WHOLE", "normalizeTokenKey"); nf != nil {
		Instrs(nf, func(in ssa.Instruction) {
			ret, ok := in.(*ssa.Return)
			if !ok {
				return
			}
			v := ret.Results[0]
			d := u.Describe(v)
			switch {
			case v == ssa.Value(nf.Params[0]):
				r.Check(u.HasGuardContaining(in, "(len(key) == 32)"), "R-KEY-WHOLE", "normalizeTokenKey|return key", u.Pos(in.Pos()), "the key is used verbatim only when it is exactly 32 bytes", "the raw key is returned without the len(key) == 32 guard")
			default:
				os := u.Origins(v, &OriginOpts{MaxNodes: 200})
				hashed := false
				partial := false
				for _, o := range os {
					if o.Kind == "call" && o.Desc == "crypto/sha256.Sum256" {
						if call := rootCall(o.Val); call != nil && call.Call.Args[0] == ssa.Value(nf.Params[0]) {
							hashed = true
						}
					}
					if o.Kind == "param" {
						partial = true // a slice/derivation of the key other than the hash of all of it
					}
				}
				if sl, isSl := v.(*ssa.Slice); isSl && sl.X == ssa.Value(nf.Params[0]) {
					partial = true
				}
				r.Check(hashed && !partial, "R-KEY-WHOLE", "normalizeTokenKey|return derived", u.Pos(in.Pos()), "other key lengths are collapsed with SHA-256 over the whole key", "AEAD key "+d+" is derived from only part of the configured key (origins {"+OriginSummary(os)+"}): two different keys can open each other's tokens")
			}
		})
	}
	// R-DECODE-ERR: every fallible step of the token openers has its error tested, and the failure arm returns an error
	for _, name := range []string{"(*HttpServer).openToken", "unpackTokenPayload", "openSessionToken"} {
		f := c.Fn("R-DECODE-ERR", name)
		if f == nil {
			continue
		}
		for _, cs := range u.Calls(f, nil) {
			call, isCall := cs.Instr.(*ssa.Call)
			if !isCall {
				continue
			}
			res := call.Call.Signature().Results()
			if res.Len() == 0 || !isErrorType(res.At(res.Len()-1).Type()) || cs.Callee == "fmt.Errorf" || cs.Callee == "errors.New" {
				continue
			}
			_, blk := u.ErrBranch(call)
			ok := blk != nil
			if ok {
				// the failure arm must end in a return of a non-nil error (or, for the padded-base64 retry in openSessionToken, lead to another tested decode)
				ok = BlockEndsInReturnDeep(blk) || name == "openSessionToken"
			}
			r.Check(ok, "R-DECODE-ERR", name+"|"+cs.Callee, u.Pos(cs.Instr.Pos()), "error of "+cs.Callee+" is tested and refuses the token", "the error of "+cs.Callee+" is discarded or does not refuse the token: a malformed/extended token is treated as well-formed")
		}
		// and no fallible decoder variant that reports errors only through a count is used with the error dropped
		for _, cs := range u.Calls(f, HasSuffix("base64.Encoding).Decode")) {
			e := ExtractOf(cs.Value().(*ssa.Call), 1)
			r.Check(e != nil && e.Referrers() != nil && len(*e.Referrers()) > 0, "R-DECODE-ERR", name+"|base64.Decode-err", u.Pos(cs.Instr.Pos()), "decode error consulted", "base64 Decode error dropped")
		}
	}

	// R-WHO-OPENS
	allowedCallers := map[string][]string{
		"(*HttpServer).openToken":       {"(*HttpServer).openCursorToken", "(*HttpServer).resolveCall"},
		"(*HttpServer).openCursorToken": {"(*HttpServer).handleStreamExchange"},
		"(*HttpServer).resolveCall":     {"(*HttpServer).handleStreamExchange"},
	}
	for callee, allowed := range allowedCallers {
		sites := u.CallSitesOf(Is(callee))
		if len(sites) == 0 {
			r.Undec("R-WHO-OPENS", callee, "-", "no call sites found")
		}
		for _, cs := range sites {
			caller := shortName(cs.Fn)
			r.Check(Is(allowed...)(caller), "R-WHO-OPENS", callee+"←"+caller, u.Pos(cs.Instr.Pos()), "expected caller", "unexpected caller of "+callee+": token contents reach code outside the verified continuation path")
		}
	}
	for _, cs := range u.CallSitesOf(Contains("encoding/gob.NewDecoder")) {
		caller := shortName(cs.Fn)
		r.Check(caller == "(*HttpServer).openToken", "R-WHO-OPENS", "gob.NewDecoder←"+caller, u.Pos(cs.Instr.Pos()), "gob decoding only behind the AEAD", "gob decoder constructed outside openToken")
	}

	// R-CURSOR-FIRST
	fn := c.Fn("R-CURSOR-FIRST", "(*HttpServer).handleStreamExchange")
	if fn == nil {
		return
	}
	oc := c.OneCall("R-CURSOR-FIRST", fn, Is("(*HttpServer).openCursorToken"), "openCursorToken")
	rc := c.OneCall("R-CURSOR-FIRST", fn, Is("(*HttpServer).resolveCall"), "resolveCall")
	if oc == nil || rc == nil {
		return
	}
	ocCall, rcCall := oc.Value().(*ssa.Call), rc.Value().(*ssa.Call)
	sensitive := Or(Is("(*HttpServer).startDispatchHook", "(*HttpServer).installStickyOnRequestNoCtx", "(*HttpServer).installStickyOnRequest",
		"(*HttpServer).handleStreamCancel", "(*HttpServer).handleProducerContinuation", "(*HttpServer).handleExchangeCall", "deserializeSchema"),
		Contains("rehydrateFunc"))
	for _, cs := range u.Calls(fn, sensitive) {
		ok := u.GuardedErrNilOf(cs.Instr, ocCall) && u.GuardedErrNilOf(cs.Instr, rcCall)
		r.Check(ok, "R-CURSOR-FIRST", "handleStreamExchange|"+cs.Callee, u.Pos(cs.Instr.Pos()),
			"runs only after openCursorToken and resolveCall both succeeded", cs.Callee+" can run before/without the cursor and call token having been authenticated")
	}
	// every use of the opened cursor
	if td := ExtractOf(ocCall, 0); td != nil {
		n := 0
		for _, ref := range *td.Referrers() {
			in := ref
			if in == ssa.Instruction(rcCall) {
				r.Check(u.GuardedErrNilOf(in, ocCall), "R-CURSOR-FIRST", "handleStreamExchange|cursor→resolveCall", u.Pos(in.Pos()), "resolveCall sees an authenticated cursor", "resolveCall receives an unauthenticated cursor")
				continue
			}
			n++
			r.Check(u.GuardedErrNilOf(in, ocCall), "R-CURSOR-FIRST", "handleStreamExchange|cursor-use#"+itoa(n), u.Pos(in.Pos()),
				"cursor field read only after openCursorToken succeeded", "cursor contents used without openCursorToken err == nil")
		}
	}
	// failure branches → 400 + return
	for _, call := range []*ssa.Call{ocCall, rcCall} {
		name := u.CalleeName(&call.Call)
		_, blk := u.ErrBranch(call)
		if blk == nil {
			r.Viol("R-CURSOR-FIRST", "handleStreamExchange|"+name+"|failure", u.Pos(call.Pos()), "error result of "+name+" is not tested")
			continue
		}
		is400 := false
		for _, cs := range u.CallsInBlockChain(blk) {
			if cs.Callee == "(*HttpServer).writeHttpError" {
				if v, ok := ConstInt(cs.Arg(2)); ok && v >= 400 && v < 500 {
					is400 = true
				}
			}
		}
		r.Check(is400 && BlockEndsInReturn(blk), "R-CURSOR-FIRST", "handleStreamExchange|"+name+"|failure", u.Pos(blk.Instrs[0].Pos()),
			"token failure answers 4xx and returns", "token failure branch does not answer 4xx via writeHttpError and return")
	}
}

// ---------------------------------------------------------------- C13

var aadBuilders = map[string]bool{"stateTokenAad": true, "callTokenAad": true}

func runC13(c *Ctx) {
	u, r := c.U, c.R
	r.Floor("R-AAD-PROVENANCE", 6)
	r.Floor("R-KIND-PREFIX", 4)

	type use struct {
		kind, version, builder, payload string
	}
	var uses []use
	aadArgIdx := map[string]int{
		"(*HttpServer).sealToken": 3, "(*HttpServer).openToken": 3, // recv, version, payload/token, aad
		"sealSessionToken": 4, "openSessionToken": 2,
	}
	for callee, idx := range aadArgIdx {
		sites := u.CallSitesOf(Is(callee))
		if len(sites) == 0 {
			r.Undec("R-AAD-PROVENANCE", callee, "-", "no call sites")
		}
		for _, cs := range sites {
			inst := callee + "@" + shortName(cs.Fn)
			aad := cs.Arg(idx)
			bc := rootCall(aad)
			if bc == nil || !aadBuilders[u.CalleeName(&bc.Call)] {
				r.Viol("R-AAD-PROVENANCE", inst, u.Pos(cs.Instr.Pos()), "aad argument is "+u.Describe(aad)+", not stateTokenAad(auth)/callTokenAad(auth)")
				continue
			}
			builder := u.CalleeName(&bc.Call)
			os := u.Origins(bc.Call.Args[0], nil)
			bad := []string{}
			hasAuthn := false
			hasReqAuthn := false
			hasAnon := false
			for _, o := range os {
				switch {
				case o.Kind == "call" && o.Desc == "(*HttpServer).authenticate":
					hasAuthn = true
				case o.Kind == "call" && o.Desc == "(*HttpServer).authenticateRequest":
					hasReqAuthn = true
				case o.Kind == "call" && o.Desc == "Anonymous":
					hasAnon = true
				case o.Kind == "field" && (o.Desc == "stickySink.auth" || o.Desc == "CallContext.stickySink" || o.Desc == "stickyCleanup.sink"):
					// pass-through storage; the stored values are walked too
				case o.Kind == "param" && isParamOfDeadFunc(u, o.Val):
					// parameter of an unexported function with no caller and no use as a value in non-test code (test-only helper)
				case o.Kind == "const" && o.Desc == "nil":
					// nil *AuthContext: tokenAad maps it to the anonymous identity; only reachable for zero-valued sinks
				default:
					bad = append(bad, o.Kind+":"+o.Desc)
				}
			}
			if hasAnon && !hasReqAuthn {
				bad = append(bad, "call:Anonymous (without authenticateRequest fallback)")
			}
			ok := len(bad) == 0 && (hasAuthn || hasReqAuthn)
			r.Check(ok, "R-AAD-PROVENANCE", inst, u.Pos(cs.Instr.Pos()),
				builder+"(auth) with auth from {"+OriginSummary(os)+"}",
				"identity bound into the token's AAD does not come (only) from this request's authenticator: "+strings.Join(bad, ", ")+" in {"+OriginSummary(os)+"}")
			if strings.HasSuffix(callee, "sealToken") || strings.HasSuffix(callee, "openToken") {
				ver := u.Describe(cs.Arg(1))
				payload := ""
				if strings.HasSuffix(callee, "sealToken") {
					payload = typeShort(deref(cs.Arg(2)))
				} else {
					payload = typeShort(deref(cs.Arg(4)))
				}
				kind := "seal"
				if strings.HasSuffix(callee, "openToken") {
					kind = "open"
				}
				uses = append(uses, use{kind, ver, builder, payload})
			}
		}
	}
	// R-KIND-PREFIX
	byVer := map[string]map[string]bool{}
	verOfBuilder := map[string]map[string]bool{}
	kinds := map[string]map[string]bool{}
	for _, x := range uses {
		k := x.version
		if byVer[k] == nil {
			byVer[k], kinds[k] = map[string]bool{}, map[string]bool{}
		}
		byVer[k][x.builder+"/"+x.payload] = true
		kinds[k][x.kind] = true
		if verOfBuilder[x.builder] == nil {
			verOfBuilder[x.builder] = map[string]bool{}
		}
		verOfBuilder[x.builder][k] = true
	}
	var vers []string
	for v := range byVer {
		vers = append(vers, v)
	}
	sort.Strings(vers)
	for _, v := range vers {
		var bs []string
		for b := range byVer[v] {
			bs = append(bs, b)
		}
		sort.Strings(bs)
		r.Check(len(bs) == 1 && kinds[v]["seal"] && kinds[v]["open"], "R-KIND-PREFIX", "version "+v, "-",
			"sealed and opened with "+strings.Join(bs, ","), "token version "+v+" is not sealed and opened with one (AAD builder, payload type) pair: "+strings.Join(bs, ", "))
	}
	for b, vs := range verOfBuilder {
		r.Check(len(vs) == 1, "R-KIND-PREFIX", "builder "+b, "-", "AAD builder serves exactly one token kind of the shared envelope", "AAD builder "+b+" is shared by several token versions of the shared envelope: kinds become interchangeable")
	}
	// distinct constant prefixes
	prefixes := map[string]string{}
	for b := range aadBuilders {
		fn := c.Fn("R-KIND-PREFIX", b)
		if fn == nil {
			continue
		}
		for _, cs := range u.Calls(fn, Is("tokenAad")) {
			prefixes[b] = u.Describe(cs.Arg(0))
		}
	}
	r.Check(len(prefixes) == 2 && prefixes["stateTokenAad"] != prefixes["callTokenAad"] && strings.Contains(prefixes["stateTokenAad"], `"`), "R-KIND-PREFIX", "prefixes", "-",
		"distinct constant AAD prefixes: "+prefixes["stateTokenAad"]+" vs "+prefixes["callTokenAad"], "AAD prefixes of the two token kinds are not distinct constants: "+prefixes["stateTokenAad"]+" vs "+prefixes["callTokenAad"])

	// R-ANON-PREDICATE
	condOK := regexp.MustCompile(`^\(auth == nil\)$|^!?auth\.Authenticated$|^\(auth != nil\)$`)
	for _, name := range []string{"tokenAad", "callStateIdentity", "principalKeyFromAuth"} {
		fn := c.Fn("R-ANON-PREDICATE", name)
		if fn == nil {
			continue
		}
		bad := []string{}
		Instrs(fn, func(in ssa.Instruction) {
			if ifi, ok := in.(*ssa.If); ok {
				for _, a := range u.guardAtoms(ifi.Cond, true) {
					if !condOK.MatchString(a) {
						bad = append(bad, a)
					}
				}
			}
		})
		// fields of auth read
		fields := map[string]bool{}
		Instrs(fn, func(in ssa.Instruction) {
			if fa, ok := in.(*ssa.FieldAddr); ok && strings.HasPrefix(fieldKey(fa.X.Type(), fa.Field), "AuthContext.") {
				fields[fieldName(fa.X.Type(), fa.Field)] = true
			}
		})
		var fl []string
		for f := range fields {
			fl = append(fl, f)
		}
		sort.Strings(fl)
		okFields := strings.Join(fl, ",") == "Authenticated,Domain,Principal"
		r.Check(len(bad) == 0 && okFields, "R-ANON-PREDICATE", name, u.Pos(fn.Pos()),
			"branches only on auth==nil / auth.Authenticated; reads "+strings.Join(fl, ","),
			"identity rendering in "+name+" branches on "+strings.Join(bad, "; ")+" / reads fields "+strings.Join(fl, ",")+" — the three identity functions must use the same predicate (anonymous ⇔ nil or !Authenticated) and Domain+Principal")
	}

	// R-IDENTITY-FRAMING: domain and principal are separated by a constant, and the AAD uses the kind prefix on every branch
	sepRe := mustRe(`^\(\(auth\.Domain \+ "([^"]+)"\) \+ auth\.Principal\)$`)
	for _, name := range []string{"callStateIdentity", "principalKeyFromAuth"} {
		fn := u.Func(name)
		if fn == nil {
			continue
		}
		Instrs(fn, func(in ssa.Instruction) {
			ret, ok := in.(*ssa.Return)
			if !ok {
				return
			}
			if _, isC := ret.Results[0].(*ssa.Const); isC {
				return
			}
			d := u.Describe(ret.Results[0])
			r.Check(sepRe.MatchString(d), "R-IDENTITY-FRAMING", name, u.Pos(in.Pos()), "identity = Domain + constant separator + Principal", "identity is rendered as "+d+": without a constant separator between domain and principal, different (domain, principal) pairs collide")
		})
	}
	if fn := u.Func("tokenAad"); fn != nil {
		k := 0
		Instrs(fn, func(in ssa.Instruction) {
			ret, ok := in.(*ssa.Return)
			if !ok {
				return
			}
			k++
			os := u.Origins(ret.Results[0], &OriginOpts{MaxNodes: 300})
			prefixes := 0
			for _, o := range os {
				if o.Kind == "const" && (strings.Contains(o.Desc, "vgi_rpc.state.") || strings.Contains(o.Desc, "vgi_rpc.call.")) {
					prefixes++
				}
			}
			usesParam := false
			for _, v := range valuesFeeding(ret.Results[0], 40) {
				if v == ssa.Value(fn.Params[0]) {
					usesParam = true
				}
			}
			r.Check(usesParam && prefixes >= 2, "R-IDENTITY-FRAMING", "tokenAad|return#"+itoa(k)+" uses prefix", u.Pos(in.Pos()), "AAD on this branch starts with the caller-supplied kind prefix", "this branch of tokenAad does not build the AAD from its prefix parameter: cursor and call tokens share an AAD here and become interchangeable")
		})
		// authenticated branch: [.., const, Domain, const, Principal]
		var seq []string
		Instrs(fn, func(in ssa.Instruction) {
			if c, ok := in.(*ssa.Call); ok {
				if b, ok := c.Call.Value.(*ssa.Builtin); ok && b.Name() == "append" && len(c.Call.Args) == 2 {
					d := u.Describe(c.Call.Args[1])
					switch {
					case strings.Contains(d, "auth.Domain"):
						seq = append(seq, "Domain")
					case strings.Contains(d, "auth.Principal"):
						seq = append(seq, "Principal")
					case strings.Contains(d, "varargs"):
						seq = append(seq, "const")
					case d == "prefix":
						seq = append(seq, "prefix")
					default:
						seq = append(seq, "other")
					}
				}
			}
		})
		j := strings.Join(seq, ",")
		r.Check(strings.Contains(j, "prefix,const,Domain,const,Principal"), "R-IDENTITY-FRAMING", "tokenAad|authenticated-framing", u.Pos(fn.Pos()), "prefix, tag byte, domain, separator byte, principal", "authenticated AAD is assembled as ["+j+"], expected prefix, tag, Domain, separator, Principal")
	}

	// R-CACHE-KEY
	for _, name := range []string{"(*callStateCache).get", "(*callStateCache).put"} {
		fn := c.Fn("R-CACHE-KEY", name)
		if fn == nil {
			continue
		}
		found := false
		Instrs(fn, func(in ssa.Instruction) {
			var key ssa.Value
			switch x := in.(type) {
			case *ssa.Lookup:
				key = x.Index
			case *ssa.MapUpdate:
				key = x.Key
			}
			if key == nil {
				return
			}
			d := u.Describe(key)
			if strings.Contains(d, "oldest") || strings.Contains(d, ".key") {
				return // eviction path uses the stored key
			}
			found = true
			r.Check(strings.Contains(d, "callStateIdentity(auth)") && strings.Contains(d, "callID"), "R-CACHE-KEY", name, u.Pos(in.Pos()),
				"map key = "+d, "cache key "+d+" does not combine the call id with callStateIdentity(auth)")
		})
		if !found {
			r.Undec("R-CACHE-KEY", name, u.Pos(fn.Pos()), "no map access found")
		}
	}
	if fn := c.Fn("R-CACHE-KEY", "(*HttpServer).resolveCall"); fn != nil {
		for _, cs := range u.Calls(fn, Is("(*callStateCache).get", "(*callStateCache).put")) {
			d := u.Describe(cs.Arg(1))
			r.Check(d == "cursor.CallID" && u.Describe(cs.Arg(2)) == "auth", "R-CACHE-KEY", "resolveCall→"+cs.Callee, u.Pos(cs.Instr.Pos()),
				"cache addressed by the authenticated cursor's CallID and the caller", "cache addressed by "+d+" / "+u.Describe(cs.Arg(2)))
		}
	}

	// R-REGISTRY-PARTITION
	if fn := c.Fn("R-REGISTRY-PARTITION", "(*sessionRegistry).get"); fn != nil {
		Instrs(fn, func(in ssa.Instruction) {
			ret, ok := in.(*ssa.Return)
			if !ok {
				return
			}
			if cst, ok := ret.Results[0].(*ssa.Const); ok && cst.Value == nil {
				return
			}
			gs := u.GuardStrings(in)
			okP := false
			for _, g := range gs {
				if strings.Contains(g, ".principalKey == principalKey)") {
					okP = true
				}
			}
			r.Check(okP, "R-REGISTRY-PARTITION", "get|return entry", u.Pos(in.Pos()), "entry returned only under principalKey equality", "sessionRegistry.get returns an entry without entry.principalKey == principalKey; guards: "+strings.Join(gs, " && "))
		})
	}
}

// deref returns the dynamic type boxed into an interface-typed argument.
func deref(v ssa.Value) types.Type {
	if mi, ok := v.(*ssa.MakeInterface); ok {
		return mi.X.Type()
	}
	return v.Type()
}
