package main

import (
	"go/constant"
	"go/token"
	"go/types"
	"sort"
	"strings"

	"golang.org/x/tools/go/ssa"
)

func init() {
	register(&PropInfo{
		ID:    "C23",
		Title: "Authenticator failures map to the right status and chains stop correctly",
		Explanation: "R-AUTH-STATUS: in (*HttpServer).authenticate the 503 answer is guarded by errors.As(err, *AuthUnavailableError) and sets Retry-After first; the 401 writer is reachable only with that test false and (asAuthFailure ∨ a directly returned *RpcError of Type ValueError/PermissionError); every other failure answers 500; each answered branch returns nil. " +
			"R-401-HEADERS: writeUnauthorized sets VGI-Auth-Reason, Cache-Control: no-store and (when configured) WWW-Authenticate before WriteHeader(401); an empty reason defaults to unauthorized; the AuthReason constants form the closed set of six. " +
			"R-CHAIN: in the ChainAuthenticate closure err == nil returns at once; the only continue edge requires ¬errors.As(unavailable) ∧ direct assertion to *RpcError ∧ Type == ValueError; all other edges return err.",
		NotCovered:  []string{"reason values supplied by user authenticators (AuthFailure.Reason is an open string type)"},
		Assumptions: []string{"errors.As follows Unwrap chains"},
		Run:         runC23,
	})
	register(&PropInfo{
		ID:    "C24",
		Title: "Credential extractors accept exactly what they are configured to accept",
		Explanation: "R-BEARER-EXACT: the Authorization value reaches subtle.ConstantTimeCompare through exactly HasPrefix(\"Bearer \") + TrimPrefix of the same constant and a []byte conversion (no TrimSpace/ToLower/Fields/Split); acceptance ⇔ compare == 1; the context returned is the one paired with the matching key in the same loop element; the loop has no early exit. " +
			"XFCC half, structural clauses only. R-XFCC-SPLIT: splitRespectingQuotes cuts an element only on the delimiter with !inQuotes, the state toggles exactly on '\"', and a backslash escapes the next byte only inside quotes. R-XFCC-LEVELS: ParseXfcc splits the header on ',' and every element on ';' through that function (no raw strings.Split). " +
			"R-XFCC-DECODE: the URL-decoded keys are exactly cert|uri|by via a checked url.QueryUnescape, the six keys are stored each into its own field, and a value is unquoted only when both ends are quotes. R-XFCC-IDENTITY: the default principal is extractCN(selected element's Subject), first→elements[0] and last→elements[len-1] under len != 0, extractCN returns the value of the first CN= RDN split on unescaped commas.",
		NotCovered:  []string{"the XFCC parser's agreement with the header grammar for every input string (a parser-equivalence question over all strings): only the structural clauses above are decided"},
		Assumptions: []string{"subtle.ConstantTimeCompare returns 1 exactly for equal byte slices"},
		Run:         runC24,
	})
	register(&PropInfo{
		ID:    "C25",
		Title: "Proxy proofs verify only for their worker and can never be replayed",
		Explanation: "R-VERIFY-GUARDS: the success return of VerifyProof is dominated by: length ≤ 512, five fields, version, the four charset regexes, Secrets[kid] present, both window tests (age > skew false, -age > skew false), ConstantTimeCompare == 1 on an HMAC keyed with that kid's secret over the canonical string containing cfg.OriginID, and cache == nil ∨ checkAndAdd(nonce). R-CONST-TIME: no bytes.Equal / hmac-less comparison of MAC bytes. " +
			"R-GATE-ORDER: in the ProofAuthenticate closure inner(r) is unreachable from the perr != nil ∧ required branch, which returns one constant AuthFailure. R-ONE-HEADER: VerifyProof is reached only with exactly one header value containing no comma. R-NONCE-ATOMIC: checkAndAdd touches entries/order only under mu. " +
			"R-NONCE-TTL: the retention handed to newNonceCache, as a multiple of SkewSeconds, is at least the width of the acceptance window implied by the two window tests (2·skew).",
		NotCovered:  []string{"HMAC strength", "replay after capacity eviction (exempted by the statement)", "clock behaviour"},
		Assumptions: []string{},
		Run:         runC25,
	})
}

// ---------------------------------------------------------------- C23

func runC23(c *Ctx) {
	u, r := c.U, c.R
	seedfixC23(c)
	fn := c.Fn("R-AUTH-STATUS", "(*HttpServer).authenticate")
	if fn != nil {
		r.Floor("R-AUTH-STATUS", 3)
		tableOK := c23StatusTable(c, fn)
		for _, cs := range u.Calls(fn, Is("net/http.Error")) {
			code, _ := ConstInt(cs.Arg(2))
			gs := strings.Join(u.GuardStrings(cs.Instr), " && ")
			asUnavail := strings.Contains(gs, "errors.As(") && !strings.Contains(gs, "!errors.As(")
			switch code {
			case 503:
				// Retry-After set before
				ra := false
				for _, hs := range u.Calls(fn, Is("(net/http.Header).Set")) {
					if s, ok := ConstString(hs.Arg(1)); ok && s == "Retry-After" && Dominates(hs.Instr, cs.Instr) {
						ra = true
					}
				}
				r.Check((tableOK || asUnavail) && ra && c.errorsAsTarget(fn, "AuthUnavailableError"), "R-AUTH-STATUS", "authenticate|503", u.Pos(cs.Instr.Pos()),
					"503 only under errors.As(err, *AuthUnavailableError), Retry-After set first", "503 branch not guarded by errors.As(AuthUnavailableError) or Retry-After missing; guards: "+gs)
			case 500:
				ok := strings.Contains(gs, "!errors.As(") && (strings.Contains(gs, "!asAuthFailure(") || strings.Contains(gs, "asAuthFailure(")) && !asUnavail
				// must be the else-arm of the 401 condition: cannot be guarded positively by asAuthFailure
				posAF := false
				for _, g := range u.GuardStrings(cs.Instr) {
					if strings.HasPrefix(g, "asAuthFailure(") {
						posAF = true
					}
				}
				r.Check(tableOK || (ok && !posAF), "R-AUTH-STATUS", "authenticate|500", u.Pos(cs.Instr.Pos()), "500 only when neither unavailable nor a rejection", "500 branch guards: "+gs)
			default:
				r.Viol("R-AUTH-STATUS", "authenticate|status "+itoa(int(code)), u.Pos(cs.Instr.Pos()), "unexpected status written by authenticate")
			}
		}
		for _, cs := range u.Calls(fn, Is("(*HttpServer).writeUnauthorized")) {
			gs := u.GuardStrings(cs.Instr)
			j := strings.Join(gs, " && ")
			notUnavail := strings.Contains(j, "!errors.As(")
			// the 401 block is reached by (asAuthFailure) OR (isRpc && type in {ValueError, PermissionError}); check predecessors
			okPreds := true
			descs := []string{}
			for _, p := range cs.Instr.Block().Preds {
				ifi, isIf := p.Instrs[len(p.Instrs)-1].(*ssa.If)
				if !isIf {
					okPreds = false
					continue
				}
				d := u.Describe(ifi.Cond)
				descs = append(descs, d)
				okD := strings.HasPrefix(d, "asAuthFailure(") || strings.Contains(d, `.Type == "ValueError"`) || strings.Contains(d, `.Type == "PermissionError"`)
				if !okD || p.Succs[0] != cs.Instr.Block() {
					okPreds = false
				}
			}
			// the RpcError must be a direct assertion of err (not errors.As)
			direct := false
			Instrs(fn, func(in ssa.Instruction) {
				if ta, ok := in.(*ssa.TypeAssert); ok && ta.CommaOk && typeShort(ta.AssertedType) == "*RpcError" {
					if strings.Contains(u.Describe(ta.X), "authenticateFunc(r)#1") {
						direct = true
					}
				}
			})
			r.Check(((tableOK) || (notUnavail && okPreds)) && direct, "R-AUTH-STATUS", "authenticate|401", u.Pos(cs.Instr.Pos()),
				"401 only for AuthFailure-in-chain or a direct ValueError/PermissionError RpcError, never for unavailable", "401 branch entered from conditions {"+strings.Join(descs, " | ")+"} under guards "+j)
		}
		// every failure branch returns nil
		Instrs(fn, func(in ssa.Instruction) {
			ret, ok := in.(*ssa.Return)
			if !ok {
				return
			}
			if u.HasGuardContaining(in, "authenticateFunc(r)#1 != nil") {
				cst, isC := ret.Results[0].(*ssa.Const)
				r.Check(isC && cst.Value == nil, "R-AUTH-STATUS", "authenticate|failure-returns-nil", u.Pos(in.Pos()), "failure path yields no AuthContext", "a failing authenticator still yields an AuthContext")
			}
		})
	}
	// R-401-HEADERS
	if wf := c.Fn("R-401-HEADERS", "(*HttpServer).writeUnauthorized"); wf != nil {
		whs := u.Calls(wf, HasSuffix("ResponseWriter.WriteHeader"))
		var wh *CallSite
		for i := range whs {
			if v, ok := ConstInt(whs[i].Arg(0)); ok && v == 401 {
				wh = &whs[i]
			}
		}
		if wh == nil {
			r.Viol("R-401-HEADERS", "writeUnauthorized|status", u.Pos(wf.Pos()), "no WriteHeader(401)")
		} else {
			want := map[string]bool{"VGI-Auth-Reason": false, "Cache-Control": false, "WWW-Authenticate": false}
			for _, hs := range u.Calls(wf, Is("(net/http.Header).Set")) {
				if s, ok := ConstString(hs.Arg(1)); ok {
					if _, w := want[s]; w && (Dominates(hs.Instr, wh.Instr) || s == "WWW-Authenticate" && reachable(wf, hs.Instr, wh.Instr)) {
						if s == "Cache-Control" {
							if v, _ := ConstString(hs.Arg(2)); v != "no-store" {
								continue
							}
						}
						if s == "WWW-Authenticate" && !u.HasGuardContaining(hs.Instr, "h.wwwAuthenticate", `!= ""`) {
							continue
						}
						want[s] = true
					}
				}
			}
			for k, v := range want {
				r.Check(v, "R-401-HEADERS", "writeUnauthorized|"+k, u.Pos(wh.Instr.Pos()), k+" set before the 401 status line", k+" is not set (correctly) before WriteHeader(401)")
			}
			// all status writes in this function are 401
			for _, e := range u.Calls(wf, Is("net/http.Error")) {
				v, _ := ConstInt(e.Arg(2))
				r.Check(v == 401, "R-401-HEADERS", "writeUnauthorized|fallback-status", u.Pos(e.Instr.Pos()), "fallback also answers 401", "fallback answers "+itoa(int(v)))
			}
		}
		// default reason
		def := false
		Instrs(wf, func(in ssa.Instruction) {
			if phi, ok := in.(*ssa.Phi); ok {
				for _, e := range phi.Edges {
					if s, ok := ConstString(e); ok && s == "unauthorized" {
						def = true
					}
				}
			}
		})
		r.Check(def, "R-401-HEADERS", "writeUnauthorized|default-reason", u.Pos(wf.Pos()), "empty reason defaults to unauthorized", "empty reason is not defaulted")
	}
	// closed set
	var reasons []string
	scope := u.Root.Types.Scope()
	for _, n := range scope.Names() {
		if cst, ok := scope.Lookup(n).(*types.Const); ok && typeShort(cst.Type()) == "AuthReason" {
			reasons = append(reasons, constant.StringVal(cst.Val()))
		}
	}
	sort.Strings(reasons)
	r.Check(strings.Join(reasons, ",") == "expired_credential,insufficient_scope,invalid_credential,missing_credential,proxy_required,unauthorized", "R-401-HEADERS", "AuthReason|closed-set", "-",
		"six reason codes: "+strings.Join(reasons, ","), "AuthReason constants are "+strings.Join(reasons, ",")+" — not the cross-language closed set")

	// R-CHAIN
	if cf := c.Fn("R-CHAIN", "ChainAuthenticate"); cf != nil && len(cf.AnonFuncs) == 1 {
		cl := cf.AnonFuncs[0]
		r.Analysed(shortName(cl))
		calls := u.Calls(cl, func(s string) bool { return strings.HasPrefix(s, "dyn:") })
		if len(calls) != 1 {
			r.Undec("R-CHAIN", "closure", u.Pos(cl.Pos()), "expected one dynamic authenticator call")
			return
		}
		call := calls[0].Value().(*ssa.Call)
		errV := ExtractOf(call, 1)
		// returns
		Instrs(cl, func(in ssa.Instruction) {
			ret, ok := in.(*ssa.Return)
			if !ok {
				return
			}
			if ret.Results[0] == ExtractOf(call, 0) {
				r.Check(u.GuardedErrNilOf(in, call), "R-CHAIN", "return-success", u.Pos(in.Pos()), "first success is returned", "a context is returned without err == nil")
			}
			if ret.Results[1] == errV {
				r.Ok("R-CHAIN", "return-err", u.Pos(in.Pos()), "chain stops with the authenticator's error")
			}
		})
		// back edge: the loop continues only from the ValueError test (or after a nil... no)
		loopHead := call.Block()
		for loopHead != nil && len(loopHead.Preds) < 2 {
			if len(loopHead.Preds) == 0 {
				loopHead = nil
				break
			}
			loopHead = loopHead.Preds[0]
		}
		n := 0
		for _, b := range cl.Blocks {
			if !call.Block().Dominates(b) && b != call.Block() {
				continue
			}
			for _, s := range b.Succs {
				if s == loopHead || (len(s.Instrs) == 1 && len(s.Succs) == 1 && s.Succs[0] == loopHead) || s.Dominates(call.Block()) && s != call.Block() && Dominated(call.Block(), b) {
					// candidate back edge from b
					if !Dominated(call.Block(), b) {
						continue
					}
					n++
					gs := strings.Join(u.GuardStringsOfBlockEdge(b, s), " && ")
					ok := strings.Contains(gs, `.Type == "ValueError"`) && strings.Contains(gs, "assertok:*RpcError(") && strings.Contains(gs, "!errors.As(") && strings.Contains(gs, "#1 != nil")
					r.Check(ok, "R-CHAIN", "continue-edge#"+itoa(n), u.Pos(b.Instrs[len(b.Instrs)-1].Pos()), "moves on only past a directly returned ValueError RpcError", "the chain moves to the next authenticator under: "+gs)
				}
			}
		}
		if n == 0 {
			r.Undec("R-CHAIN", "continue-edge", u.Pos(cl.Pos()), "loop back edge not found")
		}
	}
}

// Dominated: block a dominates block b (or equal).
func Dominated(a, b *ssa.BasicBlock) bool { return a == b || a.Dominates(b) }

// GuardStringsOfBlockEdge: guards holding when control leaves b towards s.
func (u *Unit) GuardStringsOfBlockEdge(b, s *ssa.BasicBlock) []string {
	var out []string
	if len(b.Instrs) > 0 {
		out = append(out, u.GuardStrings(b.Instrs[len(b.Instrs)-1])...)
		if ifi, ok := b.Instrs[len(b.Instrs)-1].(*ssa.If); ok {
			if b.Succs[0] == s {
				out = append(out, u.guardAtoms(ifi.Cond, true)...)
			} else if b.Succs[1] == s {
				out = append(out, u.guardAtoms(ifi.Cond, false)...)
			}
		}
	}
	return out
}

// errorsAsTarget: some errors.As call in fn targets *<name>.
func (c *Ctx) errorsAsTarget(fn *ssa.Function, name string) bool {
	for _, cs := range c.U.Calls(fn, Is("errors.As")) {
		if strings.Contains(typeShort(deref(cs.Arg(1))), name) {
			return true
		}
	}
	return false
}

// ---------------------------------------------------------------- C24

func runC24(c *Ctx) {
	u, r := c.U, c.R
	runC24Xfcc(c)
	ba := c.Fn("R-BEARER-EXACT", "BearerAuthenticate")
	bs := c.Fn("R-BEARER-EXACT", "BearerAuthenticateStatic")
	if ba == nil || bs == nil || len(ba.AnonFuncs) != 1 {
		return
	}
	cl := ba.AnonFuncs[0]
	// header → HasPrefix/TrimPrefix with same constant
	var prefixes []string
	forbidden := []string{}
	for _, cs := range u.Calls(cl, func(s string) bool { return strings.HasPrefix(s, "strings.") }) {
		switch cs.Callee {
		case "strings.HasPrefix", "strings.TrimPrefix":
			p, _ := ConstString(cs.Arg(1))
			prefixes = append(prefixes, cs.Callee+"="+p)
			if !strings.Contains(u.Describe(cs.Arg(0)), `Get(r.Header, "Authorization")`) {
				forbidden = append(forbidden, cs.Callee+" on "+u.Describe(cs.Arg(0)))
			}
		default:
			forbidden = append(forbidden, cs.Callee)
		}
	}
	sort.Strings(prefixes)
	// strings.CutPrefix(h, "Bearer ") is HasPrefix + TrimPrefix in one call (token = #0 under #1)
	cut := false
	if len(prefixes) == 0 && len(forbidden) == 1 && forbidden[0] == "strings.CutPrefix" {
		for _, cs := range u.Calls(cl, Is("strings.CutPrefix")) {
			p, _ := ConstString(cs.Arg(1))
			if p == "Bearer " && strings.Contains(u.Describe(cs.Arg(0)), `Get(r.Header, "Authorization")`) {
				cut = true
				forbidden = nil
				prefixes = []string{"strings.HasPrefix=Bearer ", "strings.TrimPrefix=Bearer "}
			}
		}
	}
	r.Check(strings.Join(prefixes, ",") == "strings.HasPrefix=Bearer ,strings.TrimPrefix=Bearer " && len(forbidden) == 0, "R-BEARER-EXACT", "BearerAuthenticate|scheme", u.Pos(cl.Pos()),
		"token = Authorization value with the exact prefix \"Bearer \" removed", "bearer extraction uses "+strings.Join(prefixes, ",")+" / other string ops "+strings.Join(forbidden, ","))
	// validate(token) receives the TrimPrefix result
	for _, cs := range u.Calls(cl, func(s string) bool { return strings.HasPrefix(s, "dyn:validate") }) {
		d := u.Describe(cs.Arg(0))
		ok := strings.HasPrefix(d, "strings.TrimPrefix(") && u.HasGuardContaining(cs.Instr, "strings.HasPrefix(") && !u.HasGuardContaining(cs.Instr, "!strings.HasPrefix(")
		if cut {
			ok = strings.HasPrefix(d, "strings.CutPrefix(") && strings.HasSuffix(d, "#0") && u.HasGuardContaining(cs.Instr, "strings.CutPrefix(", "#1") && !u.HasGuardContaining(cs.Instr, "!strings.CutPrefix(")
		}
		r.Check(ok, "R-BEARER-EXACT", "BearerAuthenticate|validate-arg", u.Pos(cs.Instr.Pos()), "validator sees exactly the trimmed token, only when the scheme matched", "validator receives "+d)
	}
	// static comparison closure
	if len(bs.AnonFuncs) < 1 {
		r.Undec("R-BEARER-EXACT", "BearerAuthenticateStatic", u.Pos(bs.Pos()), "no validation closure")
		return
	}
	var vcl *ssa.Function
	for _, a := range bs.AnonFuncs {
		if len(u.Calls(a, Is("crypto/subtle.ConstantTimeCompare"))) > 0 {
			vcl = a
		}
	}
	if vcl == nil {
		r.Viol("R-BEARER-EXACT", "BearerAuthenticateStatic|compare", u.Pos(bs.Pos()), "no subtle.ConstantTimeCompare in the static bearer validator")
		return
	}
	cmps := u.Calls(vcl, Is("crypto/subtle.ConstantTimeCompare"))
	for _, cs := range cmps {
		a0, a1 := u.Describe(cs.Arg(0)), u.Describe(cs.Arg(1))
		okArgs := a0 == "conv:[]byte(token)" && strings.HasSuffix(a1, ".key")
		// result compared == 1
		eq1 := false
		for _, ref := range *cs.Value().Referrers() {
			if b, ok := ref.(*ssa.BinOp); ok && b.Op == token.EQL {
				if k, ok := ConstInt(b.Y); ok && k == 1 {
					eq1 = true
				}
			}
		}
		r.Check(okArgs && eq1, "R-BEARER-EXACT", "static|compare", u.Pos(cs.Instr.Pos()), "constant-time compare of the raw token bytes against the configured key, accepted iff == 1", "comparison is "+a0+" vs "+a1+" (eq1="+boolStr(eq1)+")")
	}
	// other string transforms on token in the closure
	var extra []string
	for _, cs := range u.Calls(vcl, func(s string) bool {
		return strings.HasPrefix(s, "strings.") || strings.HasPrefix(s, "bytes.") && s != "bytes.Equal"
	}) {
		extra = append(extra, cs.Callee)
	}
	for _, cs := range u.Calls(vcl, Is("bytes.Equal")) {
		extra = append(extra, cs.Callee)
	}
	r.Check(len(extra) == 0, "R-BEARER-EXACT", "static|no-normalisation", u.Pos(vcl.Pos()), "no trimming/case-folding/non-constant-time compare of the presented token", "token passes through "+strings.Join(extra, ","))
	// the matched ctx and key come from the same element; returned value = that ctx
	for _, s := range vcl.Blocks {
		_ = s
	}
	pairOK := false
	Instrs(vcl, func(in ssa.Instruction) {
		if phi, ok := in.(*ssa.Phi); ok && typeShort(phi.Type()) == "*AuthContext" {
			for _, e := range phi.Edges {
				d := u.Describe(e)
				if strings.HasSuffix(d, ".ctx") {
					// same base as the compared key
					for _, cs := range cmps {
						k := u.Describe(cs.Arg(1))
						if strings.TrimSuffix(k, ".key") == strings.TrimSuffix(d, ".ctx") {
							pairOK = true
						}
					}
				}
			}
		}
	})
	r.Check(pairOK, "R-BEARER-EXACT", "static|identity-pairing", u.Pos(vcl.Pos()), "the identity returned is the one stored with the matching key", "matched identity is not taken from the same table element as the compared key")
	// success return only when match != nil
	Instrs(vcl, func(in ssa.Instruction) {
		ret, ok := in.(*ssa.Return)
		if !ok {
			return
		}
		if cst, isC := ret.Results[1].(*ssa.Const); isC && cst.Value == nil {
			okG := false
			for _, g := range GuardsAt(in.Block()) {
				if x, isNil, k := nilCompare(g); k && !isNil && x == ret.Results[0] {
					okG = true
				}
			}
			r.Check(okG, "R-BEARER-EXACT", "static|accept-iff-match", u.Pos(in.Pos()), "accepted only with a non-nil match", "success returned without match != nil")
		}
	})
}

func boolStr(b bool) string {
	if b {
		return "true"
	}
	return "false"
}

// ---------------------------------------------------------------- C25

func runC25(c *Ctx) {
	u, r := c.U, c.R
	fn := c.Fn("R-VERIFY-GUARDS", "VerifyProof")
	if fn != nil {
		Instrs(fn, func(in ssa.Instruction) {
			ret, ok := in.(*ssa.Return)
			if !ok {
				return
			}
			if cst, isC := ret.Results[1].(*ssa.Const); !isC || cst.Value != nil {
				return
			}
			gs := u.GuardStrings(in)
			j := strings.Join(gs, " && ")
			need := map[string]bool{
				"length ≤ 512":          strings.Contains(j, "(len(token) <= 512)"),
				"five fields":           strings.Contains(j, "== 5)"),
				"version":               strings.Contains(j, `== "v1")`),
				"kid charset":           strings.Contains(j, "MatchString(global:proofKidRe"),
				"ts charset":            strings.Contains(j, "MatchString(global:proofTsRe"),
				"nonce charset":         strings.Contains(j, "MatchString(global:proofNonceRe"),
				"mac charset":           strings.Contains(j, "MatchString(global:proofMacRe"),
				"known kid":             strings.Contains(j, "cfg.Secrets["),
				"not expired":           containsRe(gs, `^\(\(.*Unix\(.*\) - .*ParseInt.*\) <= conv:int64\(cfg\.SkewSeconds\)\)$`),
				"not from the future":   containsRe(gs, `^\(-\(.*Unix\(.*\) - .*ParseInt.*\) <= conv:int64\(cfg\.SkewSeconds\)\)$`),
				"mac equal (const time)": strings.Contains(j, "(crypto/subtle.ConstantTimeCompare(") && strings.Contains(j, "== 1)"),
				"ts parsed":              strings.Contains(j, "strconv.ParseInt(") && strings.Contains(j, "#1 == nil)"),
			}
			var missing []string
			for k, v := range need {
				if !v {
					missing = append(missing, k)
				}
			}
			sort.Strings(missing)
			r.Check(len(missing) == 0, "R-VERIFY-GUARDS", "VerifyProof|success", u.Pos(in.Pos()), "success dominated by all 12 acceptance conditions", "success return is missing dominating checks: "+strings.Join(missing, ", ")+" — guards: "+j)
			// replay: the block is reached from (cache == nil) or checkAndAdd true
			okReplay := len(in.Block().Preds) > 0
			for _, p := range in.Block().Preds {
				ifi, isIf := p.Instrs[len(p.Instrs)-1].(*ssa.If)
				if !isIf {
					okReplay = false
					continue
				}
				d := u.Describe(ifi.Cond)
				fromTrue := p.Succs[0] == in.Block()
				if strings.Contains(d, "cache != nil") && !fromTrue {
					continue
				}
				if strings.Contains(d, "checkAndAdd(cache, ") && fromTrue {
					continue
				}
				okReplay = false
			}
			r.Check(okReplay, "R-VERIFY-GUARDS", "VerifyProof|replay", u.Pos(in.Pos()), "accepted only with no cache or a first-seen nonce", "success reachable without passing the replay cache")
			// the replay key is the proof's nonce field — the one value the MAC covers that identifies a proof,
			// not a string an attacker can re-spell (the raw token has several encodings of one MAC)
			for _, ca := range u.Calls(fn, Is("(*nonceCache).checkAndAdd")) {
				d := u.Describe(ca.Arg(1))
				r.Check(strings.HasPrefix(d, "strings.Split(token, ") && strings.HasSuffix(d, ")[3]"), "R-VERIFY-GUARDS", "VerifyProof|replay-key", u.Pos(ca.Instr.Pos()), "replay cache keyed by the proof's nonce field", "replay cache is keyed by "+d+" instead of the MAC-covered nonce (parts[3]): the same proof under a different spelling of the token counts as new")
			}
		})
		// MAC inputs
		for _, cs := range u.Calls(fn, Is("crypto/hmac.New")) {
			d := u.Describe(cs.Arg(1))
			os := u.Origins(cs.Arg(1), &OriginOpts{MaxNodes: 300})
			fromSecrets, fromSecret := false, false
			for _, o := range os {
				if o.Kind == "field" && o.Desc == "ProofConfig.Secrets" {
					fromSecrets = true
				}
				if o.Kind == "field" && o.Desc == "ProofSecret.Secret" {
					fromSecret = true
				}
			}
			r.Check(fromSecrets && fromSecret, "R-VERIFY-GUARDS", "VerifyProof|mac-key", u.Pos(cs.Instr.Pos()), "HMAC keyed with the presented kid's secret ("+d+" ← cfg.Secrets[kid])", "HMAC key is "+d+" with origins {"+OriginSummary(os)+"}")
		}
		for _, cs := range u.Calls(fn, Is("proofCanonicalString")) {
			d := u.Describe(cs.Value())
			r.Check(strings.HasSuffix(u.Describe(cs.Arg(3)), "cfg.OriginID") && strings.Contains(d, "strings.Split(token"), "R-VERIFY-GUARDS", "VerifyProof|mac-message", u.Pos(cs.Instr.Pos()), "MAC covers kid, ts, nonce from the token and this worker's origin", "canonical string is "+d)
		}
		r.Check(len(u.Calls(fn, Is("bytes.Equal", "crypto/hmac.Equal"))) == 0 && len(u.Calls(fn, Is("crypto/subtle.ConstantTimeCompare"))) == 1, "R-CONST-TIME", "VerifyProof", u.Pos(fn.Pos()), "single constant-time MAC comparison", "MAC compared by a different primitive or more than once")
	}
	// R-GATE-ORDER
	if pa := c.Fn("R-GATE-ORDER", "ProofAuthenticate"); pa != nil && len(pa.AnonFuncs) >= 1 {
		cl := pa.AnonFuncs[len(pa.AnonFuncs)-1]
		for _, a := range pa.AnonFuncs {
			if len(u.Calls(a, Is("verifyRequestProof"))) > 0 {
				cl = a
			}
		}
		vr := u.Calls(cl, Is("verifyRequestProof"))
		inner := u.Calls(cl, func(s string) bool { return strings.HasPrefix(s, "dyn:inner") })
		if len(vr) != 1 || len(inner) != 1 {
			r.Undec("R-GATE-ORDER", "closure", u.Pos(cl.Pos()), "verifyRequestProof/inner call not unique")
		} else {
			r.Check(Dominates(vr[0].Instr, inner[0].Instr), "R-GATE-ORDER", "proof-before-inner", u.Pos(inner[0].Instr.Pos()), "the proof is verified before the inner authenticator runs", "inner authenticator can run before the proof check")
			// the required-failure branch
			found := false
			for _, cs := range u.Calls(cl, Is("NewAuthFailure")) {
				gs := strings.Join(u.GuardStrings(cs.Instr), " && ")
				if strings.Contains(gs, "verifyRequestProof(") && strings.Contains(gs, "#1 != nil") && strings.Contains(gs, "required") {
					found = true
					reason, _ := ConstString(cs.Arg(0))
					_, isConstDetail := cs.Arg(1).(*ssa.Const)
					_, reach := ReachWithout(cl, cs.Instr, isInstr(inner[0].Instr), nil)
					r.Check(reason == "proxy_required" && isConstDetail && !reach, "R-GATE-ORDER", "required-refusal", u.Pos(cs.Instr.Pos()), "one constant proxy_required refusal; inner never called", "required-mode refusal is not a constant proxy_required AuthFailure, or inner is reachable after it")
				}
			}
			if !found {
				r.Viol("R-GATE-ORDER", "required-refusal", u.Pos(cl.Pos()), "no refusal under perr != nil ∧ required")
			}
			// `required` derives from cfg.Mode == require
			for _, mc := range u.Calls(pa, nil) {
				_ = mc
			}
		}
	}
	// R-ONE-HEADER
	if vf := c.Fn("R-ONE-HEADER", "verifyRequestProof"); vf != nil {
		for _, cs := range u.Calls(vf, Is("VerifyProof")) {
			j := strings.Join(u.GuardStrings(cs.Instr), " && ")
			ok := strings.Contains(j, "<= 1)") && strings.Contains(j, `!strings.Contains(`) && strings.Contains(j, `","`) && (strings.Contains(j, "!= 0)") || strings.Contains(j, "> 0)"))
			r.Check(ok, "R-ONE-HEADER", "verifyRequestProof", u.Pos(cs.Instr.Pos()), "exactly one header value without a comma", "VerifyProof reached under: "+j)
		}
	}
	// R-NONCE-ATOMIC
	if cf := c.Fn("R-NONCE-ATOMIC", "(*nonceCache).checkAndAdd"); cf != nil {
		held := u.LockHeldAt(cf)
		bad := 0
		n := 0
		Instrs(cf, func(in ssa.Instruction) {
			touches := false
			for _, op := range in.Operands(nil) {
				if fa, ok := (*op).(*ssa.FieldAddr); ok {
					k := fieldKey(fa.X.Type(), fa.Field)
					if k == "nonceCache.entries" || k == "nonceCache.order" {
						touches = true
					}
				}
			}
			if fa, ok := in.(*ssa.FieldAddr); ok {
				k := fieldKey(fa.X.Type(), fa.Field)
				if k == "nonceCache.entries" || k == "nonceCache.order" {
					touches = true
				}
			}
			if !touches {
				return
			}
			n++
			if !held[in]["c.mu"] {
				bad++
				r.Viol("R-NONCE-ATOMIC", "checkAndAdd|unlocked-access", u.Pos(in.Pos()), "replay-cache state touched without c.mu held")
			}
		})
		if bad == 0 {
			r.Check(n >= 4, "R-NONCE-ATOMIC", "checkAndAdd", u.Pos(cf.Pos()), itoa(n)+" accesses to entries/order, all under c.mu", "too few accesses found")
		}
	}
	// R-NONCE-TTL
	if pa := u.Func("ProofAuthenticate"); pa != nil {
		for _, cs := range u.Calls(pa, Is("newNonceCache")) {
			// retention as a linear function a·SkewSeconds + b (nanoseconds)
			a, b, ok := linearInSkew(u, cs.Arg(0))
			// The window tests compare whole seconds: floor(now) - ts ∈ [-skew, +skew]. A proof accepted at T0 with
			// ts ≤ floor(T0)+skew stays acceptable while now < ts+skew+1 ≤ T0 + 2·skew + 1s, and the cache drops an
			// entry at expiresAt <= now. So retention must be ≥ 2·skew + 1s.
			sec := int64(1_000_000_000)
			enough := ok && (a > 2*sec || (a == 2*sec && b >= sec))
			r.Check(enough, "R-NONCE-TTL", "ProofAuthenticate|retention", u.Pos(cs.Instr.Pos()),
				"nonce retention = "+fmtLin(a, b)+" ≥ 2·skew + 1s (whole acceptance window incl. its last second)",
				"nonce retention is "+u.Describe(cs.Arg(0))+" = "+fmtLin(a, b)+": the window tests accept a timestamp in [now-skew, now+skew] at one-second granularity, so a proof stays acceptable for up to 2·skew+1s after first use; with a shorter retention it can be replayed after its nonce is forgotten")
		}
	}
}

func containsRe(gs []string, re string) bool {
	rx := mustRe(re)
	for _, g := range gs {
		if rx.MatchString(g) {
			return true
		}
	}
	return false
}

func fmtLin(a, b int64) string {
	sec := int64(1_000_000_000)
	return itoa(int(a/sec)) + "·skew + " + itoa(int(b/sec)) + "s"
}

// linearInSkew evaluates v as a·SkewSeconds + b over constants, +, * and conversions.
func linearInSkew(u *Unit, v ssa.Value) (a, b int64, ok bool) {
	switch x := v.(type) {
	case *ssa.Const:
		k, isInt := ConstInt(x)
		return 0, k, isInt
	case *ssa.Convert:
		return linearInSkew(u, x.X)
	case *ssa.ChangeType:
		return linearInSkew(u, x.X)
	case *ssa.UnOp:
		if x.Op == token.MUL && strings.HasSuffix(u.Describe(x), "SkewSeconds") {
			return 1, 0, true
		}
	case *ssa.BinOp:
		a1, b1, ok1 := linearInSkew(u, x.X)
		a2, b2, ok2 := linearInSkew(u, x.Y)
		if !ok1 || !ok2 {
			return 0, 0, false
		}
		switch x.Op {
		case token.ADD:
			return a1 + a2, b1 + b2, true
		case token.SUB:
			return a1 - a2, b1 - b2, true
		case token.MUL:
			if a1 == 0 {
				return a2 * b1, b2 * b1, true
			}
			if a2 == 0 {
				return a1 * b2, b1 * b2, true
			}
		}
	}
	return 0, 0, false
}

// durationMultipleOfSkew recognises Duration(cfg.SkewSeconds) * K and returns K in ns.
func durationMultipleOfSkew(u *Unit, v ssa.Value) (int64, bool) {
	b, ok := v.(*ssa.BinOp)
	if !ok || b.Op != token.MUL {
		return 0, false
	}
	if k, isC := ConstInt(b.Y); isC {
		if strings.Contains(u.Describe(b.X), "SkewSeconds") {
			if inner, ok := durationMultipleOfSkew(u, b.X); ok {
				return inner * k, true
			}
			return k, true
		}
	}
	if k, isC := ConstInt(b.X); isC {
		if strings.Contains(u.Describe(b.Y), "SkewSeconds") {
			if inner, ok := durationMultipleOfSkew(u, b.Y); ok {
				return inner * k, true
			}
			return k, true
		}
	}
	return 0, false
}
