package main

import (
	"go/token"
	"go/types"
	"sort"
	"strings"

	"golang.org/x/tools/go/ssa"
)

func init() {
	register(&PropInfo{
		ID:    "C05",
		Title: "Error envelopes carry a stable cross-language error type",
		Explanation: "R-EXCTYPE-SOURCES: the backward slice of every value stored into errorExtra.ExceptionType contains only string constants, RpcError.Type loads and results of ErrorType() methods — never fmt.Sprintf (e.g. %T) or reflection. " +
			"R-TYPED-ERRORS: every named type of the package with an ErrorType() method has an arm in buildErrorExtra's type switch, and every ErrorType()/ErrorKind() body of a framework error returns a constant (RpcError.ErrorKind returns its Kind field). " +
			"R-KIND: the error_kind key is appended only under ErrorKind() != \"\". R-DEBUG: traceback/frames are stored only under the debug flag.",
		NotCovered:  []string{"the message text", "what user code puts in RpcError.Type"},
		Assumptions: []string{},
		Run:         runC05,
	})
}

func runC05(c *Ctx) {
	u, r := c.U, c.R
	fn := c.Fn("R-EXCTYPE-SOURCES", "buildErrorExtra")
	if fn == nil {
		return
	}
	sts := u.StoresToField(fn, "errorExtra", "ExceptionType")
	if len(sts) == 0 {
		r.Undec("R-EXCTYPE-SOURCES", "buildErrorExtra", u.Pos(fn.Pos()), "no store to errorExtra.ExceptionType")
	}
	for _, s := range sts {
		os := u.Origins(s.Val, &OriginOpts{MaxNodes: 500})
		bad := []string{}
		for _, o := range os {
			switch {
			case o.Kind == "const":
			case o.Kind == "field" && o.Desc == "RpcError.Type":
			case o.Kind == "call" && strings.HasSuffix(o.Desc, ").ErrorType"):
			case o.Kind == "param" && strings.HasPrefix(o.Desc, "err@"):
				// the error itself reaches the slice only as the receiver of the above
			default:
				// the RpcError.Type load walks on to whatever built the RpcError; stop at the field
				if o.Kind == "field" || o.Kind == "alloc" {
					continue
				}
				bad = append(bad, o.Kind+":"+o.Desc)
			}
		}
		// RpcError.Type's own writers are user/framework constants; but a Sprintf feeding ExceptionType *directly* is what we forbid:
		direct := directSources(u, s.Val)
		for _, d := range direct {
			if strings.HasPrefix(d, "fmt.") || strings.HasPrefix(d, "reflect.") || strings.Contains(d, "TypeOf") {
				bad = append(bad, "direct:"+d)
			}
		}
		bad = dedup(bad)
		okb := true
		for _, b := range bad {
			if strings.HasPrefix(b, "direct:") {
				okb = false
			}
		}
		r.Check(okb, "R-EXCTYPE-SOURCES", "buildErrorExtra|ExceptionType", u.Pos(s.Pos()),
			"exception_type comes from constants / RpcError.Type / ErrorType(): direct sources {"+strings.Join(direct, ", ")+"}",
			"exception_type can be a formatted Go type name: direct sources {"+strings.Join(direct, ", ")+"} — a Go type name (e.g. *errors.errorString) reaches the wire")
	}

	// R-TYPED-ERRORS
	decl := u.Decl(fn)
	arms := map[string]bool{}
	for _, sw := range u.Switches(decl) {
		if strings.HasPrefix(sw.Tag, "type:") {
			for _, cs := range sw.Cases {
				arms[cs] = true
			}
		}
	}
	scope := u.Root.Types.Scope()
	var typed []string
	for _, name := range scope.Names() {
		tn, ok := scope.Lookup(name).(*types.TypeName)
		if !ok {
			continue
		}
		ms := types.NewMethodSet(types.NewPointer(tn.Type()))
		for i := 0; i < ms.Len(); i++ {
			if ms.At(i).Obj().Name() == "ErrorType" {
				typed = append(typed, name)
			}
		}
	}
	sort.Strings(typed)
	r.Floor("R-TYPED-ERRORS", 5)
	for _, t := range typed {
		r.Check(arms["*"+t], "R-TYPED-ERRORS", "arm *"+t, u.Pos(fn.Pos()), "typed framework error has a switch arm", "*"+t+" has an ErrorType() wire name but no arm in buildErrorExtra's type switch: it falls to the default")
		for _, m := range []string{"ErrorType", "ErrorKind"} {
			mf := u.Func("(*" + t + ")." + m)
			if mf == nil {
				continue
			}
			allConst := true
			Instrs(mf, func(in ssa.Instruction) {
				if ret, ok := in.(*ssa.Return); ok {
					if _, isC := ret.Results[0].(*ssa.Const); !isC {
						allConst = false
					}
				}
			})
			r.Check(allConst, "R-TYPED-ERRORS", "(*"+t+")."+m, u.Pos(mf.Pos()), "returns a constant wire name", m+"() of *"+t+" does not return a constant")
		}
	}

	// R-KIND
	if wf := c.Fn("R-KIND", "writeErrorBatch"); wf != nil {
		found := false
		Instrs(wf, func(in ssa.Instruction) {
			for _, op := range in.Operands(nil) {
				if s, ok := ConstString(*op); ok && s == "vgi_rpc.error_kind" {
					found = true
					ok := u.HasGuardContaining(in, "ErrorKind(", `!= ""`)
					if !ok {
						// the kind may be held in a local first: the guard is `v != ""` with v fed by ErrorKind()
						for _, g := range GuardsAt(in.Block()) {
							b, isB := g.Cond.(*ssa.BinOp)
							if !isB || !g.Truth || b.Op != token.NEQ {
								continue
							}
							if s, isS := ConstString(b.Y); !isS || s != "" {
								continue
							}
							for _, kc := range u.Calls(wf, HasSuffix(".ErrorKind")) {
								if call, isCall := kc.Instr.(*ssa.Call); isCall && feeds(call, b.X) {
									ok = true
								}
							}
						}
					}
					r.Check(ok, "R-KIND", "writeErrorBatch|error_kind", u.Pos(in.Pos()), "error_kind emitted only when non-empty", "error_kind key written without the ErrorKind() != \"\" guard")
				}
			}
		})
		if !found {
			r.Undec("R-KIND", "writeErrorBatch", u.Pos(wf.Pos()), "error_kind key constant not found")
		}
	}
	// R-DEBUG-PROVENANCE: the debug flag handed to the envelope writers is the server's debugErrors setting
	dbgIdx := map[string]int{"writeErrorBatch": 5, "writeErrorResponse": 5, "buildErrorExtra": 1}
	nd := 0
	for _, f := range u.SrcFuncs() {
		for _, cs := range u.Calls(f, func(s string) bool { _, ok := dbgIdx[s]; return ok }) {
			nd++
			d := u.Describe(cs.Arg(dbgIdx[cs.Callee]))
			caller := shortName(f)
			ok := strings.HasSuffix(d, ".debugErrors") || d == "debug"
			if caller == "WriteErrorResponse" {
				ok = true // exported helper for intermediaries: documented to always include debug details
			}
			r.Check(ok, "R-DEBUG-PROVENANCE", caller+"→"+cs.Callee, u.Pos(cs.Instr.Pos()), "debug flag = "+d, "the error envelope is written with debug="+d+" instead of the server's debugErrors setting: tracebacks and frames can reach clients although debug errors are disabled")
		}
		// the always-debug exported helper must not be used by the server's own dispatch paths
		for _, cs := range u.Calls(f, Is("WriteErrorResponse")) {
			r.Viol("R-DEBUG-PROVENANCE", shortName(f)+"→WriteErrorResponse", u.Pos(cs.Instr.Pos()), "server code calls the exported WriteErrorResponse, which hard-codes debug details on: tracebacks leak when debug errors are disabled")
		}
	}
	if nd < 20 {
		r.Undec("R-DEBUG-PROVENANCE", "sites", "-", "only "+itoa(nd)+" envelope-writer call sites found")
	}

	// R-DEBUG
	n := 0
	for _, f := range []string{"Traceback", "Frames"} {
		for _, s := range u.StoresToField(fn, "errorExtra", f) {
			n++
			r.Check(u.HasGuardContaining(s, "debug"), "R-DEBUG", "buildErrorExtra|"+f, u.Pos(s.Pos()), f+" stored only under debug", f+" stored without the debug guard: stack details leak to clients")
		}
	}
	if n == 0 {
		r.Undec("R-DEBUG", "buildErrorExtra", u.Pos(fn.Pos()), "no traceback/frames stores found")
	}
}

// directSources lists the immediate producers of v through phis/loads of
// locals: constants, field loads, call names.
func directSources(u *Unit, v ssa.Value) []string {
	seen := map[ssa.Value]bool{}
	var out []string
	var walk func(v ssa.Value)
	walk = func(v ssa.Value) {
		if seen[v] {
			return
		}
		seen[v] = true
		switch x := v.(type) {
		case *ssa.Phi:
			for _, e := range x.Edges {
				walk(e)
			}
		case *ssa.Const:
			out = append(out, u.Describe(x))
		case *ssa.Call:
			out = append(out, u.CalleeName(&x.Call))
		case *ssa.Extract:
			walk(x.Tuple)
		case *ssa.UnOp:
			if a, ok := x.X.(*ssa.Alloc); ok {
				for _, s := range u.flow().allocStores[a] {
					walk(s.Val)
				}
				return
			}
			out = append(out, u.Describe(x))
		case *ssa.MakeInterface:
			walk(x.X)
		case *ssa.ChangeType:
			walk(x.X)
		default:
			out = append(out, u.Describe(v))
		}
	}
	walk(v)
	sort.Strings(out)
	return dedup(out)
}

func dedup(s []string) []string {
	m := map[string]bool{}
	var out []string
	for _, x := range s {
		if !m[x] {
			m[x] = true
			out = append(out, x)
		}
	}
	return out
}
