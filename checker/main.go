// Command checker decides the vgi-rpc-go properties C01–C43 by static analysis
// of the current /repo working tree (go/packages + go/types + go/ssa). Nothing
// in the repository is executed.
package main

import (
	"flag"
	"fmt"
	"go/ast"
	"os"
	"runtime/debug"
	"sort"
	"strconv"
	"strings"
	"time"

	"golang.org/x/tools/go/ssa"
)

type Options struct {
	Repo        string
	EvidenceDir string
	KnownFile   string
	Tier        string
	Seed        int
	Verbose     bool
}

// PropInfo describes one property check.
type PropInfo struct {
	ID          string
	Title       string
	Explanation string   // the rule(s) applied, in words
	NotCovered  []string // clauses of the property this check does not decide
	Assumptions []string
	Units       []string // units to load (default: vgirpc)
	LevelText   string   // MANIFEST level_claimed.text
	DesignRef   string
	Run         func(c *Ctx)
}

// Ctx is what a property's rules see.
type Ctx struct {
	U    *Unit            // the vgirpc unit (nil if not requested)
	Unit map[string]*Unit // all loaded units by name
	R    *Report
	Tier string
	Opts *Options
}

var registry = map[string]*PropInfo{}

func register(p *PropInfo) {
	if _, dup := registry[p.ID]; dup {
		panic("duplicate property " + p.ID)
	}
	if len(p.Units) == 0 {
		p.Units = []string{"vgirpc"}
	}
	registry[p.ID] = p
}

func configsFor(tier string) []BuildConfig {
	if tier == "thorough" {
		return []BuildConfig{
			defaultConfig,
			{Label: "linux/amd64+leakcheck", Tags: "leakcheck"},
			{Label: "windows/amd64", Env: []string{"GOOS=windows", "CGO_ENABLED=0"}},
		}
	}
	return []BuildConfig{defaultConfig}
}

func runProperty(opts *Options, p *PropInfo) (code int) {
	start := time.Now()
	rep := NewReport(p.ID)
	var cfgLabels []string
	stats := map[string]int{}
	func() {
		defer func() {
			if e := recover(); e != nil {
				rep.config = ""
				rep.Undec("engine", "panic", "-", fmt.Sprintf("analysis panicked: %v\n%s", e, debug.Stack()))
			}
		}()
		for _, bc := range configsFor(opts.Tier) {
			rep.config = bc.Label
			cfgLabels = append(cfgLabels, bc.Label)
			ctx := &Ctx{Unit: map[string]*Unit{}, R: rep, Tier: opts.Tier, Opts: opts}
			failed := false
			for _, name := range p.Units {
				u, err := cachedUnit(opts.Repo, name, bc)
				if err != nil {
					rep.Undec("load", name, "-", err.Error())
					failed = true
					break
				}
				ctx.Unit[name] = u
				stats["packages:"+name+":"+bc.Label] = len(u.Pkgs)
				stats["files:"+name+":"+bc.Label] = len(u.Root.Syntax)
				stats["src_functions:"+name+":"+bc.Label] = len(u.SrcFuncs())
				if name == "vgirpc" {
					ctx.U = u
				}
			}
			if failed {
				continue
			}
			p.Run(ctx)
			if f := seedfix3[p.ID]; f != nil {
				f(ctx)
			}
			if f := seedfix4[p.ID]; f != nil {
				f(ctx)
			}
			if f := seedfix5[p.ID]; f != nil {
				f(ctx)
			}
			runGeneric(ctx, p.ID)
		}
		if opts.Tier == "thorough" {
			rep.config = "selftest"
			for _, m := range runMutants(opts, p, rep) {
				stats["mutant:"+m.Name+":"+m.Outcome] = 1
			}
		}
	}()
	rep.config = ""
	return rep.Finalize(opts, *p, start, cfgLabels, stats)
}

var unitCache = map[string]*Unit{}

func cachedUnit(repo, name string, bc BuildConfig) (*Unit, error) {
	k := repo + "|" + name + "|" + bc.Label
	if u, ok := unitCache[k]; ok {
		return u, nil
	}
	u, err := LoadUnit(repo, name, bc)
	if err != nil {
		return nil, err
	}
	unitCache[k] = u
	return u, nil
}

func main() {
	// go/packages resolves `go` through this process's PATH: it must be the 1.26 toolchain.
	os.Setenv("PATH", "/opt/veriftools/go1.26.8/bin:"+os.Getenv("PATH"))
	opts := &Options{}
	flag.StringVar(&opts.Repo, "repo", "/repo", "repository working tree to analyse")
	flag.StringVar(&opts.EvidenceDir, "evidence", "/verif/evidence", "evidence directory")
	flag.StringVar(&opts.KnownFile, "known", "/verif/known_findings.json", "known findings file")
	flag.StringVar(&opts.Tier, "tier", "quick", "quick|thorough")
	flag.BoolVar(&opts.Verbose, "v", false, "print every obligation")
	flag.Parse()
	if s := os.Getenv("VERIF_SEED"); s != "" {
		opts.Seed, _ = strconv.Atoi(s)
	}
	applyExtraExplanations()
	args := flag.Args()
	if len(args) == 0 {
		fmt.Fprintln(os.Stderr, "usage: checker [flags] check <ID>... | all | list")
		os.Exit(2)
	}
	switch args[0] {
	case "list":
		var ids []string
		for id := range registry {
			ids = append(ids, id)
		}
		sort.Strings(ids)
		for _, id := range ids {
			fmt.Println(id, registry[id].Title)
		}
	case "manifest":
		writeManifest()
	case "designmd":
		writeDesignMD()
	case "refnames":
		// record the reference variable names of the current tree (run on /repo HEAD when rules are (re)confirmed)
		if err := writeRefNames(opts.Repo); err != nil {
			fmt.Fprintln(os.Stderr, err)
			os.Exit(2)
		}
		// …and the inventory of memo sites (rules_memo.go)
		var us []*Unit
		for _, name := range []string{"vgirpc", "otel", "s3", "gcs"} {
			u, err := LoadUnit(opts.Repo, name, defaultConfig)
			if err != nil {
				fmt.Fprintln(os.Stderr, err)
				os.Exit(2)
			}
			us = append(us, u)
		}
		if err := writeRefMemo(us); err != nil {
			fmt.Fprintln(os.Stderr, err)
			os.Exit(2)
		}
	case "refdiff":
		// debug aid: checker -repo <tree> refdiff <unit> <declKey> — why a declaration is not aligned with the reference table
		u, err := LoadUnit(opts.Repo, args[1], defaultConfig)
		if err != nil {
			fmt.Fprintln(os.Stderr, err)
			os.Exit(2)
		}
		loadRefTable()
		for _, f := range u.Root.Syntax {
			for _, d := range f.Decls {
				fd, ok := d.(*ast.FuncDecl)
				if !ok || fd.Body == nil || declKey(fd) != args[2] {
					continue
				}
				cur, _ := u.declVars(fd)
				for ai, ref := range refTable[args[1]+"|"+args[2]] {
					fmt.Println("alternative", ai, "ref vars", len(ref), "current vars", len(cur))
					for i := 0; i < len(ref) && i < len(cur); i++ {
						if ref[i].Type != cur[i].Type {
							fmt.Printf("  #%d ref %s %s | cur %s %s\n", i, ref[i].Name, ref[i].Type, cur[i].Name, cur[i].Type)
						}
					}
				}
			}
		}
	case "alpharename":
		// checker alpharename <scratch-copy-of-repo> <locals|all>
		if args[2] == "probe" {
			if err := probeInsert(args[1]); err != nil {
				fmt.Fprintln(os.Stderr, err)
				os.Exit(2)
			}
			break
		}
		if err := alphaRename(args[1], args[1], args[2]); err != nil {
			fmt.Fprintln(os.Stderr, err)
			os.Exit(2)
		}
	case "guards":
		// debug aid: checker guards <unit> <func>... — calls, stores and returns with their dominating guards
		u, err := LoadUnit(opts.Repo, args[1], configsFor("quick")[0])
		if err != nil {
			fmt.Fprintln(os.Stderr, err)
			os.Exit(2)
		}
		for _, name := range args[2:] {
			fn := u.Func(name)
			if fn == nil {
				fmt.Println("no such function", name)
				continue
			}
			fmt.Println("==", name)
			Instrs(fn, func(in ssa.Instruction) {
				d := ""
				switch x := in.(type) {
				case *ssa.Call:
					d = "call " + u.Describe(x)
				case *ssa.Defer:
					d = "defer " + u.CalleeName(&x.Call)
				case *ssa.Store:
					d = "store " + u.Describe(x.Addr) + " <- " + u.Describe(x.Val)
				case *ssa.MapUpdate:
					d = "mapupdate " + u.Describe(x.Map) + "[" + u.Describe(x.Key) + "] <- " + u.Describe(x.Value)
				case *ssa.Return:
					d = "return"
					for i := range x.Results {
						d += " " + u.Describe(ReturnValue(x, i))
					}
				default:
					return
				}
				fmt.Printf("b%d %s\n      guards: %s\n", in.Block().Index, d, strings.Join(u.GuardStrings(in), " && "))
			})
		}
	case "check", "all":
		var ids []string
		if args[0] == "all" {
			for id := range registry {
				ids = append(ids, id)
			}
			sort.Strings(ids)
		} else {
			ids = args[1:]
		}
		rc := 0
		for _, id := range ids {
			p, ok := registry[id]
			if !ok {
				fmt.Printf("VIOLATION property=%s replay=- (undecided: no such check)\n", id)
				rc = 1
				continue
			}
			if c := runProperty(opts, p); c != 0 {
				rc = c
			}
		}
		os.Exit(rc)
	default:
		fmt.Fprintln(os.Stderr, "unknown command", args[0])
		os.Exit(2)
	}
}
