package main

import (
	"go/token"
	"strings"

	"golang.org/x/tools/go/ssa"
)

// c23StatusTable decides (*HttpServer).authenticate's status mapping on its decision
// table: for every valuation of
//
//	U = errors.As(err, *AuthUnavailableError)   A = asAuthFailure(err)
//	R = err is a *RpcError (direct assertion)    V/P = its Type is ValueError / PermissionError
//
// with a failing authenticator, the paths of the function are walked and the responses
// written on them collected. Expected: U → Retry-After then 503; otherwise
// A ∨ (R ∧ (V ∨ P)) → 401; otherwise 500. Independent of how the branches are written.
func c23StatusTable(c *Ctx, fn *ssa.Function) bool {
	u := c.U
	label := func(in ssa.Instruction) string {
		call, ok := in.(*ssa.Call)
		if !ok {
			return ""
		}
		switch n := u.CalleeName(&call.Call); {
		case n == "net/http.Error":
			if k, isK := ConstInt(call.Call.Args[2]); isK {
				return itoa(int(k))
			}
			return "status?"
		case n == "(*HttpServer).writeUnauthorized":
			return "401"
		case n == "(net/http.Header).Set":
			if s, isS := ConstString(call.Call.Args[1]); isS && s == "Retry-After" {
				return "RA"
			}
		case strings.HasSuffix(n, "ResponseWriter.WriteHeader"):
			return "status?"
		}
		return ""
	}
	allOK := true
	n := 0
	for mask := 0; mask < 32; mask++ {
		U, A, R, V, P := mask&1 != 0, mask&2 != 0, mask&4 != 0, mask&8 != 0, mask&16 != 0
		if V && P {
			continue
		}
		oracle := func(v ssa.Value) (bool, bool) {
			switch y := v.(type) {
			case *ssa.Call:
				switch u.CalleeName(&y.Call) {
				case "errors.As":
					return U, true
				case "asAuthFailure":
					return A, true
				}
			case *ssa.Extract:
				if ta, ok := y.Tuple.(*ssa.TypeAssert); ok && ta.CommaOk && y.Index == 1 && typeShort(ta.AssertedType) == "*RpcError" {
					return R, true
				}
			case *ssa.BinOp:
				if y.Op != token.EQL && y.Op != token.NEQ {
					return false, false
				}
				for _, pr := range [][2]ssa.Value{{y.X, y.Y}, {y.Y, y.X}} {
					if s, isS := ConstString(pr[1]); isS && strings.HasSuffix(u.Describe(pr[0]), ".Type") {
						switch s {
						case "ValueError":
							return V == (y.Op == token.EQL), true
						case "PermissionError":
							return P == (y.Op == token.EQL), true
						}
						return y.Op == token.NEQ, true // any other type name: not this error
					}
					if isNilConst(pr[1]) && strings.Contains(u.Describe(pr[0]), "authenticateFunc") {
						return y.Op == token.NEQ, true // an authenticator is configured and it failed
					}
				}
			}
			return false, false
		}
		want := "500;"
		switch {
		case U:
			want = "RA;503;"
		case A || (R && (V || P)):
			want = "401;"
		}
		outs := pathOutcomes(u, fn, oracle, label)
		n++
		if len(outs) != 1 || outs[0] != want {
			allOK = false
		}
	}
	return allOK && n > 0
}
