package main

// Descriptions of the rules added after the seed batches (rules_seedfix*.go,
// rules_c28b.go, rules_c32b.go); appended to each property's explanation so the
// evidence, MANIFEST and DESIGN §5 describe every rule that runs.
var extraExplanations = map[string]string{
	"C01": "R-TOKEN-ANY-BATCH: the stream-state and call-state lookups of scanStreamForTokens run for every batch that carries metadata (no row-count or other precondition). R-METHOD-ANY-VALUE: ReadRequest never compares the method name with a constant (every UTF-8 name, the empty one included, round-trips).",
	"C04": "R-REQID-VERBATIM: writeErrorBatch and writeLogBatch stamp exactly their requestID argument, whenever it is non-empty.",
	"C07": "R-DEFAULT-WIDTH: defaults are parsed with bitSize 64. R-ENUM-CODE: a dictionary-encoded enum is decoded through GetValueIndex(row), not the row index.",
	"C08": "R-DECIMAL-NO-WRAP: no decimal constructor is fed the result of fixed-width integer arithmetic; decimal strings go through decimal128.FromString with the column's precision and scale.",
	"C09": "R-SCHEMA-BYTES-PURE: serializeSchema encodes its own argument and consults no package state (no cache keyed by something coarser than the schema).",
	"C11": "R-CACHE-SAME-FIELDS: the resolvedCall cached when the call token is minted and the one rebuilt from the token after a cache miss fill every field, each from the token field of the same meaning. R-INIT-LOGS-ONCE: one drained batch of init logs has one consumer (header stream or main stream, never both).",
	"C15": "R-CACHE-SAME-FIELDS: see C11 — a cache hit and a cache miss yield the same resolved call.",
	"C17": "R-TOKEN-TRIM: Accept-Encoding tokens are whitespace-trimmed after the ;q= parameter is removed. R-LEVEL-AFTER-PROBE: SetCompressionLevel commits a level only after the probe encoder accepted it.",
	"C18": "R-413-EXACT: a decompressed-size overrun becomes the request-size error only under requestCapApplied ∧ decompressedCap == limit.",
	"C19": "R-CAPS-INDEPENDENT: the wire-cap and batch-limit hand-overs of the produce loop, and the wire and external refusals of enforceResponseBudgets, do not depend on each other's configuration. R-PREDICT-AGREES: predictExternalizeBytes and externalizeBatchCtx use the same size-vs-threshold comparison.",
	"C21": "R-SCHEMA-EQUALITY: clientSchemasEqual answers true only through Schema.Equal(left,right) (or pointer identity) and compares schema-level metadata.",
	"C23": "R-CHALLENGE-ALWAYS: the configured WWW-Authenticate challenge is attached to every 401 (its only condition is being configured).",
	"C27": "R-COOKIE-MAXAGE: the login-state cookie's age is judged against the server constant sessionMaxAge.",
	"C28": "R-BOUNDARY-EXACT: the parser's whole-name test consists of equality tests of the preceding byte against exactly the separator bytes the builder writes. R-EMIT-INDEPENDENT: each optional parameter is written exactly under its own non-emptiness. R-PAIRING: reader function ↔ parameter name ↔ metadata field agree. R-QUOTE-EXCLUDED: every pattern Validate applies is an anchored character class that cannot match '\"'.",
	"C29": "R-DRAIN-WRITERS: the drain flag is written only by SetDraining, and open() inserts a session only under !draining.",
	"C30": "R-META-BEFORE-UPLOAD: the batch offered to externalizeStreamDataBatch is the metadata-bearing wrapper, on both HTTP stream paths.",
	"C31": "R-VALIDATE-EVERY-HOP: the redirect hook's validator call depends only on validator != nil and the redirect count. R-DECOMPRESS-CAP: DecodeAll runs only with no cap configured; the capped path reads through io.LimitReader(cap+1) and succeeds only under len(out) <= cap.",
	"C32": "R-SEND-ONCE: every launched chunk fetch reports exactly once on every path. R-LAUNCH-COUNTED: each hedge launch increments the in-flight count in the same straight-line block and nothing else writes it there; the initial count is the number of initial launches. R-RECV-COUNTED: every receive is followed by the decrement in the same block (one decrement site). R-OVERLONG-SEEN: the chunk body is read one byte past the length it is compared with.",
	"C33": "R-KEY-FRESH: the key's derivation passes through no state that outlives the Upload call (fields written outside the constructor, package variables written after init).",
	"C35": "R-NESTED-COVERAGE: typeHasDictionary recurses through the one-method Fields() interface, or its explicit cases cover every nested Arrow type of the imported arrow package. R-SCHEMA-CACHE-KEY: the schema-bytes cache is keyed by the *arrow.Schema itself.",
	"C36": "R-POINTER-TEST-ON-ORIGINAL: the pointer test deciding req.Shm is evaluated before req.Batch is replaced. R-NO-SEGMENT-EXACT: the stream's no-segment refusal depends on nothing but req.Shm == nil ∧ IsShmPointerBatch(input).",
	"C38": "R-STREAM-ID-CARRIED: both constructions of resolvedCall carry StreamID (and every other field) over from the call token. R-REDACT-FOLD: every alternative of the default claim-redaction pattern is case-insensitive. R-REQUEST-BYTES-WRITER: request_bytes is written once, in ServeHTTP, from Content-Length.",
	"C40": "R-ONCE-READS: Server.protocolHash is read only through ProtocolHash() (or inside the Once body). R-TEARDOWN-SERIALISED: DELETE closes a session with that session's lock held.",
	"C42": "R-NO-CONN-DEADLINE: the listeners put no deadline on an accepted connection (listener deadlines implement the idle timer and are exempt).",
	"C43": "R-METRICS-UNCONDITIONAL: the request counter and duration histogram depend only on the token being ours, metrics being enabled and the instrument existing, and no return lies between the token test and them. R-EXTRACT-UNCONDITIONAL: the caller's trace context is extracted whenever a propagator and transport metadata exist.",
}

func applyExtraExplanations() {
	for id, extra := range extraExplanations {
		if p, ok := registry[id]; ok {
			p.Explanation += " " + extra
		}
	}
}
