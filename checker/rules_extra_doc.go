package main

// Descriptions of the rules added after the seed batches (rules_seedfix*.go,
// rules_c28b.go, rules_c32b.go); appended to each property's explanation so the
// evidence, MANIFEST and DESIGN §5 describe every rule that runs.
var extraExplanations = map[string]string{
	"C01": "R-TOKEN-ANY-BATCH: the stream-state and call-state lookups of scanStreamForTokens run for every batch that carries metadata (no row-count or other precondition). R-METHOD-ANY-VALUE: ReadRequest never compares the method name with a constant (every UTF-8 name, the empty one included, round-trips).",
	"C04": "R-REQID-VERBATIM: writeErrorBatch and writeLogBatch stamp exactly their requestID argument, whenever it is non-empty.",
	"C07": "R-DEFAULT-WIDTH: defaults are parsed with bitSize 64. R-ENUM-CODE: a dictionary-encoded enum is decoded through GetValueIndex(row), not the row index.",
	"C08": "R-DECIMAL-NO-WRAP: no decimal constructor is fed the result of fixed-width integer arithmetic; decimal strings go through decimal128.FromString with the column's precision and scale.",
	"C09": "R-SCHEMA-BYTES-PURE: serializeSchema encodes its own argument and consults no package state (no cache keyed by something coarser than the schema).",
	"C11": "R-CACHE-SAME-FIELDS: the resolvedCall cached when the call token is minted and the one rebuilt from the token after a cache miss fill every field, each from the token field of the same meaning. R-INIT-LOGS-ONCE: one drained batch of init logs has one consumer (header stream or main stream, never both).",
	"C15": "R-CACHE-SAME-FIELDS: see C11 — a cache hit and a cache miss yield the same resolved call.",
	"C17": "R-TOKEN-TRIM: Accept-Encoding tokens are whitespace-trimmed after the ;q= parameter is removed. R-LEVEL-AFTER-PROBE: SetCompressionLevel commits a level only after the probe encoder accepted it.",
	"C18": "R-413-EXACT: a decompressed-size overrun becomes the request-size error only under requestCapApplied ∧ decompressedCap == limit.",
	"C19": "R-CAPS-INDEPENDENT: the wire-cap and batch-limit hand-overs of the produce loop, and the wire and external refusals of enforceResponseBudgets, do not depend on each other's configuration. R-PREDICT-AGREES: predictExternalizeBytes and externalizeBatchCtx use the same size-vs-threshold comparison.",
	"C21": "R-SCHEMA-EQUALITY: clientSchemasEqual answers true only through Schema.Equal(left,right) (or pointer identity) and compares schema-level metadata.",
	"C23": "R-CHALLENGE-ALWAYS: the configured WWW-Authenticate challenge is attached to every 401 (its only condition is being configured).",
	"C27": "R-COOKIE-MAXAGE: the login-state cookie's age is judged against the server constant sessionMaxAge.",
	"C28": "R-BOUNDARY-EXACT: the parser's whole-name test consists of equality tests of the preceding byte against exactly the separator bytes the builder writes. R-EMIT-INDEPENDENT: each optional parameter is written exactly under its own non-emptiness. R-PAIRING: reader function ↔ parameter name ↔ metadata field agree. R-QUOTE-EXCLUDED: every pattern Validate applies is an anchored character class that cannot match '\"'.",
	"C29": "R-DRAIN-WRITERS: the drain flag is written only by SetDraining, and open() inserts a session only under !draining.",
	"C30": "R-META-BEFORE-UPLOAD: the batch offered to externalizeStreamDataBatch is the metadata-bearing wrapper, on both HTTP stream paths.",
	"C31": "R-VALIDATE-EVERY-HOP: the redirect hook's validator call depends only on validator != nil and the redirect count. R-DECOMPRESS-CAP: DecodeAll runs only with no cap configured; the capped path reads through io.LimitReader(cap+1) and succeeds only under len(out) <= cap.",
	"C32": "R-SEND-ONCE: every launched chunk fetch reports exactly once on every path. R-LAUNCH-COUNTED: each hedge launch increments the in-flight count in the same straight-line block and nothing else writes it there; the initial count is the number of initial launches. R-RECV-COUNTED: every receive is followed by the decrement in the same block (one decrement site). R-OVERLONG-SEEN: the chunk body is read one byte past the length it is compared with.",
	"C33": "R-KEY-FRESH: the key's derivation passes through no state that outlives the Upload call (fields written outside the constructor, package variables written after init).",
	"C35": "R-NESTED-COVERAGE: typeHasDictionary recurses through the one-method Fields() interface, or its explicit cases cover every nested Arrow type of the imported arrow package. R-SCHEMA-CACHE-KEY: the schema-bytes cache is keyed by the *arrow.Schema itself.",
	"C36": "R-POINTER-TEST-ON-ORIGINAL: the pointer test deciding req.Shm is evaluated before req.Batch is replaced. R-NO-SEGMENT-EXACT: the stream's no-segment refusal depends on nothing but req.Shm == nil ∧ IsShmPointerBatch(input).",
	"C38": "R-STREAM-ID-CARRIED: both constructions of resolvedCall carry StreamID (and every other field) over from the call token. R-REDACT-FOLD: every alternative of the default claim-redaction pattern is case-insensitive. R-REQUEST-BYTES-WRITER: request_bytes is written once, in ServeHTTP, from Content-Length.",
	"C40": "R-ONCE-READS: Server.protocolHash is read only through ProtocolHash() (or inside the Once body). R-TEARDOWN-SERIALISED: DELETE closes a session with that session's lock held.",
	"C42": "R-NO-CONN-DEADLINE: the listeners put no deadline on an accepted connection (listener deadlines implement the idle timer and are exempt).",
	"C43": "R-METRICS-UNCONDITIONAL: the request counter and duration histogram depend only on the token being ours, metrics being enabled and the instrument existing, and no return lies between the token test and them. R-EXTRACT-UNCONDITIONAL: the caller's trace context is extracted whenever a propagator and transport metadata exist.",
}

// Rules added after the second seeding round (rules_seedfix3.go).
var extraExplanations2 = map[string]string{
	"C02": "R-VALIDATION-ERR-TYPED: every refusal ReadRequest returns after its drain is a *RpcError itself, because serveOne recognises refusable requests by a direct type assertion. R-DRAIN-UNBOUNDED: drainInputStream reads the connection reader itself (no byte limit) until the stream ends.",
	"C03": "R-UNLOCK-DEFERRED: ReadBatch, which slices the mapping with caller-supplied bounds under s.mu, releases the lock by defer. R-RESOLVE-NONNIL: ResolveExternalLocation reports success only with its input or a batch tested non-nil.",
	"C04": "R-EXTRA-JSON: the log_extra value written by writeLogBatch / ClientLog comes from encoding/json.Marshal. R-FIELD-BY-DESCRIPTOR: serializeVgirpcStruct reads each column through its descriptor's Go field index. R-HANDLER-ERR-NOT-TRANSPORT: serveUnary/serveStream never return the handler's error as the transport error.",
	"C06": "R-VALIDATE-DATA: OutputCollector.validate succeeds only under dataBatchIdx >= 0. R-CAST-IDENTITY: castRecordBatch returns its input only for equal schemas, otherwise a batch built on the target schema, and walks fields only under equal column counts.",
	"C12": "R-VERSION-EXACT: the unsealed version byte is compared for equality. R-ERRORS-VERBATIM: resolveCall returns openToken/checkTokenAge failures unchanged. R-CALL-TOKEN-REQUIRED: a resolveCall failure on the continuation route is answered with an error and nothing else runs.",
	"C13": "R-AAD-VERBATIM: the functions that build associated data apply no case/trim/replace transform to identity fields. R-CALL-TOKEN-REQUIRED: see C12.",
	"C14": "R-METHOD-BOUND-ALL-SITES: every cursor-open site of the continuation route compares that cursor's Method with the route's method, the refusal is written 4xx, and the input cast that runs before the cursor is opened cannot panic on a narrower batch.",
	"C15": "R-TOKENS-READ-TOGETHER: wherever the continuation route reads the cursor from a batch's metadata it reads the call token from the same metadata. R-AGE-RESOLUTION: the age compared with the TTL is a time.Duration from time.Since/Sub. R-MINT-ONCE: call tokens are minted (and the cache warmed) only by /init.",
	"C16": "R-CAST-NOT-ON-CANCEL: every input cast of the continuation route is under !cancelled. R-APPEND-ONLY: OutputCollector.batches only grows by append (dataBatchIdx stays valid).",
	"C19": "R-CAPPED-EVERYWHERE: dispatch never calls the uncapped produce loop and always passes the response buffer. R-EXTERNAL-CHARGE: the external running total is charged the raw byte count reported by the upload, which is the length of the serializer's own (pre-compression) output.",
	"C20": "R-CONST-HEADER-KEYS: handlers write response headers only under constant names (no names taken from iterated upstream data). R-CAPABILITY-ALL-PATHS: addCapabilityHeaders sets VGI-Externalization-Enabled (and every unconditional capability header) on every path. R-EXPOSE-WHEN-EMITTED: VGI-Auth-Proxy-Required is emitted exactly under the non-empty-hint condition it is exposed under.",
	"C22": "R-AUTH-NIL-ON-REFUSAL: after authenticate has written a refusal every reachable return yields nil. R-AUTH-VERBATIM: SetAuthenticate stores the operator's callback itself.",
	"C25": "R-LOOKUP-BEFORE-EVICT: capacity eviction in checkAndAdd happens only after the nonce lookup. R-ORIGIN-VERBATIM: proofCanonicalString applies no string transform to its fields.",
	"C26": "R-SIZE-IN-BYTES: the credential cap compares len(token) in bytes.",
	"C29": "R-RELEASE-DEFERRED-ONLY: request handlers release the session lock only through one deferred call. R-REMOVE-BEFORE-CLOSE: drainExpired removes entries from the map (under the lock) before closing their state (outside it). R-TOKEN-BOUNDS: every constant slice bound in openSessionToken is covered by a dominating len() guard on that slice.",
	"C37": "R-STREAM-ERR-RECORDED: every error batch serveStream writes is mirrored by a non-nil streamErr. R-START-ACTIVATES: every normal return after OnDispatchStart arms the end hook.",
	"C41": "R-LOCAL-ARRAYS-RELEASED: functions that park freshly built arrays in a local column slice release them on every return (per-element defer, or a cleanup loop over the slice on the error path).",
}

// Rules added after the second seeding round, remaining properties (rules_seedfix4.go and
// the extensions of seedfixC33 / R-DATE-FLOOR).
var extraExplanations3 = map[string]string{
	"C01": "R-FRAME-FRESH-META: WriteRequest builds the frame's metadata from its arguments and never reads the metadata already attached to params. R-METHOD-VERBATIM: ReadRequest applies no string transform to request metadata and refuses (under !utf8.ValidString) a malformed method name. R-RESULT-VERBATIM: WriteUnaryResult appends exactly resultBytes, unconditionally (no null/empty special case).",
	"C02": "R-READER-PER-CONNECTION: the reader a serve loop passes to serveOne is created outside the loop (a per-request buffered reader drops its read-ahead).",
	"C05": "R-ENVELOPE-ERR-IS-HANDLERS: no error written into an exception batch originates from ctx.Err()/context.Cause (the handler's error is never replaced by the cancellation).",
	"C07": "R-DEFAULT-OWN-CELL: tagInfo.Default points at a variable allocated and written once beside the store (not a cell shared between options or loop iterations). R-INSTANT-NO-SCALE: timestampToTime passes the wire value unscaled to time.Unix/UnixMilli/UnixMicro and contains no multiplication.",
	"C08": "R-NO-POOLED-BYTES: no function returns Bytes() of a buffer it gives back to a sync.Pool. R-INSTANT-NO-SCALE: see C07. R-DICT-BY-CODE: every read of a dictionary's value array is indexed by GetValueIndex(row). R-DATE-FLOOR (tightened): the day number is stepped back exactly under (secs % day) < 0 of the same division.",
	"C10": "R-VERSION-FLAG-ALWAYS-SET: SetProtocolVersion writes protocolVersionSet on every path, false under v == \"\" and true under v != \"\". R-SEMVER|admit and R-DIRECTION are decided on checkProtocolVersion's decision table: its CFG is walked for each of the nine orderings of (client major vs server major, client minor vs server minor) and for an absent and a malformed version; the outcome must be admitted ⇔ both equal, otherwise a refusal naming the client when it is older and the server when it is older (shape of the if/switch chain irrelevant).",
	"C11": "R-CAST-KEEPS-META: castRecordBatch rebuilds the batch with the source's Metadata(). R-CAST-WHENEVER-DIFFERENT: no input-cast site (HTTP exchange, pipe loop) is conditioned on the batch's contents. R-CALLTOKEN-SCHEMA: /init mints call tokens with the schema the response stream is written with. R-MODE is also decided as a table: isProducer over (method type ∈ producer/exchange/dynamic) × (state implements ProducerState) must be producer→true, exchange→false, dynamic→the flag, identically in the pipe loop, /init and /exchange.",
	"C17": "R-NEGOTIATE-PER-REQUEST: the codec and header choice given to the compressing writer are the results of this request's chooseResponseEncoding call (directly or through a helper that returns nothing else), and that call is given producibleResponseEncodings() computed at the call.",
	"C18": "R-EXEMPT-WHOLE-SEGMENT: the cap exemption's prefix tests end in \"/\". R-CLAMP-REACHES-DEFAULT: every path that takes the 16× default decoded-size cap also tests requestCapApplied (before or after). R-GZIP-ALL-MEMBERS: no gzip reader has multistream switched.",
	"C21": "R-EXCEPTION-BEFORE-MISMATCH: parseIPCStream reports a differing response schema only after the stream's batches were read for an exception envelope (directly or through a helper that loops over reader.Next()), and an envelope found there is returned as rpcErrorFromMetadata (F25).",
	"C23": "R-VALIDATOR-VERBATIM: after validate(token), BearerAuthenticate returns exactly the validator's two results. R-UNWRAP-UNBOUNDED: asAuthFailure's walk is governed by no integer comparison (no depth bound). R-AUTH-STATUS is decided on authenticate's decision table over (errors.As unavailable, asAuthFailure, direct *RpcError, Type ValueError/PermissionError): unavailable → Retry-After then 503; AuthFailure or a direct ValueError/PermissionError → 401; otherwise 500.",
	"C27": "R-ALLOWLIST-VERBATIM: allowlist keys are the configured strings, not call results. R-RELATIVE-ONLY: validateOriginalURL tests both Scheme and Host for emptiness. R-STATE-WHOLE: both operands of the state comparison are direct []byte conversions of the strings.",
	"C28": "R-READER-SINGLE: each of the six exported readers makes exactly one call, to parseQuotedParam. R-CHALLENGE-REBUILT: every success return of SetOAuthResourceMetadata follows a store of wwwAuthenticate.",
	"C30": "R-NO-POOLED-BYTES: see C08. R-SHA-WHENEVER-PRESENT: the checksum computation in ResolveExternalLocation is guarded only by the pointer's keys and nil tests.",
	"C32": "R-FIRST-RESULT-COUNTS: chunksRemaining is decremented only under results[index] == nil. R-CHUNKS-TILE: ranges advance by the divisor of the ceil() that yields numChunks, and numChunks is assigned once.",
	"C33": "R-KEY-FULL-READ: the id helpers use no pooled or math/rand generator and no single Reader.Read whose count is ignored. R-KEY-WHOLE: the key handed to the store is never a slice of the prefix+id string.",
	"C34": "R-ATTACH-SIZE-EXACT: validateHeader compares data_size for equality.",
	"C35": "R-FREE-KEEPS-ORDER: freeAtLocked removes an entry by append(allocs[:i], allocs[i+1:]...) and stores into no table slot. R-SOURCE-ALWAYS-STAMPED: the shm_source key is appended regardless of the pointer's own shm_source.",
	"C36": "R-NESTED-COVERAGE, R-SCHEMA-CACHE-KEY: see C35 — they decide whether the shm write path produces what the plain path produces.",
	"C38": "R-NO-POOLED-BYTES: see C08 (SerializeRequestBatch). R-STREAM-ID-FIXED-WIDTH: RandomStreamID returns hex.EncodeToString over the whole 16-byte array or a 32-character constant.",
	"C39": "R-ERROR-NEVER-SAMPLED-OUT: every non-true return of keep is dominated by status != \"error\" standing alone. R-ENQUEUE-NO-LOCK: emit takes no lock and calls enqueue with none held.",
	"C40": "R-START-HOOK-EVERY-REQUEST: ServeHTTP calls notifyTransport itself, not inside a closure. R-ENCODER-RETURNED-ONCE: finish closes the pooled codec writer at most once on any path.",
	"C42": "R-NO-STALE-TIMER: in RunTcp and RunUnix a pending idle timer is stopped either before a new one is armed or on the accept path.",
	"C43": "R-TOKEN-TYPE-AGREES: every token OnDispatchStart returns has the dynamic type OnDispatchEnd asserts. R-METRIC-ATTRS-PER-CALL: the attribute option given to the instruments does not come from a sync.Map/Pool or an attribute cache field.",
}

// Rules added after the third seeding round (rules_seedfix5.go) — the generic lost-effect
// rules of rules_generic.go / rules_memo.go are described once, in genericExplanation.
var extraExplanations4 = map[string]string{
	"C01": "R-ONE-ROW: ReadRequest tests the row count against 1 for (in)equality. R-TOKENS-INDEPENDENT: FindStreamTokens installs each of the two tokens under a test of that token alone.",
	"C02": "R-DRAIN-ONLY-STREAM-CALLS: serveOne drains the input only under a guard on the method's kind. R-ANSWER-BEFORE-DRAIN: every drain of serveStream is dominated by an error answer.",
	"C03": "R-TOKEN-BYTES-COVERED: every constant index / slice bound on the decoded token bytes in openToken is covered by a dominating len() guard on that slice. R-RESOLVE-ADOPTED-AFTER-CHECK: ResolveShmBatch's result is stored into the request only under its err == nil.",
	"C04": "R-HANDLER-ERROR-IN-STREAM: handleUnary never passes the handler's own error to the bare HTTP error responder.",
	"C05": "R-EXTRA-IS-JSON: every non-constant return of buildErrorExtra is json.Marshal output. R-KIND-VERBATIM: (*RpcError).ErrorKind returns the Kind field. R-STACK-ONLY-IN-ENVELOPE: debug.Stack/runtime.Stack are called only inside buildErrorExtra.",
	"C07": "R-LIST-INDEX-AGREES: setListField reads an item's validity bit and its value at the same child position. R-GATE-BEFORE-EVERY-SUCCESS: no success return of deserializeParams is reachable without passing the Schema.Equal comparison.",
	"C08": "R-LIST-INDEX-AGREES: see C07. R-NO-NARROW-ARITH: no 32-bit column value is multiplied before being widened. R-FLOAT-NO-RANGE-REFUSAL: the float encoders compare nothing with MaxFloat32.",
	"C11": "R-CURSOR-ALWAYS-BOUND: the method-less cursor helper packCursorToken has no caller. R-CLIENT-KEEPS-CALL-TOKEN: the client replaces its call token only by a non-empty one. R-DEFAULT-LOG-LEVEL-AGREES: every dispatcher defaults an unspecified log level to the same constant.",
	"C12": "R-TOKEN-BYTES-COVERED: see C03. R-CURSOR-VERBATIM: openCursorToken hands openToken the presented cursor itself.",
	"C13": "R-IDENTITY-AS-AUTHENTICATED: authenticate substitutes Anonymous() only when no authenticator is configured. R-CACHE-ENTRIES-IMMUTABLE: callStateCache.put never rewrites the key of an indexed entry.",
	"C14": "R-CURSOR-ALWAYS-BOUND: see C11.",
	"C15": "R-CLIENT-KEEPS-CALL-TOKEN: see C11. R-CACHE-ENTRIES-IMMUTABLE: see C13.",
	"C17": "R-CTORS-APPLY-LEVEL: every NewHttpServer* constructor goes through applyCompressionLevel. R-ACCEPT-SPLIT-UNBOUNDED: parseAcceptEncoding uses no bounded split. R-PROBE-SAME-LEVEL: SetCompressionLevel does not remap the level for its probe.",
	"C18": "R-CAP-SINGLE-WRITER: maxDecompressedBodySize is written only by its setter. R-CODING-BEFORE-ACCEPT: every success return of readHTTPBody lies behind a comparison of the coding.",
	"C19": "R-BUDGET-AFTER-BODY: each enforceResponseBudgets call in handleUnary is dominated by a response write into the measured buffer.",
	"C20": "R-REQUEST-ID-ONE-SOURCE: every X-Request-ID response header value originates from resolveRequestID. R-ID-BOUND-ON-TRIMMED: the length bound in resolveRequestID applies to the TrimSpace result.",
	"C21": "R-CLIENT-KEEPS-CALL-TOKEN: see C11. R-NON-2XX-IS-ERROR: post tests the status against 200 and 300. R-LOGS-NEVER-DATA: the log-envelope discard does not depend on a log handler being installed. R-EXCEPTION-SCAN-WHOLE-STREAM: firstStreamException loops over Next().",
	"C24": "R-STATIC-KEYS-VERBATIM: BearerAuthenticateStatic applies no string transform. R-ELEMENT-FRESH: ParseXfcc creates its element record inside the per-element loop.",
	"C25": "R-AGE-IN-SECONDS: VerifyProof never multiplies a parsed timestamp or a converted duration.",
	"C26": "R-LIMITER-KEY-IS-CALLER: the limiter key is the principal (no concatenation). R-ALLOWLIST-EXACT: no string transform on principals.",
	"C28": "R-VALUE-FROM-HEADER: parseQuotedParam works on the header as given. R-CHALLENGE-SINGLE-WRITER: wwwAuthenticate is written only by SetOAuthResourceMetadata. R-URL-ESCAPED: the metadata URL is URL.String().",
	"C30": "R-LIMITS-IN-PLACE: arguments named after a callee parameter sit in that parameter's position (fetchExternalData, decompressZstdCapped). R-THRESHOLD-AGREES: predictor and externalizer compare size with the threshold identically. R-SCAN-OWN-METADATA: the resolve loop inspects each fetched record's own metadata.",
	"C31": "R-LIMITS-IN-PLACE: see C30. R-VALIDATE-REAL-URL: the redirect hook hands the validator req.URL itself.",
	"C35": "R-POINTER-BY-OFFSET-KEY: IsShmPointerBatch is decided by shm_offset alone. R-ATTACH-SIZE-EXACT: see C34.",
	"C36": "R-READ-BOUND-IS-SEGMENT: ReadBatch bounds a region by s.size. R-SEGMENT-IDENTITY: a cached attachment is reused only for the same name and size.",
	"C37": "R-UNARY-ERR-RECORDED: the error serveUnary reports is the error it wrote.",
	"C38": "R-LINE-ATOMIC: writeRecord writes the sink under the hook's lock. R-PAYLOAD-CAPTURED-EVERYWHERE: no payload capture depends on the batch's shape. R-BYTES-AS-WRITTEN: the egress tally does not add the offered length.",
	"C40": "R-REDACT-COPIES: RedactClaims never writes its input map. R-CLIENT-COPIED: fetchExternalData sets its redirect policy on a local copy of the client.",
}

const genericExplanation = "R-LOST-EFFECT family (rules_generic.go, rules_memo.go; reported under every property whose anchor files contain the construct): R-RECOVER-EFFECT-LOST — a deferred recover() records the panic in a variable nothing reads after the deferred call has run; R-ERROR-SHADOWED — `:=` redeclares, in a block that returns, an error variable whose outer instance a closure or pointer observes; R-HEADER-AFTER-STATUS — a header is set after WriteHeader on the same writer; R-MEMO-KEY-COMPLETE — a memo site absent from the reference inventory (refmemo.json) stores a value depending on inputs its key lacks (sync.Once: no key)."

// rules written after the third round's blind spots were reviewed (rules_seedfix6.go, rules_pool.go)
var extraExplanations5 = map[string]string{
	"C15": "R-CALL-TOKEN-REQUIRED (shared with C12/C13): a resolveCall failure in handleStreamExchange is answered with an error and ends the request on every path, cancel turns included. R-CACHE-ENTRIES-IMMUTABLE also covers a whole-struct store through an indexed entry.",
	"C16": "R-UPLOADED-BATCH-VERBATIM: every ipc.Writer.Write in serializeBatchAsIPC writes the function's own batch parameter (through phis and spilled cells), never a re-wrapped record.",
	"C18": "R-POOLED-OBJECT-FULLY-REBOUND (generic): in a function that takes an object from a sync.Pool absent from refmemo.json or else constructs one, every input of the constructor also reaches the recycled object through a method call on it.",
	"C19": "R-SOFT-CAP-UNCONDITIONAL: the short-circuit chain that ends a producer turn on bytes-written >= max_response_bytes contains no conjunct other than the comparison, `cap > 0` and the buffer's nil test (conditions that already dominate the chain's head are not counted).",
	"C21": "R-LOGS-NEVER-DATA (path form): from the outermost block known to hold a zero-row record with a log level, the append to the parsed data batches is unreachable before the next reader.Next.",
	"C22": "R-ROUTER-CONSULTS-NO-COMPONENT: ServeHTTP and the package's non-handler functions it calls directly make no dynamic call on a value held in an HttpServer field (provider, resolver, validator, callback): everything before the mux runs for unauthenticated requests.",
	"C25": "R-NONCES-NEVER-BULK-FORGOTTEN: nothing except a literal under construction replaces nonceCache.entries/order, clears the map or re-initialises the list.",
	"C27": "R-DERIVE-FROM-WHOLE-KEY: the HMAC in deriveSessionKey is not keyed with a slice of a fixed-size local array.",
	"C30": "R-DECODED-CAP-PROVENANCE: the bound given to decompressZstdCapped in fetchExternalData traces (through parameters, call sites and the config accessor) to ExternalLocationConfig.MaxDecompressedBytes and to no other Max*/Externalize* field of that config.",
	"C33": "R-UPLOAD-SHARES-NOTHING: outside a held lock, Upload stores nothing into memory reached from its receiver.",
	"C36": "R-KEYS-STRIPPED-BY-NAME: ResolveShmBatch keeps the sender's metadata keys under a by-name test against both pointer keys.",
	"C37": "R-TURN-ERROR-IS-REPORTED: every non-nil error return of runProduceLoopCapped is dominated by a writeErrorBatch call or returns the result of ipc.Writer.Write/Close itself.",
	"C40": "R-RELEASE-DEFERRED-ONLY (shared with C29): the three RPC handlers release the per-session lock by exactly one deferred call and nowhere else.",
	"C41": "R-RELEASE-LOOP-COVERS-ZERO: a counting loop that releases the element it indexes and whose other bound is the progress counter of an enclosing loop starts at 0 (ascending) or runs while the counter >= 0 (descending).",
	"C43": "R-GUARD-TESTS-WHAT-IS-USED: an interface call on a value resolved from alternatives (a phi) is not guarded by a nil test on one of the alternatives alone.",
}

func applyExtraExplanations() {
	for _, p := range registry {
		p.Explanation += " Plus the generic lost-effect rules (R-RECOVER-EFFECT-LOST, R-ERROR-SHADOWED, R-HEADER-AFTER-STATUS, R-MEMO-KEY-COMPLETE, R-POOLED-OBJECT-FULLY-REBOUND; DESIGN §3) on this property's anchor files."
	}
	_ = genericExplanation
	for _, m := range []map[string]string{extraExplanations, extraExplanations2, extraExplanations3, extraExplanations4, extraExplanations5} {
		for id, extra := range m {
			if p, ok := registry[id]; ok {
				p.Explanation += " " + extra
			}
		}
	}
}
