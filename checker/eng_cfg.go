package main

import (
	"go/constant"
	"go/token"
	"strings"

	"golang.org/x/tools/go/ssa"
)

// ---------- instruction iteration ----------

// Instrs calls f for every instruction of fn (not nested closures).
func Instrs(fn *ssa.Function, f func(ssa.Instruction)) {
	for _, b := range fn.Blocks {
		for _, in := range b.Instrs {
			f(in)
		}
	}
}

// InstrsDeep calls f for every instruction of fn and its nested closures.
func InstrsDeep(fn *ssa.Function, f func(*ssa.Function, ssa.Instruction)) {
	for _, g := range WithAnon(fn) {
		for _, b := range g.Blocks {
			for _, in := range b.Instrs {
				f(g, in)
			}
		}
	}
}

// CallSite is one call/go/defer instruction with its resolved callee name.
type CallSite struct {
	Fn     *ssa.Function
	Instr  ssa.CallInstruction
	Callee string
}

func (c CallSite) Common() *ssa.CallCommon { return c.Instr.Common() }
func (c CallSite) IsDefer() bool           { _, ok := c.Instr.(*ssa.Defer); return ok }
func (c CallSite) IsGo() bool              { _, ok := c.Instr.(*ssa.Go); return ok }

// Value returns the call's result value (nil for go/defer).
func (c CallSite) Value() ssa.Value {
	if v, ok := c.Instr.(*ssa.Call); ok {
		return v
	}
	return nil
}

// Arg returns argument i counting the receiver of a static method call as 0;
// for invoke-mode calls the receiver is not in Args, so index 0 is the first
// real argument.
func (c CallSite) Arg(i int) ssa.Value {
	a := c.Common().Args
	if i < len(a) {
		return a[i]
	}
	return nil
}

// Calls lists call sites in fn (shallow) whose callee name satisfies match.
func (u *Unit) Calls(fn *ssa.Function, match func(string) bool) []CallSite {
	var out []CallSite
	Instrs(fn, func(in ssa.Instruction) {
		if ci, ok := in.(ssa.CallInstruction); ok {
			n := u.CalleeName(ci.Common())
			if match == nil || match(n) {
				out = append(out, CallSite{fn, ci, n})
			}
		}
	})
	return out
}

// CallsDeep is Calls over fn and its nested closures.
func (u *Unit) CallsDeep(fn *ssa.Function, match func(string) bool) []CallSite {
	var out []CallSite
	for _, g := range WithAnon(fn) {
		out = append(out, u.Calls(g, match)...)
	}
	return out
}

// name matchers
func Is(names ...string) func(string) bool {
	return func(s string) bool {
		for _, n := range names {
			if s == n {
				return true
			}
		}
		return false
	}
}
func HasSuffix(suf ...string) func(string) bool {
	return func(s string) bool {
		for _, n := range suf {
			if strings.HasSuffix(s, n) {
				return true
			}
		}
		return false
	}
}
func Contains(sub ...string) func(string) bool {
	return func(s string) bool {
		for _, n := range sub {
			if strings.Contains(s, n) {
				return true
			}
		}
		return false
	}
}
func Or(ms ...func(string) bool) func(string) bool {
	return func(s string) bool {
		for _, m := range ms {
			if m(s) {
				return true
			}
		}
		return false
	}
}

// ---------- dominance ----------

func instrIndex(in ssa.Instruction) int {
	for i, x := range in.Block().Instrs {
		if x == in {
			return i
		}
	}
	return -1
}

// Dominates reports whether instruction a strictly precedes b on every path
// from the function entry to b.
func Dominates(a, b ssa.Instruction) bool {
	if a.Parent() != b.Parent() {
		return false
	}
	if a.Block() == b.Block() {
		return instrIndex(a) < instrIndex(b)
	}
	return a.Block().Dominates(b.Block())
}

// ---------- guards ----------

// Guard is a branch condition known to hold (Truth) at a program point.
type Guard struct {
	Cond  ssa.Value
	Truth bool
	If    *ssa.If
}

// GuardsAt returns the branch conditions that dominate block b: for every
// dominator d of b ending in an If, if exactly one successor edge of d
// dominates b (the successor has d as its only predecessor and dominates b),
// the condition holds with that polarity.
func GuardsAt(b *ssa.BasicBlock) []Guard {
	var out []Guard
	for d := b.Idom(); d != nil; d = d.Idom() {
		if len(d.Instrs) == 0 {
			continue
		}
		ifi, ok := d.Instrs[len(d.Instrs)-1].(*ssa.If)
		if !ok {
			continue
		}
		t, f := d.Succs[0], d.Succs[1]
		if t == f {
			continue
		}
		// the successor is entered only through this edge: its other
		// predecessors are back edges from blocks it dominates (loop header)
		onlyVia := func(s *ssa.BasicBlock) bool {
			n := 0
			for _, p := range s.Preds {
				if p == d {
					n++
					continue
				}
				if !s.Dominates(p) {
					return false
				}
			}
			return n == 1
		}
		tDom := onlyVia(t) && (t == b || t.Dominates(b))
		fDom := onlyVia(f) && (f == b || f.Dominates(b))
		if tDom && !fDom {
			out = append(out, Guard{ifi.Cond, true, ifi})
		} else if fDom && !tDom {
			out = append(out, Guard{ifi.Cond, false, ifi})
		}
	}
	return out
}

// GuardStrings renders the guards at an instruction as normalised atoms,
// e.g. "(err != nil)=false". Negations (!x) and `x == false` are folded.
func (u *Unit) GuardStrings(in ssa.Instruction) []string {
	var out []string
	for _, g := range GuardsAt(in.Block()) {
		out = append(out, u.guardAtoms(g.Cond, g.Truth)...)
	}
	return out
}

func (u *Unit) guardAtoms(c ssa.Value, truth bool) []string {
	switch x := c.(type) {
	case *ssa.UnOp:
		if x.Op == token.NOT {
			return u.guardAtoms(x.X, !truth)
		}
	case *ssa.BinOp:
		// normalise comparisons into a positive form
		op := x.Op
		if !truth {
			switch op {
			case token.EQL:
				op, truth = token.NEQ, true
			case token.NEQ:
				op, truth = token.EQL, true
			case token.LSS:
				op, truth = token.GEQ, true
			case token.GEQ:
				op, truth = token.LSS, true
			case token.GTR:
				op, truth = token.LEQ, true
			case token.LEQ:
				op, truth = token.GTR, true
			}
		}
		if truth {
			return []string{"(" + u.Describe(x.X) + " " + op.String() + " " + u.Describe(x.Y) + ")"}
		}
	case *ssa.Phi:
		// `x := a && b && c` materialises as phi(false, false, c): when the phi
		// is true the only non-constant edge was taken, so c held and so did
		// every condition dominating the block that computed it (a, b).
		// Dually `a || b` = phi(true, b) being false.
		var varEdge ssa.Value
		var varPred *ssa.BasicBlock
		okShape := true
		for i, e := range x.Edges {
			if cst, isC := e.(*ssa.Const); isC && cst.Value != nil && cst.Value.Kind() == constant.Bool {
				if constant.BoolVal(cst.Value) == truth {
					okShape = false // a constant edge already yields the observed value
				}
				continue
			}
			if varEdge != nil {
				okShape = false
			}
			varEdge, varPred = e, x.Block().Preds[i]
		}
		if okShape && varEdge != nil {
			out := u.guardAtoms(varEdge, truth)
			if len(varPred.Instrs) > 0 {
				for _, g := range GuardsAt(varPred) {
					out = append(out, u.guardAtoms(g.Cond, g.Truth)...)
				}
			}
			return out
		}
	}
	s := u.Describe(c)
	if truth {
		return []string{s}
	}
	return []string{"!" + s}
}

// Guarded reports whether some guard atom at in satisfies pred.
func (u *Unit) Guarded(in ssa.Instruction, pred func(string) bool) bool {
	for _, g := range u.GuardStrings(in) {
		if pred(g) {
			return true
		}
	}
	return false
}

// ---------- path queries ----------

// pathState identifies a position: block + instruction index.
type ppos struct {
	b *ssa.BasicBlock
	i int
}

// ReachWithout reports whether, starting right after instruction `from` (or
// the function entry when from is nil), execution can reach an instruction
// satisfying target without first executing an instruction satisfying block.
// It returns one witness target instruction when reachable.
// Panic-terminated blocks are not returns. Deferred calls are not modelled
// here (see DeferredBefore).
func ReachWithout(fn *ssa.Function, from ssa.Instruction, target, block func(ssa.Instruction) bool) (ssa.Instruction, bool) {
	if len(fn.Blocks) == 0 {
		return nil, false
	}
	start := ppos{fn.Blocks[0], 0}
	if from != nil {
		start = ppos{from.Block(), instrIndex(from) + 1}
	}
	seen := map[*ssa.BasicBlock]bool{}
	var work []ppos
	work = append(work, start)
	for len(work) > 0 {
		p := work[len(work)-1]
		work = work[:len(work)-1]
		if p.i == 0 {
			if seen[p.b] {
				continue
			}
			seen[p.b] = true
		}
		blocked := false
		for i := p.i; i < len(p.b.Instrs); i++ {
			in := p.b.Instrs[i]
			if block != nil && block(in) {
				blocked = true
				break
			}
			if target(in) {
				return in, true
			}
		}
		if blocked {
			continue
		}
		for _, s := range p.b.Succs {
			work = append(work, ppos{s, 0})
		}
	}
	return nil, false
}

// IsReturn matches return instructions.
func IsReturn(in ssa.Instruction) bool { _, ok := in.(*ssa.Return); return ok }

// CallMatcher builds an instruction predicate matching calls (including
// deferred ones when includeDefer) whose callee name satisfies m.
func (u *Unit) CallMatcher(m func(string) bool, includeDefer bool) func(ssa.Instruction) bool {
	return func(in ssa.Instruction) bool {
		ci, ok := in.(ssa.CallInstruction)
		if !ok {
			return false
		}
		if _, isDefer := in.(*ssa.Defer); isDefer && !includeDefer {
			return false
		}
		if _, isGo := in.(*ssa.Go); isGo {
			return false
		}
		return m(u.CalleeName(ci.Common()))
	}
}

// CountRange computes, for every return of fn, the minimum and maximum number
// (capped at 2 = "many") of instructions satisfying count executed on a path
// from `from` (nil = entry) to that return. Loops containing a counted
// instruction yield max=2.
type MinMax struct{ Min, Max int }

func CountOnPaths(fn *ssa.Function, from ssa.Instruction, count func(ssa.Instruction) bool, exit func(ssa.Instruction) bool) map[ssa.Instruction]MinMax {
	const capN = 2
	type st struct {
		min, max int
		set      bool
	}
	in := map[*ssa.BasicBlock]*st{}
	res := map[ssa.Instruction]MinMax{}
	startB := fn.Blocks[0]
	startI := 0
	if from != nil {
		startB, startI = from.Block(), instrIndex(from)+1
	}
	// iterative dataflow
	type item struct {
		b      *ssa.BasicBlock
		i      int
		mn, mx int
	}
	work := []item{{startB, startI, 0, 0}}
	iter := 0
	for len(work) > 0 && iter < 100000 {
		iter++
		it := work[len(work)-1]
		work = work[:len(work)-1]
		mn, mx := it.mn, it.mx
		if it.i == 0 {
			s := in[it.b]
			if s == nil {
				s = &st{}
				in[it.b] = s
			}
			if s.set && mn >= s.min && mx <= s.max {
				continue
			}
			if !s.set {
				s.min, s.max, s.set = mn, mx, true
			} else {
				if mn < s.min {
					s.min = mn
				}
				if mx > s.max {
					s.max = mx
				}
			}
			mn, mx = s.min, s.max
		}
		stopped := false
		for i := it.i; i < len(it.b.Instrs); i++ {
			x := it.b.Instrs[i]
			if count(x) {
				if mn < capN {
					mn++
				}
				if mx < capN {
					mx++
				}
			}
			if exit(x) {
				stopped = true
				if r, ok := res[x]; ok {
					if mn < r.Min {
						r.Min = mn
					}
					if mx > r.Max {
						r.Max = mx
					}
					res[x] = r
				} else {
					res[x] = MinMax{mn, mx}
				}
				break
			}
		}
		if stopped {
			continue // an exit ends the path (a loop back edge must not be counted into the next iteration)
		}
		for _, s := range it.b.Succs {
			work = append(work, item{s, 0, mn, mx})
		}
	}
	return res
}

// HasRecoverDefer reports whether fn registers, in its entry-dominating
// prefix, a deferred function that calls recover(). It returns the Defer.
func (u *Unit) RecoverDefers(fn *ssa.Function) []*ssa.Defer {
	var out []*ssa.Defer
	Instrs(fn, func(in ssa.Instruction) {
		d, ok := in.(*ssa.Defer)
		if !ok {
			return
		}
		var callee *ssa.Function
		switch f := d.Call.Value.(type) {
		case *ssa.MakeClosure:
			callee = f.Fn.(*ssa.Function)
		case *ssa.Function:
			callee = f
		}
		if callee == nil {
			return
		}
		if callsRecover(callee, 2) {
			out = append(out, d)
		}
	})
	return out
}

// callsRecover: fn calls recover() and never re-panics (a recover handler
// that re-raises some panics — e.g. runtime.Error — does not contain them).
func callsRecover(fn *ssa.Function, depth int) bool {
	found := false
	repanics := false
	Instrs(fn, func(in ssa.Instruction) {
		if c, ok := in.(*ssa.Call); ok {
			if b, ok := c.Call.Value.(*ssa.Builtin); ok && b.Name() == "recover" {
				found = true
			}
		}
		if _, ok := in.(*ssa.Panic); ok {
			repanics = true
		}
	})
	return found && !repanics
}

// CoveredByRecover reports whether instruction in executes under a deferred
// recover registered earlier in the same function on every path.
func (u *Unit) CoveredByRecover(in ssa.Instruction) bool {
	for _, d := range u.RecoverDefers(in.Parent()) {
		if Dominates(d, in) {
			return true
		}
	}
	return false
}
