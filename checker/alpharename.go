package main

import (
	"bytes"
	"fmt"
	"go/ast"
	"go/format"
	"go/types"
	"os"
	"path/filepath"
	"strings"

	"golang.org/x/tools/go/packages"
)

// alphaRename writes, into outDir (a scratch copy of the repository), the
// vgirpc package with every function-local variable, parameter, named result
// and receiver renamed (suffix "_r"). It is a robustness experiment for the
// rules: a behaviour-preserving rename must not change any verdict. Fields,
// methods, functions, package-level names and labels are left alone.
//
// mode "locals": only variables declared inside function bodies;
// mode "all": also parameters, results and receivers.
func alphaRename(repo, outDir, mode string) error {
	env := append(os.Environ(), "PATH=/opt/veriftools/go1.26.8/bin:"+os.Getenv("PATH"), "GOWORK=off", "GOFLAGS=-mod=mod", "GOPROXY=off", "GOSUMDB=off", "GOTOOLCHAIN=local")
	cfg := &packages.Config{Mode: packages.LoadSyntax, Dir: repo, Env: env}
	pkgs, err := packages.Load(cfg, modPath+"/vgirpc")
	if err != nil {
		return err
	}
	if len(pkgs) != 1 || len(pkgs[0].Errors) > 0 {
		return fmt.Errorf("load: %v", pkgs[0].Errors)
	}
	p := pkgs[0]
	pkgScope := p.Types.Scope()
	n := 0
	rename := func(id *ast.Ident, obj types.Object) {
		v, ok := obj.(*types.Var)
		if !ok || v.IsField() || id.Name == "_" || obj.Parent() == pkgScope || obj.Parent() == types.Universe {
			return
		}
		if obj.Parent() == nil {
			return // struct fields of anonymous types, method receivers of interface methods
		}
		if obj.Pkg() != p.Types || obj.Parent() == obj.Pkg().Scope() {
			return // other packages' variables
		}
		if mode == "locals" {
			// parameters/results/receivers live in the function's outermost scope, whose parent is the file scope
			if par := obj.Parent().Parent(); par != nil && par.Parent() == pkgScope {
				// function scope: its direct children are params/results/receiver
				return
			}
		}
		id.Name = v.Name() + "_r"
		n++
	}
	for id, obj := range p.TypesInfo.Defs {
		if obj != nil {
			rename(id, obj)
		}
	}
	for id, obj := range p.TypesInfo.Uses {
		rename(id, obj)
	}
	// implicit objects of type switches: `switch x := v.(type)` defines x per clause
	for node, obj := range p.TypesInfo.Implicits {
		_ = node
		_ = obj
	}
	for i, f := range p.Syntax {
		// the symbolic variable of a type switch is an Ident in Defs with nil object: rename consistently
		ast.Inspect(f, func(nd ast.Node) bool {
			ts, ok := nd.(*ast.TypeSwitchStmt)
			if !ok {
				return true
			}
			as, ok := ts.Assign.(*ast.AssignStmt)
			if !ok || len(as.Lhs) != 1 {
				return true
			}
			id, ok := as.Lhs[0].(*ast.Ident)
			if !ok || strings.HasSuffix(id.Name, "_r") {
				return true
			}
			id.Name += "_r"
			return true
		})
		name := p.CompiledGoFiles[i]
		if !strings.HasSuffix(name, ".go") || strings.Contains(name, "go-build") {
			continue // cgo-generated
		}
		rel, err := filepath.Rel(repo, name)
		if err != nil {
			return err
		}
		var buf bytes.Buffer
		if err := format.Node(&buf, p.Fset, f); err != nil {
			return err
		}
		if err := os.WriteFile(filepath.Join(outDir, rel), buf.Bytes(), 0o644); err != nil {
			return err
		}
	}
	fmt.Println("renamed", n, "identifier occurrences")
	return nil
}

// probeInsert writes a copy of the vgirpc package in which every block of every
// function starts with a call that does nothing observable (`println()` with no
// arguments writes a newline to stderr; it stands in for a log line). It is the
// second robustness experiment: an added statement must not change any verdict.
func probeInsert(repo string) error {
	env := append(os.Environ(), "PATH=/opt/veriftools/go1.26.8/bin:"+os.Getenv("PATH"), "GOWORK=off", "GOFLAGS=-mod=mod", "GOPROXY=off", "GOSUMDB=off", "GOTOOLCHAIN=local")
	cfg := &packages.Config{Mode: packages.LoadSyntax, Dir: repo, Env: env}
	pkgs, err := packages.Load(cfg, modPath+"/vgirpc")
	if err != nil {
		return err
	}
	if len(pkgs) != 1 || len(pkgs[0].Errors) > 0 {
		return fmt.Errorf("load: %v", pkgs[0].Errors)
	}
	p := pkgs[0]
	probe := func() ast.Stmt {
		return &ast.ExprStmt{X: &ast.CallExpr{Fun: ast.NewIdent("println")}}
	}
	n := 0
	for i, f := range p.Syntax {
		name := p.CompiledGoFiles[i]
		if !strings.HasSuffix(name, ".go") || strings.Contains(name, "go-build") {
			continue
		}
		ast.Inspect(f, func(nd ast.Node) bool {
			switch x := nd.(type) {
			case *ast.FuncDecl:
				if x.Body != nil {
					x.Body.List = append([]ast.Stmt{probe()}, x.Body.List...)
					n++
				}
			case *ast.FuncLit:
				x.Body.List = append([]ast.Stmt{probe()}, x.Body.List...)
				n++
			case *ast.IfStmt:
				x.Body.List = append([]ast.Stmt{probe()}, x.Body.List...)
				n++
			case *ast.ForStmt:
				x.Body.List = append([]ast.Stmt{probe()}, x.Body.List...)
				n++
			case *ast.RangeStmt:
				x.Body.List = append([]ast.Stmt{probe()}, x.Body.List...)
				n++
			case *ast.CaseClause:
				x.Body = append([]ast.Stmt{probe()}, x.Body...)
				n++
			}
			return true
		})
		rel, err := filepath.Rel(repo, name)
		if err != nil {
			return err
		}
		var buf bytes.Buffer
		if err := format.Node(&buf, p.Fset, f); err != nil {
			return err
		}
		if err := os.WriteFile(filepath.Join(repo, rel), buf.Bytes(), 0o644); err != nil {
			return err
		}
	}
	fmt.Println("inserted", n, "probe statements")
	return nil
}
