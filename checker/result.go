package main

import (
	"encoding/json"
	"fmt"
	"os"
	"path/filepath"
	"sort"
	"strings"
	"time"
)

// Status of one obligation.
type Status string

const (
	OK        Status = "ok"
	Violation Status = "violation"
	Undecided Status = "undecided"
	Known     Status = "known-finding"
)

// Obligation is one rule instance evaluated against the tree.
type Obligation struct {
	Rule     string `json:"rule"`
	Instance string `json:"instance"` // rule-specific construct key; never a line number
	Pos      string `json:"pos"`      // display only
	Status   Status `json:"status"`
	Detail   string `json:"detail"`
	Config   string `json:"config,omitempty"`
}

func (o Obligation) Key() string { return o.Rule + "|" + o.Instance }

// Report accumulates the obligations of one property check.
type Report struct {
	Property string
	Obs      []Obligation
	Notes    []string
	Funcs    map[string]bool // functions analysed
	floors   map[string]int
	counts   map[string]int
	config   string
}

func NewReport(prop string) *Report {
	return &Report{Property: prop, Funcs: map[string]bool{}, floors: map[string]int{}, counts: map[string]int{}}
}

func (r *Report) add(rule, inst, pos string, st Status, detail string) {
	r.Obs = append(r.Obs, Obligation{rule, inst, pos, st, detail, r.config})
	r.counts[rule]++
}

func (r *Report) Ok(rule, inst, pos, detail string)   { r.add(rule, inst, pos, OK, detail) }
func (r *Report) Viol(rule, inst, pos, detail string) { r.add(rule, inst, pos, Violation, detail) }
func (r *Report) Undec(rule, inst, pos, detail string) {
	r.add(rule, inst, pos, Undecided, "undecided: "+detail)
}

// Check records ok/violation depending on cond.
func (r *Report) Check(cond bool, rule, inst, pos, okDetail, badDetail string) bool {
	if cond {
		r.Ok(rule, inst, pos, okDetail)
	} else {
		r.Viol(rule, inst, pos, badDetail)
	}
	return cond
}

// Floor declares the minimum number of instances a rule must have examined
// (confirmed by hand); fewer means the rule went blind.
func (r *Report) Floor(rule string, n int) { r.floors[rule] = n }

func (r *Report) Analysed(names ...string) {
	for _, n := range names {
		r.Funcs[n] = true
	}
}

// KnownFinding is an entry of /verif/known_findings.json.
type KnownFinding struct {
	Property string `json:"property"`
	Rule     string `json:"rule"`
	Instance string `json:"instance"`
	What     string `json:"what"`
	Status   string `json:"status"` // "known" | "fixed"
	Commit   string `json:"commit,omitempty"`
	Finding  string `json:"finding,omitempty"`
}

func loadKnown(path string) ([]KnownFinding, error) {
	b, err := os.ReadFile(path)
	if err != nil {
		if os.IsNotExist(err) {
			return nil, nil
		}
		return nil, err
	}
	var out []KnownFinding
	if err := json.Unmarshal(b, &out); err != nil {
		return nil, fmt.Errorf("%s: %w", path, err)
	}
	return out, nil
}

// Finalize applies instance floors and the known-findings list, prints the
// report, writes evidence + replay files, and returns the process exit code.
func (r *Report) Finalize(opts *Options, info PropInfo, start time.Time, configs []string, stats map[string]int) int {
	// floors
	var rules []string
	for rule := range r.floors {
		rules = append(rules, rule)
	}
	sort.Strings(rules)
	for _, rule := range rules {
		per := r.counts[rule]
		if len(configs) > 1 {
			per = per / len(configs)
		}
		// A behaviour-preserving clean-up can merge duplicated sites (two handler calls hoisted
		// into one, two refusals sharing one exit), so a count somewhat below the hand-confirmed
		// one is recorded as a note; losing more than half of the instances (or all of them)
		// means the rule went blind and fails the check.
		min := (r.floors[rule] + 1) / 2
		if min < 1 {
			min = 1
		}
		if per < min {
			r.Obs = append(r.Obs, Obligation{rule, "instance-floor", "-", Undecided,
				fmt.Sprintf("undecided: instance floor: rule examined %d instances per configuration, %d confirmed by hand — the rule no longer sees the constructs it was written for", per, r.floors[rule]), ""})
		} else if per < r.floors[rule] {
			r.Notes = append(r.Notes, fmt.Sprintf("%s examined %d instances per configuration (%d on the reference tree): sites were merged or removed", rule, per, r.floors[rule]))
		}
	}
	known, err := loadKnown(opts.KnownFile)
	if err != nil {
		r.Obs = append(r.Obs, Obligation{"known-findings", "file", "-", Undecided, "undecided: " + err.Error(), ""})
	}
	knownSet := map[string]KnownFinding{}
	for _, k := range known {
		if k.Status == "known" && k.Property == r.Property {
			knownSet[k.Rule+"|"+k.Instance] = k
		}
	}
	bad := 0
	printedKnown := map[string]bool{}
	var badObs []Obligation
	for i := range r.Obs {
		o := &r.Obs[i]
		if o.Status == Violation {
			if k, ok := knownSet[o.Key()]; ok {
				o.Status = Known
				if !printedKnown[o.Key()] {
					printedKnown[o.Key()] = true
					fmt.Printf("KNOWN-FINDING: property=%s %s — %s [%s @ %s]\n", r.Property, k.What, o.Detail, o.Key(), o.Pos)
				}
				continue
			}
		}
		if o.Status == Violation || o.Status == Undecided {
			bad++
			badObs = append(badObs, *o)
		}
	}
	discharged := 0
	distinct := map[string]bool{}
	for _, o := range r.Obs {
		if o.Status == OK || o.Status == Known {
			discharged++
		}
		distinct[o.Key()] = true
	}
	wall := time.Since(start).Seconds()

	// samples: first few obligations of each rule
	perRule := map[string]int{}
	var samples []Obligation
	for _, o := range r.Obs {
		if perRule[o.Rule] < 2 || o.Status != OK {
			perRule[o.Rule]++
			samples = append(samples, o)
		}
		if len(samples) >= 60 {
			break
		}
	}
	var ruleNames []string
	for k := range r.counts {
		ruleNames = append(ruleNames, fmt.Sprintf("%s=%d", k, r.counts[k]))
	}
	sort.Strings(ruleNames)
	var funcs []string
	for f := range r.Funcs {
		funcs = append(funcs, f)
	}
	sort.Strings(funcs)

	replay := ""
	if bad > 0 {
		os.MkdirAll(filepath.Join(opts.EvidenceDir, "replay"), 0o755)
		replay = filepath.Join(opts.EvidenceDir, "replay", r.Property+".txt")
		var sb strings.Builder
		fmt.Fprintf(&sb, "property %s (%s)\nrepo %s tier %s\n\n", r.Property, info.Title, opts.Repo, opts.Tier)
		for _, o := range badObs {
			fmt.Fprintf(&sb, "[%s] rule=%s instance=%s\n  at %s (config %s)\n  %s\n\n", o.Status, o.Rule, o.Instance, o.Pos, o.Config, o.Detail)
		}
		fmt.Fprintf(&sb, "re-run: /verif/bin/check %s %s\n", r.Property, opts.Tier)
		os.WriteFile(replay, []byte(sb.String()), 0o644)
	}

	ev := map[string]any{
		"property_id": r.Property,
		"tier":        opts.Tier,
		"seed":        opts.Seed,
		"level":       "other",
		"wall_s":      wall,
		"violations":  bad,
		"coverage": map[string]any{
			"explanation":         info.Explanation,
			"obligations":         len(r.Obs),
			"discharged":          discharged,
			"evaluations":         len(r.Obs),
			"distinct_nontrivial": len(distinct),
			"rule":                "one obligation per (rule, resolved construct); distinct = distinct rule|instance keys; every obligation inspects a non-trivial construct (a call site, branch, store, table entry) of /repo's current source",
			"samples":             samples,
			"rules_instances":     ruleNames,
			"functions_analysed":  funcs,
			"build_configs":       configs,
			"not_covered":         info.NotCovered,
			"engine_stats":        stats,
			"notes":               r.Notes,
			"checker_cmd":         strings.Join(os.Args, " "),
			"exhaustive":          false,
		},
		"assumptions": info.Assumptions,
	}
	os.MkdirAll(opts.EvidenceDir, 0o755)
	b, _ := json.MarshalIndent(ev, "", " ")
	if err := os.WriteFile(filepath.Join(opts.EvidenceDir, r.Property+".json"), b, 0o644); err != nil {
		fmt.Fprintln(os.Stderr, "cannot write evidence:", err)
		return 2
	}

	fmt.Printf("%s %s: %d obligations, %d discharged, %d failing; rules: %s; %.1fs\n",
		r.Property, opts.Tier, len(r.Obs), discharged, bad, strings.Join(ruleNames, " "), wall)
	if opts.Verbose {
		for _, o := range r.Obs {
			fmt.Printf("  [%s] %s | %s @ %s — %s\n", o.Status, o.Rule, o.Instance, o.Pos, o.Detail)
		}
	}
	if bad > 0 {
		for _, o := range badObs {
			fmt.Printf("  [%s] %s | %s @ %s — %s\n", o.Status, o.Rule, o.Instance, o.Pos, o.Detail)
		}
		fmt.Printf("VIOLATION property=%s replay=%s\n", r.Property, replay)
		return 1
	}
	return 0
}
