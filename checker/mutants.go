package main

import (
	"bufio"
	"fmt"
	"os"
	"os/exec"
	"path/filepath"
	"runtime"
	"runtime/debug"
	"sort"
	"strings"
)

// Mutant self-test (thorough tier): each file /verif/mutants/<ID>/*.diff is a
// patch against /repo that breaks property <ID> while still compiling. Header
// lines of the form "#expect <rule>[|<instance substring>]" name the
// obligation that must turn into a violation. The patch is applied to a
// scratch copy of the current working tree (outside /repo and /verif, removed
// afterwards); a patch that no longer applies is skipped and listed.

type mutantResult struct {
	Name    string `json:"name"`
	Outcome string `json:"outcome"` // detected | MISSED | skipped(<why>)
	By      string `json:"by,omitempty"`
}

func mutantExpect(path string) []string {
	f, err := os.Open(path)
	if err != nil {
		return nil
	}
	defer f.Close()
	var out []string
	sc := bufio.NewScanner(f)
	for sc.Scan() {
		l := sc.Text()
		if strings.HasPrefix(l, "#expect ") {
			out = append(out, strings.TrimSpace(strings.TrimPrefix(l, "#expect ")))
		}
		if strings.HasPrefix(l, "diff --git") {
			break
		}
	}
	return out
}

func scratchCopy(repo string) (string, error) {
	dir, err := os.MkdirTemp("", "vgirpc-mut-")
	if err != nil {
		return "", err
	}
	cmd := exec.Command("rsync", "-a", "--exclude=.git", "--exclude=docs", "--exclude=benchmark", "--exclude=conformance", "--exclude=examples", repo+"/", dir+"/")
	if out, err := cmd.CombinedOutput(); err != nil {
		os.RemoveAll(dir)
		return "", fmt.Errorf("rsync: %v: %s", err, out)
	}
	return dir, nil
}

func runMutants(opts *Options, p *PropInfo, rep *Report) []mutantResult {
	dir := filepath.Join(filepath.Dir(opts.KnownFile), "mutants", p.ID)
	files, _ := filepath.Glob(filepath.Join(dir, "*.diff"))
	sort.Strings(files)
	var results []mutantResult
	for _, f := range files {
		name := strings.TrimSuffix(filepath.Base(f), ".diff")
		expects := mutantExpect(f)
		scratch, err := scratchCopy(opts.Repo)
		if err != nil {
			rep.Undec("selftest", name, "-", err.Error())
			continue
		}
		res := func() mutantResult {
			defer os.RemoveAll(scratch)
			chk := exec.Command("patch", "-p1", "--dry-run", "-s", "-f", "-d", scratch, "-i", f)
			if out, err := chk.CombinedOutput(); err != nil {
				return mutantResult{name, "skipped(patch no longer applies: " + firstLine(string(out)) + ")", ""}
			}
			if out, err := exec.Command("patch", "-p1", "-s", "-f", "-d", scratch, "-i", f).CombinedOutput(); err != nil {
				return mutantResult{name, "skipped(patch failed: " + firstLine(string(out)) + ")", ""}
			}
			sub := NewReport(p.ID)
			sub.config = "mutant:" + name
			ctx := &Ctx{Unit: map[string]*Unit{}, R: sub, Tier: "quick", Opts: opts}
			// a mutant's program is needed only for this one run: forget it afterwards
			// (the generic-findings cache is keyed by unit and would keep every
			// mutant's SSA alive; ten mutants of the s3/gcs units are > 20 GB)
			defer func() {
				for _, u := range ctx.Unit {
					delete(genCache, u)
				}
				ctx.Unit, ctx.U = nil, nil
				runtime.GC()
				debug.FreeOSMemory()
			}()
			for _, un := range p.Units {
				u, err := LoadUnit(scratch, un, defaultConfig)
				if err != nil {
					return mutantResult{name, "skipped(mutant does not load: " + firstLine(err.Error()) + ")", ""}
				}
				ctx.Unit[un] = u
				if un == "vgirpc" {
					ctx.U = u
				}
			}
			func() {
				defer func() {
					if e := recover(); e != nil {
						sub.Undec("engine", "panic", "-", fmt.Sprint(e))
					}
				}()
				p.Run(ctx)
				if f := seedfix3[p.ID]; f != nil {
					f(ctx)
				}
				if f := seedfix4[p.ID]; f != nil {
					f(ctx)
				}
				if f := seedfix5[p.ID]; f != nil {
					f(ctx)
				}
				runGeneric(ctx, p.ID)
			}()
			for _, o := range sub.Obs {
				if o.Status != Violation {
					continue
				}
				if len(expects) == 0 {
					return mutantResult{name, "detected", o.Key()}
				}
				for _, e := range expects {
					rule, inst, _ := strings.Cut(e, "|")
					if o.Rule == rule && strings.Contains(o.Instance, inst) {
						return mutantResult{name, "detected", o.Key()}
					}
				}
			}
			return mutantResult{name, "MISSED", ""}
		}()
		results = append(results, res)
		switch {
		case res.Outcome == "detected":
			rep.Ok("selftest", "mutant:"+name, "-", "seeded/regression mutant is reported by "+res.By)
		case res.Outcome == "MISSED":
			rep.Undec("selftest", "mutant:"+name, "-", "rule blind to mutant "+name+" (expected "+strings.Join(expects, ", ")+"): the check no longer detects a change it is known to have detected")
		default:
			rep.Notes = append(rep.Notes, "mutant "+name+": "+res.Outcome)
		}
	}
	return results
}

func firstLine(s string) string {
	s = strings.TrimSpace(s)
	if i := strings.IndexByte(s, '\n'); i >= 0 {
		s = s[:i]
	}
	if len(s) > 200 {
		s = s[:200]
	}
	return s
}
