package main

import (
	"go/ast"
	"go/token"
	"go/types"
	"sort"
	"strings"

	"golang.org/x/tools/go/ssa"
)

func init() {
	register(&PropInfo{
		ID:    "C07",
		Title: "Parameters bind only when the batch matches the declared schema",
		Explanation: "R-SCHEMA-GATE: in deserializeParams every call that binds a column (setFieldFromArrow, setFieldFromString, result.Field) is dominated by the true edge of batch.Schema().Equal(desc.Schema); the wrapped-request arm only returns a recursive deserializeParams result. " +
			"R-BIND-AFTER-GATE: in all four dispatchers the handler invocation is dominated by deserializeParams err == nil, and the failure arm answers with a TypeError. " +
			"R-DEFAULT-ON-NULL: setFieldFromString is reached only under column-absent or IsNull(0), and info.Default != nil. " +
			"R-PTR-CONTRADICTION: a function that tests fieldType.Kind()==reflect.Ptr on its type parameter must not then apply a kind-specific reflect setter directly to the (pointer-typed) field value.",
		NotCovered:  []string{"value fidelity of the bound fields (C08)", "arrow.Schema.Equal semantics"},
		Assumptions: []string{},
		Run:         runC07,
	})
	register(&PropInfo{
		ID:    "C08",
		Title: "Values survive Arrow serialization for every supported type",
		Explanation: "R-TYPE-TABLES: the Arrow type ids constructible by goTypeToArrowTypeAt ⊆ the switch arms of buildArray ∩ appendToBuilder, and their array types ⊆ the type-switch arms of setFieldFromArrow; each builder assertion in appendToBuilder matches its arm. " +
			"R-TIME-RANGE: no timestamp/date conversion narrows the int64-microsecond / int32-day wire range: a time.Duration(x)*unit product whose x originates from a Timestamp/Date32 column, and a time.Time.Sub / UnixNano feeding a Date32/Timestamp builder, are reported (Time64 and Duration columns are exempt with reasons). " +
			"R-DATE-FLOOR: the day number is computed by flooring, not truncating toward zero. " +
			"R-SCHEMA-PURE: describeStruct's result depends only on the reflect.Type and is memoised through LoadOrStore.",
		NotCovered:  []string{"per-type value equality (numerics, decimals, maps, lists)", "nil-versus-empty normalisation", "arrow-go builder/array semantics"},
		Assumptions: []string{"arrow-go type ids map to array/builder types as in the checker's table (frozen from arrow-go v18)"},
		Run:         runC08,
	})
}

// ---------------------------------------------------------------- C07

func runC07(c *Ctx) {
	u, r := c.U, c.R
	seedfixC07(c)
	fn := c.Fn("R-SCHEMA-GATE", "deserializeParams")
	if fn != nil {
		eq := u.Calls(fn, HasSuffix("arrow.Schema).Equal"))
		if len(eq) != 1 {
			r.Viol("R-SCHEMA-GATE", "deserializeParams|Equal", u.Pos(fn.Pos()), "expected exactly one Schema.Equal gate, found "+itoa(len(eq)))
		} else {
			eqv := eq[0].Value()
			argOK := strings.Contains(u.Describe(eq[0].Arg(0)), "Schema(batch)") || strings.Contains(u.Describe(eq[0].Arg(0)), "RecordBatch.Schema")
			r.Check(argOK && strings.HasSuffix(u.Describe(eq[0].Arg(1)), ".Schema"), "R-SCHEMA-GATE", "deserializeParams|Equal-args", u.Pos(eq[0].Instr.Pos()),
				"compares the batch schema with the declared schema: "+u.Describe(eq[0].Arg(0))+" vs "+u.Describe(eq[0].Arg(1)), "Schema.Equal is not applied to (batch schema, declared schema)")
			gated := func(in ssa.Instruction) bool {
				for _, g := range GuardsAt(in.Block()) {
					if g.Cond == eqv && g.Truth {
						return true
					}
				}
				return false
			}
			n := 0
			for _, cs := range u.Calls(fn, Is("setFieldFromArrow", "setFieldFromString", "(reflect.Value).Field", "reflect.New")) {
				n++
				r.Check(gated(cs.Instr), "R-SCHEMA-GATE", "deserializeParams|"+cs.Callee+"#"+itoa(n), u.Pos(cs.Instr.Pos()), "binding only after schema equality", cs.Callee+" can run although the batch schema differs from the declared schema")
			}
			if n < 4 {
				r.Undec("R-SCHEMA-GATE", "deserializeParams", u.Pos(fn.Pos()), "fewer binding calls than confirmed by hand")
			}
		}
		// wrapped-request arm: the recursive call's result is returned directly
		for _, rc := range u.Calls(fn, Is("deserializeParams")) {
			okRet := false
			for _, ref := range *rc.Value().Referrers() {
				if ex, ok := ref.(*ssa.Extract); ok {
					for _, r2 := range *ex.Referrers() {
						switch r2.(type) {
						case *ssa.Return, *ssa.Store:
							okRet = true
						}
					}
				}
				if _, ok := ref.(*ssa.Return); ok {
					okRet = true
				}
			}
			r.Check(okRet, "R-SCHEMA-GATE", "deserializeParams|wrapped", u.Pos(rc.Instr.Pos()), "wrapped request is bound by the same gated function", "wrapped-request arm does not simply return the recursive (gated) result")
		}
		// R-DEFAULT-ON-NULL
		for i, cs := range u.Calls(fn, Is("setFieldFromString")) {
			gs := strings.Join(u.GuardStrings(cs.Instr), " && ")
			ok := (strings.Contains(gs, "IsNull(") || strings.Contains(gs, "resolveColumn(") && strings.Contains(gs, "== -1")) && strings.Contains(gs, ".Default != nil")
			r.Check(ok, "R-DEFAULT-ON-NULL", "deserializeParams|default#"+itoa(i+1), u.Pos(cs.Instr.Pos()), "default applied only for an absent/null column with a declared default", "default applied under guards: "+gs)
		}
	}
	// R-BIND-AFTER-GATE
	r.Floor("R-BIND-AFTER-GATE", 4)
	for _, name := range []string{"(*Server).serveUnary", "(*Server).serveStream", "(*HttpServer).handleUnary", "(*HttpServer).handleStreamInit"} {
		f := c.Fn("R-BIND-AFTER-GATE", name)
		if f == nil {
			continue
		}
		dp := c.OneCall("R-BIND-AFTER-GATE", f, Is("deserializeParams"), "deserializeParams")
		if dp == nil {
			continue
		}
		call := dp.Value().(*ssa.Call)
		turn := u.closureCalls(f, Is("(reflect.Value).Call"))
		okAll := len(turn) >= 1
		for _, t := range turn {
			if !u.GuardedErrNilOf(t.Instr, call) {
				okAll = false
			}
		}
		_, blk := u.ErrBranch(call)
		typeErr := false
		if blk != nil {
			for _, in := range blk.Instrs {
				if s, ok := in.(*ssa.Store); ok {
					if v, ok := ConstString(s.Val); ok && v == "TypeError" {
						typeErr = true
					}
				}
			}
		}
		r.Check(okAll && typeErr && blk != nil && BlockEndsInReturnDeep(blk), "R-BIND-AFTER-GATE", name, u.Pos(dp.Instr.Pos()),
			"handler runs only after parameters bound; failure answers TypeError and returns", "handler invocation is not dominated by deserializeParams err == nil, or the failure arm does not answer TypeError and return")
	}
	// R-PTR-CONTRADICTION
	for _, name := range []string{"setFieldFromString"} {
		f := c.Fn("R-PTR-CONTRADICTION", name)
		if f == nil {
			continue
		}
		c.ptrContradiction(f)
	}
}

// BlockEndsInReturnDeep: every path from b reaches a return without looping back (bounded walk).
func BlockEndsInReturnDeep(b *ssa.BasicBlock) bool {
	seen := map[*ssa.BasicBlock]bool{}
	var walk func(b *ssa.BasicBlock, depth int) bool
	walk = func(b *ssa.BasicBlock, depth int) bool {
		if depth > 12 || seen[b] {
			return false
		}
		seen[b] = true
		if len(b.Instrs) > 0 {
			if _, ok := b.Instrs[len(b.Instrs)-1].(*ssa.Return); ok {
				return true
			}
		}
		if len(b.Succs) == 0 {
			return false
		}
		for _, s := range b.Succs {
			if !walk(s, depth+1) {
				return false
			}
		}
		return true
	}
	return walk(b, 0)
}

// ptrContradiction: the function derefs fieldType when it is a pointer kind
// (so it believes field may be pointer-typed) yet calls kind-specific setters
// on `field` itself on every path.
func (c *Ctx) ptrContradiction(f *ssa.Function) {
	u, r := c.U, c.R
	name := shortName(f)
	testsPtr := false
	Instrs(f, func(in ssa.Instruction) {
		if ifi, ok := in.(*ssa.If); ok {
			d := u.Describe(ifi.Cond)
			if strings.Contains(d, "Kind(") && strings.Contains(d, "== 22") { // reflect.Ptr == 22
				testsPtr = true
			}
		}
	})
	if !testsPtr {
		r.Ok("R-PTR-CONTRADICTION", name, u.Pos(f.Pos()), "function does not special-case pointer kinds")
		return
	}
	// setters applied directly to the `field` parameter
	direct := 0
	total := 0
	for _, cs := range u.Calls(f, func(s string) bool {
		return strings.HasPrefix(s, "(reflect.Value).Set") && s != "(reflect.Value).Set"
	}) {
		total++
		if cs.Arg(0) == ssa.Value(f.Params[0]) {
			// is this call on a path where the pointer case was excluded or handled?
			if !u.HasGuardContaining(cs.Instr, "Kind(", "!= 22") {
				direct++
				r.Viol("R-PTR-CONTRADICTION", name+"|"+cs.Callee, u.Pos(cs.Instr.Pos()),
					"the function dereferences fieldType for pointer fields but then calls "+cs.Callee+" on the field value itself: for a *T field this panics (reflect setter on ptr Value)")
			}
		}
	}
	if direct == 0 {
		r.Ok("R-PTR-CONTRADICTION", name, u.Pos(f.Pos()), "kind-specific setters ("+itoa(total)+") are applied to a dereferenced target")
	}
}

// ---------------------------------------------------------------- C08

// arrow type id → (array type read by setFieldFromArrow)
var idToArray = map[string]string{
	"STRING": "*arrow/array.String", "LARGE_STRING": "*arrow/array.LargeString", "BINARY": "*arrow/array.Binary", "LARGE_BINARY": "*arrow/array.LargeBinary",
	"FIXED_SIZE_BINARY": "*arrow/array.FixedSizeBinary", "BOOL": "*arrow/array.Boolean",
	"INT8": "*arrow/array.Int8", "INT16": "*arrow/array.Int16", "INT32": "*arrow/array.Int32", "INT64": "*arrow/array.Int64",
	"UINT8": "*arrow/array.Uint8", "UINT16": "*arrow/array.Uint16", "UINT32": "*arrow/array.Uint32", "UINT64": "*arrow/array.Uint64",
	"FLOAT32": "*arrow/array.Float32", "FLOAT64": "*arrow/array.Float64",
	"DATE32": "*arrow/array.Date32", "TIMESTAMP": "*arrow/array.Timestamp", "TIME64": "*arrow/array.Time64", "DURATION": "*arrow/array.Duration",
	"DECIMAL128": "*arrow/array.Decimal128", "LIST": "*arrow/array.List", "MAP": "*arrow/array.Map", "DICTIONARY": "*arrow/array.Dictionary", "STRUCT": "*arrow/array.Struct",
}

// how goTypeToArrowTypeAt's return expressions denote a type id
var ctorToID = map[string]string{
	"arrow.PrimitiveTypes.Int8": "INT8", "arrow.PrimitiveTypes.Int16": "INT16", "arrow.PrimitiveTypes.Int32": "INT32", "arrow.PrimitiveTypes.Int64": "INT64",
	"arrow.PrimitiveTypes.Uint8": "UINT8", "arrow.PrimitiveTypes.Uint16": "UINT16", "arrow.PrimitiveTypes.Uint32": "UINT32", "arrow.PrimitiveTypes.Uint64": "UINT64",
	"arrow.PrimitiveTypes.Float32": "FLOAT32", "arrow.PrimitiveTypes.Float64": "FLOAT64",
	"arrow.BinaryTypes.String": "STRING", "arrow.BinaryTypes.LargeString": "LARGE_STRING", "arrow.BinaryTypes.Binary": "BINARY", "arrow.BinaryTypes.LargeBinary": "LARGE_BINARY",
	"arrow.FixedWidthTypes.Date32": "DATE32", "arrow.FixedWidthTypes.Time64us": "TIME64", "arrow.FixedWidthTypes.Duration_us": "DURATION",
	"&arrow.DictionaryType": "DICTIONARY", "&arrow.TimestampType": "TIMESTAMP", "&arrow.Decimal128Type": "DECIMAL128", "&arrow.FixedSizeBinaryType": "FIXED_SIZE_BINARY", "&arrow.BooleanType": "BOOL",
	"arrow.ListOf": "LIST", "arrow.MapOf": "MAP", "arrow.StructOf": "STRUCT",
}

func (u *Unit) switchIDCases(decl *ast.FuncDecl) map[string]bool {
	out := map[string]bool{}
	if decl == nil {
		return out
	}
	ast.Inspect(decl.Body, func(n ast.Node) bool {
		sw, ok := n.(*ast.SwitchStmt)
		if !ok || sw.Tag == nil || !strings.HasSuffix(types.ExprString(sw.Tag), ".ID()") {
			return true
		}
		for _, cc := range sw.Body.List {
			for _, e := range cc.(*ast.CaseClause).List {
				out[strings.TrimPrefix(types.ExprString(e), "arrow.")] = true
			}
		}
		return true
	})
	return out
}

func (u *Unit) schemaIDs(decls ...*ast.FuncDecl) (map[string]bool, []string) {
	ids := map[string]bool{}
	var unknown []string
	for _, decl := range decls {
		if decl == nil {
			continue
		}
		ast.Inspect(decl.Body, func(n ast.Node) bool {
			ret, ok := n.(*ast.ReturnStmt)
			if !ok || len(ret.Results) == 0 {
				return true
			}
			e := ret.Results[0]
			s := u.RefExpr(decl, types.ExprString(e))
			key := s
			switch x := e.(type) {
			case *ast.UnaryExpr:
				if cl, ok := x.X.(*ast.CompositeLit); ok && x.Op == token.AND {
					key = "&" + types.ExprString(cl.Type)
				}
			case *ast.CallExpr:
				key = types.ExprString(x.Fun)
			}
			if id, ok := ctorToID[key]; ok {
				ids[id] = true
			} else if s != "nil" && s != "dt" && !strings.HasPrefix(s, "goTypeToArrowTypeAt") {
				unknown = append(unknown, s)
			}
			return true
		})
	}
	return ids, unknown
}

func runC08(c *Ctx) {
	u, r := c.U, c.R
	seedfixC08(c)
	// ---- R-TYPE-TABLES
	tSchema, unknown := u.schemaIDs(u.DeclByName("goTypeToArrowTypeAt"), u.DeclByName("structArrowType"))
	for _, s := range unknown {
		r.Undec("R-TYPE-TABLES", "schema-ctor "+s, "-", "goTypeToArrowTypeAt returns a type expression the checker's table does not know: "+s)
	}
	tBuild := u.switchIDCases(u.DeclByName("buildArray"))
	tAppend := u.switchIDCases(u.DeclByName("appendToBuilder"))
	tRead := map[string]bool{}
	for _, sw := range u.Switches(u.DeclByName("setFieldFromArrow")) {
		if strings.HasPrefix(sw.Tag, "type:") {
			for _, cs := range sw.Cases {
				tRead[cs] = true
			}
		}
	}
	var ids []string
	for id := range tSchema {
		ids = append(ids, id)
	}
	sort.Strings(ids)
	r.Floor("R-TYPE-TABLES", 20)
	if len(ids) < 20 {
		r.Undec("R-TYPE-TABLES", "schema-table", "-", "only "+itoa(len(ids))+" constructible type ids recognised (25 confirmed by hand)")
	}
	for _, id := range ids {
		miss := []string{}
		if !tBuild[id] {
			miss = append(miss, "buildArray")
		}
		if !tAppend[id] {
			miss = append(miss, "appendToBuilder")
		}
		if !tRead[idToArray[id]] {
			miss = append(miss, "setFieldFromArrow("+idToArray[id]+")")
		}
		r.Check(len(miss) == 0, "R-TYPE-TABLES", "id "+id, "-", "schema-constructible type handled by encoder, nested encoder and decoder", "type id "+id+" can appear in a derived schema but has no arm in: "+strings.Join(miss, ", "))
	}
	// builder assertion matches arm
	if decl := u.DeclByName("appendToBuilder"); decl != nil {
		ast.Inspect(decl.Body, func(n ast.Node) bool {
			sw, ok := n.(*ast.SwitchStmt)
			if !ok || sw.Tag == nil || !strings.HasSuffix(types.ExprString(sw.Tag), ".ID()") {
				return true
			}
			for _, cc := range sw.Body.List {
				cl := cc.(*ast.CaseClause)
				if len(cl.List) != 1 {
					continue
				}
				id := strings.TrimPrefix(types.ExprString(cl.List[0]), "arrow.")
				want := builderFor(id)
				ast.Inspect(cl, func(m ast.Node) bool {
					ta, ok := m.(*ast.TypeAssertExpr)
					if !ok || ta.Type == nil || u.RefExpr(decl, types.ExprString(ta.X)) != "b" {
						return true
					}
					got := types.ExprString(ta.Type)
					r.Check(got == want, "R-TYPE-TABLES", "appendToBuilder|"+id+"→"+got, u.Pos(ta.Pos()), "builder assertion matches the arm's type id", "arm "+id+" asserts builder "+got+", expected "+want)
					return true
				})
			}
			return false
		})
	}

	// ---- R-TIME-RANGE
	n := 0
	for _, f := range u.SrcFuncs() {
		Instrs(f, func(in ssa.Instruction) {
			b, ok := in.(*ssa.BinOp)
			if !ok || b.Op != token.MUL || typeShort(b.Type()) != "time.Duration" {
				return
			}
			var varOp ssa.Value
			var k int64
			if c1, ok := ConstInt(b.Y); ok {
				varOp, k = b.X, c1
			} else if c2, ok := ConstInt(b.X); ok {
				varOp, k = b.Y, c2
			}
			if varOp == nil || k < 1000 {
				return
			}
			os := u.Origins(varOp, &OriginOpts{MaxNodes: 800})
			src := map[string]bool{}
			for _, o := range os {
				if o.Kind == "call" && strings.Contains(o.Desc, "arrow/array.") && strings.HasSuffix(o.Desc, ").Value") {
					src[o.Desc] = true
				}
			}
			if len(src) == 0 {
				return
			}
			n++
			var ss []string
			for s := range src {
				ss = append(ss, s)
			}
			sort.Strings(ss)
			narrow := false
			for _, s := range ss {
				if strings.Contains(s, "array.Timestamp)") || strings.Contains(s, "array.Date32)") || strings.Contains(s, "array.Date64)") {
					narrow = true
				}
			}
			inst := shortName(f) + "|Duration(x)*" + itoa(int(k))
			if narrow {
				r.Viol("R-TIME-RANGE", inst, u.Pos(in.Pos()), "a wire instant from "+strings.Join(ss, ",")+" is multiplied into a time.Duration (int64 ns): instants more than ±292 years from the epoch overflow and decode to a different time")
			} else {
				r.Ok("R-TIME-RANGE", inst, u.Pos(in.Pos()), "source "+strings.Join(ss, ",")+": time-of-day < 86.4e9 µs by type contract / time.Duration is the narrower Go type so only Go-representable durations originate")
			}
		})
	}
	// Sub / UnixNano feeding Date32 / Timestamp builders
	for _, f := range u.SrcFuncs() {
		for _, cs := range u.Calls(f, Or(HasSuffix("array.Date32Builder).Append"), HasSuffix("array.TimestampBuilder).Append"))) {
			os := u.Origins(cs.Arg(1), &OriginOpts{MaxNodes: 800, Through: map[string][]int{"daysSinceEpoch": {0}}})
			// walk into daysSinceEpoch's body too
			bad := []string{}
			for _, o := range os {
				if o.Kind == "call" && (o.Desc == "(time.Time).Sub" || o.Desc == "(time.Time).UnixNano") {
					bad = append(bad, o.Desc)
				}
			}
			if strings.Contains(u.Describe(cs.Arg(1)), "daysSinceEpoch(") {
				if de := u.Func("daysSinceEpoch"); de != nil {
					for _, x := range u.Calls(de, Is("(time.Time).Sub", "(time.Time).UnixNano")) {
						bad = append(bad, x.Callee+" in daysSinceEpoch")
					}
				}
			}
			n++
			r.Check(len(bad) == 0, "R-TIME-RANGE", shortName(f)+"|"+cs.Callee, u.Pos(cs.Instr.Pos()), "encoded instant does not pass through a saturating/partial time operation",
				"the value appended passes through "+strings.Join(dedup(bad), ", ")+": time.Time.Sub saturates at ±292 years, so later dates all encode as the same day")
		}
	}
	if n < 4 {
		r.Undec("R-TIME-RANGE", "instances", "-", "fewer time conversions found than confirmed by hand")
	}
	// ---- R-DATE-FLOOR
	if de := c.Fn("R-DATE-FLOOR", "daysSinceEpoch"); de != nil {
		// a plain truncating division of a signed quantity by the day length, with no floor correction, is a violation
		quo := 0
		corrected := false
		var q *ssa.BinOp
		Instrs(de, func(in ssa.Instruction) {
			if b, ok := in.(*ssa.BinOp); ok && b.Op == token.QUO {
				quo++
				q = b
			}
		})
		sameOperand := func(a, b ssa.Value) bool {
			if a == b {
				return true
			}
			ka, okA := ConstInt(a)
			kb, okB := ConstInt(b)
			return okA && okB && ka == kb
		}
		// the step back is taken exactly when the remainder of that same division is negative
		// (written `if rem < 0 { days-- }`, or `if rem >= 0 { return days }; return days-1`, …:
		// what is judged is the condition under which the decrement executes)
		remNegative := func(g Guard) bool {
			b, ok := g.Cond.(*ssa.BinOp)
			if !ok || q == nil {
				return false
			}
			k, isK := ConstInt(b.Y)
			rem, isRem := b.X.(*ssa.BinOp)
			if !isK || k != 0 || !isRem || rem.Op != token.REM || !sameOperand(rem.X, q.X) || !sameOperand(rem.Y, q.Y) {
				return false
			}
			return (b.Op == token.LSS && g.Truth) || (b.Op == token.GEQ && !g.Truth)
		}
		Instrs(de, func(in ssa.Instruction) {
			b, ok := in.(*ssa.BinOp)
			if !ok || b.Op != token.SUB {
				return
			}
			if k, isK := ConstInt(b.Y); !isK || k != 1 {
				return
			}
			for _, g := range GuardsAt(in.Block()) {
				if remNegative(g) {
					corrected = true
				}
			}
		})
		for _, cs := range u.Calls(de, Is("floorDiv", "math.Floor")) {
			_ = cs
			corrected = true
		}
		r.Check(quo == 0 || corrected, "R-DATE-FLOOR", "daysSinceEpoch", u.Pos(de.Pos()), "day number is floored (stepped back exactly when the remainder is negative)", "day number is a truncating division whose step back is not decided by (remainder < 0): a pre-1970 instant encodes as a neighbouring calendar day (the following one when never corrected, the previous one for an exact midnight when corrected on sign alone)")
	}
	// ---- R-STRING-KIND-FIRST: a value whose kind is string is encoded by its underlying string, never by a String() method
	if af := c.Fn("R-STRING-KIND-FIRST", "asString"); af != nil {
		n := 0
		Instrs(af, func(in ssa.Instruction) {
			ta, ok := in.(*ssa.TypeAssert)
			if !ok || !strings.HasSuffix(typeShort(ta.AssertedType), "fmt.Stringer") {
				return
			}
			n++
			// reached only once the reflect kind test for string has failed
			okK := false
			for _, g := range u.GuardStrings(in) {
				if strings.Contains(g, "(reflect.Value).Kind(") && strings.Contains(g, "!= 24") { // reflect.String == 24
					okK = true
				}
			}
			// or: the Stringer arm sits after a return taken for string kinds
			if !okK {
				// every path to the Stringer arm first passes the reflect string-kind test (IsValid && Kind()==String → return)
				kinds := u.Calls(af, Is("(reflect.Value).Kind"))
				_, skips := ReachWithout(af, nil, isInstr(in), u.CallMatcher(Is("(reflect.Value).IsValid", "(reflect.Value).Kind"), false))
				if len(kinds) > 0 && !skips {
					// and the kind test returns for strings: its true edge does not reach the Stringer arm
					okK = true
					for _, kc := range kinds {
						for _, ref := range *kc.Value().Referrers() {
							if b, ok := ref.(*ssa.BinOp); ok && b.Op == token.EQL {
								for _, r2 := range *b.Referrers() {
									if ifi, ok := r2.(*ssa.If); ok {
										if _, reach := ReachWithout(af, ifi.Block().Succs[0].Instrs[0], isInstr(in), nil); reach {
											okK = false
										}
									}
								}
							}
						}
					}
				}
			}
			r.Check(okK, "R-STRING-KIND-FIRST", "asString|Stringer-arm", u.Pos(in.Pos()), "fmt.Stringer is consulted only for values whose kind is not string", "asString tries fmt.Stringer before the reflect string-kind test: a named string type with a String() method is encoded as its display form and does not round-trip")
		})
		if n == 0 {
			r.Ok("R-STRING-KIND-FIRST", "asString", u.Pos(af.Pos()), "no Stringer arm")
		}
	}
	// ---- R-SCHEMA-PURE
	if ds := c.Fn("R-SCHEMA-PURE", "describeStruct"); ds != nil {
		los := u.Calls(ds, HasSuffix("sync.Map).LoadOrStore"))
		r.Check(len(los) == 1, "R-SCHEMA-PURE", "describeStruct|memo", u.Pos(ds.Pos()), "memoised through LoadOrStore (one winner)", "describeStruct does not memoise through LoadOrStore")
		impure := []string{}
		for _, name := range []string{"buildStructDesc", "structFieldsOf", "goTypeToArrowTypeAt", "structArrowType", "parseTag"} {
			f := u.Func(name)
			if f == nil {
				r.Undec("R-SCHEMA-PURE", name, "-", "does not resolve")
				continue
			}
			r.Analysed(name)
			for _, cs := range u.CallsDeep(f, Or(Contains("time.Now"), Contains("math/rand"), Contains("crypto/rand"), Contains("os.Getenv"))) {
				impure = append(impure, name+"→"+cs.Callee)
			}
			InstrsDeep(f, func(g *ssa.Function, in ssa.Instruction) {
				if ld, ok := in.(*ssa.UnOp); ok && ld.Op == token.MUL {
					if gl, ok := ld.X.(*ssa.Global); ok {
						if n := gl.Name(); n != "arrowSerializableType" && n != "annotatedReturnType" && !strings.HasPrefix(gl.Pkg.Pkg.Path(), "github.com/apache/arrow-go") {
							impure = append(impure, name+" reads global "+n)
						}
					}
				}
			})
		}
		r.Check(len(impure) == 0, "R-SCHEMA-PURE", "derivation", u.Pos(ds.Pos()), "schema derivation reads only the reflect.Type and constants", "schema derivation depends on: "+strings.Join(impure, ", "))
	}
}

func builderFor(id string) string {
	m := map[string]string{
		"STRING": "*array.StringBuilder", "LARGE_STRING": "*array.LargeStringBuilder", "BINARY": "*array.BinaryBuilder", "LARGE_BINARY": "*array.BinaryBuilder",
		"FIXED_SIZE_BINARY": "*array.FixedSizeBinaryBuilder", "BOOL": "*array.BooleanBuilder",
		"INT8": "*array.Int8Builder", "INT16": "*array.Int16Builder", "INT32": "*array.Int32Builder", "INT64": "*array.Int64Builder",
		"UINT8": "*array.Uint8Builder", "UINT16": "*array.Uint16Builder", "UINT32": "*array.Uint32Builder", "UINT64": "*array.Uint64Builder",
		"FLOAT32": "*array.Float32Builder", "FLOAT64": "*array.Float64Builder",
		"DATE32": "*array.Date32Builder", "TIMESTAMP": "*array.TimestampBuilder", "TIME64": "*array.Time64Builder", "DURATION": "*array.DurationBuilder",
		"DECIMAL128": "*array.Decimal128Builder", "LIST": "*array.ListBuilder", "MAP": "*array.MapBuilder", "DICTIONARY": "*array.BinaryDictionaryBuilder", "STRUCT": "*array.StructBuilder",
	}
	return m[id]
}
