package main

import (
	"strings"

	"golang.org/x/tools/go/ssa"
)

func init() {
	register(&PropInfo{
		ID:    "C42",
		Title: "Socket listeners serve connections independently and shut down only when idle",
		Explanation: "R-CONN-ISOLATION: serveUnixConn, serveTcpConn and ServeWithContext hand serveOne the connection itself as both reader and writer and a freshly allocated per-connection shmConnState — nothing shared flows into the framing. " +
			"R-IDLE-LOCK: in RunUnix/RunTcp every access to active, timer and shutdown happens with mu held (directly, or in the arm/disarm helpers whose every call site holds mu). R-TIMER-CLOSE: the idle timer closes the listener only under active == 0 (and holding mu). R-ARM-COND: a finished connection re-arms the timer only under active == 0 ∧ idleTimeout > 0 ∧ !shutdown. R-ACCEPT-COUNT: after every successful Accept active is incremented and the timer disarmed before the connection goroutine starts. " +
			"R-SOCKET-FILE: RunUnix chmods the socket 0600 before announcing it (onBound) and before accepting, and registers the deferred remove before any return that follows a successful Listen. R-SIBLINGS: the same rules are evaluated on RunUnix and RunTcp.",
		NotCovered:  []string{"the Accept/timer race window and other schedule-dependent claims", "file-system permission semantics", "the discarded Chmod error"},
		Assumptions: []string{},
		Run:         runC42,
	})
}

// closureNamesOf returns the closure function names v may denote (through local cells).
func (u *Unit) closureNamesOf(v ssa.Value) []string {
	var out []string
	for _, o := range u.Origins(v, &OriginOpts{MaxNodes: 60}) {
		if o.Kind == "other" && strings.HasPrefix(o.Desc, "closure:") {
			out = append(out, strings.TrimPrefix(o.Desc, "closure:"))
		}
	}
	return out
}

func runC42(c *Ctx) {
	u, r := c.U, c.R
	seedfixC42(c)
	// ---- R-CONN-ISOLATION
	for _, name := range []string{"(*Server).serveUnixConn", "(*Server).serveTcpConn", "(*Server).ServeWithContext"} {
		fn := c.Fn("R-CONN-ISOLATION", name)
		if fn == nil {
			continue
		}
		for _, cs := range u.Calls(fn, Is("(*Server).serveOne")) {
			rd, wr, shm := cs.Arg(2), cs.Arg(3), cs.Arg(4)
			okRW := true
			for _, v := range []ssa.Value{rd, wr} {
				x := v
				if mi, ok := x.(*ssa.MakeInterface); ok {
					x = mi.X
				}
				if ci, ok := x.(*ssa.ChangeInterface); ok {
					x = ci.X
				}
				if _, isParam := x.(*ssa.Parameter); !isParam {
					okRW = false
				}
			}
			if name != "(*Server).ServeWithContext" {
				strip := func(v ssa.Value) ssa.Value {
					for {
						switch y := v.(type) {
						case *ssa.MakeInterface:
							v = y.X
						case *ssa.ChangeInterface:
							v = y.X
						default:
							return v
						}
					}
				}
				okRW = okRW && strip(rd) == strip(wr)
			}
			al, fresh := shm.(*ssa.Alloc)
			okS := fresh && al.Heap && al.Parent() == fn
			r.Check(okRW && okS, "R-CONN-ISOLATION", name, u.Pos(cs.Instr.Pos()), "serveOne frames on this connection's own reader/writer and a fresh shm state", "serveOne is given a reader/writer/shm state that is not private to this connection: "+u.Describe(rd)+", "+u.Describe(wr)+", "+u.Describe(shm))
		}
	}
	// ---- idle logic on both listeners
	for _, name := range []string{"(*Server).RunUnix", "(*Server).RunTcp"} {
		fn := c.Fn("R-IDLE-LOCK", name)
		if fn == nil {
			continue
		}
		all := WithAnon(fn)
		vars := map[string]bool{"active": true, "timer": true, "shutdown": true}
		accessVar := func(in ssa.Instruction) string {
			var addr ssa.Value
			switch x := in.(type) {
			case *ssa.Store:
				addr = x.Addr
			case *ssa.UnOp:
				addr = x.X
			default:
				return ""
			}
			switch a := addr.(type) {
			case *ssa.Alloc:
				if vars[u.VarName(a)] && a.Parent() == fn {
					return u.VarName(a)
				}
			case *ssa.FreeVar:
				if vars[u.VarName(a)] {
					return u.VarName(a)
				}
			}
			return ""
		}
		// which closures lock mu themselves
		selfLock := map[*ssa.Function]bool{}
		for _, g := range all {
			if len(u.Calls(g, Is("(*sync.Mutex).Lock"))) > 0 {
				selfLock[g] = true
			}
		}
		callerHolds := map[*ssa.Function]bool{}
		n := 0
		for _, g := range all {
			held := u.LockHeldAt(g)
			Instrs(g, func(in ssa.Instruction) {
				v := accessVar(in)
				if v == "" {
					return
				}
				n++
				if held[in]["mu"] {
					return
				}
				if !selfLock[g] && g != fn {
					callerHolds[g] = true // helper: checked at its call sites below
					return
				}
				r.Viol("R-IDLE-LOCK", name+"|"+shortName(g)+"|"+v, u.Pos(in.Pos()), "idle-shutdown state `"+v+"` accessed without holding mu")
			})
		}
		// call sites of caller-holds helpers
		for _, g := range all {
			held := u.LockHeldAt(g)
			Instrs(g, func(in ssa.Instruction) {
				ci, ok := in.(ssa.CallInstruction)
				if !ok {
					return
				}
				var targets []*ssa.Function
				switch f := ci.Common().Value.(type) {
				case *ssa.MakeClosure:
					targets = append(targets, f.Fn.(*ssa.Function))
				default:
					if !ci.Common().IsInvoke() {
						for _, cn := range u.closureNamesOf(ci.Common().Value) {
							for _, h := range all {
								if u.qualName(h) == cn {
									targets = append(targets, h)
								}
							}
						}
					}
				}
				for _, t := range targets {
					if !callerHolds[t] {
						continue
					}
					okH := held[in]["mu"]
					// a helper calling another helper inherits the caller's lock
					if !okH && callerHolds[g] {
						okH = true
					}
					r.Check(okH, "R-IDLE-LOCK", name+"|call "+shortName(t)+" from "+shortName(g), u.Pos(in.Pos()), "helper touching the idle state is called with mu held", "the idle-state helper "+shortName(t)+" is called without mu held")
				}
			})
		}
		r.Check(n >= 10, "R-IDLE-LOCK", name+"|accesses", u.Pos(fn.Pos()), itoa(n)+" accesses to active/timer/shutdown examined", "only "+itoa(n)+" accesses found")

		// R-TIMER-CLOSE: the AfterFunc callback
		var timerFn *ssa.Function
		for _, g := range all {
			for _, cs := range u.Calls(g, Is("time.AfterFunc")) {
				if mc, ok := cs.Arg(1).(*ssa.MakeClosure); ok {
					timerFn = mc.Fn.(*ssa.Function)
				}
			}
		}
		if timerFn == nil {
			r.Viol("R-TIMER-CLOSE", name, u.Pos(fn.Pos()), "idle timer callback not found")
		} else {
			held := u.LockHeldAt(timerFn)
			k := 0
			for _, cs := range u.Calls(timerFn, Or(HasSuffix("Listener).Close"), HasSuffix("net.Listener.Close"))) {
				k++
				ok := held[cs.Instr]["mu"] && u.HasGuardContaining(cs.Instr, "(active == 0)")
				r.Check(ok, "R-TIMER-CLOSE", name+"|timer-close", u.Pos(cs.Instr.Pos()), "listener closed by the timer only with zero open connections, under mu", "the idle timer can close the listener while a connection is open (not under active == 0 ∧ mu)")
			}
			if k == 0 {
				r.Viol("R-TIMER-CLOSE", name+"|timer-close", u.Pos(timerFn.Pos()), "timer callback never closes the listener")
			}
			sd := false
			Instrs(timerFn, func(in ssa.Instruction) {
				if accessVar(in) == "shutdown" {
					if st, ok := in.(*ssa.Store); ok && u.HasGuardContaining(st, "(active == 0)") {
						sd = true
					}
				}
			})
			r.Check(sd, "R-TIMER-CLOSE", name+"|shutdown-flag", u.Pos(timerFn.Pos()), "shutdown is flagged together with the close", "shutdown flag not set under active == 0")
		}
		// R-ARM-COND: the connection goroutine
		var connFn *ssa.Function
		var goInstr *ssa.Go
		Instrs(fn, func(in ssa.Instruction) {
			if g, ok := in.(*ssa.Go); ok {
				if mc, ok := g.Call.Value.(*ssa.MakeClosure); ok {
					connFn = mc.Fn.(*ssa.Function)
					goInstr = g
				}
			}
		})
		if connFn == nil {
			r.Viol("R-ARM-COND", name, u.Pos(fn.Pos()), "connection goroutine not found")
		} else {
			armed := 0
			Instrs(connFn, func(in ssa.Instruction) {
				ci, ok := in.(*ssa.Call)
				if !ok || ci.Call.IsInvoke() {
					return
				}
				isArm := false
				for _, cn := range u.closureNamesOf(ci.Call.Value) {
					for _, h := range all {
						if u.qualName(h) == cn && len(u.Calls(h, Is("time.AfterFunc"))) > 0 {
							isArm = true
						}
					}
				}
				if !isArm {
					return
				}
				armed++
				j := strings.Join(u.GuardStrings(in), " && ")
				ok2 := strings.Contains(j, "(active == 0)") && strings.Contains(j, "(idleTimeout > 0)") && strings.Contains(j, "!shutdown")
				r.Check(ok2, "R-ARM-COND", name+"|re-arm", u.Pos(in.Pos()), "re-armed only when idle, enabled and not shutting down", "the idle timer is re-armed under: "+j)
			})
			if armed == 0 {
				r.Viol("R-ARM-COND", name+"|re-arm", u.Pos(connFn.Pos()), "a finished connection never re-arms the idle timer")
			}
			// active-- under lock precedes the test
			dec := false
			Instrs(connFn, func(in ssa.Instruction) {
				if st, ok := in.(*ssa.Store); ok && accessVar(in) == "active" {
					if b, ok := st.Val.(*ssa.BinOp); ok && b.Op.String() == "-" {
						dec = true
					}
				}
			})
			r.Check(dec, "R-ARM-COND", name+"|active--", u.Pos(connFn.Pos()), "a finished connection decrements active", "active is not decremented when a connection ends")
			// R-ACCEPT-COUNT
			inc := false
			Instrs(fn, func(in ssa.Instruction) {
				if st, ok := in.(*ssa.Store); ok && accessVar(in) == "active" {
					if b, ok := st.Val.(*ssa.BinOp); ok && b.Op.String() == "+" && Dominates(in, goInstr) {
						inc = true
					}
				}
			})
			r.Check(inc && u.HasGuardContaining(goInstr, "Accept(", "== nil"), "R-ACCEPT-COUNT", name, u.Pos(goInstr.Pos()), "active incremented after each successful Accept, before the connection goroutine starts", "the connection goroutine can start without active having been incremented (the idle timer could fire while it runs)")
		}
	}
	// ---- R-SOCKET-FILE
	if fn := u.Func("(*Server).RunUnix"); fn != nil {
		ch := u.Calls(fn, Is("os.Chmod"))
		ob := u.Calls(fn, func(s string) bool { return strings.HasPrefix(s, "dyn:onBound") })
		ac := u.Calls(fn, HasSuffix("UnixListener).Accept"))
		ok := len(ch) == 1 && len(ob) == 1 && len(ac) == 1
		if ok {
			mode, _ := ConstInt(ch[0].Arg(1))
			ok = mode == 0o600 && u.Describe(ch[0].Arg(0)) == "path" && Dominates(ch[0].Instr, ob[0].Instr) && Dominates(ch[0].Instr, ac[0].Instr)
		}
		r.Check(ok, "R-SOCKET-FILE", "RunUnix|owner-only", u.Pos(fn.Pos()), "socket chmod 0600 before it is announced or accepted on", "the socket file is not made owner-only (0600) before onBound/Accept")
		// deferred remove
		var dfr *ssa.Defer
		Instrs(fn, func(in ssa.Instruction) {
			if d, ok := in.(*ssa.Defer); ok {
				if mc, ok := d.Call.Value.(*ssa.MakeClosure); ok && len(u.Calls(mc.Fn.(*ssa.Function), Is("os.Remove"))) == 1 {
					dfr = d
				}
			}
		})
		okD := dfr != nil
		if okD {
			Instrs(fn, func(in ssa.Instruction) {
				if _, isRet := in.(*ssa.Return); isRet && !InRecoverBlock(in) && u.HasGuardContaining(in, "net.Listen(", "== nil") && !Dominates(dfr, in) {
					okD = false
				}
			})
		}
		r.Check(okD, "R-SOCKET-FILE", "RunUnix|removed-on-return", u.Pos(fn.Pos()), "the socket file's removal is deferred before any return after a successful Listen", "a return after a successful Listen is not covered by the deferred os.Remove")
	}
}
