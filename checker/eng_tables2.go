package main

import (
	"go/ast"
)

// globalRegexPattern returns the constant pattern of a package-level
// `var x = regexp.MustCompile(<const>)`.
func (c *Ctx) globalRegexPattern(name string) (string, bool) {
	u := c.U
	call, ok := u.globalInit(name).(*ast.CallExpr)
	if !ok || len(call.Args) != 1 {
		return "", false
	}
	sel, ok := call.Fun.(*ast.SelectorExpr)
	if !ok || (sel.Sel.Name != "MustCompile" && sel.Sel.Name != "MustCompilePOSIX") {
		return "", false
	}
	return u.constOf(call.Args[0])
}
