package main

import (
	"go/token"
	"sort"
	"strings"

	"golang.org/x/tools/go/ssa"
)

func init() {
	register(&PropInfo{
		ID:    "C27",
		Title: "Browser OAuth login keeps its state, cookie and redirects safe",
		Explanation: "R-COOKIE-MAC-FIRST: in unpackOAuthCookie every read of the payload is dominated by ConstantTimeCompare(received, expected) == 1, and every variable-bound slice of it by its pos+len <= len(payload) test. " +
			"R-STATE-BEFORE-EXCHANGE: exchangeCodeForToken is dominated by cookie unpack err == nil and ConstantTimeCompare(state, expectedState) == 1. " +
			"R-LOCATION-PROVENANCE: the leading component of every Location value set in the _oauth handlers (and http.Redirect target) originates only from validateOriginalURL(..), validateReturnTo(..), the returnTo unpacked from the MAC-verified cookie, the server prefix / \"/\", or the OIDC authorization endpoint; the values packed into the cookie are themselves validator results. " +
			"R-TOKEN-SINKS: bearer tokens never reach a log call. " +
			"R-VALIDATORS: validateReturnTo returns its input only under scheme ∈ {http,https} ∧ host ≠ \"\" ∧ (localhost∧http ∨ allowlist hit); validateOriginalURL returns it only under scheme==\"\" ∧ host==\"\" ∧ prefix test. " +
			"R-LEN-PREFIX: every 16-bit length prefix written by packOAuthCookie frames a value whose length is bounded (validator caps) at each call site.",
		NotCovered:  []string{"net/url parsing quirks (backslashes, control characters)", "field-order agreement of pack/unpack for all values", "the IdP's behaviour"},
		Assumptions: []string{"HMAC-SHA256 is unforgeable without the session key"},
		Run:         runC27,
	})
	register(&PropInfo{
		ID:    "C28",
		Title: "Client-side parsing recovers exactly what the WWW-Authenticate header advertises",
		Explanation: "R-PARAM-NAMES: the parameter names the parsers look up (constants passed to parseQuotedParam) ⊆ the names buildWWWAuthenticate can emit (from its format strings); and because a reader that locates name=\" by raw substring search would match inside a longer name, either no emitted name has another looked-up name as a proper suffix, or the reader enforces a token boundary (recognised: a check of the byte before the match, a search key with a leading separator, or Split+HasPrefix tokenisation). " +
			"R-VALUES-SAFE: every interpolated metadata field is constrained by a validation pattern in Validate (no quote characters).",
		NotCovered:  []string{"values containing characters outside the validated alphabet", "HTTP header folding"},
		Assumptions: []string{},
		Run:         runC28,
	})
}

func leftmost(v ssa.Value) ssa.Value {
	for {
		b, ok := v.(*ssa.BinOp)
		if !ok || b.Op != token.ADD {
			return v
		}
		v = b.X
	}
}

func runC27(c *Ctx) {
	u, r := c.U, c.R
	seedfixC27(c)
	// ---- R-COOKIE-MAC-FIRST
	if fn := c.Fn("R-COOKIE-MAC-FIRST", "unpackOAuthCookie"); fn != nil {
		cmp := u.Calls(fn, Is("crypto/subtle.ConstantTimeCompare"))
		if len(cmp) != 1 {
			r.Viol("R-COOKIE-MAC-FIRST", "unpackOAuthCookie|compare", u.Pos(fn.Pos()), "expected one constant-time MAC comparison")
		} else {
			macOK := func(in ssa.Instruction) bool {
				return u.HasGuardContaining(in, "crypto/subtle.ConstantTimeCompare(", "== 1)")
			}
			// payload = raw[:len(raw)-32]: find the Slice named payload (the first slice of raw)
			n := 0
			Instrs(fn, func(in ssa.Instruction) {
				var base ssa.Value
				var hi ssa.Value
				switch x := in.(type) {
				case *ssa.Slice:
					base, hi = x.X, x.High
				case *ssa.IndexAddr:
					base = x.X
				default:
					return
				}
				d := u.Describe(base)
				if !strings.Contains(d, "DecodeString") || !strings.Contains(d, "[:") {
					return // not a read of payload (raw[:len(raw)-32])
				}
				n++
				if !macOK(in) {
					r.Viol("R-COOKIE-MAC-FIRST", "unpackOAuthCookie|payload-read#"+itoa(n), u.Pos(in.Pos()), "payload bytes are read before/without the MAC having verified")
					return
				}
				if hi != nil {
					if _, isC := hi.(*ssa.Const); !isC {
						hd := u.Describe(hi)
						bounded := false
						for _, g := range u.GuardStrings(in) {
							if strings.HasPrefix(g, "("+hd+" <= len(") {
								bounded = true
							}
						}
						if !bounded {
							r.Viol("R-COOKIE-MAC-FIRST", "unpackOAuthCookie|slice-bound#"+itoa(n), u.Pos(in.Pos()), "payload[..:"+hd+"] is not dominated by "+hd+" <= len(payload)")
							return
						}
					}
				}
				r.Ok("R-COOKIE-MAC-FIRST", "unpackOAuthCookie|payload-read#"+itoa(n), u.Pos(in.Pos()), "after MAC verification, within bounds")
			})
			if n < 8 {
				r.Undec("R-COOKIE-MAC-FIRST", "unpackOAuthCookie", u.Pos(fn.Pos()), "fewer payload reads recognised than confirmed by hand")
			}
			// MAC is over the payload with the session key
			for _, h := range u.Calls(fn, Is("crypto/hmac.New")) {
				r.Check(u.Describe(h.Arg(1)) == "sessionKey", "R-COOKIE-MAC-FIRST", "unpackOAuthCookie|mac-key", u.Pos(h.Instr.Pos()), "MAC keyed with the session key", "MAC key is "+u.Describe(h.Arg(1)))
			}
			// age check present on success
			Instrs(fn, func(in ssa.Instruction) {
				ret, ok := in.(*ssa.Return)
				if !ok || InRecoverBlock(in) {
					return
				}
				ev := ReturnValue(ret, 4)
				if cst, isC := ev.(*ssa.Const); isC && cst.Value == nil {
					j := strings.Join(u.GuardStrings(in), " && ")
					// maxAge > 0 ⇒ 0 <= age <= maxAge : the success return must not be reachable from the "expired" test's true edge
					okV := strings.Contains(j, "== 1)") && strings.Contains(j, "[0] == 1)") || strings.Contains(j, "== 1)")
					r.Check(okV, "R-COOKIE-MAC-FIRST", "unpackOAuthCookie|success", u.Pos(in.Pos()), "success only after MAC and version checks", "success under: "+j)
				}
			})
			// the expiry refusal exists and is guarded by maxAge > 0
			exp := false
			for _, cs := range u.Calls(fn, Is("fmt.Errorf")) {
				if s, _ := ConstString(cs.Arg(0)); strings.Contains(s, "expired") && u.HasGuardContaining(cs.Instr, "maxAge > 0") {
					exp = true
				}
			}
			r.Check(exp, "R-COOKIE-MAC-FIRST", "unpackOAuthCookie|expiry", u.Pos(fn.Pos()), "expired cookies are refused when a max age is set", "no expiry refusal under maxAge > 0")
		}
	}
	// ---- R-STATE-BEFORE-EXCHANGE
	cb := c.Fn("R-STATE-BEFORE-EXCHANGE", "(*HttpServer).handleOAuthCallback")
	if cb != nil {
		ex := u.Calls(cb, Is("exchangeCodeForToken"))
		up := u.Calls(cb, Is("unpackOAuthCookie"))
		if len(ex) != 1 || len(up) != 1 {
			r.Undec("R-STATE-BEFORE-EXCHANGE", "handleOAuthCallback", u.Pos(cb.Pos()), "exchange/unpack call not unique")
		} else {
			upc := up[0].Value().(*ssa.Call)
			okU := u.GuardedErrNilOf(ex[0].Instr, upc)
			okS := false
			for _, cs := range u.Calls(cb, Is("crypto/subtle.ConstantTimeCompare")) {
				a0, a1 := u.Describe(cs.Arg(0)), u.Describe(cs.Arg(1))
				if strings.Contains(a0+a1, `(net/url.Values).Get(`) && strings.Contains(a0+a1, `"state")`) && strings.Contains(a0+a1, "unpackOAuthCookie(") && strings.Contains(a0+a1, ")#1") {
					for _, g := range GuardsAt(ex[0].Instr.Block()) {
						if b, ok := g.Cond.(*ssa.BinOp); ok && (b.X == cs.Value() || b.Y == cs.Value()) {
							k, _ := ConstInt(b.Y)
							if (b.Op == token.EQL && g.Truth && k == 1) || (b.Op == token.NEQ && !g.Truth && k == 1) {
								okS = true
							}
						}
						// the comparison conjoined with other tests into a local (`m := len(a) == len(b) && cmp == 1`):
						// the boolean is true only along the edge that evaluated cmp == 1
						if phi, ok := g.Cond.(*ssa.Phi); ok && g.Truth {
							conj := len(phi.Edges) > 0
							sawCmp := false
							for _, e := range phi.Edges {
								if k, isK := e.(*ssa.Const); isK && k.Value != nil && k.Value.String() == "false" {
									continue
								}
								if b, isB := e.(*ssa.BinOp); isB && (b.X == cs.Value() || b.Y == cs.Value()) && b.Op == token.EQL {
									if k, _ := ConstInt(b.Y); k == 1 {
										sawCmp = true
										continue
									}
								}
								conj = false
							}
							if conj && sawCmp {
								okS = true
							}
						}
					}
				}
			}
			r.Check(okU && okS, "R-STATE-BEFORE-EXCHANGE", "handleOAuthCallback", u.Pos(ex[0].Instr.Pos()), "code exchanged only after the cookie verified and the returned state equals the packed state", "exchangeCodeForToken runs without (cookie ok="+boolStr(okU)+", state equality="+boolStr(okS)+")")
			// the verifier used is the cookie's
			r.Check(strings.Contains(u.Describe(ex[0].Arg(3)), "unpackOAuthCookie(") && strings.HasSuffix(u.Describe(ex[0].Arg(3)), "#0"), "R-STATE-BEFORE-EXCHANGE", "handleOAuthCallback|verifier", u.Pos(ex[0].Instr.Pos()), "PKCE verifier comes from the verified cookie", "code verifier is "+u.Describe(ex[0].Arg(3)))
		}
	}
	// ---- R-LOCATION-PROVENANCE
	r.Floor("R-LOCATION-PROVENANCE", 5)
	okOrigin := func(o Origin) bool {
		switch {
		case o.Kind == "call" && (o.Desc == "validateOriginalURL" || o.Desc == "validateReturnTo"):
			return true
		case o.Kind == "call" && o.Desc == "unpackOAuthCookie#3":
			return true
		case o.Kind == "call" && strings.HasPrefix(o.Desc, "dyn:") && strings.Contains(o.Desc, "oidcDiscovery") && strings.HasSuffix(o.Desc, "#0"):
			return true
		case o.Kind == "field" && (o.Desc == "oauthPkceState.prefix" || o.Desc == "HttpServer.prefix" || o.Desc == "HttpServer.pkce"):
			return true
		case o.Kind == "const":
			return true
		case o.Kind == "param" && strings.HasPrefix(o.Desc, "h@"):
			return true
		case o.Kind == "param" && strings.Contains(o.Desc, "@(*HttpServer).Set"):
			return true // operator configuration (SetPrefix)
		}
		return false
	}
	for _, name := range []string{"(*HttpServer).handleOAuthCallback", "(*HttpServer).handleOAuthLogout", "(*HttpServer).pkceRedirectToOAuth", "(*HttpServer).pkceEarlyReturnRedirect", "(*HttpServer).handleOAuthTokenProxy"} {
		fn := c.Fn("R-LOCATION-PROVENANCE", name)
		if fn == nil {
			continue
		}
		var targets []struct {
			v  ssa.Value
			at ssa.Instruction
		}
		for _, cs := range u.Calls(fn, Is("(net/http.Header).Set")) {
			if s, _ := ConstString(cs.Arg(1)); s == "Location" {
				targets = append(targets, struct {
					v  ssa.Value
					at ssa.Instruction
				}{cs.Arg(2), cs.Instr})
			}
		}
		for _, cs := range u.Calls(fn, Is("net/http.Redirect")) {
			targets = append(targets, struct {
				v  ssa.Value
				at ssa.Instruction
			}{cs.Arg(2), cs.Instr})
		}
		for i, t := range targets {
			lm := leftmost(t.v)
			os := u.Origins(lm, &OriginOpts{MaxNodes: 400})
			var bad []string
			for _, o := range os {
				if !okOrigin(o) {
					bad = append(bad, o.Kind+":"+o.Desc)
				}
			}
			r.Check(len(bad) == 0, "R-LOCATION-PROVENANCE", name+"|Location#"+itoa(i+1), u.Pos(t.at.Pos()), "redirect target starts with {"+OriginSummary(os)+"}", "redirect target's leading component has unvalidated origins: "+strings.Join(bad, ", "))
		}
	}
	// values packed into the cookie are validator results
	for _, cs := range u.CallSitesOf(Is("packOAuthCookie")) {
		for idx, want := range map[int]string{2: "validateOriginalURL", 3: "validateReturnTo"} {
			d := u.Describe(cs.Arg(idx))
			r.Check(strings.HasPrefix(d, want+"("), "R-LOCATION-PROVENANCE", shortName(cs.Fn)+"|pack-arg"+itoa(idx), u.Pos(cs.Instr.Pos()), "cookie field is "+want+"(..)", "value packed into the login cookie is "+d+", not a "+want+" result")
		}
	}
	// ---- R-TOKEN-SINKS
	if cb != nil {
		for _, ex := range u.Calls(cb, Is("exchangeCodeForToken")) {
			for _, idx := range []int{0, 2, 3} {
				v := ExtractOf(ex.Value().(*ssa.Call), idx)
				if v == nil {
					continue
				}
				hits := u.Taint(v, &TaintOpts{Neutral: map[string]bool{"len": true}, Sanitizers: map[string]bool{"identityCookieValue": true},
					Sink: func(callee string, argIdx int, cs CallSite) bool { return strings.HasPrefix(callee, "log/slog.") || strings.HasPrefix(callee, "fmt.Print") }})
				r.Check(len(hits) == 0, "R-TOKEN-SINKS", "handleOAuthCallback|token#"+itoa(idx), u.Pos(ex.Instr.Pos()), "token value never logged", "token flows to a log call: "+hitSummary(hits))
			}
		}
	}
	// ---- R-VALIDATORS
	if vf := c.Fn("R-VALIDATORS", "validateReturnTo"); vf != nil {
		Instrs(vf, func(in ssa.Instruction) {
			ret, ok := in.(*ssa.Return)
			if !ok || ret.Results[0] != ssa.Value(vf.Params[0]) {
				return
			}
			gs := u.GuardStrings(in)
			j := strings.Join(gs, " && ")
			base := strings.Contains(j, `!= "")`) && strings.Contains(j, "<= 2048)") && strings.Contains(j, "url.Parse(u)#1 == nil)") && strings.Contains(j, ".Host != \"\")")
			// scheme test: either (== "http") or (== "https") known, or the conjunction of != negations absent
			schemeOK := !strings.Contains(j, "Scheme != ") // the refusal `scheme != http && scheme != https` is an && → its false edge has 2 preds; accept structural check below
			_ = schemeOK
			allow := false
			for _, g := range gs {
				if strings.HasPrefix(g, "allowedOrigins[") {
					allow = true
				}
			}
			local := strings.Contains(j, "isLocalhost(") && !strings.Contains(j, "!isLocalhost(") && strings.Contains(j, `.Scheme == "http")`)
			r.Check(base && (allow || local), "R-VALIDATORS", "validateReturnTo|return u", u.Pos(in.Pos()), "input returned only for an allowlisted origin or http://localhost", "validateReturnTo returns its input under: "+j)
		})
		// the scheme refusal exists
		schemeRef := false
		Instrs(vf, func(in ssa.Instruction) {
			if ifi, ok := in.(*ssa.If); ok {
				d := u.Describe(ifi.Cond)
				// written as a refusal (`!= "http" && != "https"`) or as a switch over the two accepted schemes
				if strings.Contains(d, `.Scheme != "https"`) || strings.Contains(d, `.Scheme != "http"`) || strings.Contains(d, `.Scheme == "https"`) {
					schemeRef = true
				}
			}
		})
		r.Check(schemeRef, "R-VALIDATORS", "validateReturnTo|scheme", u.Pos(vf.Pos()), "non-http(s) schemes refused", "no scheme test found")
		// allowlist keys are built from scheme + hostname (+ port)
		for _, cs := range u.Calls(vf, Is("fmt.Sprintf")) {
			f, _ := ConstString(cs.Arg(0))
			r.Check(f == "%s://%s" || f == "%s://%s:%s", "R-VALIDATORS", "validateReturnTo|origin-key "+f, u.Pos(cs.Instr.Pos()), "allowlist key is scheme://hostname[:port]", "allowlist key format is "+f)
		}
	}
	if vf := c.Fn("R-VALIDATORS", "validateOriginalURL"); vf != nil {
		Instrs(vf, func(in ssa.Instruction) {
			ret, ok := in.(*ssa.Return)
			if !ok {
				return
			}
			d := u.Describe(ret.Results[0])
			if d == "prefix" || d == `"/"` {
				return
			}
			j := strings.Join(u.GuardStrings(in), " && ")
			okG := strings.Contains(j, `.Scheme == "")`) && strings.Contains(j, `.Host == "")`) && strings.Contains(j, "#1 == nil)")
			// prefix test: reached from (prefix == "") or HasPrefix true
			okP := true
			for _, p := range in.Block().Preds {
				ifi, isIf := p.Instrs[len(p.Instrs)-1].(*ssa.If)
				if !isIf {
					okP = false
					continue
				}
				pd := u.Describe(ifi.Cond)
				fromTrue := p.Succs[0] == in.Block()
				if strings.Contains(pd, `prefix != ""`) && !fromTrue {
					continue
				}
				if strings.Contains(pd, "strings.HasPrefix(") && ((strings.HasPrefix(pd, "!") && !fromTrue) || (!strings.HasPrefix(pd, "!") && fromTrue)) {
					continue
				}
				okP = false
			}
			r.Check(okG && okP, "R-VALIDATORS", "validateOriginalURL|return u", u.Pos(in.Pos()), "input returned only as a scheme-less, host-less path under the prefix", "validateOriginalURL returns "+d+" under: "+j)
		})
	}
	// ---- R-LEN-PREFIX
	if pf := c.Fn("R-LEN-PREFIX", "packOAuthCookie"); pf != nil {
		// which parameters are framed with a 16-bit length
		framed := map[int]bool{}
		Instrs(pf, func(in ssa.Instruction) {
			cv, ok := in.(*ssa.Convert)
			if !ok || typeShort(cv.Type()) != "uint16" {
				return
			}
			for i, p := range pf.Params {
				if strings.Contains(u.Describe(cv.X), "conv:[]byte("+u.VarName(p)+")") {
					framed[i] = true
				}
			}
		})
		var idxs []int
		for i := range framed {
			idxs = append(idxs, i)
		}
		sort.Ints(idxs)
		if len(idxs) < 4 {
			r.Undec("R-LEN-PREFIX", "packOAuthCookie", u.Pos(pf.Pos()), "fewer than 4 length-prefixed fields recognised")
		}
		bounded := map[string]string{
			"generateCodeVerifier": "fixed-size random verifier", "generateStateNonce": "fixed-size random nonce",
			"validateOriginalURL": "truncates to maxOriginalURLLen", "validateReturnTo": "refuses inputs over 2048 bytes",
		}
		for _, cs := range u.Callers(pf) {
			for _, i := range idxs {
				call := rootCall(cs.Arg(i))
				name := ""
				if call != nil {
					name = u.CalleeName(&call.Call)
				}
				why, ok := bounded[name]
				r.Check(ok, "R-LEN-PREFIX", shortName(cs.Fn)+"|"+u.VarName(pf.Params[i]), u.Pos(cs.Instr.Pos()), "16-bit framed field is length-bounded: "+name+" ("+why+")", "field "+u.VarName(pf.Params[i])+" is framed with a 16-bit length but its value "+u.Describe(cs.Arg(i))+" has no length bound: a value over 65535 bytes shifts the later fields on unpack")
			}
		}
		// the two bounding validators really bound
		if vf := u.Func("validateOriginalURL"); vf != nil {
			okT := false
			Instrs(vf, func(in ssa.Instruction) {
				if sl, ok := in.(*ssa.Slice); ok && sl.X == ssa.Value(vf.Params[0]) && u.HasGuardContaining(in, "len(u) >") {
					okT = true
				}
			})
			k, _ := u.ConstValue("maxOriginalURLLen")
			r.Check(okT && len(k) <= 5, "R-LEN-PREFIX", "validateOriginalURL|truncates", u.Pos(vf.Pos()), "input truncated to maxOriginalURLLen="+k, "validateOriginalURL no longer truncates its input (maxOriginalURLLen="+k+")")
		}
	}
}

// ---------------------------------------------------------------- C28

func runC28(c *Ctx) {
	u, r := c.U, c.R
	runC28Extra(c)
	bf := c.Fn("R-PARAM-NAMES", "buildWWWAuthenticate")
	pq := c.Fn("R-PARAM-NAMES", "parseQuotedParam")
	if bf == nil || pq == nil {
		return
	}
	// W: names in format strings / constants of buildWWWAuthenticate
	W := map[string]bool{}
	nameRe := mustRe(`([a-z_]+)="`)
	Instrs(bf, func(in ssa.Instruction) {
		for _, op := range in.Operands(nil) {
			if s, ok := ConstString(*op); ok {
				for _, m := range nameRe.FindAllStringSubmatch(s, -1) {
					W[m[1]] = true
				}
			}
		}
	})
	// R: constants passed to parseQuotedParam
	R := map[string]bool{}
	for _, cs := range u.CallSitesOf(Is("parseQuotedParam")) {
		if s, ok := ConstString(cs.Arg(1)); ok {
			R[s] = true
		} else {
			r.Undec("R-PARAM-NAMES", shortName(cs.Fn), u.Pos(cs.Instr.Pos()), "non-constant parameter name")
		}
	}
	// id-token flag parser may search directly
	var ws, rs []string
	for w := range W {
		ws = append(ws, w)
	}
	for x := range R {
		rs = append(rs, x)
	}
	sort.Strings(ws)
	sort.Strings(rs)
	r.Floor("R-PARAM-NAMES", 5)
	if len(W) < 6 || len(R) < 5 {
		r.Undec("R-PARAM-NAMES", "tables", "-", "writer names {"+strings.Join(ws, ",")+"} / reader names {"+strings.Join(rs, ",")+"}: fewer than confirmed by hand")
	}
	for _, x := range rs {
		r.Check(W[x], "R-PARAM-NAMES", "reader⊆writer "+x, u.Pos(pq.Pos()), "looked-up parameter is one the server emits", "parser looks up "+x+" which buildWWWAuthenticate never emits")
	}
	// boundary enforcement in parseQuotedParam
	boundary := c.readerEnforcesBoundary(pq)
	for _, w := range ws {
		for _, x := range rs {
			if w != x && strings.HasSuffix(w, x) {
				r.Check(boundary, "R-PARAM-NAMES", "suffix "+x+"⊂"+w, u.Pos(pq.Pos()),
					"the reader enforces a token boundary, so "+x+" is not found inside "+w,
					"parseQuotedParam finds `"+x+"=\"` by raw substring search and the server also emits `"+w+"=\"`: when "+x+" is absent the value of "+w+" is returned for it")
			}
		}
	}
	// R-VALUES-SAFE: Validate constrains interpolated fields
	if vf := c.Fn("R-VALUES-SAFE", "(*OAuthResourceMetadata).Validate"); vf != nil {
		checked := map[string]bool{}
		for _, cs := range u.Calls(vf, Is("(*regexp.Regexp).MatchString")) {
			d := u.Describe(cs.Arg(1))
			if i := strings.LastIndex(d, "."); i >= 0 {
				checked[d[i+1:]] = true
			}
		}
		// fields interpolated by buildWWWAuthenticate
		interp := map[string]bool{}
		Instrs(bf, func(in ssa.Instruction) {
			if fa, ok := in.(*ssa.FieldAddr); ok && strings.HasPrefix(fieldKey(fa.X.Type(), fa.Field), "OAuthResourceMetadata.") {
				interp[fieldName(fa.X.Type(), fa.Field)] = true
			}
		})
		for f := range interp {
			if f == "UseIDTokenAsBearer" {
				continue // boolean
			}
			r.Check(checked[f], "R-VALUES-SAFE", "field "+f, u.Pos(vf.Pos()), "interpolated field is pattern-validated", "field "+f+" is interpolated into the quoted header value but Validate does not constrain its characters")
		}
	}
}

// readerEnforcesBoundary recognises the idioms by which a substring-search
// parameter reader avoids matching inside a longer parameter name.
func (c *Ctx) readerEnforcesBoundary(fn *ssa.Function) bool {
	u := c.U
	ok := false
	// (a) inspects the byte before the match: header[idx-1]
	Instrs(fn, func(in ssa.Instruction) {
		switch x := in.(type) {
		case *ssa.IndexAddr, *ssa.Index:
			d := u.Describe(x.(ssa.Value))
			if strings.Contains(d, " - 1)]") || strings.Contains(d, "-1]") {
				ok = true
			}
		case *ssa.Lookup:
			d := u.Describe(x)
			if strings.Contains(d, " - 1)]") {
				ok = true
			}
		}
	})
	// (b) tokenises: strings.Split / FieldsFunc / Cut + HasPrefix on a trimmed token
	if len(u.Calls(fn, Is("strings.Split", "strings.FieldsFunc", "strings.Fields", "strings.SplitN"))) > 0 && len(u.Calls(fn, Is("strings.HasPrefix", "strings.CutPrefix"))) > 0 {
		ok = true
	}
	// (c) search key built with a leading separator constant
	for _, cs := range u.Calls(fn, Is("strings.Index", "strings.Contains", "strings.LastIndex")) {
		d := u.Describe(cs.Arg(1))
		if strings.HasPrefix(d, `(" `) || strings.HasPrefix(d, `(", `) || strings.HasPrefix(d, `(","`) {
			ok = true
		}
	}
	return ok
}
