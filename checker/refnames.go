package main

import (
	"encoding/json"
	"fmt"
	"go/ast"
	"go/token"
	"go/types"
	"os"
	"regexp"
	"sort"

	"golang.org/x/tools/go/ssa"
)

// Alpha-equivalence normalisation.
//
// Rules are written in terms of the variable names the tree had when each rule
// was confirmed by reading (receiver `h`, parameter `requestID`, local
// `expected`, …). Names of receivers, parameters, results and locals are not
// part of a program's behaviour, so a rename must not change a verdict. The
// checker therefore keeps a reference table (/verif/refnames.json): for every
// function declaration, the sequence (name, type) of all variables declared
// inside it in source order. When a tree is analysed, each declaration whose
// current sequence has the same length and the same types is aligned with the
// reference position by position and its variables are rendered under their
// reference names. A declaration whose variable structure changed is left as it
// is (names as written), so nothing is hidden: the table only removes the
// dependence on spelling.

type refVar struct {
	Name string `json:"n"`
	Type string `json:"t"`
}

const refNamesFile = "/verif/refnames.json"

var refTable map[string][][]refVar // "unit|decl" → alternatives (one per build configuration)

func loadRefTable() {
	if refTable != nil {
		return
	}
	refTable = map[string][][]refVar{}
	b, err := os.ReadFile(refNamesFile)
	if err != nil {
		return
	}
	_ = json.Unmarshal(b, &refTable)
}

func declKey(fd *ast.FuncDecl) string {
	if fd.Recv != nil && len(fd.Recv.List) == 1 {
		return "(" + types.ExprString(fd.Recv.List[0].Type) + ")." + fd.Name.Name
	}
	return fd.Name.Name
}

// declVars lists every variable declared lexically inside fd (receiver,
// parameters, results, locals, closure parameters), in source order.
func (u *Unit) declVars(fd *ast.FuncDecl) ([]refVar, []*types.Var) {
	info := u.Info()
	type pv struct {
		pos token.Pos
		v   *types.Var
	}
	var vs []pv
	ast.Inspect(fd, func(n ast.Node) bool {
		id, ok := n.(*ast.Ident)
		if !ok {
			return true
		}
		if obj, ok := info.Defs[id].(*types.Var); ok && obj != nil && !obj.IsField() && id.Name != "_" {
			vs = append(vs, pv{id.Pos(), obj})
		}
		return true
	})
	sort.Slice(vs, func(i, j int) bool { return vs[i].pos < vs[j].pos })
	q := func(p *types.Package) string {
		if p == u.Root.Types {
			return ""
		}
		return p.Name()
	}
	out := make([]refVar, len(vs))
	objs := make([]*types.Var, len(vs))
	for i, x := range vs {
		out[i] = refVar{x.v.Name(), typeKey(x.v.Type(), q)}
		objs[i] = x.v
	}
	return out, objs
}

// typeKey renders a type without the parameter/result names of function types
// (those names are variables too and may be renamed).
func typeKey(t types.Type, q types.Qualifier) string {
	switch x := t.(type) {
	case *types.Signature:
		var ps, rs []string
		for i := 0; i < x.Params().Len(); i++ {
			s := typeKey(x.Params().At(i).Type(), q)
			if x.Variadic() && i == x.Params().Len()-1 {
				s = "..." + s
			}
			ps = append(ps, s)
		}
		for i := 0; i < x.Results().Len(); i++ {
			rs = append(rs, typeKey(x.Results().At(i).Type(), q))
		}
		return "func(" + joinComma(ps) + ")(" + joinComma(rs) + ")"
	case *types.Pointer:
		return "*" + typeKey(x.Elem(), q)
	case *types.Slice:
		return "[]" + typeKey(x.Elem(), q)
	case *types.Array:
		return fmt.Sprintf("[%d]%s", x.Len(), typeKey(x.Elem(), q))
	case *types.Map:
		return "map[" + typeKey(x.Key(), q) + "]" + typeKey(x.Elem(), q)
	case *types.Chan:
		return fmt.Sprintf("chan%d %s", x.Dir(), typeKey(x.Elem(), q))
	case *types.Tuple:
		var ps []string
		for i := 0; i < x.Len(); i++ {
			ps = append(ps, typeKey(x.At(i).Type(), q))
		}
		return "(" + joinComma(ps) + ")"
	}
	return types.TypeString(t, q)
}

func joinComma(s []string) string {
	out := ""
	for i, x := range s {
		if i > 0 {
			out += ","
		}
		out += x
	}
	return out
}

// nameMaps: per declaration key, current name → reference name.
func (u *Unit) nameMap(key string, fd *ast.FuncDecl) map[string]string {
	if u.nameMaps == nil {
		u.nameMaps = map[string]map[string]string{}
	}
	if m, ok := u.nameMaps[key]; ok {
		return m
	}
	m := map[string]string{}
	u.nameMaps[key] = m
	loadRefTable()
	cur, _ := u.declVars(fd)
	for _, ref := range refTable[u.Name+"|"+key] {
		if len(ref) != len(cur) {
			continue
		}
		same := true
		for i := range ref {
			if ref[i].Type != cur[i].Type {
				same = false
				break
			}
		}
		if !same {
			continue
		}
		conflict := map[string]bool{}
		for i := range ref {
			if old, ok := m[cur[i].Name]; ok && old != ref[i].Name {
				conflict[cur[i].Name] = true
			}
			m[cur[i].Name] = ref[i].Name
		}
		for n := range conflict {
			delete(m, n)
		}
		break
	}
	return m
}

// topDecl returns the declaration that lexically contains fn.
func (u *Unit) topDecl(fn *ssa.Function) (string, *ast.FuncDecl) {
	for fn != nil && fn.Parent() != nil {
		fn = fn.Parent()
	}
	if fn == nil {
		return "", nil
	}
	if fn.Origin() != nil {
		fn = fn.Origin()
	}
	fd := u.Decl(fn)
	if fd == nil {
		return "", nil
	}
	return declKey(fd), fd
}

// RefName maps a variable name as written in fn to its reference name.
func (u *Unit) RefName(fn *ssa.Function, name string) string {
	if name == "" || fn == nil {
		return name
	}
	key, fd := u.topDecl(fn)
	if fd == nil {
		return name
	}
	if r, ok := u.nameMap(key, fd)[name]; ok {
		return r
	}
	return name
}

// VarName is the reference name of the source variable behind an SSA value
// (parameter, free variable, named alloc or phi); "" if it has none.
func (u *Unit) VarName(v ssa.Value) string {
	switch x := v.(type) {
	case *ssa.Parameter:
		return u.RefName(x.Parent(), x.Name())
	case *ssa.FreeVar:
		return u.RefName(x.Parent(), x.Name())
	case *ssa.Alloc:
		return u.RefName(x.Parent(), x.Comment)
	case *ssa.Phi:
		return u.RefName(x.Parent(), x.Comment)
	}
	return ""
}

var identRe = regexp.MustCompile(`[A-Za-z_][A-Za-z0-9_]*`)

// RefExpr rewrites the identifiers of a rendered AST expression to reference names.
func (u *Unit) RefExpr(fd *ast.FuncDecl, s string) string {
	if fd == nil {
		return s
	}
	m := u.nameMap(declKey(fd), fd)
	if len(m) == 0 {
		return s
	}
	return identRe.ReplaceAllStringFunc(s, func(id string) string {
		if r, ok := m[id]; ok {
			return r
		}
		return id
	})
}

// writeRefNames records the reference table from the current tree, for every
// build configuration and unit.
func writeRefNames(repo string) error {
	table := map[string][][]refVar{}
	for _, un := range []string{"vgirpc", "otel", "s3", "gcs"} {
		cfgs := []BuildConfig{defaultConfig}
		if un == "vgirpc" {
			cfgs = configsFor("thorough")
		}
		for _, bc := range cfgs {
			u, err := LoadUnit(repo, un, bc)
			if err != nil {
				return err
			}
			for _, f := range u.Root.Syntax {
				for _, d := range f.Decls {
					fd, ok := d.(*ast.FuncDecl)
					if !ok || fd.Body == nil {
						continue
					}
					vars, _ := u.declVars(fd)
					key := un + "|" + declKey(fd)
					dup := false
					for _, alt := range table[key] {
						if fmt.Sprint(alt) == fmt.Sprint(vars) {
							dup = true
						}
					}
					if !dup {
						table[key] = append(table[key], vars)
					}
				}
			}
		}
	}
	b, err := json.Marshal(table)
	if err != nil {
		return err
	}
	fmt.Println(len(table), "declarations recorded")
	return os.WriteFile(refNamesFile, b, 0o644)
}
