package main

import (
	"go/token"
	"strings"

	"golang.org/x/tools/go/ssa"
)

// c10VersionTable decides checkProtocolVersion's admission and direction rules on
// the finite set of orderings of (client major, server major) × (client minor,
// server minor): for each of the nine combinations the function's CFG is walked
// with every comparison of those components decided by the combination, the
// request taken as present and well-formed. Whatever the shape of the code
// (if-chains, switches, early returns), the outcome must be
//
//	(=,=) → admitted (nil); (<,·) and (=,<) → refusal naming the client;
//	(>,·) and (=,>) → refusal naming the server.
//
// It returns false when the function does not have the expected ingredients (the
// shape-specific rules then judge it).
func c10VersionTable(c *Ctx) bool {
	u, r := c.U, c.R
	f := u.Func("(*Server).checkProtocolVersion")
	if f == nil || len(f.Blocks) == 0 {
		return false
	}
	var parse *ssa.Call
	for _, cs := range u.Calls(f, Is("parseSemver")) {
		if call, ok := cs.Instr.(*ssa.Call); ok {
			parse = call
		}
	}
	if parse == nil {
		return false
	}
	// component classification
	comp := func(v ssa.Value) (side string, idx int) {
		for d := 0; d < 4; d++ {
			switch y := v.(type) {
			case *ssa.Convert:
				v = y.X
				continue
			case *ssa.ChangeType:
				v = y.X
				continue
			case *ssa.Extract:
				if y.Tuple == ssa.Value(parse) && y.Index < 2 {
					return "c", y.Index
				}
			case *ssa.UnOp:
				if ia, ok := y.X.(*ssa.IndexAddr); ok && y.Op == token.MUL {
					if k, isK := ConstInt(ia.Index); isK && k < 2 && strings.Contains(u.Describe(ia.X), "protocolVersionParts") {
						return "s", int(k)
					}
				}
			}
			break
		}
		return "", -1
	}
	type combo [2]int // -1, 0, +1 for client vs server, per component
	evalCmp := func(op token.Token, rel int) bool {
		switch op {
		case token.LSS:
			return rel < 0
		case token.LEQ:
			return rel <= 0
		case token.GTR:
			return rel > 0
		case token.GEQ:
			return rel >= 0
		case token.EQL:
			return rel == 0
		case token.NEQ:
			return rel != 0
		}
		return false
	}
	mode := "wellformed" // | "absent" | "malformed"
	var eval func(v ssa.Value, cb combo) (val, known bool)
	eval = func(v ssa.Value, cb combo) (bool, bool) {
		switch y := v.(type) {
		case *ssa.Parameter:
			if u.VarName(y) == "present" {
				return mode != "absent", true
			}
		case *ssa.UnOp:
			if y.Op == token.NOT {
				if b, ok := eval(y.X, cb); ok {
					return !b, true
				}
			}
		case *ssa.BinOp:
			// err (the parser's last result) against nil
			for _, pr := range [][2]ssa.Value{{y.X, y.Y}, {y.Y, y.X}} {
				if ex, ok := pr[0].(*ssa.Extract); ok && ex.Tuple == ssa.Value(parse) && ex.Index >= 2 && isNilConst(pr[1]) {
					if isErrorType(ex.Type()) {
						if mode == "absent" {
							return false, false
						}
						return (y.Op == token.EQL) == (mode == "wellformed"), true
					}
				}
			}
			sx, ix := comp(y.X)
			sy, iy := comp(y.Y)
			if mode != "wellformed" {
				return false, false // components mean nothing without a parsed version
			}
			if sx != "" && sy != "" && sx != sy && ix == iy {
				rel := cb[ix]
				if sx == "s" { // server OP client
					rel = -rel
				}
				return evalCmp(y.Op, rel), true
			}
		}
		return false, false
	}
	type outcome struct {
		admit bool
		dir   string
		pos   token.Pos
	}
	walk := func(cb combo) ([]outcome, bool) {
		var outs []outcome
		type st struct {
			b   *ssa.BasicBlock
			dir string
		}
		seen := map[st]bool{}
		work := []st{{f.Blocks[0], ""}}
		steps := 0
		for len(work) > 0 {
			steps++
			if steps > 5000 {
				return nil, false
			}
			s := work[len(work)-1]
			work = work[:len(work)-1]
			if seen[s] {
				continue
			}
			seen[s] = true
			dir := s.dir
			for _, in := range s.b.Instrs {
				if b, ok := in.(*ssa.BinOp); ok && b.Op == token.ADD {
					for _, o := range []ssa.Value{b.X, b.Y} {
						if str, isS := ConstString(o); isS {
							if strings.Contains(str, "client is too old") {
								dir = "client"
							} else if strings.Contains(str, "server is too old") {
								dir = "server"
							}
						}
					}
				}
				switch t := in.(type) {
				case *ssa.Return:
					if len(t.Results) == 1 {
						if k, isK := t.Results[0].(*ssa.Const); isK && k.Value == nil {
							outs = append(outs, outcome{true, "", t.Pos()})
						} else {
							// a direction chosen through a phi of constants
							d := dir
							if d == "" {
								desc := u.Describe(t.Results[0])
								_ = desc
							}
							outs = append(outs, outcome{false, d, t.Pos()})
						}
					}
				case *ssa.If:
					if v, ok := eval(t.Cond, cb); ok {
						if v {
							work = append(work, st{s.b.Succs[0], dir})
						} else {
							work = append(work, st{s.b.Succs[1], dir})
						}
					} else {
						work = append(work, st{s.b.Succs[0], dir}, st{s.b.Succs[1], dir})
					}
				case *ssa.Jump:
					work = append(work, st{s.b.Succs[0], dir})
				}
			}
		}
		return outs, true
	}
	names := map[int]string{-1: "<", 0: "=", 1: ">"}
	decided := true
	admitBad, dirBad := "", ""
	var posAdmit, posDir token.Pos
	for _, a := range []int{-1, 0, 1} {
		for _, b := range []int{-1, 0, 1} {
			outs, ok := walk(combo{a, b})
			if !ok || len(outs) == 0 {
				decided = false
				continue
			}
			wantAdmit := a == 0 && b == 0
			wantDir := "server"
			if a < 0 || (a == 0 && b < 0) {
				wantDir = "client"
			}
			for _, o := range outs {
				key := "(major " + names[a] + ", minor " + names[b] + ")"
				switch {
				case o.admit != wantAdmit:
					admitBad += " " + key
					posAdmit = o.pos
				case !o.admit && o.dir == "":
					decided = false // the message's direction could not be followed
				case !o.admit && o.dir != wantDir:
					dirBad += " " + key + "→" + o.dir
					posDir = o.pos
				}
			}
		}
	}
	// an absent or malformed version is never admitted, whatever the components compare to
	for _, m := range []string{"absent", "malformed"} {
		mode = m
		outs, ok := walk(combo{0, 0})
		if !ok || len(outs) == 0 {
			decided = false
		}
		for _, o := range outs {
			if o.admit {
				admitBad += " (" + m + " version)"
				posAdmit = o.pos
			}
		}
	}
	mode = "wellformed"
	if !decided && admitBad == "" && dirBad == "" {
		return false
	}
	r.Check(admitBad == "", "R-SEMVER", "checkProtocolVersion|admit", u.Pos(func() token.Pos {
		if posAdmit.IsValid() {
			return posAdmit
		}
		return f.Pos()
	}()), "admits exactly same major ∧ same minor (all nine orderings of the two components walked)", "checkProtocolVersion's verdict is wrong for the component orderings"+admitBad+" (admitted ⇔ major and minor both equal)")
	r.Check(dirBad == "", "R-DIRECTION", "checkProtocolVersion|client-too-old", u.Pos(func() token.Pos {
		if posDir.IsValid() {
			return posDir
		}
		return f.Pos()
	}()), "client named as the side to upgrade exactly when major < server ∨ (major == server ∧ minor < server) (all orderings walked)", "the refusal names the wrong side for the orderings"+dirBad)
	return true
}
