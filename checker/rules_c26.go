package main

import (
	"sort"
	"strings"

	"golang.org/x/tools/go/ssa"
)

func init() {
	register(&PropInfo{
		ID:    "C26",
		Title: "Token introspection never becomes an open credential oracle",
		Explanation: "R-INTROSPECT-ORDER: in handleIntrospectToken the resolver call is dominated by: feature enabled, authenticate() != nil, auth.Authenticated ∧ allowlisted principal, limiter.allow(caller), readIntrospectToken ok, and ¬JWS-shape; the first read of the subject (readIntrospectToken) is dominated by the first four. " +
			"R-UNIFORM-BODIES: every 403 refusal uses one constant code, every 404 after the feature gate uses \"unresolved\", and the refusal writer formats only the code. " +
			"R-CRED-TAINT: the credential flows to no log call, response write or header — only to TokenDigest (sanitiser), the JWS regex, len and the resolver. " +
			"R-SIZE: the body is read through io.LimitReader(…, 8192+1) with a len > 8192 refusal and the token is capped at 4096. " +
			"R-LIMITER: allow() touches counts under mu and increments only below perWindow.",
		NotCovered:  []string{"what the user-supplied resolver logs or returns", "window-boundary timing of the limiter"},
		Assumptions: []string{},
		Run:         runC26,
	})
}

func runC26(c *Ctx) {
	u, r := c.U, c.R
	fn := c.Fn("R-INTROSPECT-ORDER", "(*HttpServer).handleIntrospectToken")
	if fn == nil {
		return
	}
	res := u.Calls(fn, func(s string) bool { return strings.HasPrefix(s, "dyn:") && strings.Contains(s, ".resolver") })
	rd := u.Calls(fn, Is("readIntrospectToken"))
	au := u.Calls(fn, Is("(*HttpServer).authenticate"))
	if len(res) != 1 || len(rd) != 1 || len(au) != 1 {
		r.Undec("R-INTROSPECT-ORDER", "handleIntrospectToken", u.Pos(fn.Pos()), "resolver/readIntrospectToken/authenticate call not unique")
		return
	}
	common := func(in ssa.Instruction) []string {
		j := strings.Join(u.GuardStrings(in), " && ")
		var missing []string
		if !strings.Contains(j, "(h.introspect != nil)") {
			missing = append(missing, "feature enabled")
		}
		if !GuardedNonNil(in, au[0].Value()) {
			missing = append(missing, "authenticated")
		}
		if !containsAtom(u.GuardStrings(in), "(*HttpServer).authenticate(h, w, r).Authenticated") {
			missing = append(missing, "auth.Authenticated")
		}
		if !strings.Contains(j, ".principals[") || strings.Contains(j, "!h.introspect.principals[") {
			missing = append(missing, "allowlisted principal")
		}
		if !strings.Contains(j, "(*introspectRateLimiter).allow(") || strings.Contains(j, "!(*introspectRateLimiter).allow(") {
			missing = append(missing, "rate limiter")
		}
		return missing
	}
	m1 := common(rd[0].Instr)
	r.Check(len(m1) == 0, "R-INTROSPECT-ORDER", "subject-read", u.Pos(rd[0].Instr.Pos()), "the subject is read only after enable, authenticate, allowlist and rate limit", "readIntrospectToken runs without: "+strings.Join(m1, ", "))
	m2 := common(res[0].Instr)
	j := strings.Join(u.GuardStrings(res[0].Instr), " && ")
	if !strings.Contains(j, "readIntrospectToken(r)#1") || strings.Contains(j, "!readIntrospectToken(r)#1") {
		m2 = append(m2, "subject parsed")
	}
	if !strings.Contains(j, "!(*regexp.Regexp).MatchString(global:introspectJWSShaped") {
		m2 = append(m2, "not JWS-shaped")
	}
	r.Check(len(m2) == 0, "R-INTROSPECT-ORDER", "resolver", u.Pos(res[0].Instr.Pos()), "resolver runs only after all seven gates", "resolver runs without: "+strings.Join(m2, ", "))
	r.Check(res[0].Arg(0) == ExtractOf(rd[0].Value().(*ssa.Call), 0), "R-INTROSPECT-ORDER", "resolver-arg", u.Pos(res[0].Instr.Pos()), "resolver receives the size-checked credential", "resolver receives something other than readIntrospectToken's result")

	// R-UNIFORM-BODIES
	codes := map[int64]map[string]bool{}
	for _, cs := range u.Calls(fn, Is("writeIntrospectRefusal")) {
		st, ok1 := ConstInt(cs.Arg(1))
		code, ok2 := ConstString(cs.Arg(2))
		if !ok1 || !ok2 {
			r.Viol("R-UNIFORM-BODIES", "non-constant refusal", u.Pos(cs.Instr.Pos()), "refusal status/code is not a constant")
			continue
		}
		// the feature-off 404 is a different, pre-auth answer
		if u.HasGuardContaining(cs.Instr, "(h.introspect == nil)") {
			continue
		}
		if codes[st] == nil {
			codes[st] = map[string]bool{}
		}
		codes[st][code] = true
	}
	for _, st := range []int64{403, 404} {
		var cs []string
		for c := range codes[st] {
			cs = append(cs, c)
		}
		sort.Strings(cs)
		want := map[int64]string{403: "not_an_introspector", 404: "unresolved"}[st]
		r.Check(len(cs) == 1 && cs[0] == want, "R-UNIFORM-BODIES", "status "+itoa(int(st)), u.Pos(fn.Pos()), "one fixed body for every "+itoa(int(st)), "status "+itoa(int(st))+" is answered with bodies {"+strings.Join(cs, ",")+"}: refusals are distinguishable")
	}
	if wf := c.Fn("R-UNIFORM-BODIES", "writeIntrospectRefusal"); wf != nil {
		for _, cs := range u.Calls(wf, Is("fmt.Fprintf")) {
			f, _ := ConstString(cs.Arg(1))
			r.Check(f == `{"error":%q}`, "R-UNIFORM-BODIES", "refusal-format", u.Pos(cs.Instr.Pos()), "body carries only the code", "refusal body format is "+f)
		}
	}

	// R-CRED-TAINT
	cred := ExtractOf(rd[0].Value().(*ssa.Call), 0)
	hits := u.Taint(cred, &TaintOpts{
		Sanitizers: map[string]bool{"TokenDigest": true},
		Neutral:    map[string]bool{"len": true, "(*regexp.Regexp).MatchString": true},
		// the operator's resolver is the one consumer that must see the credential; what it returns is its own data
		Stop: func(callee string) bool { return strings.HasPrefix(callee, "dyn:") && strings.Contains(callee, ".resolver") },
		Sink: func(callee string, argIdx int, cs CallSite) bool {
			return true // any other use of the raw credential
		},
	})
	var hs []string
	for _, h := range hits {
		hs = append(hs, h.Site.Callee+"@"+u.Pos(h.Site.Instr.Pos()))
	}
	r.Check(len(hits) == 0, "R-CRED-TAINT", "credential", u.Pos(rd[0].Instr.Pos()), "raw credential reaches only TokenDigest, the JWS regex and the resolver", "raw credential flows into: "+strings.Join(hs, ", "))
	// TokenDigest really hashes
	if td := c.Fn("R-CRED-TAINT", "TokenDigest"); td != nil {
		r.Check(len(u.Calls(td, Is("crypto/sha256.Sum256"))) == 1, "R-CRED-TAINT", "TokenDigest", u.Pos(td.Pos()), "digest is a SHA-256", "TokenDigest does not hash")
	}

	// R-SIZE
	if rf := c.Fn("R-SIZE", "readIntrospectToken"); rf != nil {
		okRead := false
		for _, cs := range u.Calls(rf, Is("io.ReadAll")) {
			d := u.Describe(cs.Arg(0))
			if strings.HasPrefix(d, "io.LimitReader(") && strings.Contains(d, ", 8193)") {
				okRead = true
			}
		}
		r.Check(okRead, "R-SIZE", "bounded-read", u.Pos(rf.Pos()), "body read through LimitReader(8192+1)", "body is not read through io.LimitReader(…, 8193)")
		Instrs(rf, func(in ssa.Instruction) {
			ret, ok := in.(*ssa.Return)
			if !ok {
				return
			}
			if b, isC := ret.Results[1].(*ssa.Const); isC && b.Value != nil && b.Value.String() == "true" {
				j := strings.Join(u.GuardStrings(in), " && ")
				ok := strings.Contains(j, "<= 8192)") && strings.Contains(j, "<= 4096)") && strings.Contains(j, `!= "")`) && strings.Contains(j, "json.Unmarshal(") && strings.Contains(j, "== nil)")
				r.Check(ok, "R-SIZE", "accept", u.Pos(in.Pos()), "token accepted only within both caps", "token accepted under: "+j)
			}
		})
	}
	// R-LIMITER
	if lf := c.Fn("R-LIMITER", "(*introspectRateLimiter).allow"); lf != nil {
		held := u.LockHeldAt(lf)
		n, bad := 0, 0
		Instrs(lf, func(in ssa.Instruction) {
			touch := false
			check := func(v ssa.Value) {
				if fa, ok := v.(*ssa.FieldAddr); ok {
					k := fieldKey(fa.X.Type(), fa.Field)
					if k == "introspectRateLimiter.counts" || k == "introspectRateLimiter.windowStart" {
						touch = true
					}
				}
			}
			if v, ok := in.(ssa.Value); ok {
				check(v)
			}
			if !touch {
				return
			}
			n++
			if !held[in]["l.mu"] {
				bad++
			}
		})
		r.Check(n >= 3 && bad == 0, "R-LIMITER", "allow|locked", u.Pos(lf.Pos()), itoa(n)+" state accesses, all under l.mu", itoa(bad)+" limiter state accesses without l.mu")
		inc := false
		Instrs(lf, func(in ssa.Instruction) {
			if mu, ok := in.(*ssa.MapUpdate); ok && strings.HasSuffix(u.Describe(mu.Map), ".counts") {
				if u.HasGuardContaining(in, "l.counts[key] < l.perWindow") {
					inc = true
				} else {
					r.Viol("R-LIMITER", "allow|increment", u.Pos(in.Pos()), "count incremented without the counts[key] < perWindow guard")
				}
			}
		})
		r.Check(inc, "R-LIMITER", "allow|bounded", u.Pos(lf.Pos()), "admits only while the caller's count is below perWindow", "no guarded increment found")
	}
}
