package main

import (
	"fmt"
	"go/constant"
	"go/token"
	"go/types"
	"strings"

	"golang.org/x/tools/go/ssa"
)

// Describe renders an SSA value as a canonical expression string built from
// resolved constructs (callee objects, field names, constants, parameter
// names) — never from source text or positions.
//
//	call:   "(*HttpServer).authenticate(h, w, r)" / "net/http.Error(...)"
//	invoke: "invoke arrow.RecordBatch.NumRows(batch)"
//	field:  "h.server.methods"
//	extract "resolveCall(...)#1"
func (u *Unit) Describe(v ssa.Value) string { return u.describe(v, 6) }

func (u *Unit) describe(v ssa.Value, depth int) string {
	if v == nil {
		return "<nil>"
	}
	if depth <= 0 {
		return "…"
	}
	switch x := v.(type) {
	case *ssa.Const:
		if x.Value == nil {
			return "nil"
		}
		if x.Value.Kind() == constant.String {
			return fmt.Sprintf("%q", constant.StringVal(x.Value))
		}
		return x.Value.ExactString()
	case *ssa.Parameter:
		return u.RefName(x.Parent(), x.Name())
	case *ssa.FreeVar:
		return u.RefName(x.Parent(), x.Name())
	case *ssa.Global:
		return "global:" + x.Name()
	case *ssa.Function:
		return "func:" + u.qualName(x)
	case *ssa.Builtin:
		return x.Name()
	case *ssa.Alloc:
		if x.Comment != "" {
			return "&" + u.RefName(x.Parent(), x.Comment)
		}
		return "&alloc"
	case *ssa.UnOp:
		if x.Op == token.MUL {
			// load
			switch a := x.X.(type) {
			case *ssa.FieldAddr:
				return u.describe(a.X, depth-1) + "." + fieldName(a.X.Type(), a.Field)
			case *ssa.Alloc:
				if a.Comment != "" {
					return u.RefName(a.Parent(), a.Comment)
				}
				return "*alloc"
			case *ssa.Global:
				return "global:" + a.Name()
			case *ssa.FreeVar:
				return u.RefName(a.Parent(), a.Name())
			case *ssa.IndexAddr:
				return u.describe(a.X, depth-1) + "[" + u.describe(a.Index, depth-1) + "]"
			}
			return "*" + u.describe(x.X, depth-1)
		}
		if x.Op == token.ARROW {
			return "<-" + u.describe(x.X, depth-1)
		}
		return x.Op.String() + u.describe(x.X, depth-1)
	case *ssa.BinOp:
		return "(" + u.describe(x.X, depth-1) + " " + x.Op.String() + " " + u.describe(x.Y, depth-1) + ")"
	case *ssa.FieldAddr:
		return "&" + u.describe(x.X, depth-1) + "." + fieldName(x.X.Type(), x.Field)
	case *ssa.Field:
		return u.describe(x.X, depth-1) + "." + fieldName(x.X.Type(), x.Field)
	case *ssa.IndexAddr:
		return "&" + u.describe(x.X, depth-1) + "[" + u.describe(x.Index, depth-1) + "]"
	case *ssa.Index:
		return u.describe(x.X, depth-1) + "[" + u.describe(x.Index, depth-1) + "]"
	case *ssa.Lookup:
		return u.describe(x.X, depth-1) + "[" + u.describe(x.Index, depth-1) + "]"
	case *ssa.Extract:
		return u.describe(x.Tuple, depth) + "#" + fmt.Sprint(x.Index)
	case *ssa.Call:
		if idx, ok := identityWrappers[u.CalleeName(&x.Call)]; ok && idx < len(x.Call.Args) {
			return u.describe(x.Call.Args[idx], depth)
		}
		return u.describeCall(&x.Call, depth)
	case *ssa.Phi:
		// A phi whose edges all denote the same thing (modulo identity
		// wrappers such as r.WithContext(..)) is described as that thing.
		var parts []string
		same := true
		for _, e := range x.Edges {
			if e == v {
				continue
			}
			d := u.describe(e, depth-1)
			if len(parts) > 0 && parts[0] != d {
				same = false
			}
			parts = append(parts, d)
		}
		if same && len(parts) > 0 {
			return parts[0]
		}
		if x.Comment != "" {
			// the source variable this phi merges (e.g. a flag set on one branch)
			return u.RefName(x.Parent(), x.Comment)
		}
		return "phi(" + strings.Join(parts, " | ") + ")"
	case *ssa.MakeInterface:
		return u.describe(x.X, depth)
	case *ssa.ChangeType:
		return u.describe(x.X, depth)
	case *ssa.ChangeInterface:
		return u.describe(x.X, depth)
	case *ssa.Convert:
		return "conv:" + typeShort(x.Type()) + "(" + u.describe(x.X, depth-1) + ")"
	case *ssa.Slice:
		lo, hi := "", ""
		if x.Low != nil {
			lo = u.describe(x.Low, depth-1)
		}
		if x.High != nil {
			hi = u.describe(x.High, depth-1)
		}
		return u.describe(x.X, depth-1) + "[" + lo + ":" + hi + "]"
	case *ssa.TypeAssert:
		if x.CommaOk {
			return "assertok:" + typeShort(x.AssertedType) + "(" + u.describe(x.X, depth-1) + ")"
		}
		return "assert:" + typeShort(x.AssertedType) + "(" + u.describe(x.X, depth-1) + ")"
	case *ssa.MakeClosure:
		return "closure:" + u.qualName(x.Fn.(*ssa.Function))
	case *ssa.MakeMap:
		return "makemap"
	case *ssa.MakeSlice:
		return "makeslice"
	case *ssa.MakeChan:
		return "makechan"
	case *ssa.Next:
		return "next(" + u.describe(x.Iter, depth-1) + ")"
	case *ssa.Range:
		return "range(" + u.describe(x.X, depth-1) + ")"
	case *ssa.Select:
		return "select"
	}
	return fmt.Sprintf("%T", v)
}

// identityWrappers: calls whose result denotes the same logical object as
// one of their arguments for the purpose of guard matching.
var identityWrappers = map[string]int{
	"(*net/http.Request).WithContext": 0,
}

func (u *Unit) describeCall(c *ssa.CallCommon, depth int) string {
	var args []string
	if c.IsInvoke() {
		// interface method call: the receiver is not in Args
		args = append(args, u.describe(c.Value, depth-2))
	}
	for _, a := range c.Args {
		args = append(args, u.describe(a, depth-2))
	}
	return u.CalleeName(c) + "(" + strings.Join(args, ", ") + ")"
}

// CalleeName names the callee of a call: static callees by qualified function
// name, interface calls as "invoke <pkg>.<Iface>.<Method>", dynamic calls as
// "dyn:<described value>".
func (u *Unit) CalleeName(c *ssa.CallCommon) string {
	if c.IsInvoke() {
		recv := typeShort(c.Value.Type())
		return "invoke " + recv + "." + c.Method.Name()
	}
	switch f := c.Value.(type) {
	case *ssa.Function:
		return u.qualName(f)
	case *ssa.Builtin:
		return f.Name()
	case *ssa.MakeClosure:
		return u.qualName(f.Fn.(*ssa.Function))
	}
	return "dyn:" + u.describe(c.Value, 4)
}

func fieldName(t types.Type, idx int) string {
	if p, ok := t.Underlying().(*types.Pointer); ok {
		t = p.Elem()
	}
	if st, ok := t.Underlying().(*types.Struct); ok && idx < st.NumFields() {
		return st.Field(idx).Name()
	}
	return fmt.Sprintf("f%d", idx)
}

// typeShort renders a type with the repository module path elided.
func typeShort(t types.Type) string {
	s := types.TypeString(t, func(p *types.Package) string {
		if p.Path() == modPath+"/vgirpc" {
			return ""
		}
		// last two path elements are enough to be unambiguous
		parts := strings.Split(p.Path(), "/")
		if len(parts) > 2 {
			parts = parts[len(parts)-2:]
		}
		return strings.Join(parts, "/")
	})
	return s
}

// ConstString returns the string constant value of v, following trivial wrappers.
func ConstString(v ssa.Value) (string, bool) {
	for {
		switch x := v.(type) {
		case *ssa.Const:
			if x.Value != nil && x.Value.Kind() == constant.String {
				return constant.StringVal(x.Value), true
			}
			return "", false
		case *ssa.MakeInterface:
			v = x.X
		case *ssa.ChangeType:
			v = x.X
		case *ssa.Convert:
			v = x.X
		default:
			return "", false
		}
	}
}

// ConstInt returns the integer constant value of v.
func ConstInt(v ssa.Value) (int64, bool) {
	for {
		switch x := v.(type) {
		case *ssa.Const:
			if x.Value != nil && x.Value.Kind() == constant.Int {
				i, ok := constant.Int64Val(x.Value)
				return i, ok
			}
			return 0, false
		case *ssa.MakeInterface:
			v = x.X
		case *ssa.ChangeType:
			v = x.X
		case *ssa.Convert:
			v = x.X
		default:
			return 0, false
		}
	}
}
