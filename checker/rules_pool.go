package main

import (
	"go/types"
	"sort"
	"strings"

	"golang.org/x/tools/go/ssa"
)

// R-POOLED-OBJECT-FULLY-REBOUND (generic, like R-MEMO-KEY-COMPLETE): a
// sync.Pool that is not in the reference inventory recycles objects between
// calls. In a function that takes an object from the pool or, failing that,
// constructs one, every input the constructor receives must also reach the
// recycled object (through a Reset-like method call on it); an input that only
// the constructor sees — typically an options list carrying a size bound —
// keeps the value of whichever call built the object.

func (u *Unit) poolPutSites() []memoSite {
	var out []memoSite
	for _, top := range u.SrcFuncs() {
		for _, f := range WithAnon(top) {
			Instrs(f, func(in ssa.Instruction) {
				if x, ok := in.(ssa.CallInstruction); ok && u.CalleeName(x.Common()) == "(*sync.Pool).Put" && len(x.Common().Args) >= 2 {
					out = append(out, memoSite{f, in, "sync.Pool", x.Common().Args[0], nil, []ssa.Value{x.Common().Args[1]}})
				}
			})
		}
	}
	return out
}

func findStalePooled(u *Unit) []genFinding {
	loadRefMemo()
	if len(refMemo) == 0 {
		return nil
	}
	newPools := map[string]bool{}
	for _, s := range u.poolPutSites() {
		if !refMemo[u.memoKey(s)] {
			newPools[u.Describe(s.target)] = true
		}
	}
	if len(newPools) == 0 {
		return nil
	}
	var out []genFinding
	for _, top := range u.SrcFuncs() {
		for _, g := range WithAnon(top) {
			for _, cs := range u.Calls(g, Is("(*sync.Pool).Get")) {
				pool := u.Describe(cs.Arg(0))
				if !newPools[pool] {
					continue
				}
				call, ok := cs.Instr.(*ssa.Call)
				if !ok || call.Referrers() == nil {
					continue
				}
				// the recycled object: the type-asserted result
				var objs []ssa.Value
				var objT types.Type
				for _, ref := range *call.Referrers() {
					ta, isTA := ref.(*ssa.TypeAssert)
					if !isTA {
						continue
					}
					objT = ta.AssertedType
					if ta.CommaOk {
						for _, r2 := range *ta.Referrers() {
							if ex, isEx := r2.(*ssa.Extract); isEx && ex.Index == 0 {
								objs = append(objs, ex)
							}
						}
					} else {
						objs = append(objs, ta)
					}
				}
				if len(objs) == 0 || objT == nil {
					continue
				}
				isObj := func(v ssa.Value) bool {
					for _, o := range objs {
						if o == v {
							return true
						}
					}
					return false
				}
				hit := map[string]bool{}
				miss := map[string]bool{}
				ctor := ""
				Instrs(g, func(in ssa.Instruction) {
					ci, isC := in.(*ssa.Call)
					if !isC || ci == call {
						return
					}
					args := ci.Call.Args
					if len(args) > 0 && isObj(args[0]) && !ci.Call.IsInvoke() {
						for _, a := range args[1:] {
							for k := range u.inputAtoms(g, a) {
								hit[k] = true
							}
						}
						return
					}
					// a constructor of the same type
					rt := ci.Type()
					if tup, isT := rt.(*types.Tuple); isT && tup.Len() > 0 {
						rt = tup.At(0).Type()
					}
					if !types.Identical(rt, objT) {
						return
					}
					if len(args) > 0 && isObj(args[0]) {
						return
					}
					ctor = u.CalleeName(&ci.Call)
					for _, a := range args {
						for k := range u.inputAtoms(g, a) {
							miss[k] = true
						}
					}
				})
				if ctor == "" {
					continue
				}
				var missing []string
				for a := range miss {
					covered := false
					for h := range hit {
						if a == h || strings.HasPrefix(a, h+".") {
							covered = true
						}
					}
					if !covered {
						missing = append(missing, a)
					}
				}
				sort.Strings(missing)
				if len(missing) == 0 {
					continue
				}
				out = append(out, genFinding{"R-POOLED-OBJECT-FULLY-REBOUND", u.topDeclKey(g) + "|sync.Pool " + strings.TrimPrefix(pool, "&"), u.Pos(cs.Instr.Pos()),
					shortName(g) + " takes an object from the new pool " + strings.TrimPrefix(pool, "&") + " or builds one with " + ctor + "; the constructor also receives {" + strings.Join(missing, ", ") + "}, which never reach a recycled object: it keeps the configuration (e.g. a size bound) of whichever call built it, so the outcome depends on call history"})
			}
		}
	}
	return out
}
