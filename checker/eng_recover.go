package main

import (
	"go/types"
	"sort"
	"strings"

	"golang.org/x/tools/go/ssa"
)

// Exposure computes the set of root-package functions (closures included)
// that can execute with NO deferred recover() anywhere below the given entry
// functions on the call stack: starting from the entries, a call edge
// propagates exposure unless the call instruction is dominated by a
// recover-registering defer in its own function. `go` statements always
// propagate (a new goroutine has an empty stack).
//
// Dynamic calls (interface / func values / reflection) are not followed: they
// lead to user code or to the standard library, which the rules treat as
// opaque sinks that must themselves be recover-covered.
func (u *Unit) Exposure(entries []*ssa.Function) map[*ssa.Function][]string {
	exposed := map[*ssa.Function][]string{} // fn → one witness path
	var work []*ssa.Function
	for _, e := range entries {
		if e != nil {
			exposed[e] = []string{shortName(e)}
			work = append(work, e)
		}
	}
	for len(work) > 0 {
		fn := work[len(work)-1]
		work = work[:len(work)-1]
		if fn.Blocks == nil {
			continue
		}
		Instrs(fn, func(in ssa.Instruction) {
			ci, ok := in.(ssa.CallInstruction)
			if !ok {
				return
			}
			var callee *ssa.Function
			switch f := ci.Common().Value.(type) {
			case *ssa.Function:
				callee = f
			case *ssa.MakeClosure:
				callee = f.Fn.(*ssa.Function)
			}
			if ci.Common().IsInvoke() || callee == nil {
				return
			}
			top := callee
			for top.Parent() != nil {
				top = top.Parent()
			}
			if top.Pkg != u.SPkg {
				return
			}
			_, isGo := in.(*ssa.Go)
			if !isGo && u.CoveredByRecover(in) {
				return
			}
			if _, seen := exposed[callee]; seen {
				return
			}
			exposed[callee] = append(append([]string{}, exposed[fn]...), shortName(callee))
			work = append(work, callee)
		})
	}
	return exposed
}

// PartialOp is an operation that panics on unexpected dynamic input.
type PartialOp struct {
	Fn    *ssa.Function
	Instr ssa.Instruction
	Kind  string // assert | reflect | index0
	Desc  string // stable description (no positions)
}

// PartialOps lists the partial operations of fn that are not covered by a
// recover registered in fn itself.
func (u *Unit) PartialOps(fn *ssa.Function) []PartialOp {
	var out []PartialOp
	Instrs(fn, func(in ssa.Instruction) {
		switch x := in.(type) {
		case *ssa.TypeAssert:
			if x.CommaOk {
				return
			}
			if u.CoveredByRecover(in) {
				return
			}
			// assertion to an interface that the static type already implements cannot fail
			if types.IsInterface(x.AssertedType) {
				if types.Implements(x.X.Type(), x.AssertedType.Underlying().(*types.Interface)) {
					return
				}
			}
			out = append(out, PartialOp{fn, in, "assert", "assert " + typeShort(x.AssertedType) + " on " + typeShort(x.X.Type())})
		case ssa.CallInstruction:
			c := x.Common()
			name := u.CalleeName(c)
			if u.CoveredByRecover(in) {
				return
			}
			switch {
			case strings.HasPrefix(name, "(reflect.Value).Set"), name == "(reflect.Value).Call", name == "(reflect.Value).Index",
				name == "(reflect.Value).Field", name == "(reflect.Value).Elem", name == "(reflect.Value).Interface",
				name == "(reflect.Value).MapIndex", name == "(reflect.Value).IsNil":
				out = append(out, PartialOp{fn, in, "reflect", name})
			default:
				// arrow accessor with constant row index: Value(0)/IsNull(0)/ValueOffsets(0)
				m := ""
				if c.IsInvoke() {
					m = c.Method.Name()
				} else if f, ok := c.Value.(*ssa.Function); ok {
					m = f.Name()
				}
				if m == "Value" || m == "IsNull" || m == "ValueOffsets" || m == "IsValid" || m == "GetValueIndex" || m == "ValueStr" {
					args := c.Args
					var idx ssa.Value
					if c.IsInvoke() && len(args) >= 1 {
						idx = args[0]
					} else if !c.IsInvoke() && len(args) >= 2 {
						idx = args[1]
					}
					if idx != nil && isArrowArray(recvType(c)) {
						if k, ok := ConstInt(idx); ok {
							out = append(out, PartialOp{fn, in, "index0", name + "(" + itoa(int(k)) + ")"})
						}
					}
				}
			}
		}
	})
	return out
}

// indexBoundedBy decides whether the index used on an arrow schema/batch
// accessor is bounded by the size of the same object. It recognises a loop
// variable compared against NumFields/NumCols/len(Fields) of that object, an
// `idx < n` guard where n is such a size, and a dominating guard that equates
// the loop bound with the indexed object's field count.
func (u *Unit) indexBoundedBy(at ssa.Instruction, recv, idx ssa.Value) (bool, string) {
	root := func(v ssa.Value) string {
		d := u.Describe(v)
		// Schema(batch) → batch ; targetSchema → targetSchema
		if i := strings.LastIndex(d, "("); i >= 0 && strings.HasSuffix(d, ")") {
			return strings.TrimSuffix(d[i+1:], ")")
		}
		return d
	}
	obj := root(recv)
	sizeOf := func(d string) bool {
		return (strings.Contains(d, "NumFields(") || strings.Contains(d, "NumCols(") || strings.Contains(d, "Fields(")) && strings.Contains(d, obj)
	}
	// strip conversions
	v := idx
	for {
		if cv, ok := v.(*ssa.Convert); ok {
			v = cv.X
			continue
		}
		break
	}
	var bounds []string
	collect := func(x ssa.Value) {
		if x.Referrers() == nil {
			return
		}
		for _, ref := range *x.Referrers() {
			if b, ok := ref.(*ssa.BinOp); ok && b.X == x {
				switch b.Op.String() {
				case "<", "<=", "!=":
					bounds = append(bounds, u.Describe(b.Y))
				}
			}
		}
	}
	collect(v)
	if cv, ok := idx.(*ssa.Convert); ok {
		collect(cv)
	}
	// `range n` loops: the phi's increment / comparison may be on a sibling value
	if phi, ok := v.(*ssa.Phi); ok {
		for _, e := range phi.Edges {
			collect(e)
		}
	}
	for _, b := range bounds {
		if sizeOf(b) {
			return true, "loop/guard bound " + b
		}
	}
	// guards at the call relating sizes
	for _, g := range u.GuardStrings(at) {
		if sizeOf(g) && (strings.Contains(g, " == ") || strings.Contains(g, " < ") || strings.Contains(g, " <= ")) {
			for _, b := range bounds {
				// the guard mentions the loop bound's object too, or bounds idx directly
				bd := b
				if i := strings.LastIndex(bd, "("); i >= 0 {
					bd = strings.TrimSuffix(bd[i+1:], ")")
				}
				if strings.Contains(g, bd) {
					return true, "guard " + g
				}
			}
			if strings.Contains(g, u.Describe(v)) {
				return true, "guard " + g
			}
		}
	}
	return false, "bounds {" + strings.Join(bounds, "; ") + "}"
}

func recvType(c *ssa.CallCommon) types.Type {
	if c.IsInvoke() {
		return c.Value.Type()
	}
	if len(c.Args) > 0 {
		return c.Args[0].Type()
	}
	return nil
}

func isArrowArray(t types.Type) bool {
	if t == nil {
		return false
	}
	s := t.String()
	return strings.Contains(s, "arrow-go/v18/arrow/array.") || strings.HasSuffix(s, "arrow-go/v18/arrow.Array")
}

func sortedFuncs(m map[*ssa.Function][]string) []*ssa.Function {
	var out []*ssa.Function
	for f := range m {
		out = append(out, f)
	}
	sort.Slice(out, func(i, j int) bool { return shortName(out[i]) < shortName(out[j]) })
	return out
}
