package main

import (
	"go/token"
	"strings"

	"golang.org/x/tools/go/ssa"
)

// Counting discipline of FetchWithParallelRangeRequests (C32): termination in
// bounded time needs `expected` to equal the number of launched fetches that
// have not reported yet, which in turn needs
//   - every launched fetch to report exactly once            (R-SEND-ONCE)
//   - every launch to be counted at the launch               (R-LAUNCH-COUNTED)
//   - every report to be counted before anything else        (R-RECV-COUNTED)
//
// and exactness needs the chunk read to be able to see an over-long body
// (R-OVERLONG-SEEN).
func runC32Counting(c *Ctx) {
	u, r := c.U, c.R
	fn := u.Func("FetchWithParallelRangeRequests")
	if fn == nil {
		return
	}
	var fc, hedge *ssa.Function
	for _, a := range fn.AnonFuncs {
		if len(u.Calls(a, Is("(*net/http.Client).Do"))) == 1 {
			fc = a
		}
		hasGo := false
		Instrs(a, func(in ssa.Instruction) {
			if _, ok := in.(*ssa.Go); ok {
				hasGo = true
			}
		})
		if hasGo {
			hedge = a
		}
	}
	if fc == nil || hedge == nil {
		r.Undec("R-SEND-ONCE", "closures", u.Pos(fn.Pos()), "chunk fetcher / hedging closures not found")
		return
	}
	// R-SEND-ONCE
	isSend := func(in ssa.Instruction) bool { _, ok := in.(*ssa.Send); return ok && !isSemSend(u, in) }
	mm := CountOnPaths(fc, nil, isSend, IsReturn)
	okS := len(mm) > 0
	for _, v := range mm {
		if v.Min != 1 || v.Max != 1 {
			okS = false
		}
	}
	r.Check(okS, "R-SEND-ONCE", "fetchChunk", u.Pos(fc.Pos()), "every launched fetch reports exactly once on every path", "a chunk fetch can finish without reporting, or report twice: the in-flight count no longer matches the reports the loop waits for")
	// R-LAUNCH-COUNTED: in the hedging closure, launches and increments are paired block by block
	isInc := func(in ssa.Instruction) bool {
		st, ok := in.(*ssa.Store)
		if !ok || !strings.HasSuffix(u.Describe(st.Addr), "expected") {
			return false
		}
		b, ok := st.Val.(*ssa.BinOp)
		if !ok || b.Op != token.ADD {
			return false
		}
		k, isK := ConstInt(b.Y)
		return isK && k == 1 && strings.HasSuffix(u.Describe(b.X), "expected")
	}
	nGo, nInc := 0, 0
	for _, b := range hedge.Blocks {
		g, i := 0, 0
		for _, in := range b.Instrs {
			if _, ok := in.(*ssa.Go); ok {
				g++
			}
			if isInc(in) {
				i++
			}
		}
		nGo += g
		nInc += i
		if g != i {
			r.Viol("R-LAUNCH-COUNTED", "hedge|launch-block", u.Pos(b.Instrs[0].Pos()), itoa(g)+" hedge launch(es) but "+itoa(i)+" increment(s) of the in-flight count in the same straight-line block")
		}
	}
	// any other write to expected inside the hedging closure breaks the pairing
	Instrs(hedge, func(in ssa.Instruction) {
		if st, ok := in.(*ssa.Store); ok && strings.HasSuffix(u.Describe(st.Addr), "expected") && !isInc(in) {
			r.Viol("R-LAUNCH-COUNTED", "hedge|other-write", u.Pos(in.Pos()), "the in-flight count is written as "+u.Describe(st.Val)+" away from the launch it accounts for: an early return between launch and write loses the count")
		}
	})
	r.Check(nGo == 1 && nInc == 1, "R-LAUNCH-COUNTED", "hedge|paired", u.Pos(hedge.Pos()), "each hedge launch increments the in-flight count in the same block", itoa(nGo)+" launches / "+itoa(nInc)+" increments")
	// initial launches: expected starts at the number of initial launches
	okInit := false
	Instrs(fn, func(in ssa.Instruction) {
		if st, ok := in.(*ssa.Store); ok && strings.HasSuffix(u.Describe(st.Addr), "expected") {
			if al, isA := st.Addr.(*ssa.Alloc); isA && u.VarName(al) == "expected" &&u.Describe(st.Val) == "numChunks" {
				okInit = true
			}
		}
	})
	loopBound := false
	Instrs(fn, func(in ssa.Instruction) {
		if _, ok := in.(*ssa.Go); ok && u.HasGuardContaining(in, "(i < numChunks)") {
			loopBound = true
		}
	})
	r.Check(okInit && loopBound, "R-LAUNCH-COUNTED", "initial", u.Pos(fn.Pos()), "numChunks initial launches, expected starts at numChunks", "the initial in-flight count is not the number of initial launches")
	// R-RECV-COUNTED: the decrement follows the receive in the same block, before any branch
	nR := 0
	Instrs(fn, func(in ssa.Instruction) {
		uo, ok := in.(*ssa.UnOp)
		if !ok || uo.Op != token.ARROW {
			return
		}
		nR++
		dec := false
		past := false
		for _, x := range in.Block().Instrs {
			if x == in {
				past = true
				continue
			}
			if !past {
				continue
			}
			if st, ok := x.(*ssa.Store); ok && strings.HasSuffix(u.Describe(st.Addr), "expected") {
				if b, ok := st.Val.(*ssa.BinOp); ok && b.Op == token.SUB {
					if k, isK := ConstInt(b.Y); isK && k == 1 {
						dec = true
					}
				}
			}
		}
		r.Check(dec, "R-RECV-COUNTED", "collect-loop|receive#"+itoa(nR), u.Pos(in.Pos()), "every report is counted before any branch", "a report is taken off the channel without decrementing the in-flight count in the same straight-line block: a path that skips the decrement leaves the loop waiting for a fetch that already reported")
	})
	// exactly one decrement per loop iteration overall
	nDec := 0
	Instrs(fn, func(in ssa.Instruction) {
		if st, ok := in.(*ssa.Store); ok && strings.HasSuffix(u.Describe(st.Addr), "expected") {
			if b, ok := st.Val.(*ssa.BinOp); ok && b.Op == token.SUB {
				nDec++
			}
		}
	})
	r.Check(nDec == 1, "R-RECV-COUNTED", "collect-loop|single-decrement", u.Pos(fn.Pos()), "one decrement site", itoa(nDec)+" decrement sites for the in-flight count")
	// R-OVERLONG-SEEN
	for _, in := range successData(u, fc) {
		d := u.describe(in, 10)
		ok := false
		// data = io.ReadAll(io.LimitReader(body, W+1))#0 where W is what len(data) is compared with
		if ex, isEx := in.(*ssa.Extract); isEx && ex.Index == 0 {
			if ra, isC := ex.Tuple.(*ssa.Call); isC && u.CalleeName(&ra.Call) == "io.ReadAll" {
				if lr, isL := ra.Call.Args[0].(*ssa.Call); isL && u.CalleeName(&lr.Call) == "io.LimitReader" {
					if add, isB := lr.Call.Args[1].(*ssa.BinOp); isB && add.Op == token.ADD {
						if k, isK := ConstInt(add.Y); isK && k == 1 {
							want := add.X
							Instrs(fc, func(x ssa.Instruction) {
								if cmp, isCmp := x.(*ssa.BinOp); isCmp && (cmp.Op == token.NEQ || cmp.Op == token.EQL) {
									if (cmp.Y == want && strings.Contains(u.Describe(cmp.X), "len(io.ReadAll(")) || (cmp.X == want && strings.Contains(u.Describe(cmp.Y), "len(io.ReadAll(")) {
										ok = true
									}
								}
							})
						}
					}
				}
			}
		}
		r.Check(ok, "R-OVERLONG-SEEN", "fetchChunk|data", u.Pos(fc.Pos()), "the chunk is read one byte past the length it is compared with, so an over-long answer is seen and refused", "the accepted chunk bytes come from "+d+": a read that stops at the expected length cannot tell a 200-with-whole-body answer from the requested range")
	}
	r.Floor("R-SEND-ONCE", 1)
	r.Floor("R-LAUNCH-COUNTED", 2)
	r.Floor("R-RECV-COUNTED", 2)
	r.Floor("R-OVERLONG-SEEN", 1)
}

// isSemSend: a send on the semaphore channel (struct{}{} token), not a report.
func isSemSend(u *Unit, in ssa.Instruction) bool {
	sd := in.(*ssa.Send)
	return strings.Contains(typeShort(sd.X.Type()), "struct{}")
}

// successData returns the values stored into the `data` field of a reported result.
func successData(u *Unit, fc *ssa.Function) []ssa.Value {
	var out []ssa.Value
	Instrs(fc, func(in ssa.Instruction) {
		if st, ok := in.(*ssa.Store); ok {
			if fa, ok := st.Addr.(*ssa.FieldAddr); ok && fieldName(fa.X.Type(), fa.Field) == "data" {
				out = append(out, st.Val)
			}
		}
	})
	return out
}
