package main

import (
	"bufio"
	"encoding/json"
	"fmt"
	"os"
	"sort"
	"strings"
)

// writeManifest renders /verif/MANIFEST.json from the registry; properties of
// /verif/properties.jsonl without a registered check are listed under
// not_applicable with the reason from /verif/not_applicable.json.
func writeManifest() {
	var ids []string
	for id := range registry {
		ids = append(ids, id)
	}
	sort.Strings(ids)
	var checks []map[string]any
	for _, id := range ids {
		p := registry[id]
		text := p.LevelText
		if text == "" {
			text = "Static analysis of the type-checked program and its SSA form: decides structural necessary conditions of the property on every path/route/call site of the current tree (listed as obligations in the evidence); it does not decide the runtime-value clauses listed under not_covered."
		}
		checks = append(checks, map[string]any{
			"property_id":   id,
			"quick_cmd":     "bin/check " + id + " quick",
			"thorough_cmd":  "bin/check " + id + " thorough",
			"evidence_file": "/verif/evidence/" + id + ".json",
			"engine":        "checker",
			"level_claimed": map[string]any{"category": "other", "text": text, "design_ref": "DESIGN.md §5 " + id},
			"level_note":    "Trusted base: go/types, go/ssa (x/tools v0.50.0), the Go toolchain's package loader, arrow-go/net/http/klauspost semantics as summarised in the rule tables. Not covered: " + strings.Join(p.NotCovered, "; ") + ". Assumes: " + strings.Join(p.Assumptions, "; "),
			"technique":     "static analysis (custom go/ssa + go/types checker): " + firstSentence(p.Explanation),
			"replay_cmd_template": "cat {path}",
		})
	}
	na := []map[string]string{}
	reasons := map[string]string{}
	if b, err := os.ReadFile("/verif/not_applicable.json"); err == nil {
		json.Unmarshal(b, &reasons)
	}
	if f, err := os.Open("/verif/properties.jsonl"); err == nil {
		sc := bufio.NewScanner(f)
		sc.Buffer(make([]byte, 1<<20), 1<<24)
		for sc.Scan() {
			var pr struct{ ID string `json:"id"` }
			if json.Unmarshal(sc.Bytes(), &pr) == nil && pr.ID != "" {
				if _, ok := registry[pr.ID]; !ok {
					reason := reasons[pr.ID]
					if reason == "" {
						reason = "no static rule built yet for this property (work in progress); not claimed"
					}
					na = append(na, map[string]string{"property_id": pr.ID, "reason": reason})
				}
			}
		}
		f.Close()
	}
	m := map[string]any{
		"version":   1,
		"setup_cmd": "sh bin/setup",
		"hooks": map[string]any{
			"guard":            "verif",
			"enable":           "none: the checks are static and read /repo's working tree directly; no hooks or instrumentation were added to the repository",
			"baseline_off_cmd": "sh /verif/bin/baseline",
			"source_commits":   []string{},
			"add_only":         true,
		},
		"engines": []map[string]any{{
			"name": "checker", "path": "/verif/checker", "serves_properties": ids,
			"kind_free_text": "purpose-built static analyser (go/packages + go/types + go/ssa, dominator/guard, path, lock, taint and table rules) specific to vgi-rpc-go",
		}},
		"checks":         checks,
		"not_applicable": na,
		"notes":          "All verdicts are computed from /repo's current source without executing it. thorough = same rules under 3 build configurations (default, -tags leakcheck, GOOS=windows CGO_ENABLED=0) plus the mutant self-test in /verif/mutants/<ID>/ (regression and seeded patches applied to a scratch copy).",
	}
	b, _ := json.MarshalIndent(m, "", " ")
	if err := os.WriteFile("/verif/MANIFEST.json", append(b, '\n'), 0o644); err != nil {
		fmt.Fprintln(os.Stderr, err)
		os.Exit(2)
	}
	fmt.Printf("MANIFEST.json: %d checks, %d not_applicable\n", len(checks), len(na))
}

func firstSentence(s string) string {
	if len(s) > 300 {
		s = s[:300] + "…"
	}
	return s
}
