package main

import (
	"sort"
	"strings"

	"golang.org/x/tools/go/ssa"
)

func init() {
	register(&PropInfo{
		ID:    "C41",
		Title: "Every dispatch path releases all Arrow memory it allocates",
		Explanation: "R-OWN: acquire/release pairing over every function of the vgirpc package (all build configurations incl. the leakcheck tag). An obligation starts at each Arrow constructor call (array.NewRecordBatch*, builder constructors and NewArray, ipc.NewReader, GetRecordBatchPayload, …), each Retain(), and each call to a package function whose computed summary says it returns an owned object. " +
			"On every CFG path from the site the obligation must be discharged before the function returns or the site runs again: Release (direct, deferred, or via a local closure releasing the captured cell), return to the caller, storing into a container (field/element/map/global/append), or passing to a package function that consumes that parameter on all its paths. Paths where the object is nil (its error result is non-nil, an explicit nil test, the `replaced`-style flag is false) or pointer-identical to an existing object carry no obligation. " +
			"Summaries (returns-owned, owned-iff-flag, consumes-parameter) are computed to a fixpoint. R-OWN-SURFACE: the dispatch entry points named in the property are among the analysed functions and each contains at least one obligation.",
		NotCovered:  []string{"leaks inside arrow-go or in user handler code", "objects parked in a container that is itself never released (container ownership is not tracked)", "aliasing through phi nodes is may-alias: a release of a merged value counts for each merged object", "panics between acquire and release that are recovered further up without running a deferred release"},
		Assumptions: []string{"arrow-go constructors return one reference; Retain adds one; Release drops one"},
		Run:         runC41,
	})
}

func runC41(c *Ctx) {
	u, r := c.U, c.R
	e := NewOwnEngine(u)
	count := map[string]int{}
	nSites := 0
	perFn := map[string]int{}
	for _, fn := range u.SrcFuncs() {
		pos := u.Pos(fn.Pos())
		if strings.Contains(pos, "_test.go") {
			continue
		}
		for _, site := range e.sitesOf(fn) {
			nSites++
			sn := shortName(fn)
			perFn[sn]++
			d := site.Desc
			if i := strings.LastIndex(d, "/"); i >= 0 {
				d = d[i+1:]
			}
			key := sn + "|" + d
			count[key]++
			inst := key + "#" + itoa(count[key])
			leak, _ := e.walk(site)
			if leak == nil {
				r.Ok("R-OWN", inst, u.Pos(site.Instr.Pos()), "released, returned, stored or consumed on every path")
			} else {
				r.Viol("R-OWN", inst, u.Pos(site.Instr.Pos()), "Arrow object from "+d+" is still owned at "+u.Pos(leak.Exit.Pos())+": "+leak.Why)
			}
		}
	}
	for _, name := range []string{"(*Server).serveStream", "(*Server).serveUnary", "(*HttpServer).handleUnary", "(*HttpServer).handleStreamInit", "(*HttpServer).handleStreamExchange", "(*HttpServer).handleExchangeCall", "(*HttpServer).runProduceLoopCapped", "(*Server).serveOne"} {
		if c.Fn("R-OWN-SURFACE", name) != nil {
			r.Check(perFn[name] > 0, "R-OWN-SURFACE", name, "-", itoa(perFn[name])+" obligations analysed", "no obligation found in "+name+": the analysis no longer sees its Arrow objects")
		}
	}
	// R-COLLECTOR-RELEASE / R-FLUSH-RELEASE / R-FLUSH-EARLY-EXIT: the collector is a
	// container (its batches were "stored"), so its contents are tracked separately.
	for _, name := range []string{"(*Server).serveStream", "(*HttpServer).handleExchangeCall", "(*HttpServer).runProduceLoopCapped"} {
		fn := c.Fn("R-COLLECTOR-RELEASE", name)
		if fn == nil {
			continue
		}
		cols := u.Calls(fn, Is("newOutputCollector"))
		if len(cols) != 1 {
			r.Undec("R-COLLECTOR-RELEASE", name, u.Pos(fn.Pos()), "collector site not unique")
			continue
		}
		col := cols[0].Instr
		isFlushEntry := func(in ssa.Instruction) bool {
			ci, ok := in.(*ssa.Call)
			if !ok {
				return false
			}
			b, isB := ci.Call.Value.(*ssa.Builtin)
			return isB && b.Name() == "len" && u.Describe(ci.Call.Args[0]) == "out.batches"
		}
		isRelAll := u.CallMatcher(Is("(*OutputCollector).releaseBatches"), true)
		exit := func(in ssa.Instruction) bool { return IsReturn(in) || in == col }
		w, open := ReachWithout(fn, col, exit, func(in ssa.Instruction) bool { return isFlushEntry(in) || isRelAll(in) })
		det := ""
		if open {
			det = "the collector's batches are neither flushed nor released on a path ending at " + u.Pos(w.Pos())
		}
		r.Check(!open, "R-COLLECTOR-RELEASE", name, u.Pos(col.Pos()), "every path from the collector reaches the flush loop or releaseBatches()", det)
		// per flushed batch
		var abStore *ssa.Store
		var abLoad ssa.Value
		Instrs(fn, func(in ssa.Instruction) {
			if st, ok := in.(*ssa.Store); ok {
				if al, isA := st.Addr.(*ssa.Alloc); isA && u.VarName(al) == "ab" &&strings.HasPrefix(u.Describe(st.Val), "out.batches[") {
					abStore = st
				}
			}
			if ld, ok := in.(*ssa.UnOp); ok && u.Describe(ld) == "&ab.batch" && abLoad == nil {
				abLoad = ld
			}
		})
		if abStore == nil || abLoad == nil {
			r.Undec("R-FLUSH-RELEASE", name, u.Pos(fn.Pos()), "flush loop variable not found")
			continue
		}
		leak, _ := e.walk(ownSite{Fn: fn, Instr: abStore, Val: abLoad, Kind: "flush", Desc: "out.batches[i].batch"})
		det = ""
		if leak != nil {
			det = "a flushed collector batch is still owned at " + u.Pos(leak.Exit.Pos()) + ": " + leak.Why
		}
		r.Check(leak == nil, "R-FLUSH-RELEASE", name, u.Pos(abStore.Pos()), "each flushed batch is released before the next one is taken or the function returns", det)
		// early exits out of the flush loop release the batches not yet visited
		releasesRest := func(in ssa.Instruction) bool {
			if isRelAll(in) {
				return true
			}
			// `for _, remaining := range out.batches[i+1:] { remaining.batch.Release() }`
			if sl, ok := in.(*ssa.Slice); ok && u.Describe(sl.X) == "out.batches" && sl.Low != nil && sl.High == nil {
				relLoop := false
				Instrs(fn, func(x ssa.Instruction) {
					if ci, isC := x.(*ssa.Call); isC && strings.HasSuffix(u.CalleeName(&ci.Call), "RecordBatch.Release") && strings.Contains(u.Describe(ci.Call.Value), "remaining.batch") {
						relLoop = true
					}
				})
				return relLoop
			}
			if ci, ok := in.(*ssa.Call); ok && u.CalleeName(&ci.Call) == "(*OutputCollector).releaseFrom" {
				return true
			}
			return false
		}
		// the normal loop exit is the false edge of the bound test in the loop header
		var hdr *ssa.BasicBlock
		for _, b := range fn.Blocks {
			for _, in := range b.Instrs {
				if isFlushEntry(in) {
					// header = the block testing rangeindex+1 < len
					for _, s := range b.Succs {
						hdr = s
					}
				}
			}
		}
		nEarly := 0
		if hdr != nil {
			body := abStore.Block()
			for _, b := range fn.Blocks {
				if !body.Dominates(b) {
					continue
				}
				last := b.Instrs[len(b.Instrs)-1]
				if ret, ok := last.(*ssa.Return); ok {
					nEarly++
					// walk back: some instruction on every path from the body start to this return releases the rest
					_, skip := ReachWithout(fn, abStore, isInstr(ret), releasesRest)
					r.Check(!skip, "R-FLUSH-EARLY-EXIT", name+"|return@"+exitKey(u, b), u.Pos(ret.Pos()), "batches not yet flushed are released before the early return", "the flush loop returns early at "+u.Pos(ret.Pos())+" without releasing the collector batches it has not visited yet")
				}
				for _, s := range b.Succs {
					if !body.Dominates(s) && s != hdr {
						nEarly++
						// break out of the loop
						_, skip := ReachWithout(fn, abStore, isInstr(last), releasesRest)
						r.Check(!skip, "R-FLUSH-EARLY-EXIT", name+"|break@"+exitKey(u, b), u.Pos(last.Pos()), "batches not yet flushed are released before leaving the loop", "the flush loop is left early at "+u.Pos(last.Pos())+" without releasing the collector batches it has not visited yet")
					}
				}
			}
		}
		_ = nEarly
	}
	var summ []string
	for f, m := range e.returnsOwned {
		for i := range m {
			s := shortName(f) + "→#" + itoa(i)
			if k, ok := e.ownedIff[f][i]; ok {
				s += " iff #" + itoa(k)
			}
			summ = append(summ, s)
		}
	}
	sort.Strings(summ)
	var cons []string
	for f, m := range e.consumes {
		for j, v := range m {
			if v {
				cons = append(cons, shortName(f)+"("+itoa(j)+")")
			}
		}
	}
	sort.Strings(cons)
	r.Notes = append(r.Notes, "returns-owned summaries: "+strings.Join(summ, ", "), "consumes-parameter summaries: "+strings.Join(cons, ", "))
	r.Floor("R-OWN", 120)
	r.Floor("R-OWN-SURFACE", 6)
}

// exitKey names an exit block by its innermost guard (stable across line moves).
func exitKey(u *Unit, b *ssa.BasicBlock) string {
	gs := u.GuardStrings(b.Instrs[len(b.Instrs)-1])
	if len(gs) == 0 {
		return "b" + itoa(b.Index)
	}
	g := gs[0]
	for _, cut := range []string{"github.com/apache/arrow-go/v18/arrow/", "(*HttpServer).", "(*Server)."} {
		g = strings.ReplaceAll(g, cut, "")
	}
	if len(g) > 70 {
		g = g[:70]
	}
	return g
}
