package main

import (
	"go/token"
	"go/types"
	"regexp"
	"sort"
	"strings"

	"golang.org/x/tools/go/ssa"
)

// Rules added after the second seeding round (changes in secondary paths,
// helper functions and sibling sites). Run after each property's main rules.
var seedfix3 = map[string]func(*Ctx){
	"C02": seedfix3C02, "C03": seedfix3C03, "C04": seedfix3C04, "C06": seedfix3C06,
	"C12": seedfix3C12, "C13": seedfix3C13, "C14": seedfix3C14, "C15": seedfix3C15,
	"C16": seedfix3C16, "C19": seedfix3C19, "C20": seedfix3C20, "C22": seedfix3C22,
	"C25": seedfix3C25, "C26": seedfix3C26, "C29": seedfix3C29, "C37": seedfix3C37,
	"C41": seedfix3C41,
}

func isNilConst(v ssa.Value) bool { c, ok := v.(*ssa.Const); return ok && c.Value == nil }

// feeds: the result of call reaches v through extracts, field accesses, loads,
// conversions and binary operations (bounded).
func feeds(call *ssa.Call, v ssa.Value) bool {
	seen := map[ssa.Value]bool{}
	var walk func(x ssa.Value, d int) bool
	walk = func(x ssa.Value, d int) bool {
		if x == nil || d > 10 || seen[x] {
			return false
		}
		seen[x] = true
		if x == ssa.Value(call) {
			return true
		}
		switch y := x.(type) {
		case *ssa.Extract:
			return walk(y.Tuple, d+1)
		case *ssa.UnOp:
			return walk(y.X, d+1)
		case *ssa.FieldAddr:
			return walk(y.X, d+1)
		case *ssa.Field:
			return walk(y.X, d+1)
		case *ssa.BinOp:
			return walk(y.X, d+1) || walk(y.Y, d+1)
		case *ssa.Convert:
			return walk(y.X, d+1)
		case *ssa.ChangeType:
			return walk(y.X, d+1)
		case *ssa.MakeInterface:
			return walk(y.X, d+1)
		case *ssa.TypeAssert:
			return walk(y.X, d+1)
		case *ssa.Phi:
			for _, e := range y.Edges {
				if walk(e, d+1) {
					return true
				}
			}
		}
		return false
	}
	return walk(v, 0)
}

// lenLowerBound: the largest K such that a guard dominating `at` establishes len(x) >= K.
func lenLowerBound(at ssa.Instruction, x ssa.Value) int64 {
	have := int64(-1)
	isLenOf := func(v ssa.Value) bool {
		for d := 0; d < 3; d++ {
			switch y := v.(type) {
			case *ssa.Convert:
				v = y.X
				continue
			case *ssa.Call:
				if b, ok := y.Call.Value.(*ssa.Builtin); ok && b.Name() == "len" && len(y.Call.Args) == 1 {
					return y.Call.Args[0] == x
				}
			}
			break
		}
		return false
	}
	for _, g := range GuardsAt(at.Block()) {
		b, ok := g.Cond.(*ssa.BinOp)
		if !ok {
			continue
		}
		op, l, rr := b.Op, b.X, b.Y
		if !g.Truth {
			switch op {
			case token.LSS:
				op = token.GEQ
			case token.LEQ:
				op = token.GTR
			case token.GTR:
				op = token.LEQ
			case token.GEQ:
				op = token.LSS
			case token.NEQ:
				op = token.EQL
			case token.EQL:
				op = token.NEQ
			}
		}
		if isLenOf(rr) { // K op len(x)  →  len(x) op' K
			l, rr = rr, l
			switch op {
			case token.LSS:
				op = token.GTR
			case token.LEQ:
				op = token.GEQ
			case token.GTR:
				op = token.LSS
			case token.GEQ:
				op = token.LEQ
			}
		}
		if !isLenOf(l) {
			continue
		}
		k, isK := ConstInt(rr)
		if !isK {
			continue
		}
		switch op {
		case token.GEQ, token.EQL:
			if k > have {
				have = k
			}
		case token.GTR:
			if k+1 > have {
				have = k + 1
			}
		}
	}
	return have
}

// noStringTransforms lists calls to strings.* / bytes.* case/trim/replace
// functions inside fn (and its closures).
func stringTransforms(u *Unit, fn *ssa.Function) []string {
	var out []string
	for _, f := range WithAnon(fn) {
		for _, cs := range u.Calls(f, nil) {
			n := cs.Callee
			for _, p := range []string{"strings.ToLower", "strings.ToUpper", "strings.Trim", "strings.Replace", "strings.Fields", "strings.Title", "strings.Map", "bytes.ToLower", "bytes.ToUpper", "bytes.Trim", "golang.org/x/text"} {
				if strings.HasPrefix(n, p) {
					out = append(out, n)
				}
			}
		}
	}
	sort.Strings(out)
	return out
}

// ---------------------------------------------------------------- C02

func seedfix3C02(c *Ctx) {
	u, r := c.U, c.R
	// R-VALIDATION-ERR-TYPED: serveOne recognises a refusable request by a direct *RpcError
	// assertion, so every validation refusal of ReadRequest (after its drain) is that type itself.
	rd := u.Func("ReadRequest")
	so := u.Func("(*Server).serveOne")
	if rd != nil && so != nil {
		direct := false
		Instrs(so, func(in ssa.Instruction) {
			if ta, ok := in.(*ssa.TypeAssert); ok && strings.HasSuffix(typeShort(ta.AssertedType), "RpcError") && strings.Contains(u.Describe(ta.X), "ReadRequest(") {
				direct = true
			}
		})
		nexts := u.Calls(rd, HasSuffix("ipc.Reader).Next"))
		if direct && len(nexts) >= 2 {
			drain := nexts[len(nexts)-1].Instr
			n := 0
			Instrs(rd, func(in ssa.Instruction) {
				ret, ok := in.(*ssa.Return)
				if !ok || InRecoverBlock(in) || !reachable(rd, drain, in) {
					return
				}
				ev := ReturnValue(ret, 1)
				if isNilConst(ev) {
					return
				}
				n++
				okT := false
				if mi, isMI := ev.(*ssa.MakeInterface); isMI {
					okT = strings.HasSuffix(typeShort(mi.X.Type()), "RpcError")
				}
				r.Check(okT, "R-VALIDATION-ERR-TYPED", "ReadRequest|refusal@"+exitKey(u, in.Block()), u.Pos(in.Pos()), "refusal returned as *RpcError itself", "ReadRequest refuses with "+u.Describe(ev)+", which serveOne's direct *RpcError assertion does not recognise: the request gets no response and the session ends")
			})
			if n == 0 {
				r.Undec("R-VALIDATION-ERR-TYPED", "ReadRequest", u.Pos(rd.Pos()), "no post-drain refusal found")
			}
		} else if rd != nil {
			// serveOne uses errors.As or another idiom: nothing to pair
			r.Ok("R-VALIDATION-ERR-TYPED", "ReadRequest|unwrap-tolerant", u.Pos(so.Pos()), "serveOne does not depend on the refusal's concrete type")
		}
	}
	// R-DRAIN-UNBOUNDED: drainInputStream consumes the whole leftover stream from the reader it is given.
	if df := c.Fn("R-DRAIN-UNBOUNDED", "drainInputStream"); df != nil {
		ok := false
		for _, cs := range u.Calls(df, HasSuffix("ipc.NewReader")) {
			a := cs.Arg(0)
			if mi, isMI := a.(*ssa.MakeInterface); isMI {
				a = mi.X
			}
			ok = a == ssa.Value(df.Params[0])
			if !ok {
				r.Viol("R-DRAIN-UNBOUNDED", "drainInputStream|reader", u.Pos(cs.Instr.Pos()), "the drain reads from "+u.Describe(cs.Arg(0))+", not from the connection reader itself: a longer leftover stream is only partly consumed and its tail is read as the next request")
			}
		}
		if ok {
			r.Ok("R-DRAIN-UNBOUNDED", "drainInputStream|reader", u.Pos(df.Pos()), "drains the connection reader itself")
		}
		// and loops until Next() is false
		nx := u.Calls(df, HasSuffix("ipc.Reader).Next"))
		loop := false
		if len(nx) == 1 {
			_, loop = ReachWithout(df, nx[0].Instr, isInstr(nx[0].Instr), nil)
		}
		r.Check(loop, "R-DRAIN-UNBOUNDED", "drainInputStream|loop", u.Pos(df.Pos()), "reads batches until the stream ends", "drainInputStream does not loop over Next()")
	}
	r.Floor("R-VALIDATION-ERR-TYPED", 1)
	r.Floor("R-DRAIN-UNBOUNDED", 2)
}

// ---------------------------------------------------------------- C03

var lenGuardRe = regexp.MustCompile(`^\(len\((.+)\) (>=|>|<|<=|==|!=) (\d+)\)$`)

// constSliceBoundsCovered: every constant slice/index bound on a byte slice in fn
// is covered by a dominating len() guard on that slice.
func constSliceBoundsCovered(c *Ctx, rule string, fn *ssa.Function) {
	u, r := c.U, c.R
	n := 0
	Instrs(fn, func(in ssa.Instruction) {
		sl, ok := in.(*ssa.Slice)
		if !ok {
			return
		}
		need := int64(-1)
		for _, b := range []ssa.Value{sl.Low, sl.High} {
			if b == nil {
				continue
			}
			if k, isK := ConstInt(b); isK && k > need {
				need = k
			}
		}
		if need <= 0 {
			return
		}
		x := u.VarName(sl.X)
		if x == "" {
			x = "slice#" + itoa(n+1)
		}
		n++
		have := lenLowerBound(in, sl.X)
		r.Check(have >= need, rule, shortName(fn)+"|"+x+"[:"+itoa(int(need))+"]", u.Pos(in.Pos()), "constant bound "+itoa(int(need))+" covered by len("+x+") >= "+itoa(int(have)), "slicing "+x+" up to "+itoa(int(need))+" is guarded only by len >= "+itoa(int(have))+": a shorter input panics instead of being refused")
	})
	if n == 0 {
		r.Undec(rule, shortName(fn), u.Pos(fn.Pos()), "no constant-bound slice found")
	}
}

func seedfix3C03(c *Ctx) {
	u, r := c.U, c.R
	// R-UNLOCK-DEFERRED: a segment method that can panic while holding s.mu (it slices the
	// mapping with caller-supplied bounds) releases the lock with defer.
	if rb := c.Fn("R-UNLOCK-DEFERRED", "(*ShmSegment).ReadBatch"); rb != nil {
		deferred := false
		Instrs(rb, func(in ssa.Instruction) {
			if d, ok := in.(*ssa.Defer); ok && u.CalleeName(&d.Call) == "(*sync.Mutex).Unlock" {
				deferred = true
			}
		})
		r.Check(deferred, "R-UNLOCK-DEFERRED", "ReadBatch", u.Pos(rb.Pos()), "s.mu released by defer: a panicking slice expression cannot leave the segment locked", "ReadBatch slices the mapping with caller-supplied bounds while holding s.mu but unlocks explicitly: a recovered panic (negative or wrapping length) leaves the lock held and the next pointer request blocks forever")
	}
	// R-RESOLVE-NONNIL: ResolveExternalLocation never reports success with a nil batch.
	if rf := c.Fn("R-RESOLVE-NONNIL", "ResolveExternalLocation"); rf != nil {
		n := 0
		Instrs(rf, func(in ssa.Instruction) {
			ret, ok := in.(*ssa.Return)
			if !ok || InRecoverBlock(in) || !isNilConst(ReturnValue(ret, 2)) {
				return
			}
			n++
			v := ReturnValue(ret, 0)
			d := u.Describe(v)
			okV := v == ssa.Value(rf.Params[0]) || d == "batch"
			if !okV {
				okV = u.HasGuardContaining(in, "("+d+" != nil)")
			}
			r.Check(okV, "R-RESOLVE-NONNIL", "ResolveExternalLocation|success@"+exitKey(u, in.Block()), u.Pos(in.Pos()), "success returns the input or a batch tested non-nil", "ResolveExternalLocation can return ("+d+", nil error) without "+d+" != nil: a fetched stream with no data batch hands dispatch a nil batch, which panics outside any recover")
		})
		if n == 0 {
			r.Undec("R-RESOLVE-NONNIL", "ResolveExternalLocation", u.Pos(rf.Pos()), "no success return")
		}
	}
	r.Floor("R-UNLOCK-DEFERRED", 1)
	r.Floor("R-RESOLVE-NONNIL", 2)
}

// ---------------------------------------------------------------- C04

func seedfix3C04(c *Ctx) {
	u, r := c.U, c.R
	// R-EXTRA-JSON: the log_extra value is produced by encoding/json.
	n := 0
	for _, name := range []string{"writeLogBatch", "(*OutputCollector).ClientLog", "(*CallContext).ClientLog"} {
		fn := u.Func(name)
		if fn == nil {
			continue
		}
		Instrs(fn, func(in ssa.Instruction) {
			st, ok := in.(*ssa.Store)
			if !ok {
				return
			}
			if s, isS := ConstString(st.Val); !isS || s != "vgi_rpc.log_extra" {
				return
			}
			// the value written next to the key: a slot store of a non-constant string in the same
			// conditional region, after the key (not necessarily in the same block — the
			// encoder may sit in between)
			keyGuards := u.GuardStrings(in)
			within := func(y ssa.Instruction) bool {
				have := map[string]bool{}
				for _, g := range u.GuardStrings(y) {
					have[g] = true
				}
				for _, g := range keyGuards {
					if !have[g] {
						return false
					}
				}
				return true
			}
			var cands []ssa.Instruction
			Instrs(fn, func(y ssa.Instruction) {
				if s2, ok := y.(*ssa.Store); ok && s2 != st && within(y) && (y.Block() == in.Block() || reachable(fn, in, y)) {
					if bt, isB := s2.Val.Type().Underlying().(*types.Basic); isB && bt.Info()&types.IsString != 0 {
						cands = append(cands, y)
					}
				}
			})
			for _, x := range cands {
				st2, ok := x.(*ssa.Store)
				if !ok || st2 == st {
					continue
				}
				if _, isC := ConstString(st2.Val); isC {
					continue
				}
				if _, isIdx := st2.Addr.(*ssa.IndexAddr); !isIdx {
					continue
				}
				n++
				d := u.Describe(st2.Val)
				viaJSON := false
				for _, o := range u.Origins(st2.Val, nil) {
					if o.Kind == "call" && strings.HasPrefix(o.Desc, "encoding/json.Marshal") {
						viaJSON = true
					}
				}
				r.Check(viaJSON || strings.Contains(d, "encoding/json.Marshal("), "R-EXTRA-JSON", name, u.Pos(x.Pos()), "log extras encoded with encoding/json", name+" writes log_extra as "+d+", not json.Marshal output: keys or values needing JSON escaping reach the client unparseable")
			}
		})
	}
	if n == 0 {
		r.Undec("R-EXTRA-JSON", "log_extra", "-", "no log_extra writer found")
	}
	// R-FIELD-BY-DESCRIPTOR: struct results are read through the descriptor's Go field index.
	if fn := c.Fn("R-FIELD-BY-DESCRIPTOR", "serializeVgirpcStruct"); fn != nil {
		k := 0
		for _, cs := range u.Calls(fn, Is("(reflect.Value).Field")) {
			k++
			d := u.Describe(cs.Arg(1))
			r.Check(strings.HasSuffix(d, ".Index"), "R-FIELD-BY-DESCRIPTOR", "serializeVgirpcStruct#"+itoa(k), u.Pos(cs.Instr.Pos()), "column filled from its descriptor's field index", "a result column is read from reflect field "+d+" instead of the descriptor's Index: with an untagged field ahead of a tagged one every column is filled from the wrong Go field")
		}
		if k == 0 {
			r.Undec("R-FIELD-BY-DESCRIPTOR", "serializeVgirpcStruct", u.Pos(fn.Pos()), "no reflect field access")
		}
	}
	// R-HANDLER-ERR-NOT-TRANSPORT: a handler's failure is never handed to the serve loop as a
	// transport failure (which ends the session without a response).
	for _, name := range []string{"(*Server).serveUnary", "(*Server).serveStream"} {
		fn := u.Func(name)
		if fn == nil {
			continue
		}
		n := 0
		Instrs(fn, func(in ssa.Instruction) {
			ret, ok := in.(*ssa.Return)
			if !ok || InRecoverBlock(in) || len(ret.Results) != 2 {
				return
			}
			n++
			h, t := ReturnValue(ret, 0), ReturnValue(ret, 1)
			same := !isNilConst(t) && (h == t || u.Describe(h) == u.Describe(t))
			r.Check(!same, "R-HANDLER-ERR-NOT-TRANSPORT", name+"|"+exitKey(u, in.Block()), u.Pos(in.Pos()), "handler error and transport error are distinct values", name+" returns the handler's error "+u.Describe(h)+" as the transport error too: the serve loop stops without any response having been written")
		})
		if n == 0 {
			r.Undec("R-HANDLER-ERR-NOT-TRANSPORT", name, u.Pos(fn.Pos()), "no two-result return")
		}
	}
	r.Floor("R-EXTRA-JSON", 1)
	r.Floor("R-FIELD-BY-DESCRIPTOR", 1)
	r.Floor("R-HANDLER-ERR-NOT-TRANSPORT", 6)
}

// ---------------------------------------------------------------- C06

func seedfix3C06(c *Ctx) {
	u, r := c.U, c.R
	// R-VALIDATE-DATA: validate() succeeds only when a data batch was recorded.
	if fn := c.Fn("R-VALIDATE-DATA", "(*OutputCollector).validate"); fn != nil {
		Instrs(fn, func(in ssa.Instruction) {
			ret, ok := in.(*ssa.Return)
			if !ok {
				return
			}
			g := gjoin(u, in)
			if isNilConst(ReturnValue(ret, 0)) {
				r.Check(strings.Contains(g, "(o.dataBatchIdx >= 0)"), "R-VALIDATE-DATA", "validate|ok", u.Pos(in.Pos()), "nil only with a recorded data batch", "validate() succeeds under ["+g+"], not under dataBatchIdx >= 0: a turn that only logged passes as if it had answered")
			}
		})
	}
	// R-CAST-IDENTITY: castRecordBatch hands back its input only when the schemas are equal.
	if fn := c.Fn("R-CAST-IDENTITY", "castRecordBatch"); fn != nil {
		n := 0
		Instrs(fn, func(in ssa.Instruction) {
			ret, ok := in.(*ssa.Return)
			if !ok || InRecoverBlock(in) || !isNilConst(ReturnValue(ret, 1)) {
				return
			}
			n++
			v := ReturnValue(ret, 0)
			g := gjoin(u, in)
			if v == ssa.Value(fn.Params[0]) || u.Describe(v) == "batch" {
				ok2 := strings.Contains(g, "arrow.Schema).Equal(") && !strings.Contains(g, "!(*github.com/apache/arrow-go/v18/arrow.Schema).Equal(")
				r.Check(ok2, "R-CAST-IDENTITY", "castRecordBatch|input-returned@"+exitKey(u, in.Block()), u.Pos(in.Pos()), "input returned unchanged only for equal schemas", "castRecordBatch returns its input uncast under ["+g+"]: the state receives columns of the wire type, not the declared one")
			} else {
				d := u.Describe(v)
				okCtor := true
				nCtor := 0
				for _, o := range u.Origins(v, nil) {
					if o.Kind != "call" {
						continue
					}
					if strings.HasSuffix(o.Desc, "array.NewRecordBatch") || strings.HasSuffix(o.Desc, "array.NewRecordBatchWithMetadata") {
						nCtor++
						if call, isC := o.Val.(*ssa.Call); isC && call.Call.Args[0] != ssa.Value(fn.Params[1]) {
							okCtor = false
						}
					}
				}
				r.Check(okCtor && nCtor > 0, "R-CAST-IDENTITY", "castRecordBatch|result-schema@"+exitKey(u, in.Block()), u.Pos(in.Pos()), "result built on the target schema", "castRecordBatch returns "+d+", not a batch of the target schema")
			}
		})
		if n == 0 {
			r.Undec("R-CAST-IDENTITY", "castRecordBatch", u.Pos(fn.Pos()), "no success return")
		}
		// the per-column loops run only for equal column counts
		okCount := false
		Instrs(fn, func(in ssa.Instruction) {
			if ci, ok := in.(*ssa.Call); ok && strings.HasSuffix(u.CalleeName(&ci.Call), "arrow.Schema).Field") {
				g := gjoin(u, in)
				if strings.Contains(g, "NumCols(batch) == conv:int64(") || strings.Contains(g, "NumCols(batch)) == ") || regexp.MustCompile(`NumCols\(batch\) == `).MatchString(g) {
					okCount = true
				}
			}
		})
		r.Check(okCount, "R-CAST-IDENTITY", "castRecordBatch|count-equal", u.Pos(fn.Pos()), "fields walked only under equal column counts", "castRecordBatch indexes schema fields without having established NumCols == NumFields: a narrower batch makes Field(i) panic before any token is checked")
	}
	r.Floor("R-VALIDATE-DATA", 1)
	r.Floor("R-CAST-IDENTITY", 3)
}

// ---------------------------------------------------------------- C12

func seedfix3C12(c *Ctx) {
	u, r := c.U, c.R
	// R-VERSION-EXACT: the version byte (outside the seal) is compared for equality.
	if fn := c.Fn("R-VERSION-EXACT", "(*HttpServer).openToken"); fn != nil {
		n := 0
		Instrs(fn, func(in ssa.Instruction) {
			b, ok := in.(*ssa.BinOp)
			if !ok {
				return
			}
			d := u.Describe(b)
			if !strings.Contains(d, "[0]") || !strings.Contains(d, "version") {
				return
			}
			n++
			r.Check(b.Op == token.NEQ || b.Op == token.EQL, "R-VERSION-EXACT", "openToken", u.Pos(in.Pos()), "version byte must equal the expected version", "the token version is tested with "+d+": a token re-versioned upward (the byte is not sealed) is accepted")
		})
		if n == 0 {
			r.Undec("R-VERSION-EXACT", "openToken", u.Pos(fn.Pos()), "no version comparison found")
		}
	}
	// R-ERRORS-VERBATIM: resolveCall passes token-open and age failures on unchanged.
	if fn := c.Fn("R-ERRORS-VERBATIM", "(*HttpServer).resolveCall"); fn != nil {
		n := 0
		Instrs(fn, func(in ssa.Instruction) {
			ret, ok := in.(*ssa.Return)
			if !ok || InRecoverBlock(in) {
				return
			}
			ev := ReturnValue(ret, 1)
			if isNilConst(ev) {
				return
			}
			g := gjoin(u, in)
			if !strings.Contains(g, "openToken(") && !strings.Contains(g, "checkTokenAge(") {
				return
			}
			if strings.Contains(g, "!= cursor.CallID") || strings.Contains(g, "(len(callToken) == 0)") {
				return
			}
			n++
			d := u.Describe(ev)
			okV := strings.Contains(d, "openToken(") || strings.Contains(d, "checkTokenAge(")
			if strings.HasPrefix(d, "fmt.Errorf(") || strings.HasPrefix(d, "errors.") {
				okV = false
			}
			r.Check(okV, "R-ERRORS-VERBATIM", "resolveCall|"+exitKey(u, in.Block()), u.Pos(in.Pos()), "failure returned as produced by openToken/checkTokenAge", "resolveCall rewraps a token failure as "+d+": call-token failures become distinguishable from cursor failures")
		})
		if n == 0 {
			r.Undec("R-ERRORS-VERBATIM", "resolveCall", u.Pos(fn.Pos()), "no failure return found")
		}
	}
	callTokenRequired(c, "R-CALL-TOKEN-REQUIRED")
	r.Floor("R-VERSION-EXACT", 1)
	r.Floor("R-ERRORS-VERBATIM", 2)
	r.Floor("R-CALL-TOKEN-REQUIRED", 1)
}

// callTokenRequired: in handleStreamExchange a resolveCall failure always ends the request.
func callTokenRequired(c *Ctx, rule string) {
	u, r := c.U, c.R
	fn := u.Func("(*HttpServer).handleStreamExchange")
	if fn == nil {
		return
	}
	for _, cs := range u.Calls(fn, Is("(*HttpServer).resolveCall")) {
		call := cs.Instr.(*ssa.Call)
		_, eb := u.ErrBranch(call)
		ok := false
		if eb != nil {
			hasErr := false
			for _, x := range u.CallsInBlockChain(eb) {
				if x.Callee == "(*HttpServer).writeHttpError" {
					hasErr = true
				}
			}
			ok = hasErr && BlockEndsInReturn(eb)
		}
		r.Check(ok, rule, "handleStreamExchange|resolveCall", u.Pos(cs.Instr.Pos()), "a failed call-token resolution is answered with an error and nothing else runs", "a resolveCall failure does not end the request on every path: some continuations (e.g. cancel turns) proceed with an unverified or foreign call token")
	}
}

// ---------------------------------------------------------------- C13

func seedfix3C13(c *Ctx) {
	u, r := c.U, c.R
	callTokenRequired(c, "R-CALL-TOKEN-REQUIRED")
	// R-AAD-VERBATIM: identity fields enter the associated data unmodified.
	for _, name := range []string{"tokenAad", "callStateIdentity", "stickyAad", "callTokenAad", "cursorTokenAad"} {
		fn := u.Func(name)
		if fn == nil {
			continue
		}
		ts := stringTransforms(u, fn)
		r.Check(len(ts) == 0, "R-AAD-VERBATIM", name, u.Pos(fn.Pos()), "identity bytes bound as given", name+" normalises identity with "+strings.Join(ts, ", ")+": principals that differ only by that normalisation open each other's tokens")
	}
	r.Floor("R-AAD-VERBATIM", 2)
	r.Floor("R-CALL-TOKEN-REQUIRED", 1)
}

// ---------------------------------------------------------------- C14

func seedfix3C14(c *Ctx) {
	u, r := c.U, c.R
	fn := u.Func("(*HttpServer).handleStreamExchange")
	if fn == nil {
		return
	}
	// R-METHOD-BOUND-ALL-SITES: every cursor opened on the continuation route is method-checked
	// before the state is used, and a mismatch is a client error.
	opens := u.Calls(fn, Or(Is("(*HttpServer).openCursorToken"), Is("(*HttpServer).openCursorTokenFor")))
	for i, cs := range opens {
		call, _ := cs.Instr.(*ssa.Call)
		if call == nil {
			continue
		}
		// some comparison of this call's .Method with info.Name exists and dominates the dispatch
		cmp := false
		Instrs(fn, func(in ssa.Instruction) {
			b, ok := in.(*ssa.BinOp)
			if !ok || (b.Op != token.NEQ && b.Op != token.EQL) {
				return
			}
			d := u.Describe(b)
			if strings.Contains(d, ".Method") && strings.Contains(d, ".Name") && feeds(call, b) {
				cmp = true
			}
		})
		r.Check(cmp, "R-METHOD-BOUND-ALL-SITES", "handleStreamExchange|open#"+itoa(i+1), u.Pos(cs.Instr.Pos()), "this cursor's method is compared with the route's", "a cursor is opened at this site without its Method being compared with the route's method: state minted by another method runs here")
	}
	// the cast that runs before the cursor is opened cannot panic on a narrower batch
	if cf := u.Func("castRecordBatch"); cf != nil {
		okCount := false
		Instrs(cf, func(in ssa.Instruction) {
			if ci, ok := in.(*ssa.Call); ok && strings.HasSuffix(u.CalleeName(&ci.Call), "arrow.Schema).Field") {
				if regexp.MustCompile(`NumCols\(batch\) == `).MatchString(gjoin(u, in)) {
					okCount = true
				}
			}
		})
		r.Check(okCount, "R-METHOD-BOUND-ALL-SITES", "castRecordBatch|count-equal", u.Pos(cf.Pos()), "pre-token input cast walks fields only under equal column counts", "castRecordBatch (run on the continuation route before the cursor is opened) indexes schema fields without NumCols == NumFields: a narrower foreign continuation batch panics and aborts the connection instead of being refused")
	}
	r.Check(len(opens) == 1, "R-METHOD-BOUND-ALL-SITES", "handleStreamExchange|single-open", u.Pos(fn.Pos()), "one cursor-open site", itoa(len(opens))+" cursor-open sites on the continuation route (the method check must hold at each)")
	// the mismatch refusal is a 4xx
	Instrs(fn, func(in ssa.Instruction) {
		st, ok := in.(*ssa.Store)
		if !ok {
			return
		}
		if s, isS := ConstString(st.Val); isS && s == "State token was not issued for this method" {
			okS := false
			for _, x := range u.CallsInBlockChain(in.Block()) {
				if x.Callee == "(*HttpServer).writeHttpError" {
					if k, isK := ConstInt(x.Arg(2)); isK && k >= 400 && k < 500 {
						okS = true
					}
				}
			}
			r.Check(okS, "R-METHOD-BOUND-ALL-SITES", "handleStreamExchange|4xx", u.Pos(in.Pos()), "cross-method refusal answered 4xx", "the cross-method refusal is not written with a 4xx status in its own block")
		}
	})
	r.Floor("R-METHOD-BOUND-ALL-SITES", 3)
}

// ---------------------------------------------------------------- C15

func seedfix3C15(c *Ctx) {
	u, r := c.U, c.R
	// R-TOKENS-READ-TOGETHER: wherever the continuation route reads the cursor from a batch's
	// metadata it reads the call token from the same metadata.
	if fn := u.Func("(*HttpServer).handleStreamExchange"); fn != nil {
		state, call := map[*ssa.BasicBlock]string{}, map[string]bool{}
		for _, cs := range u.Calls(fn, HasSuffix("arrow.Metadata).GetValue")) {
			k, _ := ConstString(cs.Arg(1))
			md := u.Describe(cs.Arg(0))
			switch k {
			case "vgi_rpc.stream_state#b64":
				state[cs.Instr.Block()] = md
			case "vgi_rpc.call_state#b64":
				call[md] = true
			}
		}
		n := 0
		for _, md := range state {
			n++
			r.Check(call[md], "R-TOKENS-READ-TOGETHER", "handleStreamExchange|site#"+itoa(n), u.Pos(fn.Pos()), "cursor and call token read from the same metadata", "the cursor is read from "+md+" but the call token is not: with the tokens riding that batch, a cold-cache instance refuses what a warm one accepts")
		}
		r.Check(n >= 2, "R-TOKENS-READ-TOGETHER", "handleStreamExchange|sites", u.Pos(fn.Pos()), itoa(n)+" token-reading sites", "fewer token-reading sites than confirmed")
	}
	// R-AGE-RESOLUTION: the age compared with the TTL is a time.Duration from Since/Sub.
	if fn := c.Fn("R-AGE-RESOLUTION", "(*HttpServer).checkTokenAge"); fn != nil {
		ok := false
		Instrs(fn, func(in ssa.Instruction) {
			b, isB := in.(*ssa.BinOp)
			if !isB || (b.Op != token.GTR && b.Op != token.GEQ && b.Op != token.LSS && b.Op != token.LEQ) {
				return
			}
			d := u.Describe(b)
			if !strings.Contains(d, "tokenTTL") {
				return
			}
			ok = strings.Contains(d, "time.Since(") || strings.Contains(d, "time.Time).Sub(")
			if !ok {
				r.Viol("R-AGE-RESOLUTION", "checkTokenAge", u.Pos(in.Pos()), "the TTL is compared with "+d+": an age computed from whole Unix seconds accepts tokens up to a second past the TTL")
			}
		})
		if ok {
			r.Ok("R-AGE-RESOLUTION", "checkTokenAge", u.Pos(fn.Pos()), "age = time.Since(mint time), full resolution")
		}
	}
	// R-MINT-ONCE: the call token is minted by /init only.
	n := 0
	for _, cs := range u.CallSitesOf(Or(Is("(*HttpServer).packCallToken"), Is("(*HttpServer).packCallTokenFor"))) {
		sn := shortName(cs.Fn)
		if strings.Contains(u.Pos(cs.Instr.Pos()), "_test.go") || sn == "(*HttpServer).packCallToken" {
			continue
		}
		n++
		r.Check(sn == "(*HttpServer).handleStreamInit", "R-MINT-ONCE", sn, u.Pos(cs.Instr.Pos()), "call token minted at /init", sn+" mints (and re-caches) a call token: every served turn refreshes the cached mint time, so the serving instance keeps accepting a call token other instances have expired")
	}
	r.Floor("R-TOKENS-READ-TOGETHER", 3)
	r.Floor("R-AGE-RESOLUTION", 1)
	r.Floor("R-MINT-ONCE", 2)
}

// ---------------------------------------------------------------- C16

func seedfix3C16(c *Ctx) {
	u, r := c.U, c.R
	// R-CAST-NOT-ON-CANCEL: every input cast on the continuation route is skipped for cancel turns.
	if fn := u.Func("(*HttpServer).handleStreamExchange"); fn != nil {
		for i, cs := range u.Calls(fn, Is("castRecordBatch")) {
			r.Check(u.HasGuardContaining(cs.Instr, "!cancelled"), "R-CAST-NOT-ON-CANCEL", "handleStreamExchange|cast#"+itoa(i+1), u.Pos(cs.Instr.Pos()), "cast skipped on a cancel turn", "an input cast runs on cancel turns too: the empty-schema cancel batch fails the cast, the client gets a TypeError and OnCancel never runs")
		}
	}
	// R-APPEND-ONLY: collector batches are only ever appended (dataBatchIdx stays valid).
	n := 0
	for _, f := range u.SrcFuncs() {
		for _, st := range u.StoresToField(f, "OutputCollector", "batches") {
			if isNilConst(st.Val) {
				continue
			}
			n++
			d := u.Describe(st.Val)
			r.Check(strings.HasPrefix(d, "append(o.batches, ") || strings.HasPrefix(d, "append(*o.batches") || strings.HasPrefix(d, "append(o.batches,"), "R-APPEND-ONLY", shortName(f), u.Pos(st.Pos()), "o.batches grows by append only", shortName(f)+" rewrites o.batches as "+d+": positions shift while dataBatchIdx still names the old slot, so the cursor rides the wrong batch")
		}
	}
	if n == 0 {
		r.Undec("R-APPEND-ONLY", "OutputCollector.batches", "-", "no writer found")
	}
	r.Floor("R-CAST-NOT-ON-CANCEL", 2)
	r.Floor("R-APPEND-ONLY", 2)
}

// ---------------------------------------------------------------- C19

func seedfix3C19(c *Ctx) {
	u, r := c.U, c.R
	// R-CAPPED-EVERYWHERE: dispatch only ever runs the capped produce loop, with the response buffer.
	for _, cs := range u.CallSitesOf(Is("(*HttpServer).runProduceLoop")) {
		if strings.Contains(u.Pos(cs.Instr.Pos()), "_test.go") {
			continue
		}
		r.Viol("R-CAPPED-EVERYWHERE", shortName(cs.Fn)+"|uncapped", u.Pos(cs.Instr.Pos()), shortName(cs.Fn)+" runs the uncapped produce loop: that turn ignores max_response_bytes")
	}
	n := 0
	for _, cs := range u.CallSitesOf(Is("(*HttpServer).runProduceLoopCapped")) {
		sn := shortName(cs.Fn)
		if sn == "(*HttpServer).runProduceLoop" {
			continue
		}
		n++
		r.Check(!isNilConst(cs.Arg(3)), "R-CAPPED-EVERYWHERE", sn, u.Pos(cs.Instr.Pos()), "produce loop given the response buffer", sn+" passes a nil buffer: the wire cap cannot be observed")
	}
	r.Check(n >= 2, "R-CAPPED-EVERYWHERE", "sites", "-", itoa(n)+" capped call sites", "fewer capped call sites than confirmed")
	// R-EXTERNAL-CHARGE: what is charged to the external cap is the upload's own raw byte count.
	for _, name := range []string{"(*HttpServer).runProduceLoopCapped", "(*HttpServer).handleExchangeCall"} {
		fn := u.Func(name)
		if fn == nil {
			continue
		}
		ok := false
		Instrs(fn, func(in ssa.Instruction) {
			b, isB := in.(*ssa.BinOp)
			if !isB || b.Op != token.ADD || !strings.HasSuffix(u.Describe(b.X), "externalBytes") {
				return
			}
			d := u.Describe(b.Y)
			ok = strings.HasPrefix(d, "(*HttpServer).externalizeStreamDataBatch(") && strings.HasSuffix(d, "#1")
			if !ok {
				r.Viol("R-EXTERNAL-CHARGE", name, u.Pos(in.Pos()), "the external running total is charged "+d+", not the byte count the upload reported: nested or framed payloads upload more than is counted")
			}
		})
		if ok {
			r.Ok("R-EXTERNAL-CHARGE", name, u.Pos(fn.Pos()), "external total += raw bytes reported by the upload")
		}
	}
	// …and that count is the size of the IPC payload before compression.
	if fn := c.Fn("R-EXTERNAL-CHARGE", "externalizeBatchCtx"); fn != nil {
		Instrs(fn, func(in ssa.Instruction) {
			ret, ok := in.(*ssa.Return)
			if !ok || InRecoverBlock(in) || !isNilConst(ReturnValue(ret, 3)) {
				return
			}
			d := u.describe(ReturnValue(ret, 2), 10)
			if d == "0" {
				return
			}
			// len() of the serializer's own result, not of the buffer that may have been replaced by the compressor
			bad := true
			v := ReturnValue(ret, 2)
			if cv, isCv := v.(*ssa.Convert); isCv {
				v = cv.X
			}
			if lc, isC := v.(*ssa.Call); isC {
				if b, isB := lc.Call.Value.(*ssa.Builtin); isB && b.Name() == "len" {
					if ex, isEx := lc.Call.Args[0].(*ssa.Extract); isEx {
						if sc, isS := ex.Tuple.(*ssa.Call); isS && u.CalleeName(&sc.Call) == "serializeBatchAsIPC" {
							bad = false
						}
					}
				}
			}
			r.Check(!bad && strings.Contains(d, "len("), "R-EXTERNAL-CHARGE", "externalizeBatchCtx|raw-size@"+exitKey(u, in.Block()), u.Pos(in.Pos()), "reported size = length of the uncompressed IPC payload", "externalizeBatchCtx reports "+d+" as the upload's size: with compression on, the external cap is charged the compressed size")
		})
	}
	r.Floor("R-CAPPED-EVERYWHERE", 3)
	r.Floor("R-EXTERNAL-CHARGE", 3)
}

// ---------------------------------------------------------------- C20

func seedfix3C20(c *Ctx) {
	u, r := c.U, c.R
	// R-CONST-HEADER-KEYS: handlers write response headers under constant names, so nothing they
	// copy from elsewhere can overwrite the correlation and capability headers set at the front door.
	for _, f := range u.SrcFuncs() {
		if strings.Contains(u.Pos(f.Pos()), "_test.go") || !strings.HasPrefix(shortName(f), "(*HttpServer).") {
			continue
		}
		for _, cs := range u.Calls(f, Or(HasSuffix("net/http.Header).Set"), HasSuffix("net/http.Header).Add"), HasSuffix("net/http.Header).Del"))) {
			recv := u.Describe(cs.Arg(0))
			if !strings.Contains(recv, "ResponseWriter.Header(") {
				continue
			}
			if _, isC := ConstString(cs.Arg(1)); isC {
				continue
			}
			k := u.Describe(cs.Arg(1))
			if strings.HasPrefix(k, "global:") || !strings.Contains(k, "range") && !strings.Contains(k, "next(") {
				continue // named constants held in package variables, or computed from constants
			}
			r.Viol("R-CONST-HEADER-KEYS", shortName(f), u.Pos(cs.Instr.Pos()), shortName(f)+" writes response header "+k+" (a name taken from iterated data): an upstream X-Request-ID or capability header replaces the one this server stamped")
		}
	}
	for _, f := range u.SrcFuncs() {
		if strings.Contains(u.Pos(f.Pos()), "_test.go") || !strings.HasPrefix(shortName(f), "(*HttpServer).") {
			continue
		}
		Instrs(f, func(in ssa.Instruction) {
			mu, ok := in.(*ssa.MapUpdate)
			if !ok || !strings.Contains(u.Describe(mu.Map), "ResponseWriter.Header(") {
				return
			}
			if _, isC := ConstString(mu.Key); isC {
				return
			}
			r.Viol("R-CONST-HEADER-KEYS", shortName(f)+"|map", u.Pos(in.Pos()), shortName(f)+" assigns response header "+u.Describe(mu.Key)+" (a name taken from other data) directly into the header map: an upstream X-Request-ID or capability header replaces the one this server stamped")
		})
	}
	r.Ok("R-CONST-HEADER-KEYS", "scan", "-", "handlers scanned for header writes under iterated names")
	// R-CAPABILITY-ALL-PATHS: addCapabilityHeaders sets every capability header on every path.
	if fn := c.Fn("R-CAPABILITY-ALL-PATHS", "(*HttpServer).addCapabilityHeaders"); fn != nil {
		keys := map[string]bool{}
		for _, cs := range u.Calls(fn, HasSuffix("net/http.Header).Set")) {
			if k, ok := ConstString(cs.Arg(1)); ok {
				keys[k] = true
			}
		}
		var ks []string
		for k := range keys {
			ks = append(ks, k)
		}
		sort.Strings(ks)
		for _, k := range ks {
			key := k
			_, skip := ReachWithout(fn, nil, IsReturn, func(in ssa.Instruction) bool {
				ci, ok := in.(*ssa.Call)
				if !ok || !strings.HasSuffix(u.CalleeName(&ci.Call), "net/http.Header).Set") {
					return false
				}
				s, isS := ConstString(ci.Call.Args[1])
				return isS && s == key
			})
			// headers that are legitimately conditional (advertised only when the feature is on) are those set under a guard on configuration
			cond := true
			for _, cs := range u.Calls(fn, HasSuffix("net/http.Header).Set")) {
				if s, _ := ConstString(cs.Arg(1)); s == key && len(u.GuardStrings(cs.Instr)) == 0 {
					cond = false
				}
			}
			if key == "VGI-Externalization-Enabled" {
				r.Check(!skip, "R-CAPABILITY-ALL-PATHS", key, u.Pos(fn.Pos()), "set on every path", "a path through addCapabilityHeaders returns without setting "+key+": some configurations send responses without the header")
			} else if !cond {
				r.Check(!skip, "R-CAPABILITY-ALL-PATHS", key, u.Pos(fn.Pos()), "set on every path", "a path through addCapabilityHeaders returns without setting "+key)
			}
		}
	}
	// R-EXPOSE-WHEN-EMITTED: VGI-Auth-Proxy-Required is emitted only under the condition it is exposed under.
	if wf := u.Func("(*HttpServer).writeUnauthorized"); wf != nil {
		for _, cs := range u.Calls(wf, HasSuffix("net/http.Header).Set")) {
			if k, ok := ConstString(cs.Arg(1)); !ok || k != "VGI-Auth-Proxy-Required" {
				continue
			}
			gs := u.GuardStrings(cs.Instr)
			okG := len(gs) == 1 && strings.HasSuffix(gs[0], ` != "")`)
			r.Check(okG, "R-EXPOSE-WHEN-EMITTED", "writeUnauthorized", u.Pos(cs.Instr.Pos()), "emitted exactly when the proxy hint is non-empty (the condition CORS exposes it under)", "VGI-Auth-Proxy-Required is emitted under ["+strings.Join(gs, " && ")+"], which is wider than the condition addCorsHeaders exposes it under: a browser client cannot read it")
		}
	}
	r.Floor("R-CAPABILITY-ALL-PATHS", 1)
	r.Floor("R-EXPOSE-WHEN-EMITTED", 1)
}

// ---------------------------------------------------------------- C22

func seedfix3C22(c *Ctx) {
	u, r := c.U, c.R
	routerConsultsNoComponent(c)
	// R-AUTH-NIL-ON-REFUSAL: authenticate returns nil on every path that wrote a refusal.
	if fn := c.Fn("R-AUTH-NIL-ON-REFUSAL", "(*HttpServer).authenticate"); fn != nil {
		refusal := u.CallMatcher(Or(Is("(*HttpServer).writeUnauthorized"), Is("(*HttpServer).writeHttpError")), false)
		n := 0
		Instrs(fn, func(in ssa.Instruction) {
			if !refusal(in) {
				return
			}
			n++
			// from this refusal, every reachable return yields nil
			bad := ""
			seen := map[*ssa.BasicBlock]bool{}
			var walk func(b *ssa.BasicBlock, idx int)
			walk = func(b *ssa.BasicBlock, idx int) {
				if idx == 0 {
					if seen[b] {
						return
					}
					seen[b] = true
				}
				for i := idx; i < len(b.Instrs); i++ {
					if ret, ok := b.Instrs[i].(*ssa.Return); ok {
						if !isNilConst(ReturnValue(ret, 0)) {
							bad = u.Describe(ReturnValue(ret, 0))
						}
						return
					}
				}
				for _, s := range b.Succs {
					walk(s, 0)
				}
			}
			walk(in.Block(), instrIndex(in)+1)
			r.Check(bad == "", "R-AUTH-NIL-ON-REFUSAL", "authenticate|refusal#"+itoa(n), u.Pos(in.Pos()), "nil returned after a refusal was written", "authenticate can return "+bad+" after writing a refusal: the handler runs and appends its output to the 401/500")
		})
		if n == 0 {
			r.Undec("R-AUTH-NIL-ON-REFUSAL", "authenticate", u.Pos(fn.Pos()), "no refusal writer")
		}
	}
	// R-AUTH-VERBATIM: the operator's authenticator is installed as given (no memoising wrapper).
	if fn := c.Fn("R-AUTH-VERBATIM", "(*HttpServer).SetAuthenticate"); fn != nil {
		n := 0
		for _, st := range u.StoresToField(fn, "HttpServer", "authenticateFunc") {
			n++
			v := st.Val
			if mi, ok := v.(*ssa.ChangeType); ok {
				v = mi.X
			}
			r.Check(v == ssa.Value(fn.Params[1]), "R-AUTH-VERBATIM", "SetAuthenticate", u.Pos(st.Pos()), "authenticator stored as given", "SetAuthenticate installs "+u.Describe(st.Val)+" instead of the callback itself: a wrapper that remembers outcomes answers later requests without consulting the authenticator")
		}
		if n == 0 {
			// field name may differ: accept any store of the parameter into the receiver
			ok := false
			Instrs(fn, func(in ssa.Instruction) {
				if st, isS := in.(*ssa.Store); isS && st.Val == ssa.Value(fn.Params[1]) {
					ok = true
				}
			})
			r.Check(ok, "R-AUTH-VERBATIM", "SetAuthenticate", u.Pos(fn.Pos()), "authenticator stored as given", "SetAuthenticate does not store its argument itself")
		}
	}
	r.Floor("R-AUTH-NIL-ON-REFUSAL", 1)
	r.Floor("R-AUTH-VERBATIM", 1)
}

// ---------------------------------------------------------------- C25

func seedfix3C25(c *Ctx) {
	u, r := c.U, c.R
	// R-LOOKUP-BEFORE-EVICT: capacity eviction happens only after the nonce was found to be new.
	if fn := c.Fn("R-LOOKUP-BEFORE-EVICT", "(*nonceCache).checkAndAdd"); fn != nil {
		var lookup ssa.Instruction
		Instrs(fn, func(in ssa.Instruction) {
			if lk, ok := in.(*ssa.Lookup); ok && strings.HasSuffix(u.Describe(lk.X), "c.entries") && u.Describe(lk.Index) == "nonce" {
				lookup = in
			}
		})
		if lookup == nil {
			r.Undec("R-LOOKUP-BEFORE-EVICT", "checkAndAdd", u.Pos(fn.Pos()), "nonce lookup not found")
		} else {
			n := 0
			Instrs(fn, func(in ssa.Instruction) {
				ci, ok := in.(*ssa.Call)
				if !ok {
					return
				}
				b, isB := ci.Call.Value.(*ssa.Builtin)
				if !isB || b.Name() != "delete" {
					return
				}
				g := gjoin(u, in)
				if !strings.Contains(g, "c.capacity") {
					return // the expiry sweep
				}
				n++
				r.Check(Dominates(lookup, in), "R-LOOKUP-BEFORE-EVICT", "checkAndAdd|evict#"+itoa(n), u.Pos(in.Pos()), "capacity eviction only after the replay lookup", "entries are evicted for capacity before the nonce is looked up: at full capacity the oldest nonce is evicted by its own replay and accepted as fresh")
			})
			if n == 0 {
				r.Undec("R-LOOKUP-BEFORE-EVICT", "checkAndAdd", u.Pos(fn.Pos()), "capacity eviction not found")
			}
		}
	}
	// R-ORIGIN-VERBATIM: the MAC input uses the origin id exactly as configured.
	if fn := c.Fn("R-ORIGIN-VERBATIM", "proofCanonicalString"); fn != nil {
		ts := stringTransforms(u, fn)
		r.Check(len(ts) == 0, "R-ORIGIN-VERBATIM", "proofCanonicalString", u.Pos(fn.Pos()), "fields enter the MAC input unmodified", "proofCanonicalString normalises a field with "+strings.Join(ts, ", ")+": two workers whose origin ids differ only by that normalisation accept each other's proofs")
	}
	r.Floor("R-LOOKUP-BEFORE-EVICT", 1)
	r.Floor("R-ORIGIN-VERBATIM", 1)
}

// ---------------------------------------------------------------- C26

func seedfix3C26(c *Ctx) {
	u, r := c.U, c.R
	// R-SIZE-IN-BYTES: the credential cap is on its byte length.
	if fn := c.Fn("R-SIZE-IN-BYTES", "readIntrospectToken"); fn != nil {
		ok := false
		Instrs(fn, func(in ssa.Instruction) {
			b, isB := in.(*ssa.BinOp)
			if !isB || (b.Op != token.GTR && b.Op != token.GEQ && b.Op != token.LSS && b.Op != token.LEQ) {
				return
			}
			d := u.Describe(b)
			if !strings.Contains(d, "4096") && !strings.Contains(d, "introspectMaxTokenChars") {
				return
			}
			if strings.Contains(d, "len(") && strings.Contains(d, ".Token") && !strings.Contains(d, "RuneCount") {
				ok = true
			} else {
				r.Viol("R-SIZE-IN-BYTES", "readIntrospectToken", u.Pos(in.Pos()), "the credential cap compares "+d+": a multi-byte credential longer than the cap in bytes reaches the resolver")
			}
		})
		if ok {
			r.Ok("R-SIZE-IN-BYTES", "readIntrospectToken", u.Pos(fn.Pos()), "cap on len(token) in bytes")
		}
	}
	r.Floor("R-SIZE-IN-BYTES", 1)
}

// ---------------------------------------------------------------- C29

func seedfix3C29(c *Ctx) {
	u, r := c.U, c.R
	releaseDeferredOnly(c)
	seedfix3C29rest(c, u, r)
}

// releaseDeferredOnly (R-RELEASE-DEFERRED-ONLY, C29 and C40): request handlers
// drop the session lock only at return.
func releaseDeferredOnly(c *Ctx) {
	u, r := c.U, c.R
	for _, name := range []string{"(*HttpServer).handleStreamInit", "(*HttpServer).handleStreamExchange", "(*HttpServer).handleUnary"} {
		fn := u.Func(name)
		if fn == nil {
			continue
		}
		nDefer := 0
		Instrs(fn, func(in ssa.Instruction) {
			ci, ok := in.(ssa.CallInstruction)
			if !ok || !strings.HasSuffix(u.CalleeName(ci.Common()), "stickyCleanup).ReleaseLock") && !strings.HasSuffix(u.CalleeName(ci.Common()), ".ReleaseLock") {
				return
			}
			if _, isD := in.(*ssa.Defer); isD {
				nDefer++
				return
			}
			r.Viol("R-RELEASE-DEFERRED-ONLY", name, u.Pos(in.Pos()), name+" releases the session lock before it returns: the rest of the request (e.g. the producer's first turn) runs concurrently with another call on the same session")
		})
		r.Check(nDefer == 1, "R-RELEASE-DEFERRED-ONLY", name+"|deferred", u.Pos(fn.Pos()), "lock released by one deferred call", itoa(nDefer)+" deferred ReleaseLock calls")
	}
	r.Floor("R-RELEASE-DEFERRED-ONLY", 3)
}

func seedfix3C29rest(c *Ctx, u *Unit, r *Report) {
	// R-REMOVE-BEFORE-CLOSE: the sweep takes an expired entry out of the map before its state is closed.
	if fn := c.Fn("R-REMOVE-BEFORE-CLOSE", "(*sessionRegistry).drainExpired"); fn != nil {
		isDel := func(in ssa.Instruction) bool {
			ci, ok := in.(*ssa.Call)
			if !ok {
				return false
			}
			b, isB := ci.Call.Value.(*ssa.Builtin)
			return isB && b.Name() == "delete" && strings.HasSuffix(u.Describe(ci.Call.Args[0]), "r.entries")
		}
		for i, cs := range u.Calls(fn, Is("closeSessionState")) {
			_, later := ReachWithout(fn, cs.Instr, isDel, nil)
			held := u.LockHeldAt(fn)[cs.Instr]["r.mu"]
			r.Check(!later && !held, "R-REMOVE-BEFORE-CLOSE", "drainExpired|close#"+itoa(i+1), u.Pos(cs.Instr.Pos()), "entries leave the map (under the lock) before Close runs (outside it)", "drainExpired closes a session's state while the entry is still in the map (or under the registry lock): a concurrent get/close/shutdown finds it and closes it a second time")
		}
	}
	// R-TOKEN-BOUNDS: constant slice bounds of the session token are covered by the length guard.
	if fn := u.Func("openSessionToken"); fn != nil {
		constSliceBoundsCovered(c, "R-TOKEN-BOUNDS", fn)
	}
	r.Floor("R-REMOVE-BEFORE-CLOSE", 1)
	r.Floor("R-TOKEN-BOUNDS", 2)
}

// ---------------------------------------------------------------- C37

func seedfix3C37(c *Ctx) {
	u, r := c.U, c.R
	// R-STREAM-ERR-RECORDED: every error batch the pipe stream loop writes is mirrored in streamErr.
	if fn := u.Func("(*Server).serveStream"); fn != nil {
		n := 0
		for _, cs := range u.Calls(fn, Is("writeErrorBatch")) {
			// only the lockstep loop (the init-phase refusals return handlerErr directly)
			arg := u.Describe(cs.Arg(2))
			n++
			okS := false
			for _, x := range cs.Instr.Block().Instrs {
				if st, ok := x.(*ssa.Store); ok && strings.HasSuffix(u.Describe(st.Addr), "streamErr") && !isNilConst(st.Val) {
					okS = true
				}
			}
			// or the error written is streamErr itself (assigned just before)
			if arg == "streamErr" {
				okS = true
			}
			r.Check(okS, "R-STREAM-ERR-RECORDED", "serveStream|error-batch#"+itoa(n), u.Pos(cs.Instr.Pos()), "error batch paired with streamErr", "serveStream writes an error batch for "+arg+" without recording it in streamErr: the client sees an exception while OnDispatchEnd is told the call succeeded")
		}
		if n == 0 {
			r.Undec("R-STREAM-ERR-RECORDED", "serveStream", u.Pos(fn.Pos()), "no error batch found")
		}
	}
	// R-START-ACTIVATES: a start hook that returns normally always arms the end hook.
	if fn := u.Func("(*HttpServer).startDispatchHook"); fn != nil {
		for _, a := range fn.AnonFuncs {
			starts := u.Calls(a, HasSuffix("DispatchHook.OnDispatchStart"))
			if len(starts) != 1 {
				continue
			}
			isArm := func(in ssa.Instruction) bool {
				st, ok := in.(*ssa.Store)
				if !ok {
					return false
				}
				b, isC := constBool(st.Val)
				return isC && b && strings.HasSuffix(u.Describe(st.Addr), "active")
			}
			_, skip := ReachWithout(a, starts[0].Instr, IsReturn, isArm)
			r.Check(!skip, "R-START-ACTIVATES", "startDispatchHook", u.Pos(starts[0].Instr.Pos()), "every normal return after OnDispatchStart sets active", "startDispatchHook can return after a successful OnDispatchStart without arming the end hook (e.g. when the hook returns a nil context): that call never gets OnDispatchEnd")
		}
	}
	r.Floor("R-STREAM-ERR-RECORDED", 4)
	r.Floor("R-START-ACTIVATES", 1)
}

// ---------------------------------------------------------------- C41

func seedfix3C41(c *Ctx) {
	u, r := c.U, c.R
	// R-LOCAL-ARRAYS-RELEASED: a function that parks freshly built arrays in a local slice releases
	// them on every return — either each by its own defer, or by a release loop on each error path.
	for _, name := range []string{"serializeArrowSerializable", "serializeVgirpcStruct"} {
		fn := u.Func(name)
		if fn == nil {
			continue
		}
		// stores of owned arrays into elements of a local slice
		var parks []ssa.Instruction
		Instrs(fn, func(in ssa.Instruction) {
			st, ok := in.(*ssa.Store)
			if !ok {
				return
			}
			ia, ok := st.Addr.(*ssa.IndexAddr)
			if !ok || !releasable(st.Val.Type()) {
				return
			}
			if _, isMS := ia.X.(*ssa.MakeSlice); !isMS {
				if ld, isL := ia.X.(*ssa.UnOp); !isL || ld.Op != token.MUL {
					return
				}
			}
			parks = append(parks, in)
		})
		if len(parks) == 0 {
			continue
		}
		parkSlices := map[ssa.Value]bool{}
		for _, p := range parks {
			parkSlices[p.(*ssa.Store).Addr.(*ssa.IndexAddr).X] = true
		}
		isRelease := func(in ssa.Instruction) bool {
			// the entry of a cleanup loop over (a prefix of) the parking slice
			if sl, ok := in.(*ssa.Slice); ok && parkSlices[sl.X] {
				return true
			}
			ci, ok := in.(ssa.CallInstruction)
			return ok && (strings.HasSuffix(u.CalleeName(ci.Common()), ".Release") || strings.HasSuffix(u.CalleeName(ci.Common()), ").Release"))
		}
		for i, p := range parks {
			// after parking, every return passes a Release (deferred per element, or a cleanup loop)
			w, open := ReachWithout(fn, p, IsReturn, isRelease)
			det := ""
			if open {
				det = name + " can return at " + u.Pos(w.Pos()) + " after parking an array in its column slice without releasing what was parked: an error on a later column leaks the earlier ones"
			}
			r.Check(!open, "R-LOCAL-ARRAYS-RELEASED", name+"|park#"+itoa(i+1), u.Pos(p.Pos()), "parked arrays released on every return", det)
		}
	}
	r.Floor("R-LOCAL-ARRAYS-RELEASED", 2)
}
