package main

import (
	"fmt"
	"go/ast"
	"go/token"
	"go/types"
	"os"
	"path/filepath"
	"sort"
	"strings"

	"golang.org/x/tools/go/callgraph"
	"golang.org/x/tools/go/callgraph/cha"
	"golang.org/x/tools/go/callgraph/vta"
	"golang.org/x/tools/go/packages"
	"golang.org/x/tools/go/ssa"
	"golang.org/x/tools/go/ssa/ssautil"
)

// Unit is one loaded module/package of the repository under analysis.
type Unit struct {
	Name   string // "vgirpc", "otel", "s3", "gcs"
	Dir    string
	Config string // build configuration label
	Pkgs   []*packages.Package
	Root   *packages.Package // the package the rules are about
	Prog   *ssa.Program
	SPkg   *ssa.Package
	Fset   *token.FileSet

	allFuncs map[*ssa.Function]bool
	byName   map[string]*ssa.Function
	cg       *callgraph.Graph
	cgKind   string
	declOf   map[*types.Func]*ast.FuncDecl
	fidx     *flowIndex
	nameMaps map[string]map[string]string // refnames.go
}

// BuildConfig describes one build configuration to load.
type BuildConfig struct {
	Label string
	Tags  string
	Env   []string
}

var defaultConfig = BuildConfig{Label: "linux/amd64"}

const modPath = "github.com/Query-farm/vgi-rpc-go"

var unitDirs = map[string]struct{ dir, pkg string }{
	"vgirpc": {".", modPath + "/vgirpc"},
	"otel":   {"vgirpc/otel", modPath + "/vgirpc/otel"},
	"s3":     {"vgirpc/s3", modPath + "/vgirpc/s3"},
	"gcs":    {"vgirpc/gcs", modPath + "/vgirpc/gcs"},
}

// LoadUnit loads one unit of the repository with full syntax and builds SSA.
func LoadUnit(repo, name string, bc BuildConfig) (*Unit, error) {
	ud, ok := unitDirs[name]
	if !ok {
		return nil, fmt.Errorf("unknown unit %q", name)
	}
	dir := filepath.Join(repo, ud.dir)
	// go/packages shells out to `go`: make sure it is the toolchain that can load /repo (go 1.26).
	env := append(os.Environ(), "PATH=/opt/veriftools/go1.26.8/bin:"+os.Getenv("PATH"), "GOWORK=off", "GOFLAGS=-mod=mod", "GOPROXY=off", "GOSUMDB=off", "GOTOOLCHAIN=local")
	env = append(env, bc.Env...)
	cfg := &packages.Config{
		Mode:  packages.LoadAllSyntax,
		Dir:   dir,
		Env:   env,
		Tests: false,
	}
	if bc.Tags != "" {
		cfg.BuildFlags = []string{"-tags=" + bc.Tags}
	}
	// helpers the reference tree does not declare are inlined back into their callers (normalize.go)
	if os.Getenv("VERIF_NO_NORMALISE") == "" {
		n0 := len(normLog)
		if ov := helperOverlay(repo, name, ud, env, bc.Tags); ov != nil {
			cfg.Overlay = ov
			if dd := os.Getenv("VERIF_DUMP_NORMALISED"); dd != "" {
				for fn, b := range ov {
					_ = os.WriteFile(filepath.Join(dd, filepath.Base(fn)), b, 0o644)
				}
			}
		}
		for _, l := range normLog[n0:] {
			fmt.Fprintln(os.Stderr, "note:", l)
		}
	}
	pkgs, err := packages.Load(cfg, ud.pkg)
	if err != nil {
		return nil, fmt.Errorf("load %s: %w", name, err)
	}
	if len(pkgs) == 0 {
		return nil, fmt.Errorf("load %s: zero packages", name)
	}
	var root *packages.Package
	for _, p := range pkgs {
		if p.PkgPath == ud.pkg {
			root = p
		}
	}
	if root == nil {
		return nil, fmt.Errorf("load %s: root package %s not found", name, ud.pkg)
	}
	var errs []string
	packages.Visit(pkgs, nil, func(p *packages.Package) {
		for _, e := range p.Errors {
			errs = append(errs, e.Error())
		}
	})
	if len(errs) > 0 {
		if len(errs) > 8 {
			errs = errs[:8]
		}
		return nil, fmt.Errorf("load %s: type-check errors: %s", name, strings.Join(errs, "; "))
	}
	if len(root.Syntax) == 0 {
		return nil, fmt.Errorf("load %s: root package has no syntax", name)
	}
	prog, _ := ssautil.AllPackages(pkgs, ssa.InstantiateGenerics)
	prog.Build()
	u := &Unit{Name: name, Dir: dir, Config: bc.Label, Pkgs: pkgs, Root: root, Prog: prog, Fset: root.Fset}
	u.SPkg = prog.Package(root.Types)
	if u.SPkg == nil {
		return nil, fmt.Errorf("load %s: no SSA package", name)
	}
	u.index()
	return u, nil
}

func (u *Unit) index() {
	u.allFuncs = ssautil.AllFunctions(u.Prog)
	u.byName = map[string]*ssa.Function{}
	for fn := range u.allFuncs {
		if fn.Pkg != u.SPkg || fn.Synthetic != "" && fn.Parent() == nil && fn.Syntax() == nil {
			continue
		}
		if fn.Parent() != nil {
			continue
		}
		u.byName[shortName(fn)] = fn
	}
	u.declOf = map[*types.Func]*ast.FuncDecl{}
	for _, f := range u.Root.Syntax {
		for _, d := range f.Decls {
			if fd, ok := d.(*ast.FuncDecl); ok {
				if obj, ok := u.Root.TypesInfo.Defs[fd.Name].(*types.Func); ok {
					u.declOf[obj] = fd
				}
			}
		}
	}
}

// shortName renders a function of the root package without the package path:
// "deserializeParams", "(*HttpServer).handleUnary", "(*HttpServer).ServeHTTP$1".
func shortName(fn *ssa.Function) string {
	if fn == nil {
		return "<nil>"
	}
	if fn.Parent() != nil {
		return shortName(fn.Parent()) + "$" + strings.TrimPrefix(fn.Name(), fn.Parent().Name()+"$")
	}
	if recv := fn.Signature.Recv(); recv != nil {
		t := recv.Type()
		ptr := ""
		if p, ok := t.(*types.Pointer); ok {
			ptr = "*"
			t = p.Elem()
		}
		n := "?"
		if nt, ok := t.(*types.Named); ok {
			n = nt.Obj().Name()
		}
		if ptr != "" {
			return "(*" + n + ")." + fn.Name()
		}
		return "(" + n + ")." + fn.Name()
	}
	return fn.Name()
}

// qualName is shortName for root-package functions and pkgpath-qualified otherwise.
func (u *Unit) qualName(fn *ssa.Function) string {
	if fn == nil {
		return "<nil>"
	}
	top := fn
	for top.Parent() != nil {
		top = top.Parent()
	}
	if top.Pkg == u.SPkg {
		return shortName(fn)
	}
	// generic instantiations and wrappers may have nil Pkg
	s := fn.String()
	s = strings.ReplaceAll(s, modPath+"/vgirpc.", "")
	return s
}

// Func resolves a function of the root package by its short name.
func (u *Unit) Func(name string) *ssa.Function {
	return u.byName[name]
}

// FuncNames lists all top-level function names of the root package (sorted).
func (u *Unit) FuncNames() []string {
	var out []string
	for n := range u.byName {
		out = append(out, n)
	}
	sort.Strings(out)
	return out
}

// SrcFuncs returns all functions with source in the root package, including
// anonymous functions, sorted by name.
func (u *Unit) SrcFuncs() []*ssa.Function {
	var out []*ssa.Function
	var add func(fn *ssa.Function)
	add = func(fn *ssa.Function) {
		if fn.Blocks == nil {
			return
		}
		out = append(out, fn)
		for _, a := range fn.AnonFuncs {
			add(a)
		}
	}
	names := u.FuncNames()
	for _, n := range names {
		add(u.byName[n])
	}
	return out
}

// WithAnon returns fn followed by all (transitively) nested anonymous functions.
func WithAnon(fn *ssa.Function) []*ssa.Function {
	out := []*ssa.Function{fn}
	for _, a := range fn.AnonFuncs {
		out = append(out, WithAnon(a)...)
	}
	return out
}

// CallGraph builds (once) the call graph of the requested kind: "cha" or "vta".
func (u *Unit) CallGraph(kind string) *callgraph.Graph {
	if u.cg != nil && u.cgKind == kind {
		return u.cg
	}
	g := cha.CallGraph(u.Prog)
	if kind == "vta" {
		g = vta.CallGraph(u.allFuncs, g)
	}
	u.cg, u.cgKind = g, kind
	return g
}

// Pos renders a position relative to the repo.
func (u *Unit) Pos(p token.Pos) string {
	if !p.IsValid() {
		return "-"
	}
	pos := u.Fset.Position(p)
	f := pos.Filename
	if i := strings.Index(f, "/vgirpc/"); i >= 0 {
		f = f[i+1:]
	}
	return fmt.Sprintf("%s:%d", f, pos.Line)
}

// Decl returns the AST declaration of a root-package function.
func (u *Unit) Decl(fn *ssa.Function) *ast.FuncDecl {
	if fn == nil {
		return nil
	}
	if obj, ok := fn.Object().(*types.Func); ok {
		return u.declOf[obj]
	}
	return nil
}

// DeclByName returns the AST declaration for a short function name.
func (u *Unit) DeclByName(name string) *ast.FuncDecl {
	return u.Decl(u.Func(name))
}

// Info is the types.Info of the root package.
func (u *Unit) Info() *types.Info { return u.Root.TypesInfo }
