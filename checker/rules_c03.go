package main

import (
	"strings"

	"golang.org/x/tools/go/ssa"
)

func init() {
	register(&PropInfo{
		ID:    "C03",
		Title: "No client-supplied bytes can crash the server or abort an HTTP exchange",
		Explanation: "R-RECOVER-COVER: starting from every transport entry (serveOne for pipe/socket; every mux handler for HTTP) exposure is propagated over static call edges that are not dominated by a deferred recover() in the caller; every partial operation (single-result type assertion, reflect.Value setter/Call/Index/Elem, arrow accessor with a constant row index) in an exposed function must either be in the checker's frozen table of operations on framework-owned values (one line of reason each) or it is reported. " +
			"R-ROW0: a constant-row arrow accessor in an exposed function needs a dominating Len()/NumRows() guard. " +
			"R-PARAMS-COVERED: the parameter binder (deserializeParams and everything it calls) runs under a recover that converts a panic into an error. " +
			"R-TYPE-ASSERT-STATE (shared with C14): no panicking assertion on token-carried state. " +
			"R-HTTP-STATUS: every return of each PROTECTED handler is preceded by a status-writing call on every path.",
		NotCovered:  []string{"panics inside arrow-go / klauspost / net/http internals (arrow IPC reader recovers internally — confirmed by reading ipc/reader.go)", "panics in user handlers beyond the recover frames checked by C04/C06", "resource exhaustion"},
		Assumptions: []string{"calls through interfaces/func values lead to user code or libraries and are checked at their call sites (C04, C06, C37) to be recover-covered"},
		Run:         runC03,
	})
}

// safePartialOps: partial operations in exposed functions that operate on
// framework-owned values, confirmed by reading. Keyed "function|op".
var safePartialOps = map[string]string{
	"(*HttpServer).handleStreamInit|assert ProducerState on interface{}": "isProducer is true only after a comma-ok assertion of the same state value to ProducerState succeeded (both the dynamic and the declared arm return otherwise)",
	"(*HttpServer).handleUnary|(reflect.Value).Interface":                  "resultVal is the handler's own first result; only read on the callErr == nil path of a valued method",
	"(*Server).serveUnary|(reflect.Value).Interface":                       "resultVal is the handler's own first result; only read on the callErr == nil path of a valued method",
	"castRecordBatch|assert *arrow/compute.ArrayDatum on arrow/compute.Datum": "compute.CastDatum of an ArrayDatum returns an ArrayDatum (arrow-go invariant); err is checked first",
}

// serverOwnedFns: functions whose partial operations act on values the server
// itself produced (handler results, schemas derived from Go types, its own
// caches/pools) — not on client bytes. One reason per function.
var serverOwnedFns = map[string]string{
	"serializeResult":            "encodes the handler's return value against the schema derived from the same Go type",
	"serializeVgirpcStruct":      "encodes the handler's return value; fields enumerated from its own reflect.Type",
	"serializeArrowSerializable": "encodes a server-side ArrowSerializable value",
	"buildArray":                 "type assertions follow a switch on dt.ID() of a schema derived from the Go type (describeStruct)",
	"buildListArray":             "iterates a reflect slice of the handler's value within its own length",
	"buildMapArray":              "iterates the keys of the handler's own map value",
	"buildStructArray":           "walks the handler's own struct value",
	"appendToBuilder":            "builder type assertions follow a switch on the builder's own Arrow type id",
	"getFieldValue":              "reads a field index obtained from the same reflect.Type",
	"findArrowField":             "reads field indices obtained from the same reflect.Type",
	"sortMapKeys":                "sorts keys of the handler's own map",
	"asTime":                     "called only under a reflect.Type == timeType test",
	"asDuration":                 "called only under a reflect.Type == durationType test",
	"(*callStateCache).get":      "list elements are *callStateEntry values the cache itself inserted",
	"(*callStateCache).put":      "list elements are *callStateEntry values the cache itself inserted",
	"describeStruct":             "sync.Map values are *structDesc stored by this function",
	"codecPool":                  "sync.Map values are *sync.Pool stored by this function",
	"decompressZstdCapped":       "pool values are *zstd.Decoder put by this function",
}

func runC03(c *Ctx) {
	u, r := c.U, c.R
	var entries []*ssa.Function
	names := []string{"(*Server).serveOne"}
	for n, cl := range routeClass {
		if strings.HasPrefix(n, "(*HttpServer).") && (cl[0] == "PROTECTED" || n == "(*HttpServer).handleStickyDelete" || n == "(*HttpServer).handleOAuthCallback" || n == "(*HttpServer).handleOAuthTokenProxy" || n == "(*HttpServer).handleOAuthLogout") {
			names = append(names, n)
		}
	}
	names = append(names, "(*HttpServer).ServeHTTP")
	for _, n := range names {
		if f := c.Fn("R-RECOVER-COVER", n); f != nil {
			entries = append(entries, f)
		}
	}
	exp := u.Exposure(entries)
	r.Notes = append(r.Notes, "exposed functions: "+itoa(len(exp)))
	nops := 0
	used := map[string]bool{}
	for _, fn := range sortedFuncs(exp) {
		if reason, ok := serverOwnedFns[shortName(fn)]; ok {
			ops := u.PartialOps(fn)
			if len(ops) > 0 {
				nops += len(ops)
				used["fn:"+shortName(fn)] = true
				r.Ok("R-RECOVER-COVER", shortName(fn)+"|server-owned ("+itoa(len(ops))+" ops)", u.Pos(fn.Pos()), reason)
			}
			continue
		}
		for _, op := range u.PartialOps(fn) {
			nops++
			key := shortName(fn) + "|" + op.Desc
			if reason, ok := safePartialOps[key]; ok {
				used[key] = true
				r.Ok("R-RECOVER-COVER", key, u.Pos(op.Instr.Pos()), "framework-owned value: "+reason)
				continue
			}
			if op.Kind == "index0" {
				if u.HasGuardContaining(op.Instr, "Len(") || u.HasGuardContaining(op.Instr, "NumRows(") {
					r.Ok("R-ROW0", key, u.Pos(op.Instr.Pos()), "row access dominated by a length guard")
					continue
				}
				r.Viol("R-ROW0", key, u.Pos(op.Instr.Pos()), "row "+op.Desc+" read with no dominating Len()/NumRows() guard and no recover on the stack (path "+strings.Join(exp[fn], " → ")+"): a zero-row batch panics the dispatcher")
				continue
			}
			r.Viol("R-RECOVER-COVER", key, u.Pos(op.Instr.Pos()),
				"partial operation "+op.Desc+" reachable from a transport entry with no recover on the stack (path "+strings.Join(exp[fn], " → ")+") and not in the table of framework-owned operations")
		}
	}
	r.Notes = append(r.Notes, "partial ops examined: "+itoa(nops))
	for k := range safePartialOps {
		if !used[k] {
			r.Notes = append(r.Notes, "stale table entry (construct gone or now covered): "+k)
		}
	}

	// R-SCHEMA-INDEX: arrow schema/column accessors with a computed index, in exposed functions, are bounded by the same object
	nidx := 0
	for _, fn := range sortedFuncs(exp) {
		if _, ok := serverOwnedFns[shortName(fn)]; ok {
			continue
		}
		for _, cs := range u.Calls(fn, Or(HasSuffix("arrow.Schema).Field"), HasSuffix("RecordBatch.Column"), HasSuffix("RecordBatch.ColumnName"))) {
			if u.CoveredByRecover(cs.Instr) {
				continue
			}
			var recv, idx ssa.Value
			if cs.Common().IsInvoke() {
				recv, idx = cs.Common().Value, cs.Arg(0)
			} else {
				recv, idx = cs.Arg(0), cs.Arg(1)
			}
			if _, isC := ConstInt(idx); isC {
				continue // constant rows/columns are handled by R-ROW0 / schema equality
			}
			nidx++
			okB, why := u.indexBoundedBy(cs.Instr, recv, idx)
			r.Check(okB, "R-SCHEMA-INDEX", shortName(fn)+"|"+cs.Callee+"("+u.Describe(idx)+")", u.Pos(cs.Instr.Pos()), "index bounded by the indexed object: "+why,
				"index "+u.Describe(idx)+" into "+u.Describe(recv)+" is bounded by a different object ("+why+") and no guard relates the two sizes: a client batch with more columns than the declared schema panics here with no recover on the stack")
		}
	}
	r.Notes = append(r.Notes, "computed schema/column indexes examined: "+itoa(nidx))

	// R-PARAMS-COVERED
	if dp := c.Fn("R-PARAMS-COVERED", "deserializeParams"); dp != nil {
		_, isExposed := exp[dp]
		binders := []string{"setFieldFromArrow", "setFieldFromString", "deserializeArrowSerializable", "setStructField", "setListField", "setMapField"}
		for _, b := range binders {
			f := u.Func(b)
			if f == nil {
				continue
			}
			_, e := exp[f]
			r.Check(!e, "R-PARAMS-COVERED", b, u.Pos(f.Pos()), "parameter binder runs only under a recover frame", "parameter binder "+b+" (reflect setters on client-shaped columns) is reachable with no recover on the stack: "+strings.Join(exp[f], " → "))
		}
		_ = isExposed
	}

	// R-HTTP-STATUS
	statusCalls := Is("(*HttpServer).writeArrow", "(*HttpServer).writeHttpError", "net/http.Error", "net/http.NotFound", "net/http.Redirect",
		"invoke net/http.ResponseWriter.WriteHeader", "(*HttpServer).writeBodyReadError", "(*HttpServer).writeUnaryCapError", "(*HttpServer).writeExchangeCapError",
		"(*HttpServer).handleDescribe", "(*HttpServer).handleStreamCancel", "(*HttpServer).handleProducerContinuation", "(*HttpServer).handleExchangeCall",
		"writeIntrospectRefusal", "(*HttpServer).writeUnauthorized", "(*HttpServer).authenticate", "writeIntrospectResult", "invoke net/http.ResponseWriter.Write")
	for n, cl := range routeClass {
		if cl[0] != "PROTECTED" {
			continue
		}
		fn := u.Func(n)
		if fn == nil {
			continue
		}
		bad := 0
		Instrs(fn, func(in ssa.Instruction) {
			if _, ok := in.(*ssa.Return); !ok {
				return
			}
			_, reach := ReachWithout(fn, nil, func(x ssa.Instruction) bool { return x == in }, u.CallMatcher(statusCalls, false))
			if reach {
				bad++
				r.Viol("R-HTTP-STATUS", n+"|return", u.Pos(in.Pos()), "a path reaches this return without any status-writing call: the client gets an empty 200")
			}
		})
		if bad == 0 {
			r.Ok("R-HTTP-STATUS", n, u.Pos(fn.Pos()), "every return is preceded by a status-writing call")
		}
	}
}
