package main

import (
	"go/constant"
	"go/token"
	"go/types"
	"strings"

	"golang.org/x/tools/go/ssa"
)

// Rules written after the third seeding round for changes that were still
// unreported but have a structural necessary condition in reach.

// releaseLoopsCoverZero (R-RELEASE-LOOP-COVERS-ZERO, C41): a counting loop
// whose body releases the element it indexes with the loop counter is a
// clean-up of "everything built so far", and everything built so far starts
// at index 0. An ascending loop must start at 0; a descending loop must keep
// going while the counter is >= 0. The loop counter is compared with
// constants only, so the decision is over a finite set of orderings.
func releaseLoopsCoverZero(c *Ctx) {
	u, r := c.U, c.R
	const rule = "R-RELEASE-LOOP-COVERS-ZERO"
	n := 0
	for _, top := range u.SrcFuncs() {
		for _, fn := range WithAnon(top) {
			k := 0
			for _, b := range fn.Blocks {
				for _, in := range b.Instrs {
					phi, ok := in.(*ssa.Phi)
					if !ok || len(phi.Edges) != 2 {
						continue
					}
					init, step, okI := inductionOf(phi)
					if !okI {
						continue
					}
					if !indexesReleased(u, phi) {
						continue
					}
					// only "undo what was built so far" loops: the other end of the
					// range is the progress counter of an enclosing loop. A loop over
					// a whole slice may skip element 0 on purpose.
					if step > 0 && !upperBoundIsProgress(phi) || step < 0 && !progressCounter(init) {
						continue
					}
					k++
					n++
					key := shortName(fn) + "|release-loop#" + itoa(k)
					pos := u.Pos(phi.Pos())
					if step > 0 {
						iv, isC := ConstInt(init)
						if !isC {
							r.Ok(rule, key, pos, "ascending clean-up loop starts at a computed index (not judged)")
							continue
						}
						// `for j := range n` is rotated: the counter starts at -1 and is
						// incremented before use
						r.Check(iv <= 0, rule, key, pos, "ascending clean-up loop starts at index "+itoa(int(iv)), "the clean-up loop starts at index "+itoa(int(iv))+": element 0 is never released")
						continue
					}
					// descending: the loop condition on the counter
					bound, op, found := counterBound(phi)
					if !found {
						r.Ok(rule, key, pos, "descending clean-up loop with a computed lower bound (not judged)")
						continue
					}
					covers := (op == token.GEQ && bound <= 0) || (op == token.GTR && bound <= -1) || (op == token.NEQ && bound <= -1)
					r.Check(covers, rule, key, pos, "descending clean-up loop runs while counter "+op.String()+" "+itoa(int(bound)), "the descending clean-up loop runs only while the counter "+op.String()+" "+itoa(int(bound))+": element 0 is never released")
				}
			}
		}
	}
	r.Check(true, rule, "package|loops", "-", itoa(n)+" counting loops that release the element they index were examined", "")
}

// inductionOf recognises phi = [init, phi ± const].
func inductionOf(phi *ssa.Phi) (init ssa.Value, step int64, ok bool) {
	for i, e := range phi.Edges {
		bo, isB := e.(*ssa.BinOp)
		if !isB || (bo.Op != token.ADD && bo.Op != token.SUB) || bo.X != ssa.Value(phi) {
			continue
		}
		cv, isC := ConstInt(bo.Y)
		if !isC || cv == 0 {
			continue
		}
		if bo.Op == token.SUB {
			cv = -cv
		}
		return phi.Edges[1-i], cv, true
	}
	return nil, 0, false
}

// indexesReleased: the counter (or counter+const) indexes a slice/array whose
// element is the receiver or argument of a Release call.
func indexesReleased(u *Unit, phi *ssa.Phi) bool {
	var idxVals []ssa.Value
	idxVals = append(idxVals, phi)
	if phi.Referrers() != nil {
		for _, ref := range *phi.Referrers() {
			if bo, ok := ref.(*ssa.BinOp); ok && (bo.Op == token.ADD || bo.Op == token.SUB) {
				idxVals = append(idxVals, bo)
			}
			if cv, ok := ref.(*ssa.Convert); ok {
				idxVals = append(idxVals, cv)
			}
		}
	}
	for _, iv := range idxVals {
		if iv.Referrers() == nil {
			continue
		}
		for _, ref := range *iv.Referrers() {
			var elem ssa.Value
			switch x := ref.(type) {
			case *ssa.IndexAddr:
				if x.Index == iv {
					elem = x
				}
			case *ssa.Index:
				if x.Index == iv {
					elem = x
				}
			}
			if elem == nil {
				continue
			}
			if releasedValue(u, elem, 3) {
				return true
			}
		}
	}
	return false
}

func releasedValue(u *Unit, v ssa.Value, depth int) bool {
	if depth == 0 || v.Referrers() == nil {
		return false
	}
	for _, ref := range *v.Referrers() {
		switch x := ref.(type) {
		case *ssa.UnOp:
			if x.Op == token.MUL && releasedValue(u, x, depth-1) {
				return true
			}
		case *ssa.MakeInterface, *ssa.ChangeInterface, *ssa.TypeAssert:
			if releasedValue(u, x.(ssa.Value), depth-1) {
				return true
			}
		case ssa.CallInstruction:
			name := u.CalleeName(x.Common())
			if strings.HasSuffix(name, ".Release") || strings.HasSuffix(name, ").Release") || strings.HasSuffix(name, "dyn:Release") || name == "Release" {
				if _, isDefer := x.(*ssa.Defer); !isDefer {
					return true
				}
			}
		}
	}
	return false
}

// counterBound finds the loop test `phi OP const` (possibly written the other
// way round) that the loop header branches on, normalised to "the loop
// continues while phi OP const".
func counterBound(phi *ssa.Phi) (int64, token.Token, bool) {
	if phi.Referrers() == nil {
		return 0, 0, false
	}
	for _, ref := range *phi.Referrers() {
		bo, ok := ref.(*ssa.BinOp)
		if !ok {
			continue
		}
		var cst ssa.Value
		op := bo.Op
		switch {
		case bo.X == ssa.Value(phi):
			cst = bo.Y
		case bo.Y == ssa.Value(phi):
			cst = bo.X
			switch op {
			case token.LSS:
				op = token.GTR
			case token.GTR:
				op = token.LSS
			case token.LEQ:
				op = token.GEQ
			case token.GEQ:
				op = token.LEQ
			}
		default:
			continue
		}
		k, isC := cst.(*ssa.Const)
		if !isC || k.Value == nil || k.Value.Kind() != constant.Int {
			continue
		}
		bound, _ := constant.Int64Val(k.Value)
		if bo.Referrers() == nil {
			continue
		}
		for _, r2 := range *bo.Referrers() {
			ifi, isIf := r2.(*ssa.If)
			if !isIf {
				continue
			}
			// which successor stays in the loop: the one from which the phi's block is reachable
			blk := ifi.Block()
			var latch *ssa.BasicBlock
			for i, e := range phi.Edges {
				if sb, isS := e.(*ssa.BinOp); isS && sb.X == ssa.Value(phi) {
					latch = phi.Block().Preds[i]
				}
			}
			if latch == nil {
				continue
			}
			stayTrue := reaches(blk.Succs[0], latch, phi.Block())
			stayFalse := reaches(blk.Succs[1], latch, phi.Block())
			if stayTrue == stayFalse {
				continue
			}
			if !stayTrue {
				switch op {
				case token.LSS:
					op = token.GEQ
				case token.GEQ:
					op = token.LSS
				case token.GTR:
					op = token.LEQ
				case token.LEQ:
					op = token.GTR
				case token.EQL:
					op = token.NEQ
				case token.NEQ:
					op = token.EQL
				}
			}
			return bound, op, true
		}
	}
	return 0, 0, false
}

// reaches: can `to` be reached from `from` without passing through `avoid`
// (except as the destination).
func reaches(from, to, avoid *ssa.BasicBlock) bool {
	seen := map[*ssa.BasicBlock]bool{}
	var walk func(b *ssa.BasicBlock) bool
	walk = func(b *ssa.BasicBlock) bool {
		if b == to {
			return true
		}
		if seen[b] || b == avoid {
			return false
		}
		seen[b] = true
		for _, s := range b.Succs {
			if walk(s) {
				return true
			}
		}
		return false
	}
	return walk(from)
}

// progressCounter: v is an induction variable of some loop, or that ± const.
func progressCounter(v ssa.Value) bool {
	switch x := v.(type) {
	case *ssa.Phi:
		_, _, ok := inductionOf(x)
		return ok
	case *ssa.BinOp:
		if x.Op == token.ADD || x.Op == token.SUB {
			if _, isC := ConstInt(x.Y); isC {
				return progressCounter(x.X)
			}
		}
	case *ssa.Convert:
		return progressCounter(x.X)
	}
	return false
}

// upperBoundIsProgress: the ascending counter (or counter+const) is compared
// with the progress counter of an enclosing loop.
func upperBoundIsProgress(phi *ssa.Phi) bool {
	vals := []ssa.Value{phi}
	if phi.Referrers() != nil {
		for _, ref := range *phi.Referrers() {
			if bo, ok := ref.(*ssa.BinOp); ok && (bo.Op == token.ADD || bo.Op == token.SUB) {
				vals = append(vals, bo)
			}
		}
	}
	for _, v := range vals {
		if v.Referrers() == nil {
			continue
		}
		for _, ref := range *v.Referrers() {
			bo, ok := ref.(*ssa.BinOp)
			if !ok {
				continue
			}
			switch bo.Op {
			case token.LSS, token.LEQ, token.GTR, token.GEQ, token.NEQ, token.EQL:
			default:
				continue
			}
			other := bo.Y
			if bo.Y == v {
				other = bo.X
			}
			if other != ssa.Value(phi) && progressCounter(other) {
				return true
			}
		}
	}
	return false
}

// nonceNeverBulkForgotten (R-NONCES-NEVER-BULK-FORGOTTEN, C25): a nonce leaves
// the replay cache one at a time (expiry sweep or capacity eviction). Nothing
// other than a literal under construction empties or replaces the whole index: a bulk reset
// forgets nonces that are still inside their window and their proofs replay.
func nonceNeverBulkForgotten(c *Ctx) {
	u, r := c.U, c.R
	const rule = "R-NONCES-NEVER-BULK-FORGOTTEN"
	n := 0
	for _, top := range u.SrcFuncs() {
		for _, fn := range WithAnon(top) {
			Instrs(fn, func(in ssa.Instruction) {
				switch x := in.(type) {
				case *ssa.Store:
					fa, ok := x.Addr.(*ssa.FieldAddr)
					if !ok {
						return
					}
					if _, fresh := fa.X.(*ssa.Alloc); fresh {
						return // a literal under construction
					}
					k := fieldKey(fa.X.Type(), fa.Field)
					if k == "nonceCache.entries" || k == "nonceCache.order" {
						n++
						r.Viol(rule, shortName(top)+"|"+k, u.Pos(in.Pos()), shortName(top)+" replaces "+k+" wholesale: every remembered nonce is forgotten at once and proofs still inside their window are accepted a second time")
					}
				case ssa.CallInstruction:
					cc := x.Common()
					if b, isB := cc.Value.(*ssa.Builtin); isB && b.Name() == "clear" && len(cc.Args) == 1 {
						if isNonceField(cc.Args[0], "nonceCache.entries") {
							n++
							r.Viol(rule, shortName(top)+"|clear", u.Pos(in.Pos()), shortName(top)+" clears the nonce index: proofs still inside their window are accepted a second time")
						}
						return
					}
					name := u.CalleeName(cc)
					if name == "(*container/list.List).Init" && len(cc.Args) > 0 && isNonceField(cc.Args[0], "nonceCache.order") {
						n++
						r.Viol(rule, shortName(top)+"|order.Init", u.Pos(in.Pos()), shortName(top)+" resets the nonce expiry list: proofs still inside their window are accepted a second time")
					}
				}
			})
		}
	}
	seen := u.Func("(*nonceCache).checkAndAdd") != nil
	if !seen {
		r.Undec(rule, "nonceCache", "-", "(*nonceCache).checkAndAdd not found")
		return
	}
	r.Check(true, rule, "package|bulk-resets", "-", "no function other than a literal under construction empties or replaces the nonce index ("+itoa(n)+" found)", "")
}

// isNonceField: v is (a load of) the named field of a nonceCache.
func isNonceField(v ssa.Value, key string) bool {
	for i := 0; i < 4 && v != nil; i++ {
		switch x := v.(type) {
		case *ssa.UnOp:
			v = x.X
		case *ssa.FieldAddr:
			return fieldKey(x.X.Type(), x.Field) == key
		case *ssa.Field:
			return fieldKey(x.X.Type(), x.Field) == key
		default:
			return false
		}
	}
	return false
}

// uploadKeepsNoState (R-UPLOAD-SHARES-NOTHING, C33): Upload is called
// concurrently on one storage value. Outside a lock it stores nothing into memory
// reached from its receiver: a per-call request built in (or through a pointer into)
// the shared struct makes two uploads overwrite each other's key and body.
func uploadKeepsNoState(c *Ctx, un string, u *Unit, up *ssa.Function) {
	r := c.R
	const rule = "R-UPLOAD-SHARES-NOTHING"
	if len(up.Params) == 0 {
		return
	}
	recv := up.Params[0]
	rooted := func(a ssa.Value) bool {
		for i := 0; i < 8 && a != nil; i++ {
			switch x := a.(type) {
			case *ssa.FieldAddr:
				a = x.X
			case *ssa.IndexAddr:
				a = x.X
			case *ssa.UnOp:
				a = x.X
			case *ssa.Parameter:
				return x == recv
			default:
				return false
			}
		}
		return false
	}
	n, bad := 0, 0
	for _, fn := range WithAnon(up) {
		held := u.LockHeldAt(fn)
		Instrs(fn, func(in ssa.Instruction) {
			st, ok := in.(*ssa.Store)
			if !ok {
				return
			}
			n++
			if len(held[in]) > 0 {
				return // serialised by a lock
			}
			if fn == up && rooted(st.Addr) {
				bad++
				r.Viol(rule, un+"|Upload|store#"+itoa(bad), u.Pos(in.Pos()), "Upload writes "+u.Describe(st.Addr)+", which lives in the shared storage value: concurrent uploads overwrite each other's request (key, body, encoding)")
			}
		})
	}
	r.Check(bad == 0, rule, un+"|Upload", u.Pos(up.Pos()), itoa(n)+" stores examined, none into memory reached from the receiver", itoa(bad)+" stores into the shared storage value")
}

// uploadedBatchVerbatim (R-UPLOADED-BATCH-VERBATIM, C16): the record written
// into the uploaded IPC stream is the record the caller handed over, not a
// re-wrapped copy (a copy made with other custom metadata drops what the
// batch carried).
func uploadedBatchVerbatim(c *Ctx) {
	u, r := c.U, c.R
	const rule = "R-UPLOADED-BATCH-VERBATIM"
	fn := u.Func("serializeBatchAsIPC")
	if fn == nil || len(fn.Params) == 0 {
		return
	}
	n := 0
	for _, cs := range u.Calls(fn, HasSuffix("ipc.Writer).Write")) {
		n++
		var leaves []ssa.Value
		seen := map[ssa.Value]bool{}
		var walk func(v ssa.Value)
		walk = func(v ssa.Value) {
			if seen[v] {
				return
			}
			seen[v] = true
			switch x := v.(type) {
			case *ssa.Phi:
				for _, e := range x.Edges {
					walk(e)
				}
			case *ssa.ChangeInterface:
				walk(x.X)
			case *ssa.MakeInterface:
				walk(x.X)
			case *ssa.UnOp:
				// a spilled parameter (the function has a defer): stores to the cell
				if a, ok := x.X.(*ssa.Alloc); ok && a.Referrers() != nil {
					for _, ref := range *a.Referrers() {
						if st, isS := ref.(*ssa.Store); isS && st.Addr == ssa.Value(a) {
							walk(st.Val)
						}
					}
					return
				}
				leaves = append(leaves, v)
			default:
				leaves = append(leaves, v)
			}
		}
		arg := cs.Arg(0)
		if cs.Common().IsInvoke() {
			arg = cs.Common().Args[0]
		} else if len(cs.Common().Args) > 1 {
			arg = cs.Common().Args[1]
		}
		walk(arg)
		bad := ""
		for _, l := range leaves {
			if p, ok := l.(*ssa.Parameter); !ok || p != fn.Params[0] {
				bad = u.Describe(l)
			}
		}
		r.Check(bad == "", rule, "serializeBatchAsIPC|write#"+itoa(n), u.Pos(cs.Instr.Pos()), "the record written is the caller's record", "serializeBatchAsIPC can write "+bad+" instead of the record it was given: what the batch carried besides its columns (custom metadata) is not what gets uploaded")
	}
	if n == 0 {
		r.Undec(rule, "serializeBatchAsIPC", u.Pos(fn.Pos()), "no ipc.Writer.Write found")
	}
}

// producerErrIsReported (R-TURN-ERROR-IS-REPORTED, C37): the HTTP producer loop
// hands its caller a non-nil error (which the caller passes to the hooks' end)
// only when the client was told — an error batch was written on that path — or
// when the error is the failure of writing the response itself.
func producerErrIsReported(c *Ctx) {
	u, r := c.U, c.R
	const rule = "R-TURN-ERROR-IS-REPORTED"
	fn := u.Func("(*HttpServer).runProduceLoopCapped")
	if fn == nil {
		return
	}
	errWrites := u.Calls(fn, Is("writeErrorBatch"))
	n := 0
	Instrs(fn, func(in ssa.Instruction) {
		ret, ok := in.(*ssa.Return)
		if !ok || len(ret.Results) != 2 {
			return
		}
		ev := ReturnValue(ret, 1)
		if ev == nil {
			ev = ret.Results[1]
		}
		if k, isC := ev.(*ssa.Const); isC && k.Value == nil {
			return
		}
		n++
		told := false
		for _, w := range errWrites {
			if Dominates(w.Instr, in) {
				told = true
			}
		}
		if !told {
			// every root of the value is the result of writing to the response
			told = true
			seen := map[ssa.Value]bool{}
			var walk func(v ssa.Value)
			walk = func(v ssa.Value) {
				if seen[v] {
					return
				}
				seen[v] = true
				switch x := v.(type) {
				case *ssa.Phi:
					for _, e := range x.Edges {
						walk(e)
					}
				case *ssa.Call:
					nm := u.CalleeName(&x.Call)
					if !(strings.HasSuffix(nm, "ipc.Writer).Write") || strings.HasSuffix(nm, "ipc.Writer).Close")) {
						told = false
					}
				default:
					told = false
				}
			}
			walk(ev)
		}
		r.Check(told, rule, "runProduceLoopCapped|"+exitKey(u, in.Block()), u.Pos(in.Pos()), "an error batch was written (or the response write itself failed) before the error is returned", "runProduceLoopCapped returns "+u.Describe(ev)+" as the turn's error although nothing told the client: the hooks' end sees a failure for a response that reports none")
	})
	if n == 0 {
		r.Undec(rule, "runProduceLoopCapped", u.Pos(fn.Pos()), "no error return found")
	}
}

// routerConsultsNoComponent (R-ROUTER-CONSULTS-NO-COMPONENT, C22): everything
// ServeHTTP does before handing the request to the mux runs for
// unauthenticated requests too. It therefore calls no pluggable component
// held in an HttpServer field (upload-URL provider, resolver, validator,
// callbacks): those run only inside handlers, behind authenticate.
func routerConsultsNoComponent(c *Ctx) {
	u, r := c.U, c.R
	const rule = "R-ROUTER-CONSULTS-NO-COMPONENT"
	fn := u.Func("(*HttpServer).ServeHTTP")
	if fn == nil {
		return
	}
	fromServerField := func(v ssa.Value) string {
		for i := 0; i < 4 && v != nil; i++ {
			switch x := v.(type) {
			case *ssa.UnOp:
				v = x.X
			case *ssa.FieldAddr:
				k := fieldKey(x.X.Type(), x.Field)
				if strings.HasPrefix(k, "HttpServer.") {
					return k
				}
				return ""
			default:
				return ""
			}
		}
		return ""
	}
	n, bad := 0, 0
	// ServeHTTP and the package's own non-handler functions it calls directly
	scope := WithAnon(fn)
	for _, cs := range u.Calls(fn, func(string) bool { return true }) {
		sc := cs.Common().StaticCallee()
		if sc == nil || sc.Pkg == nil || sc.Pkg.Pkg != u.Root.Types || len(sc.Blocks) == 0 {
			continue
		}
		if _, isRoute := routeClass[u.qualName(sc)]; isRoute || strings.Contains(sc.Name(), "handle") {
			continue
		}
		scope = append(scope, WithAnon(sc)...)
	}
	for _, f := range scope {
		Instrs(f, func(in ssa.Instruction) {
			ci, ok := in.(ssa.CallInstruction)
			if !ok {
				return
			}
			n++
			cc := ci.Common()
			if cc.StaticCallee() != nil {
				return
			}
			if _, isB := cc.Value.(*ssa.Builtin); isB {
				return
			}
			if k := fromServerField(cc.Value); k != "" {
				bad++
				what := k
				if cc.IsInvoke() {
					what += "." + cc.Method.Name()
				}
				r.Viol(rule, "ServeHTTP|"+what, u.Pos(in.Pos()), "ServeHTTP calls "+what+" before routing, so before any authenticator has run: a rejected (or oversize, or preflight) request still makes that component do work")
			}
		})
	}
	r.Check(bad == 0, rule, "ServeHTTP|calls", u.Pos(fn.Pos()), itoa(n)+" calls examined, none on a component held in an HttpServer field", itoa(bad)+" component calls before routing")
}

// deriveFromWholeKey (R-DERIVE-FROM-WHOLE-KEY, C27): the session key is an
// HMAC keyed with the operator's signing key as given. Keying it with a copy
// into a fixed-size block makes every byte beyond the block irrelevant (and two
// servers whose keys share a prefix accept each other's cookies).
func deriveFromWholeKey(c *Ctx) {
	u, r := c.U, c.R
	const rule = "R-DERIVE-FROM-WHOLE-KEY"
	fn := u.Func("deriveSessionKey")
	if fn == nil || len(fn.Params) == 0 {
		return
	}
	n := 0
	for _, cs := range u.Calls(fn, Is("crypto/hmac.New")) {
		n++
		v := cs.Arg(1)
		fixed := ""
		for i := 0; i < 6 && v != nil; i++ {
			switch x := v.(type) {
			case *ssa.Slice:
				v = x.X
				continue
			case *ssa.Alloc:
				if at, ok := derefType(x.Type()).Underlying().(*types.Array); ok {
					fixed = "a [" + itoa(int(at.Len())) + "]byte block"
				}
			case *ssa.Convert:
				v = x.X
				continue
			case *ssa.ChangeType:
				v = x.X
				continue
			}
			break
		}
		r.Check(fixed == "", rule, "deriveSessionKey|hmac-key#"+itoa(n), u.Pos(cs.Instr.Pos()), "the derivation is keyed with the signing key itself", "deriveSessionKey keys the HMAC with "+fixed+" instead of the signing key: bytes of the operator's key beyond the block do not influence the session key")
	}
	if n == 0 {
		r.Undec(rule, "deriveSessionKey", u.Pos(fn.Pos()), "no hmac.New call")
	}
}

// guardTestsWhatIsUsed (R-GUARD-TESTS-WHAT-IS-USED, C43): when a component is
// taken from the configuration or, failing that, from a default, the nil test
// in front of its use is made on the resolved value. A test that is still made
// on the configured source alone is false exactly when the default was taken,
// and the use (trace-context extraction) is skipped.
func guardTestsWhatIsUsed(c *Ctx, u *Unit) {
	r := c.R
	const rule = "R-GUARD-TESTS-WHAT-IS-USED"
	n := 0
	for _, top := range u.SrcFuncs() {
		for _, fn := range WithAnon(top) {
			Instrs(fn, func(in ssa.Instruction) {
				ci, ok := in.(*ssa.Call)
				if !ok || !ci.Call.IsInvoke() {
					return
				}
				phi, isPhi := ci.Call.Value.(*ssa.Phi)
				if !isPhi {
					return
				}
				n++
				edges := map[string]bool{}
				for _, e := range phi.Edges {
					edges[u.Describe(e)] = true
				}
				for _, g := range GuardsAt(in.Block()) {
					x, isNil, okN := nilCompare(g)
					if !okN || x == ssa.Value(phi) {
						continue
					}
					nonNil := !isNil
					if !nonNil || !types.Identical(x.Type(), phi.Type()) {
						continue
					}
					if edges[u.Describe(x)] && len(edges) > 1 {
						r.Viol(rule, shortName(top)+"|"+ci.Call.Method.Name(), u.Pos(in.Pos()), "the call "+ci.Call.Method.Name()+" is made on a value resolved from "+u.Describe(x)+" or a default, but the nil test in front of it is made on "+u.Describe(x)+" alone: whenever the default is taken the call is skipped")
					}
				}
			})
		}
	}
	r.Check(true, rule, u.Name+"|resolved-components", "-", itoa(n)+" calls on a value resolved from alternatives examined", "")
}

// pointerKeysStrippedByName (R-KEYS-STRIPPED-BY-NAME, C36): the metadata of a
// resolved batch is the pointer batch's metadata minus the two pointer keys,
// recognised by name wherever they sit (not by position).
func pointerKeysStrippedByName(c *Ctx) {
	u, r := c.U, c.R
	const rule = "R-KEYS-STRIPPED-BY-NAME"
	rs := u.Func("ResolveShmBatch")
	if rs == nil {
		return
	}
	okSkip := false
	Instrs(rs, func(in ssa.Instruction) {
		ci, ok := in.(*ssa.Call)
		if !ok {
			return
		}
		if b, isB := ci.Call.Value.(*ssa.Builtin); isB && b.Name() == "append" {
			g := strings.Join(u.GuardStrings(in), " && ")
			if strings.Contains(g, `!= "vgi_rpc.shm_offset")`) && strings.Contains(g, `!= "vgi_rpc.shm_length")`) {
				okSkip = true
			}
		}
	})
	r.Check(okSkip, rule, "ResolveShmBatch|strip", u.Pos(rs.Pos()), "the sender's keys are kept under a by-name test against both pointer keys", "ResolveShmBatch does not select the sender's keys by comparing each key with the two pointer keys: a pointer batch whose own keys come first loses them and keeps stale pointer keys, so the session no longer matches a plain pipe session")
}

// requestIDReadVerbatim (R-REQID-READ-VERBATIM, C04): the request id that
// responses and log batches echo is the one the client framed. ReadRequest
// applies no string transform to request metadata (trimming or dropping an id
// makes the echoed id differ from the one sent).
func requestIDReadVerbatim(c *Ctx) {
	u, r := c.U, c.R
	const rule = "R-REQID-READ-VERBATIM"
	fn := u.Func("ReadRequest")
	if fn == nil {
		return
	}
	tr := stringTransforms(u, fn)
	r.Check(len(tr) == 0, rule, "ReadRequest|no-transform", u.Pos(fn.Pos()), "no string transform is applied to request metadata", "ReadRequest transforms metadata strings ("+strings.Join(tr, ", ")+"): the request id echoed in responses and logs is not the id the client sent")
}

// utf8GateOnMethodOnly (R-UTF8-GATE-METHOD-ONLY, C10): the only value whose
// encoding ReadRequest refuses is the method name. A refusal on the encoding
// of the version, request-id or log-level value runs before the version gate
// and before the __describe__ exemption, so a request the gate must answer
// (with a mismatch error, or by serving __describe__) gets a ProtocolError.
func utf8GateOnMethodOnly(c *Ctx) {
	u, r := c.U, c.R
	const rule = "R-UTF8-GATE-METHOD-ONLY"
	fn := u.Func("ReadRequest")
	if fn == nil {
		return
	}
	n := 0
	for _, f := range WithAnon(fn) {
		for _, cs := range u.Calls(f, Or(Is("unicode/utf8.ValidString"), Is("unicode/utf8.Valid"))) {
			n++
			d := u.describe(cs.Arg(0), 8)
			r.Check(strings.Contains(d, `"vgi_rpc.method"`), rule, "ReadRequest|utf8-check#"+itoa(n), u.Pos(cs.Instr.Pos()), "the encoding check is on the method name", "ReadRequest checks the encoding of "+d+" and refuses the request on it: that refusal precedes the protocol-version gate and the __describe__ exemption")
		}
	}
	if n == 0 {
		r.Ok(rule, "ReadRequest|utf8-check", u.Pos(fn.Pos()), "no encoding check in ReadRequest (C01 R-METHOD-VERBATIM judges its absence)")
	}
}
