package main

import (
	"go/token"
	"go/types"
	"sort"
	"strings"

	"golang.org/x/tools/go/ssa"
)

func init() {
	register(&PropInfo{
		ID:    "C40",
		Title: "Concurrent HTTP serving is race-free and lazy setup runs once",
		Explanation: "Scope: every function statically reachable from (*HttpServer).ServeHTTP (closures and sync.Once bodies included) plus notifyTransport and ProtocolHash. " +
			"R-SHARED-WRITES: every store to a field of a shared struct type (HttpServer, Server, sessionRegistry, sessionEntry, callStateCache, nonceCache, introspectRateLimiter, AccessLogHook, asyncEmitter, egressRecorder, accessLogSampler) in that scope is (a) made while holding a mutex field of the same object, (b) inside a function run through sync.Once.Do, or (c) pre-publication initialisation of an object allocated in the same function. " +
			"R-GUARDED-READS: a field that is ever written under its object's mutex is, in scope, also read under it. R-GLOBALS: package-level variables are written in scope only inside sync.Once bodies. " +
			"R-NOTIFY: notifyTransport holds transportNotifyMu from entry to every return, never holds transportMu across the hook call, and commits the binding only when the hook returned nil. R-ONCE-FIELDS: sync.Once fields are used only as receivers of Do.",
		NotCovered:  []string{"races inside user handlers, hooks and state objects", "the shared-memory segment (pipe-only, per connection)", "configuration setters called while serving (documented as pre-serve)", "anything the lock discipline does not express (ordering, atomics misuse)"},
		Assumptions: []string{"sync.Mutex/Once/atomic semantics", "static call edges only: calls through interfaces lead to user code or the standard library"},
		Run:         runC40,
	})
}

var sharedTypes = map[string]bool{
	"HttpServer": true, "Server": true, "sessionRegistry": true, "sessionEntry": true, "callStateCache": true, "callStateEntry": true,
	"nonceCache": true, "introspectRateLimiter": true, "AccessLogHook": true, "asyncEmitter": true, "egressRecorder": true, "accessLogSampler": true,
	"tokenIntrospection": true, "oauthPkceState": true,
}

func namedOf(t types.Type) string {
	if p, ok := t.Underlying().(*types.Pointer); ok {
		t = p.Elem()
	}
	if n, ok := t.(*types.Named); ok {
		return n.Obj().Name()
	}
	return ""
}

// onceFuncs: functions executed through (*sync.Once).Do, and everything only they call.
func (u *Unit) onceFuncs() map[*ssa.Function]bool {
	out := map[*ssa.Function]bool{}
	for _, fn := range u.SrcFuncs() {
		for _, cs := range u.Calls(fn, Is("(*sync.Once).Do")) {
			switch f := cs.Arg(1).(type) {
			case *ssa.MakeClosure:
				g := f.Fn.(*ssa.Function)
				out[g] = true
				if strings.HasSuffix(g.Name(), "$bound") {
					// bound method value: the underlying method
					if len(f.Bindings) == 1 {
						name := "(" + typeShort(f.Bindings[0].Type()) + ")." + strings.TrimSuffix(g.Name(), "$bound")
						if m := u.Func(name); m != nil {
							out[m] = true
						}
					}
				}
			case *ssa.Function:
				out[f] = true
			}
		}
	}
	// propagate to callees only reachable from once functions
	changed := true
	for changed {
		changed = false
		for _, fn := range u.SrcFuncs() {
			if out[fn] {
				continue
			}
			callers := u.Callers(fn)
			if fn.Parent() != nil && out[fn.Parent()] {
				out[fn] = true
				changed = true
				continue
			}
			if len(callers) == 0 {
				continue
			}
			all := true
			for _, cs := range callers {
				if !out[cs.Fn] {
					all = false
				}
			}
			if all {
				out[fn] = true
				changed = true
			}
		}
	}
	return out
}

func (u *Unit) reachableFrom(roots []*ssa.Function) map[*ssa.Function]bool {
	seen := map[*ssa.Function]bool{}
	var work []*ssa.Function
	for _, r := range roots {
		if r != nil {
			work = append(work, r)
		}
	}
	for len(work) > 0 {
		fn := work[len(work)-1]
		work = work[:len(work)-1]
		if seen[fn] || fn.Blocks == nil {
			continue
		}
		seen[fn] = true
		for _, a := range fn.AnonFuncs {
			work = append(work, a)
		}
		Instrs(fn, func(in ssa.Instruction) {
			for _, op := range in.Operands(nil) {
				switch f := (*op).(type) {
				case *ssa.Function:
					top := f
					for top.Parent() != nil {
						top = top.Parent()
					}
					if top.Pkg == u.SPkg {
						work = append(work, f)
					} else if strings.HasSuffix(f.Name(), "$bound") {
						// bound wrapper of a package method
						if m := u.boundTarget(f); m != nil {
							work = append(work, m)
						}
					}
				case *ssa.MakeClosure:
					g := f.Fn.(*ssa.Function)
					if strings.HasSuffix(g.Name(), "$bound") && len(f.Bindings) == 1 {
						name := "(" + typeShort(f.Bindings[0].Type()) + ")." + strings.TrimSuffix(g.Name(), "$bound")
						if m := u.Func(name); m != nil {
							work = append(work, m)
						}
					} else {
						work = append(work, g)
					}
				}
			}
		})
	}
	return seen
}

func (u *Unit) boundTarget(f *ssa.Function) *ssa.Function {
	if obj, ok := f.Object().(*types.Func); ok {
		for _, g := range u.SrcFuncs() {
			if g.Object() == types.Object(obj) {
				return g
			}
		}
	}
	return nil
}

func runC40(c *Ctx) {
	u, r := c.U, c.R
	seedfixC40(c)
	roots := []*ssa.Function{u.Func("(*HttpServer).ServeHTTP"), u.Func("(*Server).notifyTransport"), u.Func("(*Server).ProtocolHash")}
	for n, cl := range routeClass {
		_ = cl
		if f := u.Func(n); f != nil {
			roots = append(roots, f)
		}
	}
	scope := u.reachableFrom(roots)
	once := u.onceFuncs()
	r.Notes = append(r.Notes, "functions in scope: "+itoa(len(scope))+", run through sync.Once: "+itoa(len(once)))
	if len(scope) < 150 {
		r.Undec("R-SHARED-WRITES", "scope", "-", "only "+itoa(len(scope))+" functions reachable from ServeHTTP (≥150 confirmed by hand)")
	}
	var fns []*ssa.Function
	for f := range scope {
		fns = append(fns, f)
	}
	sort.Slice(fns, func(i, j int) bool { return u.qualName(fns[i]) < u.qualName(fns[j]) })

	// which fields are ever written under their object's mutex (package-wide)
	lockedFields := map[string]string{}
	for _, fn := range u.SrcFuncs() {
		held := u.LockHeldAt(fn)
		Instrs(fn, func(in ssa.Instruction) {
			st, ok := in.(*ssa.Store)
			if !ok {
				return
			}
			fa, ok := st.Addr.(*ssa.FieldAddr)
			if !ok || !sharedTypes[namedOf(fa.X.Type())] {
				return
			}
			base := u.Describe(fa.X)
			for l := range held[in] {
				if strings.HasPrefix(l, base+".") {
					lockedFields[fieldKey(fa.X.Type(), fa.Field)] = strings.TrimPrefix(l, base+".")
				}
			}
		})
	}

	nw, nr := 0, 0
	for _, fn := range fns {
		held := u.LockHeldAt(fn)
		inOnce := once[fn]
		Instrs(fn, func(in ssa.Instruction) {
			switch x := in.(type) {
			case *ssa.Store:
				fa, ok := x.Addr.(*ssa.FieldAddr)
				if ok && sharedTypes[namedOf(fa.X.Type())] {
					key := fieldKey(fa.X.Type(), fa.Field)
					nw++
					base := u.Describe(fa.X)
					okL := false
					for l := range held[in] {
						if strings.HasPrefix(l, base+".") {
							okL = true
						}
						// an object owned by the receiver (cache entries, list elements) is guarded by the receiver's mutex
						if len(fn.Params) > 0 && fn.Signature.Recv() != nil && strings.HasPrefix(l, u.VarName(fn.Params[0])+".") {
							okL = true
						}
					}
					fresh := false
					if al, isAl := fa.X.(*ssa.Alloc); isAl && al.Parent() == fn {
						fresh = true
					}
					if okL || inOnce || fresh {
						return
					}
					r.Viol("R-SHARED-WRITES", u.qualName(fn)+"|"+key, u.Pos(in.Pos()), "field "+key+" of a server-wide object is written on the request path with no mutex of that object held, outside any sync.Once body, and not on a freshly allocated object: concurrent requests race on it")
					return
				}
				if g, ok := x.Addr.(*ssa.Global); ok && g.Pkg == u.SPkg {
					nw++
					r.Check(inOnce, "R-GLOBALS", u.qualName(fn)+"|"+g.Name(), u.Pos(in.Pos()), "package variable written only inside a sync.Once body", "package-level variable "+g.Name()+" is written on the request path outside a sync.Once body")
				}
			case *ssa.UnOp:
				if x.Op != token.MUL {
					return
				}
				fa, ok := x.X.(*ssa.FieldAddr)
				if !ok || !sharedTypes[namedOf(fa.X.Type())] {
					return
				}
				key := fieldKey(fa.X.Type(), fa.Field)
				lk, guarded := lockedFields[key]
				if !guarded {
					return
				}
				nr++
				base := u.Describe(fa.X)
				if held[in][base+"."+lk] || inOnce {
					return
				}
				if al, isAl := fa.X.(*ssa.Alloc); isAl && al.Parent() == fn {
					return
				}
				r.Viol("R-GUARDED-READS", u.qualName(fn)+"|"+key, u.Pos(in.Pos()), "field "+key+" is written under "+lk+" elsewhere but read here without it")
			}
		})
	}
	r.Check(nw >= 10, "R-SHARED-WRITES", "summary", "-", itoa(nw)+" writes to shared objects examined in scope; all under the object's lock, in a Once body, or pre-publication", "only "+itoa(nw)+" shared writes found in scope")
	r.Check(nr >= 10, "R-GUARDED-READS", "summary", "-", itoa(nr)+" reads of lock-guarded fields examined in scope; all under the lock", "only "+itoa(nr)+" guarded reads found in scope")

	// R-NOTIFY
	if nf := c.Fn("R-NOTIFY", "(*Server).notifyTransport"); nf != nil {
		held := u.LockHeldAt(nf)
		okAll := true
		Instrs(nf, func(in ssa.Instruction) {
			if _, ok := in.(*ssa.Return); ok && !InRecoverBlock(in) && !held[in]["s.transportNotifyMu"] {
				okAll = false
			}
		})
		// held from (almost) entry: the first call is the Lock
		r.Check(okAll, "R-NOTIFY", "notify-mutex-held", u.Pos(nf.Pos()), "transportNotifyMu held on every return path (check–hook–commit is one transaction)", "notifyTransport can return without transportNotifyMu held: two first requests can both fire the hook")
		for _, cs := range u.Calls(nf, func(s string) bool { return strings.HasPrefix(s, "dyn:") }) {
			r.Check(held[cs.Instr]["s.transportNotifyMu"] && !held[cs.Instr]["s.transportMu"], "R-NOTIFY", "hook-call-locks", u.Pos(cs.Instr.Pos()), "the hook runs under the notify gate but not under the state mutex", "the serve-start hook is called with transportMu held (hooks reading TransportKind() deadlock) or without the notify gate")
			call := cs.Value().(*ssa.Call)
			for _, f := range []string{"transportKind", "transportCapabilities"} {
				for _, st := range u.StoresToField(nf, "Server", f) {
					// commit only after the hook returned nil (or there is no hook)
					_, blk := u.ErrBranch(call)
					okC := blk != nil
					if okC {
						_, reach := ReachWithout(nf, blk.Instrs[0], isInstr(st), nil)
						okC = !reach
					}
					r.Check(okC && held[st]["s.transportMu"], "R-NOTIFY", "commit "+f, u.Pos(st.Pos()), "binding committed under transportMu and never after a failed hook", "the transport binding is committed although the hook failed (or outside transportMu): a failed start is never retried")
				}
			}
		}
	}
	// R-ONCE-FIELDS
	no := 0
	for _, fn := range u.SrcFuncs() {
		Instrs(fn, func(in ssa.Instruction) {
			fa, ok := in.(*ssa.FieldAddr)
			if !ok || typeShort(derefType(fa.Type())) != "sync.Once" {
				return
			}
			no++
			for _, ref := range *fa.Referrers() {
				ci, isCall := ref.(ssa.CallInstruction)
				if !isCall || u.CalleeName(ci.Common()) != "(*sync.Once).Do" {
					r.Viol("R-ONCE-FIELDS", u.qualName(fn)+"|"+fieldKey(fa.X.Type(), fa.Field), u.Pos(in.Pos()), "a sync.Once field is used other than as the receiver of Do (copied/reset): the guarded setup can run twice")
				}
			}
		})
	}
	r.Check(no >= 4, "R-ONCE-FIELDS", "summary", "-", itoa(no)+" uses of sync.Once fields, all as Do receivers", "fewer sync.Once uses than confirmed by hand")
}
