package main

import (
	"go/token"
	"strings"

	"golang.org/x/tools/go/ssa"
)

func init() {
	register(&PropInfo{
		ID:    "C30",
		Title: "Externalized batches resolve to exactly the uploaded data",
		Explanation: "R-META-CHANNEL: framework keys are written as the batch's custom metadata (array.NewRecordBatchWithMetadata); every reader of framework keys in the fetched stream (batchMetadata and whatever ResolveExternalLocation passes to metaGet) must read RecordBatchWithMetadata.Metadata() — metadata whose only origin is (*arrow.Schema).Metadata() is the wrong channel. " +
			"R-SHA: the IPC parse is dominated by checksum equality whenever the checksum key is present, and the digest is computed over the fetched (decoded) bytes. " +
			"R-ONE-DATA-BATCH: in the resolve loop log batches are skipped, a zero-row batch carrying a location is an error, a missing data batch is an error, and a previously retained batch is released before being replaced. " +
			"R-SHA-PRE-COMPRESSION: on upload the digest is taken before compression and both are over the same serialised bytes.",
		NotCovered:  []string{"batch equality (schema, values, metadata) after the round trip — Arrow IPC semantics", "storage backend behaviour"},
		Assumptions: []string{"arrow-go's IPC reader surfaces custom_metadata on the record (ipc/file_reader.go, confirmed by reading)"},
		Run:         runC30,
	})
	register(&PropInfo{
		ID:    "C31",
		Title: "External fetches obey the URL validator and size limits on every hop",
		Explanation: "R-VALIDATE-FIRST: the first fetchExternalData call is dominated by URLValidator == nil ∨ validator(url) == nil; inside the CheckRedirect hook every permissive return is dominated by len(via) ≤ maxRedirects and by the validator call on the redirect target. " +
			"R-BOUNDED-READ: the response body and the zstd decoder are read through io.LimitReader(·, cap+1) followed by a len > cap refusal; Content-Length over the cap is refused before reading. " +
			"R-ATTEMPTS: the retry loop runs maxRetries()+1 times and every return of maxRetries() is ≤ 2. " +
			"R-URL-TAINT: inside the closure of ResolveExternalLocation the URL reaches error constructors only through redactExternalURL, and http.Client errors (which embed the URL) are never wrapped or formatted into returned errors.",
		NotCovered:  []string{"DNS rebinding / what the validator itself checks", "net/http redirect mechanics"},
		Assumptions: []string{"net/http consults CheckRedirect before following every redirect"},
		Run:         runC31,
	})
	register(&PropInfo{
		ID:    "C32",
		Title: "Parallel range fetches terminate with the exact resource or an error",
		Explanation: "Two necessary conditions. R-RECV-LIVE: every blocking receive from the result channel in FetchWithParallelRangeRequests' collection loop is guarded by the in-flight counter being positive (the counter is incremented next to each `go fetchChunk` and decremented after each receive), so the loop cannot wait for a result nobody will send. " +
			"R-LEN-CHECK: a chunk is accepted (sent as a success) only after its length was compared with the requested range's length, so a server that ignores Range or truncates cannot yield wrong bytes silently; chunk bodies are read through a bounded reader.",
		NotCovered:  []string{"the wall-clock bound (depends on client timeouts)", "hedging neutrality under all schedules", "byte-exactness of a server that returns the right length but wrong content"},
		Assumptions: []string{},
		Run:         runC32,
	})
}

// ---------------------------------------------------------------- C30

func runC30(c *Ctx) {
	u, r := c.U, c.R
	seedfixC30(c)
	// R-META-CHANNEL
	if bm := c.Fn("R-META-CHANNEL", "batchMetadata"); bm != nil {
		k := 0
		custom := false
		schemaOnly := false
		Instrs(bm, func(in ssa.Instruction) {
			ret, ok := in.(*ssa.Return)
			if !ok {
				return
			}
			d := u.Describe(ret.Results[0])
			k++
			if strings.Contains(d, "RecordBatchWithMetadata.Metadata(") {
				custom = true
			} else if strings.Contains(d, "arrow.Schema).Metadata(") {
				schemaOnly = true
			}
		})
		// custom metadata must be consulted, and it must be consulted FIRST (schema metadata at most a fallback)
		first := ""
		Instrs(bm, func(in ssa.Instruction) {
			if first != "" {
				return
			}
			if cs, ok := in.(ssa.CallInstruction); ok {
				n := u.CalleeName(cs.Common())
				if strings.Contains(n, "RecordBatchWithMetadata.Metadata") {
					first = "custom"
				} else if strings.Contains(n, "arrow.Schema).Metadata") || strings.Contains(n, "Schema).HasMetadata") {
					first = "schema"
				}
			}
		})
		r.Check(custom && first == "custom", "R-META-CHANNEL", "batchMetadata", u.Pos(bm.Pos()), "reads the record's custom metadata (schema metadata only as a fallback="+boolStr(schemaOnly)+")",
			"batchMetadata reads only rec.Schema().Metadata(): the framework writes vgi_rpc.* keys as *batch custom metadata* and arrow-go's IPC reader returns them on the record, so log batches and nested pointers inside a fetched stream are not recognised")
	}
	rf := c.Fn("R-META-CHANNEL", "ResolveExternalLocation")
	if rf == nil {
		return
	}
	// writers use the batch channel
	wn := 0
	for _, fn := range u.SrcFuncs() {
		for _, cs := range u.Calls(fn, HasSuffix("array.NewRecordBatchWithMetadata")) {
			_ = cs
			wn++
		}
	}
	r.Check(wn >= 10, "R-META-CHANNEL", "writers", "-", itoa(wn)+" framework writers attach metadata through NewRecordBatchWithMetadata", "framework writers no longer use NewRecordBatchWithMetadata")
	// metaGet calls inside the resolve loop read batchMetadata(rec)
	for _, cs := range u.Calls(rf, Is("metaGet")) {
		d := u.Describe(cs.Arg(0))
		key := u.Describe(cs.Arg(1))
		if strings.HasPrefix(d, "batchMetadata(") || d == "meta" {
			r.Ok("R-META-CHANNEL", "ResolveExternalLocation|metaGet "+key, u.Pos(cs.Instr.Pos()), "reads "+d)
		} else {
			r.Viol("R-META-CHANNEL", "ResolveExternalLocation|metaGet "+key, u.Pos(cs.Instr.Pos()), "framework key "+key+" looked up in "+d+", which is neither the pointer batch's metadata nor batchMetadata(rec)")
		}
	}
	// R-SHA
	nr := u.Calls(rf, HasSuffix("ipc.NewReader"))
	if len(nr) == 1 {
		// every path to NewReader with the key present passes the equality test: the mismatch branch returns
		shaOK := false
		for _, x := range u.Calls(rf, Is("fmt.Errorf")) {
			if s, _ := ConstString(x.Arg(0)); strings.Contains(s, "checksum mismatch") {
				okG := u.HasGuardContaining(x.Instr, "metaGet(meta, ", "#1") && u.HasGuardContaining(x.Instr, "encoding/hex.EncodeToString(", " != ")
				_, reach := ReachWithout(rf, x.Instr, isInstr(nr[0].Instr), nil)
				shaOK = okG && !reach
			}
		}
		r.Check(shaOK, "R-SHA", "ResolveExternalLocation|verify-before-parse", u.Pos(nr[0].Instr.Pos()), "a mismatching digest returns before the fetched bytes are parsed", "no digest refusal guards the IPC parse")
		for _, x := range u.Calls(rf, Is("crypto/sha256.Sum256")) {
			d := u.Describe(x.Arg(0))
			r.Check(d == "fetchedData" || strings.Contains(d, "fetchExternalData("), "R-SHA", "ResolveExternalLocation|digest-input", u.Pos(x.Instr.Pos()), "digest over the fetched, decoded bytes ("+d+")", "digest computed over "+d)
			r.Check(strings.Contains(u.Describe(nr[0].Arg(0)), "fetchedData") || strings.Contains(u.Describe(nr[0].Arg(0)), "fetchExternalData("), "R-SHA", "ResolveExternalLocation|parse-input", u.Pos(nr[0].Instr.Pos()), "the bytes parsed are the bytes digested", "parsed bytes are "+u.Describe(nr[0].Arg(0)))
		}
	} else {
		r.Undec("R-SHA", "ResolveExternalLocation", u.Pos(rf.Pos()), "ipc.NewReader call not unique")
	}
	// R-ONE-DATA-BATCH
	ret := u.Calls(rf, HasSuffix("RecordBatch.Retain"))
	if len(ret) != 1 {
		r.Undec("R-ONE-DATA-BATCH", "ResolveExternalLocation|retain", u.Pos(rf.Pos()), "expected one Retain in the resolve loop")
	} else {
		rt := ret[0]
		j := strings.Join(u.GuardStrings(rt.Instr), " && ")
		okLog := strings.Contains(j, `!metaGet(batchMetadata(`) && strings.Contains(j, `"vgi_rpc.log_level")#1`)
		r.Check(okLog, "R-ONE-DATA-BATCH", "skip-logs", u.Pos(rt.Instr.Pos()), "a batch carrying a log level is never retained as data", "the retained batch is not excluded from being a log batch; guards: "+j)
		// pointer-in-stream is an error that cannot reach Retain
		ptr := false
		for _, x := range u.Calls(rf, Is("fmt.Errorf")) {
			if s, _ := ConstString(x.Arg(0)); strings.Contains(s, "redirect loop") {
				okG := u.HasGuardContaining(x.Instr, `"vgi_rpc.location")#1`) && u.HasGuardContaining(x.Instr, "NumRows(", "== 0")
				_, reach := ReachWithout(rf, x.Instr, isInstr(rt.Instr), nil)
				ptr = okG && !reach
			}
		}
		r.Check(ptr, "R-ONE-DATA-BATCH", "nested-pointer-is-error", u.Pos(rt.Instr.Pos()), "a zero-row batch carrying a location inside the fetched stream is refused", "a pointer batch inside the fetched stream is not refused")
		// previously retained batch released before replacement
		rel := false
		for _, x := range u.Calls(rf, HasSuffix("RecordBatch.Release")) {
			if Dominates(x.Instr, rt.Instr) || x.Instr.Block() == rt.Instr.Block() || reachable(rf, x.Instr, rt.Instr) {
				if strings.Contains(u.Describe(x.Common().Value), "resolvedBatch") && u.HasGuardContaining(x.Instr, "resolvedBatch", "!= nil") {
					rel = true
				}
			}
		}
		r.Check(rel, "R-ONE-DATA-BATCH", "release-replaced", u.Pos(rt.Instr.Pos()), "an earlier retained data batch is released when a later one replaces it", "when the fetched stream holds several data batches every Retain but the last is leaked (no Release of the replaced batch)")
		none := false
		for _, x := range u.Calls(rf, Is("fmt.Errorf")) {
			if s, _ := ConstString(x.Arg(0)); strings.Contains(s, "no data batch") && u.HasGuardContaining(x.Instr, "resolvedBatch", "== nil") {
				none = true
			}
		}
		r.Check(none, "R-ONE-DATA-BATCH", "no-data-is-error", u.Pos(rf.Pos()), "a fetched stream without a data batch is an error", "missing data batch is not refused")
	}
	// R-SHA-PRE-COMPRESSION
	if ef := c.Fn("R-SHA-PRE-COMPRESSION", "externalizeBatchCtx"); ef != nil {
		sums := u.Calls(ef, Is("crypto/sha256.Sum256"))
		encs := u.Calls(ef, HasSuffix("zstd.Encoder).EncodeAll"))
		ok := len(sums) == 1 && len(encs) == 1 && Dominates(sums[0].Instr, encs[0].Instr) && strings.HasPrefix(u.Describe(sums[0].Arg(0)), "serializeBatchAsIPC(") && strings.HasPrefix(u.Describe(encs[0].Arg(1)), "serializeBatchAsIPC(")
		r.Check(ok, "R-SHA-PRE-COMPRESSION", "externalizeBatchCtx", u.Pos(ef.Pos()), "digest of the serialised bytes is taken before they are compressed", "digest is not taken over the uncompressed serialised bytes before compression")
		for _, x := range u.Calls(ef, Is("MakeExternalLocationBatch")) {
			hasDigest := false
			for _, o := range u.Origins(x.Arg(2), &OriginOpts{MaxNodes: 200}) {
				if o.Kind == "call" && o.Desc == "encoding/hex.EncodeToString" {
					hasDigest = true
				}
			}
			// varargs: the digest is stored into the variadic slice
			Instrs(ef, func(in ssa.Instruction) {
				if st, ok := in.(*ssa.Store); ok && strings.HasPrefix(u.Describe(st.Val), "encoding/hex.EncodeToString(") {
					hasDigest = true
				}
			})
			r.Check(hasDigest, "R-SHA-PRE-COMPRESSION", "pointer-carries-digest", u.Pos(x.Instr.Pos()), "pointer batch carries the digest", "pointer batch is built without the digest")
		}
	}
}

// ---------------------------------------------------------------- C31

func runC31(c *Ctx) {
	u, r := c.U, c.R
	seedfixC31(c)
	rf := c.Fn("R-VALIDATE-FIRST", "ResolveExternalLocation")
	ff := c.Fn("R-VALIDATE-FIRST", "fetchExternalData")
	if rf == nil || ff == nil {
		return
	}
	// first fetch dominated by validator ok
	for _, cs := range u.Calls(rf, Is("fetchExternalData")) {
		// the refusal branch exists: validator(url) != nil → return
		ok := false
		for _, v := range u.Calls(rf, func(s string) bool { return strings.HasPrefix(s, "dyn:config.URLValidator") }) {
			call := v.Value().(*ssa.Call)
			_, blk := u.ErrBranch(call)
			if blk != nil && u.HasGuardContaining(v.Instr, "config.URLValidator != nil") && u.Describe(v.Arg(0)) == u.Describe(cs.Arg(1)) {
				_, reach := ReachWithout(rf, blk.Instrs[0], isInstr(cs.Instr), nil)
				if !reach && Dominates(v.Instr.Block().Idom().Instrs[0], cs.Instr) {
					ok = true
				}
			}
		}
		r.Check(ok, "R-VALIDATE-FIRST", "ResolveExternalLocation|first-hop", u.Pos(cs.Instr.Pos()), "the location is validated before the first request is sent", "fetchExternalData can be reached without the configured validator having accepted the same URL")
		r.Check(u.Describe(cs.Arg(2)) == "config.URLValidator", "R-VALIDATE-FIRST", "ResolveExternalLocation|validator-passed", u.Pos(cs.Instr.Pos()), "the same validator is handed to the fetcher for redirects", "fetcher receives "+u.Describe(cs.Arg(2))+" as redirect validator")
	}
	// CheckRedirect closure
	var hook *ssa.Function
	for _, a := range ff.AnonFuncs {
		if len(a.Params) == 2 && strings.Contains(typeShort(a.Params[1].Type()), "http.Request") {
			hook = a
		}
	}
	if hook == nil {
		r.Viol("R-VALIDATE-FIRST", "fetchExternalData|CheckRedirect", u.Pos(ff.Pos()), "no CheckRedirect hook installed")
	} else {
		installed := len(u.StoresToField(ff, "Client", "CheckRedirect")) == 1
		r.Check(installed, "R-VALIDATE-FIRST", "fetchExternalData|hook-installed", u.Pos(hook.Pos()), "redirect hook installed on the client copy used for the request", "redirect hook is not stored into the client's CheckRedirect")
		n := 0
		Instrs(hook, func(in ssa.Instruction) {
			ret, ok := in.(*ssa.Return)
			if !ok {
				return
			}
			d := u.Describe(ret.Results[0])
			if strings.HasPrefix(d, "fmt.Errorf(") {
				return
			}
			n++
			j := strings.Join(u.GuardStrings(in), " && ")
			okH := strings.Contains(j, "(len(via) <= maxRedirects)")
			// validator consulted (or nil)
			okV := false
			for _, p := range append([]*ssa.BasicBlock{in.Block()}, domChain(in.Block())...) {
				for _, q := range p.Preds {
					if ifi, isIf := q.Instrs[len(q.Instrs)-1].(*ssa.If); isIf {
						cd := u.Describe(ifi.Cond)
						if strings.Contains(cd, "validator != nil") && q.Succs[1] == p {
							okV = true
						}
						if strings.Contains(cd, "dyn:validator(") && strings.Contains(cd, "String(req.URL)") && strings.HasSuffix(cd, "!= nil)") && q.Succs[1] == p {
							okV = true
						}
					}
				}
			}
			r.Check(okH && okV, "R-VALIDATE-FIRST", "CheckRedirect|permit#"+itoa(n)+" "+d, u.Pos(in.Pos()), "a redirect is followed only within the hop limit and after the validator accepted req.URL", "CheckRedirect permits a hop under: "+j+" (validator consulted="+boolStr(okV)+")")
		})
		if n == 0 {
			r.Undec("R-VALIDATE-FIRST", "CheckRedirect", u.Pos(hook.Pos()), "no permissive return found")
		}
	}
	// R-BOUNDED-READ
	for _, name := range []string{"fetchExternalData", "decompressZstdCapped"} {
		fn := u.Func(name)
		if fn == nil {
			continue
		}
		for i, cs := range u.Calls(fn, Is("io.ReadAll")) {
			d := u.Describe(cs.Arg(0))
			lim := ""
			if lc := rootCall(cs.Arg(0)); lc != nil && u.CalleeName(&lc.Call) == "io.LimitReader" {
				lim = u.Describe(lc.Call.Args[1])
			}
			follow := false
			Instrs(fn, func(in ssa.Instruction) {
				if b, ok := in.(*ssa.BinOp); ok && b.Op == token.GTR && strings.Contains(u.Describe(b.X), "len(") && Dominates(cs.Instr, in) {
					follow = true
				}
			})
			r.Check(strings.HasSuffix(lim, " + 1)") && follow, "R-BOUNDED-READ", name+"|ReadAll#"+itoa(i+1), u.Pos(cs.Instr.Pos()), "reads at most cap+1 ("+lim+") then refuses len > cap", "io.ReadAll("+d+") is not bounded by LimitReader(cap+1) with a following overflow refusal")
		}
	}
	okCL := false
	for _, x := range u.Calls(ff, Is("fmt.Errorf")) {
		if s, _ := ConstString(x.Arg(0)); strings.Contains(s, "Content-Length") && u.HasGuardContaining(x.Instr, ".ContentLength > maxFetchBytes") {
			okCL = true
		}
	}
	r.Check(okCL, "R-BOUNDED-READ", "fetchExternalData|content-length", u.Pos(ff.Pos()), "declared length over the cap refused before reading", "no Content-Length refusal")
	// R-ATTEMPTS
	if mf := c.Fn("R-ATTEMPTS", "(*ExternalLocationConfig).maxRetries"); mf != nil {
		maxv := int64(-1)
		okAll := true
		Instrs(mf, func(in ssa.Instruction) {
			ret, ok := in.(*ssa.Return)
			if !ok {
				return
			}
			if k, isC := ConstInt(ret.Results[0]); isC {
				if k > maxv {
					maxv = k
				}
				return
			}
			// returning the field itself: must be guarded ≤ 2 and > 0
			if !u.HasGuardContaining(in, "c.MaxRetries <= 2") || !u.HasGuardContaining(in, "c.MaxRetries > 0") {
				okAll = false
			}
		})
		r.Check(okAll && maxv <= 2 && maxv >= 0, "R-ATTEMPTS", "maxRetries|bound", u.Pos(mf.Pos()), "every return ≤ 2", "maxRetries() can exceed 2")
	}
	// loop bound
	okLoop := false
	Instrs(rf, func(in ssa.Instruction) {
		if b, ok := in.(*ssa.BinOp); ok && b.Op == token.LSS && strings.Contains(u.Describe(b.Y), "maxRetries(config) + 1)") {
			okLoop = true
		}
	})
	r.Check(okLoop, "R-ATTEMPTS", "ResolveExternalLocation|loop", u.Pos(rf.Pos()), "attempt < maxRetries()+1", "retry loop is not bounded by maxRetries()+1")
	for _, cs := range u.Calls(rf, Is("fetchExternalData")) {
		_, again := ReachWithout(rf, cs.Instr, isInstr(cs.Instr), func(in ssa.Instruction) bool {
			b, ok := in.(*ssa.BinOp)
			return ok && b.Op == token.LSS && strings.Contains(u.Describe(b.Y), "maxRetries(config) + 1)")
		})
		r.Check(!again, "R-ATTEMPTS", "ResolveExternalLocation|every-attempt-counted", u.Pos(cs.Instr.Pos()), "a further attempt always passes the attempt-count test", "fetchExternalData can be re-invoked without passing the attempt bound")
	}
	// R-URL-TAINT
	c.urlTaint(rf, ff)
}

func domChain(b *ssa.BasicBlock) []*ssa.BasicBlock {
	var out []*ssa.BasicBlock
	for d := b.Idom(); d != nil; d = d.Idom() {
		out = append(out, d)
	}
	return out
}

func (c *Ctx) urlTaint(rf, ff *ssa.Function) {
	u, r := c.U, c.R
	sink := func(callee string, argIdx int, cs CallSite) bool {
		return callee == "fmt.Errorf" || callee == "errors.New" || callee == "fmt.Sprintf" || strings.HasPrefix(callee, "log/slog.")
	}
	opts := &TaintOpts{
		Sanitizers: map[string]bool{"redactExternalURL": true},
		Neutral:    map[string]bool{"len": true, "metaGet": true},
		Stop: func(callee string) bool {
			// consumers that use the URL without echoing it into a returned value we track here
			return strings.HasPrefix(callee, "dyn:") || callee == "(*net/http.Client).Get" || callee == "net/url.Parse" || callee == "strings.ReplaceAll" || callee == "fetchExternalData"
		},
		Sink: sink,
	}
	n := 0
	// sources: locationURL in ResolveExternalLocation, rawURL in fetchExternalData
	for _, cs := range u.Calls(rf, Is("metaGet")) {
		if s, _ := ConstString(cs.Arg(1)); s == "vgi_rpc.location" {
			if v := ExtractOf(cs.Value().(*ssa.Call), 0); v != nil {
				n++
				hits := u.Taint(v, opts)
				// arrow.NewMetadata([..source..]) is the documented MetaLocationSource; not an error
				r.Check(len(hits) == 0, "R-URL-TAINT", "ResolveExternalLocation|locationURL", u.Pos(cs.Instr.Pos()), "the location reaches error text only through redactExternalURL", "raw location URL (query string / user info) flows into: "+hitSummary(hits))
			}
		}
	}
	if len(ff.Params) >= 2 {
		n++
		hits := u.Taint(ff.Params[1], opts)
		r.Check(len(hits) == 0, "R-URL-TAINT", "fetchExternalData|rawURL", u.Pos(ff.Pos()), "rawURL reaches error text only through redactExternalURL", "raw URL flows into: "+hitSummary(hits))
	}
	// http.Client errors must not be formatted into returned errors
	for _, fn := range []*ssa.Function{ff} {
		for _, g := range u.Calls(fn, Is("(*net/http.Client).Get")) {
			if ev := ExtractOf(g.Value().(*ssa.Call), 1); ev != nil {
				n++
				hits := u.Taint(ev, &TaintOpts{Neutral: map[string]bool{"strings.Contains": true, "invoke error.Error": false}, Sink: func(callee string, argIdx int, cs CallSite) bool {
					return callee == "fmt.Errorf" || callee == "fmt.Sprintf"
				}, Stop: func(callee string) bool { return callee == "strings.Contains" }})
				r.Check(len(hits) == 0, "R-URL-TAINT", "fetchExternalData|client-error", u.Pos(g.Instr.Pos()), "the transport error (which embeds the full URL) is never formatted into the returned error", "http.Client's error — which quotes the full URL — is formatted into a returned error: "+hitSummary(hits))
			}
		}
	}
	// validator error text: the location is replaced before formatting
	for _, cs := range u.Calls(rf, Is("strings.ReplaceAll")) {
		ok := strings.HasPrefix(u.Describe(cs.Arg(2)), "redactExternalURL(")
		r.Check(ok, "R-URL-TAINT", "ResolveExternalLocation|validator-message", u.Pos(cs.Instr.Pos()), "validator message has the raw URL replaced by its redacted form", "validator message is not redacted")
	}
	if rd := c.Fn("R-URL-TAINT", "redactExternalURL"); rd != nil {
		cleared := map[string]bool{}
		Instrs(rd, func(in ssa.Instruction) {
			if st, ok := in.(*ssa.Store); ok {
				if fa, ok := st.Addr.(*ssa.FieldAddr); ok {
					cleared[fieldName(fa.X.Type(), fa.Field)] = true
				}
			}
		})
		r.Check(cleared["User"] && cleared["RawQuery"], "R-URL-TAINT", "redactExternalURL", u.Pos(rd.Pos()), "user info and query are cleared", "redactExternalURL does not clear both User and RawQuery")
	}
	if n < 3 {
		r.Undec("R-URL-TAINT", "sources", "-", "URL sources not found")
	}
}

// ---------------------------------------------------------------- C32

func runC32(c *Ctx) {
	u, r := c.U, c.R
	fn := c.Fn("R-RECV-LIVE", "FetchWithParallelRangeRequests")
	if fn == nil {
		return
	}
	runC32Counting(c)
	// the collection loop's receives (in the function itself, not in the drain goroutine)
	n := 0
	Instrs(fn, func(in ssa.Instruction) {
		uo, ok := in.(*ssa.UnOp)
		if !ok || uo.Op != token.ARROW {
			return
		}
		n++
		gs := u.GuardStrings(in)
		okG := false
		for _, g := range gs {
			if g == "(expected > 0)" || strings.HasPrefix(g, "(expected > ") || strings.HasPrefix(g, "(expected >= 1") {
				okG = true
			}
		}
		r.Check(okG, "R-RECV-LIVE", "collect-loop|receive#"+itoa(n), u.Pos(in.Pos()), "blocks on the channel only while a fetch is still in flight",
			"the collection loop blocks on <-resultCh under {"+strings.Join(gs, " && ")+"} with no test that any fetch is still in flight: if a chunk fails before the last success arrives, chunksRemaining stays > 0 with nothing left to send and the call never returns")
	})
	if n == 0 {
		r.Undec("R-RECV-LIVE", "collect-loop", u.Pos(fn.Pos()), "no channel receive found")
	}
	// counter discipline: every `go fetchChunk` after the initial batch is paired with expected++
	gos := 0
	Instrs(fn, func(in ssa.Instruction) {
		if _, ok := in.(*ssa.Go); ok {
			gos++
		}
	})
	for _, a := range fn.AnonFuncs {
		Instrs(a, func(in ssa.Instruction) {
			g, ok := in.(*ssa.Go)
			if !ok || !strings.Contains(u.CalleeName(g.Common()), "FetchWithParallelRangeRequests$") {
				return
			}
			// hedge launch: a store expected+1 in the same block
			inc := false
			for _, x := range in.Block().Instrs {
				if st, ok := x.(*ssa.Store); ok && strings.Contains(u.Describe(st.Addr), "expected") {
					if b, ok := st.Val.(*ssa.BinOp); ok && b.Op == token.ADD {
						inc = true
					}
				}
			}
			r.Check(inc, "R-RECV-LIVE", "hedge|counted", u.Pos(in.Pos()), "a hedged fetch increments the in-flight counter", "a hedged fetch is launched without incrementing the in-flight counter")
		})
	}
	// R-LEN-CHECK in the fetchChunk closure
	var fc *ssa.Function
	for _, a := range fn.AnonFuncs {
		if len(u.Calls(a, Is("(*net/http.Client).Do"))) == 1 {
			fc = a
		}
	}
	if fc == nil {
		r.Undec("R-LEN-CHECK", "fetchChunk", u.Pos(fn.Pos()), "chunk fetcher closure not found")
		return
	}
	k := 0
	Instrs(fc, func(in ssa.Instruction) {
		sd, ok := in.(*ssa.Send)
		if !ok {
			return
		}
		// success send: the data field stored is the read body
		isSuccess := false
		for _, x := range in.Block().Instrs {
			if st, ok := x.(*ssa.Store); ok {
				if fa, ok := st.Addr.(*ssa.FieldAddr); ok && fieldName(fa.X.Type(), fa.Field) == "data" {
					isSuccess = true
				}
			}
		}
		_ = sd
		if !isSuccess {
			return
		}
		k++
		gs := u.GuardStrings(in)
		okL := false
		for _, g := range gs {
			if strings.Contains(g, "len(") && (strings.Contains(g, "rangeEnd") || strings.Contains(g, "rangeStart") || strings.Contains(g, "want")) && strings.Contains(g, "==") {
				okL = true
			}
		}
		r.Check(okL, "R-LEN-CHECK", "fetchChunk|success-send", u.Pos(in.Pos()), "a chunk is accepted only when its length equals the requested range's length",
			"a chunk body is accepted under {"+strings.Join(gs, " && ")+"} without comparing its length with the requested range: a server that ignores Range (200 + whole body) or truncates yields wrong bytes with no error")
	})
	if k == 0 {
		r.Undec("R-LEN-CHECK", "fetchChunk", u.Pos(fc.Pos()), "success send not found")
	}
	for i, cs := range u.Calls(fc, Is("io.ReadAll")) {
		d := u.Describe(cs.Arg(0))
		r.Check(strings.HasPrefix(d, "io.LimitReader("), "R-LEN-CHECK", "fetchChunk|bounded-read#"+itoa(i+1), u.Pos(cs.Instr.Pos()), "chunk body read through a bounded reader", "chunk body read with unbounded io.ReadAll("+d+"): a server can make one chunk arbitrarily large")
	}
}
