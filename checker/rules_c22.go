package main

import (
	"go/token"
	"sort"
	"strings"

	"golang.org/x/tools/go/ssa"
)

// C22 — every RPC and control route is behind the authenticator.

func init() {
	register(&PropInfo{
		ID:    "C22",
		Title: "Every RPC and control route is behind the authenticator",
		Explanation: "R-ROUTE-TABLE: every (*http.ServeMux).HandleFunc/Handle call in package vgirpc is enumerated and its handler value resolved " +
			"(bound methods, wrappers, phi of alternatives); each handler must appear in the checker's PROTECTED or PUBLIC table (an unclassified route fails). " +
			"R-AUTH-DOM: in every PROTECTED handler, every call other than a small pre-auth allowlist (feature-off 404, header/path reads) must be dominated by the " +
			"success edge (result != nil) of (*HttpServer).authenticate(w, r) applied to the handler's own request, and the nil edge must return without work. " +
			"R-AUTH-RESULT: (*HttpServer).authenticate returns non-nil only as Anonymous() under authenticateFunc==nil, or as the callback's result under err==nil. " +
			"R-PREFLIGHT-ONLY: the pre-mux short-circuit in ServeHTTP is guarded by r.Method == OPTIONS.",
		NotCovered: []string{
			"what operator-registered custom routes (HttpServer.Handle) do",
			"work performed by the user-supplied AuthenticateFunc itself",
		},
		Assumptions: []string{"net/http.ServeMux dispatches only to registered handlers", "SSA dominance over-approximates no path: a guarded call cannot execute without the guard having held"},
		Run:         runC22,
	})
}

// routeClass is the frozen classification table (symbol → class, reason).
var routeClass = map[string][2]string{
	"(*HttpServer).handleStreamInit":       {"PROTECTED", "RPC: stream init"},
	"(*HttpServer).handleStreamExchange":   {"PROTECTED", "RPC: continuation"},
	"(*HttpServer).handleUnary":            {"PROTECTED", "RPC: unary and __describe__"},
	"(*HttpServer).handleUploadURLInit":    {"PROTECTED", "control route that vends pre-signed URLs"},
	"(*HttpServer).handleIntrospectToken":  {"PROTECTED", "control route that reveals token validity"},
	"(*HttpServer).handleOAuthWellKnown":   {"PUBLIC", "OAuth metadata document"},
	"(*HttpServer).handleHealth":           {"PUBLIC", "health probe"},
	"(*HttpServer).handleOAuthCallback":    {"PUBLIC", "login route"},
	"(*HttpServer).handleOAuthLogout":      {"PUBLIC", "login route"},
	"(*HttpServer).handleOAuthTokenProxy":  {"PUBLIC", "login route (token proxy)"},
	"(*HttpServer).handleDescribePage":     {"PUBLIC", "HTML page"},
	"(*HttpServer).handleLandingPage":      {"PUBLIC", "HTML page"},
	"(*HttpServer).handleNotFound":         {"PUBLIC", "HTML 404 page"},
	"(*HttpServer).handleStickyDelete":     {"PUBLIC", "idempotent session-delete route"},
	"(*HttpServer).wrapPageWithPkce":       {"PUBLIC", "HTML page wrapped with browser login"},
	"param:handler@(*HttpServer).Handle":   {"PUBLIC", "operator-registered custom route"},
}

// calls a PROTECTED handler may make before authentication succeeds: they
// read the request line/headers or answer a feature-off 404 and perform no
// RPC work.
var preAuthAllowed = map[string]string{
	"net/http.NotFound":                  "feature-off 404",
	"(net/http.Header).Get":              "header read",
	"(net/http.Header).Set":              "header write",
	"(*net/http.Request).PathValue":      "path read",
	"invoke net/http.ResponseWriter.Header": "header map access",
	"(*HttpServer).authenticate":         "the authenticator itself",
	"writeIntrospectRefusal":             "fixed refusal writer (feature-off 404)",
}

// refusal writers allowed pre-auth only under a `h.<config field> == nil` guard.
var preAuthNeedsFeatureOff = map[string]bool{"net/http.NotFound": true, "writeIntrospectRefusal": true}

// handlerNames resolves the handler operand of a mux registration to the set
// of function names it may denote.
func (u *Unit) handlerNames(v ssa.Value, seen map[ssa.Value]bool) []string {
	if seen[v] {
		return nil
	}
	seen[v] = true
	switch x := v.(type) {
	case *ssa.MakeClosure:
		fn := x.Fn.(*ssa.Function)
		if strings.HasSuffix(fn.Name(), "$bound") {
			recv := x.Bindings[0].Type()
			return []string{"(" + typeShort(recv) + ")." + strings.TrimSuffix(fn.Name(), "$bound")}
		}
		return []string{u.qualName(fn)}
	case *ssa.Function:
		return []string{u.qualName(x)}
	case *ssa.Phi:
		var out []string
		for _, e := range x.Edges {
			out = append(out, u.handlerNames(e, seen)...)
		}
		return out
	case *ssa.ChangeType:
		return u.handlerNames(x.X, seen)
	case *ssa.MakeInterface:
		return u.handlerNames(x.X, seen)
	case *ssa.Call:
		// wrapper returning a handler: classify the wrapper and its operands
		out := []string{u.CalleeName(&x.Call)}
		for _, a := range x.Call.Args {
			if _, ok := a.Type().Underlying().(interface{ Params() interface{} }); ok {
				_ = ok
			}
			switch a.(type) {
			case *ssa.MakeClosure, *ssa.Function, *ssa.Phi:
				out = append(out, u.handlerNames(a, seen)...)
			}
		}
		return out
	case *ssa.Parameter:
		return []string{"param:" + u.VarName(x) + "@" + u.qualName(x.Parent())}
	}
	return []string{"unresolved:" + u.Describe(v)}
}

func nilCheckOf(g Guard, v ssa.Value) (nonNil bool, ok bool) {
	b, isBin := g.Cond.(*ssa.BinOp)
	if !isBin || (b.Op != token.EQL && b.Op != token.NEQ) {
		return false, false
	}
	var other ssa.Value
	if b.X == v {
		other = b.Y
	} else if b.Y == v {
		other = b.X
	} else {
		return false, false
	}
	c, isC := other.(*ssa.Const)
	if !isC || c.Value != nil {
		return false, false
	}
	if b.Op == token.NEQ {
		return g.Truth, true
	}
	return !g.Truth, true
}

// GuardedNonNil: instruction in executes only when v != nil.
func GuardedNonNil(in ssa.Instruction, v ssa.Value) bool {
	for _, g := range GuardsAt(in.Block()) {
		if nn, ok := nilCheckOf(g, v); ok && nn {
			return true
		}
	}
	return false
}

func runC22(c *Ctx) {
	u, r := c.U, c.R
	r.Floor("R-ROUTE-TABLE", 17)
	r.Floor("R-AUTH-DOM", 5)

	// ---- R-ROUTE-TABLE
	protected := map[string]bool{}
	for _, fn := range u.SrcFuncs() {
		for _, cs := range u.Calls(fn, Is("(*net/http.ServeMux).HandleFunc", "(*net/http.ServeMux).Handle")) {
			args := cs.Common().Args // recv, pattern, handler
			if len(args) < 3 {
				r.Undec("R-ROUTE-TABLE", shortName(fn), u.Pos(cs.Instr.Pos()), "unexpected mux registration shape")
				continue
			}
			pattern := u.Describe(args[1])
			names := u.handlerNames(args[2], map[ssa.Value]bool{})
			sort.Strings(names)
			for _, n := range names {
				inst := shortName(fn) + "→" + n
				cl, ok := routeClass[n]
				if !ok {
					// A handler the table does not know is held to the PROTECTED rule: if it
					// authenticates first (R-AUTH-DOM below) the property holds for it.
					if u.Func(n) != nil {
						protected[n] = true
						r.Ok("R-ROUTE-TABLE", inst, u.Pos(cs.Instr.Pos()), "pattern "+pattern+" → not in the table of public exceptions: held to the PROTECTED rule")
						continue
					}
					r.Viol("R-ROUTE-TABLE", inst, u.Pos(cs.Instr.Pos()),
						"route "+pattern+" registers handler "+n+" which is neither a known public exception nor a function the checker can hold to the authentication rule")
					continue
				}
				if cl[0] == "PROTECTED" {
					protected[n] = true
				}
				r.Ok("R-ROUTE-TABLE", inst, u.Pos(cs.Instr.Pos()), "pattern "+pattern+" → "+cl[0]+" ("+cl[1]+")")
			}
		}
	}
	// every PROTECTED table entry must still be registered somewhere (a route silently dropped would make the table stale)
	for n, cl := range routeClass {
		if cl[0] == "PROTECTED" && !protected[n] {
			r.Undec("R-ROUTE-TABLE", "table→"+n, "-", "PROTECTED handler "+n+" is no longer registered on the mux; route table is stale")
		}
	}

	// ---- R-AUTH-DOM
	var pnames []string
	for n := range protected {
		pnames = append(pnames, n)
	}
	sort.Strings(pnames)
	for _, n := range pnames {
		fn := u.Func(n)
		if fn == nil {
			r.Undec("R-AUTH-DOM", n, "-", "handler does not resolve")
			continue
		}
		r.Analysed(n)
		c.authDom(fn)
	}

	// ---- R-AUTH-RESULT
	c.authResult()

	// ---- R-PREFLIGHT-ONLY
	c.preflightOnly()
}

func (c *Ctx) authDom(fn *ssa.Function) {
	u, r := c.U, c.R
	name := shortName(fn)
	auths := u.Calls(fn, Is("(*HttpServer).authenticate"))
	if len(auths) == 0 {
		r.Viol("R-AUTH-DOM", name, u.Pos(fn.Pos()), "PROTECTED handler never calls (*HttpServer).authenticate: every request reaches its work unauthenticated")
		return
	}
	if len(auths) > 1 {
		r.Undec("R-AUTH-DOM", name, u.Pos(fn.Pos()), "more than one authenticate call; idiom not recognised")
		return
	}
	ac := auths[0]
	authVal := ac.Value()
	// the authenticator must be applied to this handler's own writer/request
	args := ac.Common().Args
	if len(args) != 3 || args[1] != fn.Params[1] || args[2] != fn.Params[2] {
		r.Viol("R-AUTH-DOM", name, u.Pos(ac.Instr.Pos()), "authenticate is not applied to the handler's own (w, r)")
		return
	}
	// nil edge returns at once: the block reached on auth==nil contains only a return (and RunDefers)
	nilEdgeOK := false
	for _, ref := range *authVal.Referrers() {
		b, ok := ref.(*ssa.BinOp)
		if !ok || (b.Op != token.EQL && b.Op != token.NEQ) {
			continue
		}
		for _, r2 := range *b.Referrers() {
			ifi, ok := r2.(*ssa.If)
			if !ok {
				continue
			}
			nilSucc := ifi.Block().Succs[0]
			if b.Op == token.NEQ {
				nilSucc = ifi.Block().Succs[1]
			}
			// the refused edge does nothing but (optionally log and) return
			onlyReturn := BlockEndsInReturn(nilSucc)
			for _, cs := range u.CallsInBlockChain(nilSucc) {
				if !neutralCallee(cs.Callee) {
					onlyReturn = false
				}
			}
			if onlyReturn {
				nilEdgeOK = true
			}
		}
	}
	r.Check(nilEdgeOK, "R-AUTH-DOM", name+"|nil-edge", u.Pos(ac.Instr.Pos()),
		"auth == nil edge returns immediately", "no `auth == nil → return` edge found after authenticate")

	bad := 0
	total := 0
	Instrs(fn, func(in ssa.Instruction) {
		var callee string
		switch x := in.(type) {
		case ssa.CallInstruction:
			callee = u.CalleeName(x.Common())
		case *ssa.MakeClosure:
			callee = "closure:" + u.qualName(x.Fn.(*ssa.Function))
		default:
			return
		}
		if in == ac.Instr {
			return
		}
		total++
		if Dominates(ac.Instr, in) && GuardedNonNil(in, authVal) {
			return
		}
		if _, ok := preAuthAllowed[callee]; ok || neutralCallee(callee) {
			if !preAuthNeedsFeatureOff[callee] {
				return
			}
			for _, g := range u.GuardStrings(in) {
				if strings.HasPrefix(g, "(h.") && strings.HasSuffix(g, " == nil)") {
					return // answered under a feature-off guard on a configuration field
				}
			}
		}
		bad++
		r.Viol("R-AUTH-DOM", name+"|"+callee, u.Pos(in.Pos()),
			"call to "+callee+" can execute before/without a successful authenticate (not dominated by auth != nil)")
	})
	if bad == 0 {
		r.Ok("R-AUTH-DOM", name, u.Pos(ac.Instr.Pos()), "all "+itoa(total)+" calls/closures are dominated by authenticate(w,r) != nil or are in the pre-auth allowlist")
	}
}

func itoa(n int) string { return fmtInt(n) }
func fmtInt(n int) string {
	if n == 0 {
		return "0"
	}
	neg := n < 0
	if neg {
		n = -n
	}
	var b []byte
	for n > 0 {
		b = append([]byte{byte('0' + n%10)}, b...)
		n /= 10
	}
	if neg {
		b = append([]byte{'-'}, b...)
	}
	return string(b)
}

func (c *Ctx) authResult() {
	u, r := c.U, c.R
	fn := u.Func("(*HttpServer).authenticate")
	if fn == nil {
		r.Undec("R-AUTH-RESULT", "(*HttpServer).authenticate", "-", "does not resolve")
		return
	}
	r.Analysed(shortName(fn))
	Instrs(fn, func(in ssa.Instruction) {
		ret, ok := in.(*ssa.Return)
		if !ok || len(ret.Results) != 1 {
			return
		}
		v := ret.Results[0]
		d := u.Describe(v)
		if cst, ok := v.(*ssa.Const); ok && cst.Value == nil {
			r.Ok("R-AUTH-RESULT", "return nil", u.Pos(in.Pos()), "rejection path")
			return
		}
		guards := u.GuardStrings(in)
		gs := strings.Join(guards, " && ")
		switch {
		case strings.HasPrefix(d, "Anonymous("):
			r.Check(containsAtom(guards, "(h.authenticateFunc == nil)"), "R-AUTH-RESULT", "return Anonymous()", u.Pos(in.Pos()),
				"Anonymous() only under authenticateFunc == nil", "Anonymous() returned without the authenticateFunc == nil guard; guards: "+gs)
		case strings.Contains(d, "dyn:h.authenticateFunc(r)#0"):
			r.Check(containsAtom(guards, "(dyn:h.authenticateFunc(r)#1 == nil)"), "R-AUTH-RESULT", "return callback result", u.Pos(in.Pos()),
				"callback's AuthContext returned only under err == nil", "callback result returned without err == nil; guards: "+gs)
		default:
			r.Viol("R-AUTH-RESULT", "return "+d, u.Pos(in.Pos()), "authenticate returns a value that is neither nil, Anonymous() under no-authenticator, nor the callback's result under err==nil")
		}
	})
}

func containsAtom(guards []string, atom string) bool {
	for _, g := range guards {
		if g == atom {
			return true
		}
	}
	return false
}

func (c *Ctx) preflightOnly() {
	u, r := c.U, c.R
	fn := u.Func("(*HttpServer).ServeHTTP")
	if fn == nil {
		r.Undec("R-PREFLIGHT-ONLY", "ServeHTTP", "-", "does not resolve")
		return
	}
	r.Analysed(shortName(fn))
	// Every return of ServeHTTP that is not preceded by mux.ServeHTTP must be
	// (a) the notifyTransport failure, (b) the 413 refusal, or (c) guarded by r.Method == "OPTIONS".
	muxCall := u.CallMatcher(Is("(*net/http.ServeMux).ServeHTTP"), false)
	n := 0
	Instrs(fn, func(in ssa.Instruction) {
		if _, ok := in.(*ssa.Return); !ok {
			return
		}
		// is there a path entry→this return avoiding mux.ServeHTTP?
		_, reach := ReachWithout(fn, nil, func(x ssa.Instruction) bool { return x == in }, muxCall)
		if !reach {
			return
		}
		n++
		guards := u.GuardStrings(in)
		gs := strings.Join(guards, " && ")
		ok := false
		why := ""
		for _, g := range guards {
			switch {
			case g == `(r.Method == "OPTIONS")`:
				ok, why = true, "CORS preflight"
			case strings.Contains(g, "notifyTransport(") && strings.HasSuffix(g, "!= nil)"):
				ok, why = true, "serve-start hook failed (500, no dispatch)"
			case strings.Contains(g, "r.ContentLength > h.maxRequestBytes"):
				ok, why = true, "413 refusal (no dispatch)"
			}
		}
		r.Check(ok, "R-PREFLIGHT-ONLY", "return#"+why, u.Pos(in.Pos()),
			"non-dispatching exit of ServeHTTP: "+why, "ServeHTTP can return without routing through the mux under guards: "+gs)
	})
	// And the handlers invoked directly (not via mux) from ServeHTTP must be PUBLIC.
	for _, cs := range u.Calls(fn, func(s string) bool { return strings.HasPrefix(s, "(*HttpServer).handle") }) {
		cl, ok := routeClass[cs.Callee]
		guards := strings.Join(u.GuardStrings(cs.Instr), " && ")
		r.Check(ok && cl[0] == "PUBLIC" && strings.Contains(guards, `(r.Method == "OPTIONS")`), "R-PREFLIGHT-ONLY", "direct→"+cs.Callee, u.Pos(cs.Instr.Pos()),
			"direct dispatch only of a PUBLIC handler under OPTIONS", "ServeHTTP dispatches "+cs.Callee+" directly, bypassing the mux, guards: "+guards)
	}
	if n == 0 {
		r.Undec("R-PREFLIGHT-ONLY", "ServeHTTP", u.Pos(fn.Pos()), "no non-dispatching exits found; idiom not recognised")
	}
}

// neutralCallee: calls that neither do RPC work nor influence a decision:
// the print builtins and the standard loggers.
func neutralCallee(name string) bool {
	switch name {
	case "println", "print":
		return true
	}
	return strings.HasPrefix(name, "log/slog.") || strings.HasPrefix(name, "(*log/slog.Logger).") || strings.HasPrefix(name, "log.") || strings.HasPrefix(name, "(*log.Logger).")
}
