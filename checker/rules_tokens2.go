package main

import (
	"go/token"
	"regexp"
	"strings"

	"golang.org/x/tools/go/ssa"
)

// ---------------------------------------------------------------- C14

var methodCmpRe = regexp.MustCompile(`openCursorToken\(.*\)#0\.(\w+) (==|!=) .*PathValue\(r, "method"\)|PathValue\(r, "method"\) (==|!=) .*openCursorToken\(.*\)#0\.(\w+)`)

// the functions that mint a cursor token
var isCursorMint = Is("(*HttpServer).packCursorToken", "(*HttpServer).packCursorTokenFor")

func runC14(c *Ctx) {
	u, r := c.U, c.R
	fn := c.Fn("R-METHOD-BOUND", "(*HttpServer).handleStreamExchange")
	if fn == nil {
		return
	}
	oc := c.OneCall("R-METHOD-BOUND", fn, Is("(*HttpServer).openCursorToken"), "openCursorToken")
	if oc == nil {
		return
	}
	ocCall := oc.Value().(*ssa.Call)
	td := ExtractOf(ocCall, 0)
	if td == nil {
		r.Undec("R-METHOD-BOUND", "handleStreamExchange", u.Pos(oc.Instr.Pos()), "cursor result unused")
		return
	}
	// find the comparison cursor.<field> == method
	var cmpIf *ssa.If
	var boundField string
	Instrs(fn, func(in ssa.Instruction) {
		ifi, ok := in.(*ssa.If)
		if !ok {
			return
		}
		for _, a := range u.guardAtoms(ifi.Cond, true) {
			if m := methodCmpRe.FindStringSubmatch(a); m != nil {
				cmpIf = ifi
				boundField = m[1] + m[4]
			}
		}
	})
	if cmpIf == nil {
		r.Viol("R-METHOD-BOUND", "handleStreamExchange|compare", u.Pos(oc.Instr.Pos()),
			"no field of the opened cursor is compared with the route's method: a token minted by one stream method is accepted on another method's /exchange route")
	} else {
		// mismatch edge: 4xx + return
		b := cmpIf.Cond.(*ssa.BinOp)
		mism := cmpIf.Block().Succs[0]
		if b.Op == token.EQL {
			mism = cmpIf.Block().Succs[1]
		}
		is4xx := false
		for _, cs := range u.CallsInBlockChain(mism) {
			if cs.Callee == "(*HttpServer).writeHttpError" {
				if v, ok := ConstInt(cs.Arg(2)); ok && v >= 400 && v < 500 {
					is4xx = true
				}
			}
		}
		r.Check(is4xx && BlockEndsInReturn(mism), "R-METHOD-BOUND", "handleStreamExchange|mismatch-edge", u.Pos(cmpIf.Pos()),
			"method mismatch answers 4xx and returns (cursor field "+boundField+")", "method mismatch edge does not answer 4xx via writeHttpError and return")
		// dominates State uses and handlers
		matchGuard := func(in ssa.Instruction) bool {
			for _, g := range GuardsAt(in.Block()) {
				if g.If == cmpIf {
					eq := (b.Op == token.EQL) == g.Truth
					return eq
				}
			}
			return false
		}
		n := 0
		for _, ld := range FieldUses(td, "State") {
			for _, ref := range *ld.Referrers() {
				n++
				r.Check(matchGuard(ref), "R-METHOD-BOUND", "handleStreamExchange|State-use#"+itoa(n), u.Pos(ref.Pos()),
					"cursor state used only after the method check", "cursor State is used without the cursor's method having been checked against the route")
			}
		}
		for _, cs := range u.Calls(fn, Or(Is("(*HttpServer).handleStreamCancel", "(*HttpServer).handleProducerContinuation", "(*HttpServer).handleExchangeCall", "(*HttpServer).startDispatchHook"), Contains("rehydrateFunc"))) {
			r.Check(matchGuard(cs.Instr), "R-METHOD-BOUND", "handleStreamExchange|"+cs.Callee, u.Pos(cs.Instr.Pos()),
				"runs only after the method check", cs.Callee+" runs without the cursor's method having been checked against the route")
		}
		// seal side
		{
			// every function that seals a cursor (stores cursorTokenData fields and calls sealToken)
			var sts []*ssa.Store
			sealers := 0
			for _, pf := range u.SrcFuncs() {
				if len(u.Calls(pf, Is("(*HttpServer).sealToken"))) == 0 || len(u.StoresToField(pf, "cursorTokenData", "State")) == 0 {
					continue
				}
				sealers++
				r.Analysed(shortName(pf))
				fs := u.StoresToField(pf, "cursorTokenData", boundField)
				if len(fs) == 0 {
					r.Viol("R-METHOD-BOUND", shortName(pf)+"|seal "+boundField, u.Pos(pf.Pos()), shortName(pf)+" seals a cursor without setting cursorTokenData."+boundField+": the field compared on open is not sealed")
				}
				sts = append(sts, fs...)
			}
			if sealers == 0 {
				r.Undec("R-METHOD-BOUND", "sealers", "-", "no cursor-sealing function found")
			}
			for _, s := range sts {
				os := u.Origins(s.Val, nil)
				bad := []string{}
				for _, o := range os {
					switch {
					case o.Kind == "call" && o.Desc == "(*net/http.Request).PathValue":
					case o.Kind == "field" && o.Desc == "methodInfo.Name":
					case o.Kind == "field" && o.Desc == "Server.methods":
					case o.Kind == "const" && o.Desc == `""`: // a cursor with no method is refused on every route
					case o.Kind == "call" && strings.HasPrefix(o.Desc, "(*Server).") && false:
					default:
						// methodInfo.Name is set at registration from the method name; walking further reaches registration parameters
						if o.Kind == "param" || (o.Kind == "field" && strings.HasPrefix(o.Desc, "methodInfo.")) || (o.Kind == "field" && strings.HasPrefix(o.Desc, "HttpServer.")) {
							continue
						}
						bad = append(bad, o.Kind+":"+o.Desc)
					}
				}
				r.Check(len(bad) == 0, "R-METHOD-BOUND", "packCursorToken|seal "+boundField, u.Pos(s.Pos()),
					"sealed method originates from the route/registered method name: {"+OriginSummary(os)+"}", "sealed "+boundField+" has other origins: "+strings.Join(bad, ", "))
			}
		}
	}

	// R-TYPE-ASSERT-STATE: no single-result assertion on anything derived from cursor.State (package-wide through params)
	n := 0
	for _, f := range u.SrcFuncs() {
		Instrs(f, func(in ssa.Instruction) {
			ta, ok := in.(*ssa.TypeAssert)
			if !ok || ta.CommaOk {
				return
			}
			os := u.Origins(ta.X, &OriginOpts{MaxNodes: 600})
			fromState := false
			for _, o := range os {
				if o.Kind == "field" && o.Desc == "cursorTokenData.State" {
					fromState = true
				}
			}
			if !fromState {
				return
			}
			n++
			r.Viol("R-TYPE-ASSERT-STATE", shortName(f)+"|assert "+typeShort(ta.AssertedType), u.Pos(in.Pos()),
				"single-result type assertion on token-carried state: a token whose state is of another kind panics the handler (connection aborted, no status)")
		})
	}
	if n == 0 {
		r.Ok("R-TYPE-ASSERT-STATE", "package", "-", "no panicking type assertion on values derived from cursorTokenData.State")
	}
}

// ---------------------------------------------------------------- C15

func runC15(c *Ctx) {
	u, r := c.U, c.R
	checkResolvedCallFields(c, "R-CACHE-SAME-FIELDS")
	r.Floor("R-CACHE-SAME-FIELDS", 8)
	// openCursorToken
	if fn := c.Fn("R-AGE-ALL-PATHS", "(*HttpServer).openCursorToken"); fn != nil {
		c.ageOnReturns(fn, "cursorTokenData.CreatedAt")
	}
	if fn := c.Fn("R-AGE-ALL-PATHS", "(*HttpServer).resolveCall"); fn != nil {
		c.ageOnReturns(fn, "callTokenData.CreatedAt")
	}
	// R-CACHE-PUT-AFTER-CHECKS: resolveCall warms the cache only on its fully verified success path
	if fn := u.Func("(*HttpServer).resolveCall"); fn != nil {
		ots := u.Calls(fn, Is("(*HttpServer).openToken"))
		for _, put := range u.Calls(fn, Is("(*callStateCache).put")) {
			okOpen := len(ots) == 1 && u.GuardedErrNilOf(put.Instr, ots[0].Value().(*ssa.Call))
			okAge := false
			for _, ac := range u.Calls(fn, Is("(*HttpServer).checkTokenAge")) {
				if u.GuardedErrNilOf(put.Instr, ac.Value().(*ssa.Call)) {
					okAge = true
				}
			}
			okID := u.HasGuardContaining(put.Instr, ".CallID == cursor.CallID") || u.HasGuardContaining(put.Instr, "cursor.CallID == ")
			r.Check(okOpen && okAge && okID, "R-CACHE-PUT-AFTER-CHECKS", "resolveCall|put", u.Pos(put.Instr.Pos()),
				"cache written only after the call token opened, passed the age check and named the cursor's call",
				"resolveCall stores into the call-state cache before all of {openToken ok, age ok, CallID match} hold (open="+boolStr(okOpen)+" age="+boolStr(okAge)+" id="+boolStr(okID)+"): a refused request changes the outcome of later ones")
		}
	}

	// R-CACHE-PURE: stores to resolvedCall fields
	n := 0
	for _, f := range u.SrcFuncs() {
		Instrs(f, func(in ssa.Instruction) {
			s, ok := in.(*ssa.Store)
			if !ok {
				return
			}
			fa, ok := s.Addr.(*ssa.FieldAddr)
			if !ok || !strings.HasPrefix(fieldKey(fa.X.Type(), fa.Field), "resolvedCall.") {
				return
			}
			n++
			key := fieldKey(fa.X.Type(), fa.Field)
			os := u.Origins(s.Val, &OriginOpts{MaxNodes: 800})
			bad := []string{}
			for _, o := range os {
				okO := false
				switch {
				case o.Kind == "field" && strings.HasPrefix(o.Desc, "callTokenData."):
					okO = true
				case o.Kind == "call" && (o.Desc == "serializeSchema" || o.Desc == "RandomStreamID" || strings.HasPrefix(o.Desc, "time.Now") || o.Desc == "(time.Time).Unix"):
					okO = true
				case o.Kind == "const":
					okO = true
				case o.Kind == "field" && (o.Desc == "StreamResult.OutputSchema" || strings.HasPrefix(o.Desc, "methodInfo.")):
					okO = true
				case o.Kind == "call" && (strings.HasPrefix(o.Desc, "(*HttpServer).openToken") || strings.Contains(o.Desc, "reflect.Value")):
					okO = true
				case o.Kind == "alloc":
					okO = true
				}
				if !okO {
					bad = append(bad, o.Kind+":"+o.Desc)
				}
			}
			r.Check(len(bad) == 0, "R-CACHE-PURE", shortName(f)+"|"+key, u.Pos(in.Pos()),
				"cached value derives from the call token / packCallToken inputs", "cached "+key+" has foreign origins "+strings.Join(bad, ", ")+": a cache hit could differ from reopening the call token")
		})
	}
	if n < 2 {
		r.Undec("R-CACHE-PURE", "resolvedCall", "-", "found fewer than 2 stores to resolvedCall fields")
	}
	// R-TTL-SOURCE
	sites := u.CallSitesOf(Is("newCallStateCache"))
	r.Floor("R-TTL-SOURCE", 4)
	for _, cs := range sites {
		d := u.Describe(cs.Arg(1))
		isTTLField := false
		if ld, isLd := cs.Arg(1).(*ssa.UnOp); isLd {
			if fa, isFa := ld.X.(*ssa.FieldAddr); isFa && fieldKey(fa.X.Type(), fa.Field) == "HttpServer.tokenTTL" {
				isTTLField = true
			}
		}
		ok := isTTLField || (shortName(cs.Fn) == "(*HttpServer).SetTokenTTL" && d == "d")
		if ok && shortName(cs.Fn) == "(*HttpServer).SetTokenTTL" {
			// the same d must be stored to h.tokenTTL
			st := u.StoresToField(cs.Fn, "HttpServer", "tokenTTL")
			ok = len(st) == 1 && u.Describe(st[0].Val) == "d"
		}
		r.Check(ok, "R-TTL-SOURCE", shortName(cs.Fn), u.Pos(cs.Instr.Pos()), "cache TTL = "+d, "call-state cache built with TTL "+d+" which is not the token TTL: cached calls could outlive/underlive their token")
	}
}

// ageOnReturns: every return whose error result is nil must be dominated by
// checkTokenAge(..)==nil on a value whose origin includes wantField.
func (c *Ctx) ageOnReturns(fn *ssa.Function, wantField string) {
	u, r := c.U, c.R
	name := shortName(fn)
	ageCalls := u.Calls(fn, Is("(*HttpServer).checkTokenAge"))
	k := 0
	Instrs(fn, func(in ssa.Instruction) {
		ret, ok := in.(*ssa.Return)
		if !ok || len(ret.Results) != 2 {
			return
		}
		if cst, ok := ret.Results[1].(*ssa.Const); !ok || cst.Value != nil {
			return // error return
		}
		k++
		inst := name + "|success-return#" + itoa(k) + " " + u.Describe(ret.Results[0])
		okAge := false
		detail := ""
		for _, ac := range ageCalls {
			call := ac.Value().(*ssa.Call)
			if !u.GuardedErrNilOf(in, call) {
				continue
			}
			os := u.Origins(ac.Arg(1), &OriginOpts{MaxNodes: 800})
			for _, o := range os {
				if o.Kind == "field" && o.Desc == wantField {
					okAge = true
				}
			}
			detail = "checkTokenAge(" + u.Describe(ac.Arg(1)) + ") origins {" + OriginSummary(os) + "}"
		}
		r.Check(okAge, "R-AGE-ALL-PATHS", inst, u.Pos(in.Pos()),
			"success return dominated by an age check on "+wantField+": "+detail,
			"success return of "+name+" is not dominated by checkTokenAge(..)==nil on "+wantField+" — a token older than the TTL is accepted on this path ("+detail+")")
	})
	if k == 0 {
		r.Undec("R-AGE-ALL-PATHS", name, u.Pos(fn.Pos()), "no success return found")
	}
}

// ---------------------------------------------------------------- C16

func runC16(c *Ctx) {
	u, r := c.U, c.R
	fn := c.Fn("R-ONE-EXCHANGE", "(*HttpServer).handleExchangeCall")
	if fn != nil {
		// Exchange call lives in the recover closure
		var exch []CallSite
		for _, g := range WithAnon(fn) {
			exch = append(exch, u.Calls(g, HasSuffix("ExchangeState.Exchange"))...)
		}
		if len(exch) != 1 {
			r.Viol("R-ONE-EXCHANGE", "handleExchangeCall", u.Pos(fn.Pos()), "expected exactly one state.Exchange call site, found "+itoa(len(exch)))
		} else {
			e := exch[0]
			cov := u.CoveredByRecover(e.Instr)
			inLoop := false
			// the closure is called exactly once from fn, not in a loop
			callers := u.Callers(e.Fn)
			once := len(callers) == 1 && callers[0].Fn == fn
			if once {
				mm := CountOnPaths(fn, nil, func(in ssa.Instruction) bool { return in == callers[0].Instr }, IsReturn)
				for _, v := range mm {
					if v.Min != 1 || v.Max != 1 {
						inLoop = true
					}
				}
			}
			r.Check(cov && once && !inLoop, "R-ONE-EXCHANGE", "handleExchangeCall", u.Pos(e.Instr.Pos()),
				"state.Exchange runs exactly once per request, under recover", "state.Exchange is not executed exactly once under a deferred recover on every path")
		}

		// R-TOKEN-ONLY-ON-SUCCESS
		pk := c.OneCall("R-TOKEN-ONLY-ON-SUCCESS", fn, isCursorMint, "packCursorToken[For]")
		val := c.OneCall("R-TOKEN-ONLY-ON-SUCCESS", fn, Is("(*OutputCollector).validate"), "validate")
		if pk != nil && val != nil {
			pkCall, valCall := pk.Value().(*ssa.Call), val.Value().(*ssa.Call)
			tok := ExtractOf(pkCall, 0)
			uses := 0
			if tok != nil {
				for _, ref := range *tok.Referrers() {
					uses++
					ok := u.GuardedErrNilOf(ref, pkCall) && u.GuardedErrNilOf(ref, valCall) && u.HasGuardContaining(ref, "exchangeErr", "== nil")
					r.Check(ok, "R-TOKEN-ONLY-ON-SUCCESS", "handleExchangeCall|token-use#"+itoa(uses), u.Pos(ref.Pos()),
						"fresh cursor used only after Exchange, validate and seal all succeeded", "fresh cursor can be attached although the turn failed (guards: "+strings.Join(u.GuardStrings(ref), " && ")+")")
				}
			}
			if uses == 0 {
				r.Viol("R-TOKEN-ONLY-ON-SUCCESS", "handleExchangeCall|token", u.Pos(pk.Instr.Pos()), "the freshly sealed cursor is never attached to the response")
			}
			// MetaStreamState constant appended only under the same guards
			Instrs(fn, func(in ssa.Instruction) {
				for _, op := range in.Operands(nil) {
					if s, ok := ConstString(*op); ok && s == "vgi_rpc.stream_state#b64" {
						okG := u.GuardedErrNilOf(in, pkCall) && u.GuardedErrNilOf(in, valCall)
						r.Check(okG, "R-TOKEN-ONLY-ON-SUCCESS", "handleExchangeCall|state-key", u.Pos(in.Pos()), "stream-state key written only on the success path", "stream-state key written on a failure path")
					}
				}
			})
			// failure exits: exactly one writeErrorBatch, no writeStateTokenBatch
			for _, call := range []*ssa.Call{valCall, pkCall} {
				_, blk := u.ErrBranch(call)
				if blk == nil {
					r.Viol("R-TOKEN-ONLY-ON-SUCCESS", "handleExchangeCall|"+u.CalleeName(&call.Call)+"|failure", u.Pos(call.Pos()), "error not tested")
					continue
				}
				nerr := 0
				for _, cs := range u.CallsInBlockChain(blk) {
					if cs.Callee == "writeErrorBatch" {
						nerr++
					}
				}
				r.Check(nerr == 1 && BlockEndsInReturn(blk), "R-TOKEN-ONLY-ON-SUCCESS", "handleExchangeCall|"+u.CalleeName(&call.Call)+"|failure", u.Pos(blk.Instrs[0].Pos()),
					"failure exit writes exactly one exception batch and returns", "failure exit does not write exactly one exception batch and return")
			}
		}
	}

	// R-CANCEL
	if cf := c.Fn("R-CANCEL", "(*HttpServer).handleStreamCancel"); cf != nil {
		var oc []CallSite
		for _, g := range WithAnon(cf) {
			oc = append(oc, u.Calls(g, HasSuffix("StreamCanceller.OnCancel"))...)
		}
		okOnce := len(oc) == 1 && u.CoveredByRecover(oc[0].Instr)
		r.Check(okOnce, "R-CANCEL", "handleStreamCancel|OnCancel", u.Pos(cf.Pos()), "OnCancel called at one site under recover", "OnCancel is not called at exactly one recover-covered site")
		// the recover is local to the hook call: the response write lives in a different frame, so a
		// panicking hook cannot skip it
		if len(oc) == 1 {
			wa := u.Calls(cf, Is("(*HttpServer).writeArrow"))
			isolated := oc[0].Fn != cf && len(wa) >= 1
			r.Check(isolated, "R-CANCEL", "handleStreamCancel|hook-isolated", u.Pos(oc[0].Instr.Pos()), "OnCancel runs in its own recover closure; the empty response is written by the enclosing frame",
				"OnCancel's panic is recovered by the same frame that writes the response: a panicking hook returns before the empty stream is written (client gets a bodiless 200)")
			// and every path of handleStreamCancel writes the response
			_, silent := ReachWithout(cf, nil, IsReturn, u.CallMatcher(Is("(*HttpServer).writeArrow"), false))
			r.Check(!silent, "R-CANCEL", "handleStreamCancel|always-answers", u.Pos(cf.Pos()), "every path writes the empty stream", "a path returns from handleStreamCancel without writing the response")
		}
		toks := u.CallsDeep(cf, Is("(*HttpServer).packCursorToken", "(*HttpServer).packCursorTokenFor", "writeStateTokenBatch", "(*HttpServer).packCallToken", "(*HttpServer).sealToken"))
		r.Check(len(toks) == 0, "R-CANCEL", "handleStreamCancel|no-token", u.Pos(cf.Pos()), "cancel response carries no token", "cancel path mints or writes a token")
		prod := u.CallsDeep(cf, Or(HasSuffix("ProducerState.Produce"), HasSuffix("ExchangeState.Exchange"), Is("(*HttpServer).runProduceLoop")))
		r.Check(len(prod) == 0, "R-CANCEL", "handleStreamCancel|no-turn", u.Pos(cf.Pos()), "no further turn on cancel", "cancel path runs a produce/exchange turn")
	}
	if hx := c.Fn("R-CANCEL", "(*HttpServer).handleStreamExchange"); hx != nil {
		cc := c.OneCall("R-CANCEL", hx, Is("(*HttpServer).handleStreamCancel"), "handleStreamCancel")
		if cc != nil {
			// after the cancel call, no path reaches producer/exchange dispatch
			_, reach := ReachWithout(hx, cc.Instr, u.CallMatcher(Is("(*HttpServer).handleProducerContinuation", "(*HttpServer).handleExchangeCall"), false), nil)
			r.Check(!reach, "R-CANCEL", "handleStreamExchange|cancel-returns", u.Pos(cc.Instr.Pos()), "cancel branch returns before producer/exchange dispatch", "after handleStreamCancel the request can still reach producer/exchange dispatch")
			for _, cs := range u.Calls(hx, Is("(*HttpServer).handleProducerContinuation", "(*HttpServer).handleExchangeCall")) {
				ok := u.HasGuardContaining(cs.Instr, "!", "cancelled") || u.HasGuardContaining(cs.Instr, "cancelled", "== false")
				_ = ok
			}
		}
	}

	// R-STRIP
	r.Floor("R-STRIP", 3)
	httpFns := []string{"(*HttpServer).handleExchangeCall", "(*HttpServer).runProduceLoop", "(*HttpServer).handleStreamCancel", "(*HttpServer).handleProducerContinuation", "(*HttpServer).handleStreamExchange"}
	for _, name := range httpFns {
		f := u.Func(name)
		if f == nil {
			continue
		}
		for _, s := range u.StoresToField(f, "CallContext", "InputMetadata") {
			os := u.Origins(s.Val, &OriginOpts{MaxNodes: 1500})
			bad := []string{}
			for _, o := range os {
				switch {
				case o.Kind == "call" && (o.Desc == "stripFrameworkTickMetadata" || o.Desc == "requestMetadata"):
				case o.Kind == "alloc" || o.Kind == "const":
				default:
					bad = append(bad, o.Kind+":"+o.Desc)
				}
			}
			r.Check(len(bad) == 0, "R-STRIP", name+"|InputMetadata", u.Pos(s.Pos()),
				"handler-visible metadata = {"+OriginSummary(os)+"}", "handler-visible InputMetadata has unstripped origins: "+strings.Join(bad, ", "))
		}
	}
	// the strip function tests EVERY metadata entry against the table (not just the first occurrence of each key)
	if sf := c.Fn("R-STRIP", "stripFrameworkTickMetadata"); sf != nil {
		perEntry := false
		Instrs(sf, func(in ssa.Instruction) {
			lk, ok := in.(*ssa.Lookup)
			if !ok || !strings.Contains(u.Describe(lk.X), "frameworkTickMetadataKeys") {
				return
			}
			// the key looked up is an element of meta.Keys() indexed by a loop variable
			d := u.Describe(lk.Index)
			if strings.Contains(d, "Keys(meta)[") {
				if ia, ok := lk.Index.(*ssa.UnOp); ok {
					if ix, ok := ia.X.(*ssa.IndexAddr); ok {
						switch iv := ix.Index.(type) {
						case *ssa.Phi:
							perEntry = true
						case *ssa.BinOp: // range loops index with phi+1
							if _, isPhi := iv.X.(*ssa.Phi); isPhi {
								perEntry = true
							}
						}
					}
				}
			}
		})
		// no first-match search primitives
		first := u.Calls(sf, Or(HasSuffix("arrow.Metadata).FindKey"), HasSuffix("arrow.Metadata).GetValue")))
		r.Check(perEntry && len(first) == 0, "R-STRIP", "stripFrameworkTickMetadata|per-entry", u.Pos(sf.Pos()), "each metadata entry is tested against the framework-key table",
			"stripFrameworkTickMetadata does not test every entry of meta.Keys() against the table (uses a first-match lookup): a duplicated framework key survives and the sealed token reaches the handler")
	}

	// strip table ⊇ keys read by handleStreamExchange from the continuation batch
	if hx := u.Func("(*HttpServer).handleStreamExchange"); hx != nil {
		read := map[string]bool{}
		for _, cs := range u.Calls(hx, HasSuffix("arrow.Metadata).GetValue")) {
			if s, ok := ConstString(cs.Arg(1)); ok {
				read[s] = true
			}
		}
		table := u.GlobalMapKeys("frameworkTickMetadataKeys")
		if len(table) == 0 {
			r.Undec("R-STRIP", "frameworkTickMetadataKeys", "-", "strip table does not resolve")
		}
		for k := range read {
			r.Check(table[k], "R-STRIP", "table∋"+k, "-", "framework key read from the continuation batch is stripped before the handler sees metadata", "handleStreamExchange reads framework key "+k+" from the continuation batch but stripFrameworkTickMetadata does not remove it: the handler sees it")
		}
	}

	// R-NO-TOKEN-LEAK: tokenBytes / callTokenBytes must not flow into CallContext or DispatchInfo
	if hx := u.Func("(*HttpServer).handleStreamExchange"); hx != nil {
		n := 0
		for _, cs := range u.Calls(hx, HasSuffix("arrow.Metadata).GetValue")) {
			s, _ := ConstString(cs.Arg(1))
			if s != "vgi_rpc.stream_state#b64" && s != "vgi_rpc.call_state#b64" {
				continue
			}
			v := ExtractOf(cs.Value().(*ssa.Call), 0)
			if v == nil {
				continue
			}
			n++
			hits := u.Taint(v, &TaintOpts{
				FollowInto: true,
				Neutral:    map[string]bool{"len": true},
				Sanitizers: map[string]bool{"(*HttpServer).openCursorToken": true, "(*HttpServer).resolveCall": true, "(*HttpServer).openToken": true},
				Sink: func(callee string, argIdx int, cs CallSite) bool {
					return strings.Contains(callee, "ExchangeState.") || strings.Contains(callee, "ProducerState.") || strings.Contains(callee, "DispatchHook.") || strings.Contains(callee, "rehydrateFunc") || strings.HasPrefix(callee, "log/slog.")
				},
			})
			leakStore := c.taintReachesField(v, []string{"CallContext.", "DispatchInfo."})
			r.Check(len(hits) == 0 && leakStore == "", "R-NO-TOKEN-LEAK", "handleStreamExchange|"+s, u.Pos(cs.Instr.Pos()),
				"raw token reaches only the token openers", "raw token value flows to user-visible code: "+leakStore+hitSummary(hits))
		}
		if n < 2 {
			r.Undec("R-NO-TOKEN-LEAK", "handleStreamExchange", "-", "token reads not found")
		}
	}
}

func hitSummary(h []TaintHit) string {
	var s []string
	for _, x := range h {
		s = append(s, x.Path)
	}
	return strings.Join(s, "; ")
}

// taintReachesField: does forward taint from v reach a store into a field
// whose key has one of the prefixes?
func (c *Ctx) taintReachesField(v ssa.Value, prefixes []string) string {
	u := c.U
	seen := map[ssa.Value]bool{}
	work := []ssa.Value{v}
	for len(work) > 0 && len(seen) < 3000 {
		x := work[len(work)-1]
		work = work[:len(work)-1]
		if seen[x] || x.Referrers() == nil {
			continue
		}
		seen[x] = true
		for _, ref := range *x.Referrers() {
			switch y := ref.(type) {
			case *ssa.Store:
				if y.Val == x {
					if fa, ok := y.Addr.(*ssa.FieldAddr); ok {
						k := fieldKey(fa.X.Type(), fa.Field)
						for _, p := range prefixes {
							if strings.HasPrefix(k, p) {
								return "store to " + k + " at " + u.Pos(y.Pos())
							}
						}
					}
					if a, ok := y.Addr.(*ssa.Alloc); ok {
						for _, r2 := range *a.Referrers() {
							if ld, ok := r2.(*ssa.UnOp); ok && ld.Op == token.MUL {
								work = append(work, ld)
							}
						}
					}
				}
			case *ssa.Phi, *ssa.Convert, *ssa.ChangeType, *ssa.MakeInterface, *ssa.Slice, *ssa.Extract:
				work = append(work, y.(ssa.Value))
			}
		}
	}
	return ""
}
