package main

import (
	"fmt"
	"go/ast"
	"go/parser"
	"go/token"
	"go/types"
	"os"
	"path/filepath"
	"regexp"
	"sort"
	"strings"

	"golang.org/x/tools/go/ast/astutil"
	"golang.org/x/tools/go/packages"
	"golang.org/x/tools/go/types/typeutil"
	"golang.org/x/tools/internal/refactor/inline"
)

// Helper normalisation. The rules are written against the functions of the
// reference tree (refnames.json lists every declaration it has). When the tree
// under analysis declares an unexported function or method that the reference
// tree does not have — the result of an "extract helper" / "split function"
// refactoring — its calls are inlined back into their callers (with the
// semantics-preserving inliner of golang.org/x/tools) before the SSA program is
// built, so that a rule sees the statements where it expects them. The
// transformation happens in an in-memory overlay; nothing is written to disk.
// A helper that cannot be inlined is left alone (the rules then judge the code
// as written). On the reference tree itself there is nothing to do.

type normNote struct {
	Helper string
	Sites  int
	Err    string
}

var normLog []string

func refHasUnit(unit string) bool {
	loadRefTable()
	for k := range refTable {
		if strings.HasPrefix(k, unit+"|") {
			return true
		}
	}
	return false
}

// newHelperNames parses the root package's files (no type checking) and returns the
// declKeys of unexported functions that the reference table does not know.
func newHelperNames(pkgDir, unit string) map[string]bool {
	out := map[string]bool{}
	if !refHasUnit(unit) {
		return out
	}
	fset := token.NewFileSet()
	ents, err := os.ReadDir(pkgDir)
	if err != nil {
		return out
	}
	for _, e := range ents {
		n := e.Name()
		if e.IsDir() || !strings.HasSuffix(n, ".go") || strings.HasSuffix(n, "_test.go") {
			continue
		}
		f, err := parser.ParseFile(fset, filepath.Join(pkgDir, n), nil, parser.SkipObjectResolution)
		if err != nil {
			continue
		}
		for _, d := range f.Decls {
			fd, ok := d.(*ast.FuncDecl)
			if !ok || fd.Body == nil || fd.Name.IsExported() || fd.Name.Name == "init" || fd.Name.Name == "main" {
				continue
			}
			if _, known := refTable[unit+"|"+declKey(fd)]; !known && !stackSensitive(fd) {
				out[declKey(fd)] = true
			}
		}
	}
	return out
}

// stackSensitive: the function's meaning depends on who called it — recover() only works
// when the function itself is the deferred one, runtime.Caller/Callers/Stack report the
// call depth. Inlining such a function changes what it does, so it is left where it is.
func stackSensitive(fd *ast.FuncDecl) bool {
	found := false
	// recover() directly in the function (a nested deferred literal that recovers keeps working when moved)
	ast.Inspect(fd.Body, func(n ast.Node) bool {
		switch x := n.(type) {
		case *ast.FuncLit:
			return false
		case *ast.CallExpr:
			if id, ok := x.Fun.(*ast.Ident); ok && id.Name == "recover" {
				found = true
			}
		}
		return !found
	})
	ast.Inspect(fd.Body, func(n ast.Node) bool {
		ce, ok := n.(*ast.CallExpr)
		if !ok {
			return !found
		}
		switch f := ce.Fun.(type) {
		case *ast.SelectorExpr:
			if x, ok := f.X.(*ast.Ident); ok && (x.Name == "runtime" || x.Name == "debug") {
				switch f.Sel.Name {
				case "Caller", "Callers", "Stack", "PrintStack", "CallersFrames":
					found = true
				}
			}
		}
		return !found
	})
	return found
}

var unusedImportRe =regexp.MustCompile(`"([^"]+)" imported (?:as \S+ )?and not used`)

// dropUnusedImports removes, from the overlay files, the import specs the type checker
// reports as unused — when those are the only errors. Reports whether it changed anything.
func dropUnusedImports(overlay map[string][]byte, errs []packages.Error) bool {
	paths := map[string]bool{}
	for _, e := range errs {
		m := unusedImportRe.FindStringSubmatch(e.Msg)
		if m == nil {
			return false
		}
		b := filepath.Base(strings.SplitN(e.Pos, ":", 2)[0])
		if i := strings.Index(b, "-"); i > 0 && strings.Trim(b[:i], "0123456789") == "" {
			b = b[i+1:] // go list names overlay copies "<n>-<file>"
		}
		paths[b+"|"+m[1]] = true
	}
	changed := false
	for name, content := range overlay {
		base := filepath.Base(name)
		fset := token.NewFileSet()
		f, err := parser.ParseFile(fset, name, content, parser.ImportsOnly|parser.ParseComments)
		if err != nil {
			continue
		}
		var eds []textEdit
		for _, is := range f.Imports {
			p := strings.Trim(is.Path.Value, `"`)
			if !paths[base+"|"+p] {
				continue
			}
			s, e := fset.Position(is.Pos()).Offset, fset.Position(is.End()).Offset
			eds = append(eds, textEdit{s, e, ""})
		}
		if len(eds) > 0 {
			overlay[name] = applyTextEdits(content, eds)
			changed = true
		}
	}
	return changed
}

func copyOverlay(m map[string][]byte) map[string][]byte {
	o := map[string][]byte{}
	for k, v := range m {
		o[k] = v
	}
	return o
}

// helperOverlay returns the overlay in which new helpers are inlined (nil when there is nothing to do).
func helperOverlay(repo, unit string, ud struct{ dir, pkg string }, env []string, tags string) map[string][]byte {
	pkgDir := filepath.Join(repo, ud.dir)
	if unit == "vgirpc" {
		pkgDir = filepath.Join(repo, "vgirpc")
	}
	cands := newHelperNames(pkgDir, unit)
	if os.Getenv("VERIF_DEBUG_NORMALISE") != "" {
		fmt.Fprintln(os.Stderr, "normalise", unit, pkgDir, "candidates:", cands)
	}
	if len(cands) == 0 {
		return nil
	}
	overlay := map[string][]byte{}
	good := map[string][]byte{}
	failed := map[string]bool{}
	noFlatten := map[string]bool{}
	inlined := map[string]int{}
	lastKey, lastFlattened := "", false
	for iter := 0; iter < 60; iter++ {
		cfg := &packages.Config{
			Mode:    packages.NeedName | packages.NeedFiles | packages.NeedCompiledGoFiles | packages.NeedImports | packages.NeedTypes | packages.NeedTypesSizes | packages.NeedSyntax | packages.NeedTypesInfo,
			Dir:     filepath.Join(repo, ud.dir),
			Env:     env,
			Overlay: overlay,
		}
		if tags != "" {
			cfg.BuildFlags = []string{"-tags=" + tags}
		}
		pkgs, err := packages.Load(cfg, ud.pkg)
		if err != nil || len(pkgs) == 0 {
			normLog = append(normLog, fmt.Sprintf("normalise %s: load failed: %v", unit, err))
			return nil
		}
		var root *packages.Package
		for _, p := range pkgs {
			if p.PkgPath == ud.pkg {
				root = p
			}
		}
		if root == nil || len(root.Errors) > 0 || root.TypesInfo == nil {
			if os.Getenv("VERIF_DEBUG_NORMALISE") != "" && root != nil {
				fmt.Fprintln(os.Stderr, "normalise", unit, "iteration", iter, "after", lastKey, "errors:", root.Errors)
			}
			if root == nil || iter == 0 {
				return nil // the tree as given does not load: LoadUnit reports it
			}
			if lastKey == "" {
				// the step before was the removal of a helper declaration that is no
				// longer referenced; typically its imports are now unused
				if fixed := dropUnusedImports(overlay, root.Errors); fixed {
					continue
				}
				break // keep the last overlay that type-checked
			}
			// imports the inliner added for a form it then reduced away: drop them and re-check
			if fixed := dropUnusedImports(overlay, root.Errors); fixed {
				continue
			}
			// the last step produced code that does not type-check: undo it
			if dd := os.Getenv("VERIF_DUMP_NORMALISED"); dd != "" {
				for fn, b := range overlay {
					_ = os.WriteFile(filepath.Join(dd, "FAILED-"+filepath.Base(fn)), b, 0o644)
				}
			}
			overlay = copyOverlay(good)
			if lastFlattened {
				noFlatten[lastKey] = true
			} else {
				failed[lastKey] = true
				normLog = append(normLog, fmt.Sprintf("normalise %s: %s not inlined (result does not type-check: %v)", unit, lastKey, root.Errors[0]))
			}
			inlined[lastKey]--
			lastKey = ""
			continue
		}
		good = copyOverlay(overlay)
		lastKey = ""
		// helper declarations present in this iteration
		type hd struct {
			decl *ast.FuncDecl
			file *ast.File
			obj  *types.Func
		}
		helpers := map[*types.Func]hd{}
		for _, f := range root.Syntax {
			for _, d := range f.Decls {
				fd, ok := d.(*ast.FuncDecl)
				if !ok || fd.Body == nil || !cands[declKey(fd)] || failed[declKey(fd)] {
					continue
				}
				if obj, ok := root.TypesInfo.Defs[fd.Name].(*types.Func); ok {
					helpers[obj] = hd{fd, f, obj}
				}
			}
		}
		if len(helpers) == 0 {
			break
		}
		// pick one call to a helper (not inside the helper itself)
		var callFile *ast.File
		var call *ast.CallExpr
		var target hd
		for _, f := range root.Syntax {
			if call != nil {
				break
			}
			for _, d := range f.Decls {
				fd, ok := d.(*ast.FuncDecl)
				if !ok || fd.Body == nil || call != nil {
					continue
				}
				ast.Inspect(fd.Body, func(n ast.Node) bool {
					if call != nil {
						return false
					}
					ce, ok := n.(*ast.CallExpr)
					if !ok {
						return true
					}
					fn, _ := typeutil.Callee(root.TypesInfo, ce).(*types.Func)
					if fn == nil {
						return true
					}
					h, isH := helpers[fn]
					if !isH || h.decl == fd {
						return true
					}
					// prefer helpers that do not themselves call other helpers (inline leaves first)
					leaf := true
					ast.Inspect(h.decl.Body, func(m ast.Node) bool {
						if c2, ok := m.(*ast.CallExpr); ok {
							if f2, _ := typeutil.Callee(root.TypesInfo, c2).(*types.Func); f2 != nil {
								if h2, isH2 := helpers[f2]; isH2 && h2.decl != h.decl {
									leaf = false
								}
							}
						}
						return true
					})
					if !leaf {
						return true
					}
					call, callFile, target = ce, f, h
					return false
				})
			}
		}
		if call == nil {
			// no (leaf) call left: remove helpers that are no longer referenced, then stop
			removed := false
			for obj, h := range helpers {
				used := false
				for _, o := range root.TypesInfo.Uses {
					if o == types.Object(obj) {
						used = true
						break
					}
				}
				if used {
					failed[declKey(h.decl)] = true // referenced as a value or recursively: leave it
					continue
				}
				name := root.Fset.Position(h.file.Pos()).Filename
				content := overlay[name]
				if content == nil {
					content, _ = os.ReadFile(name)
				}
				start := h.decl.Pos()
				if h.decl.Doc != nil {
					start = h.decl.Doc.Pos()
				}
				so, eo := root.Fset.Position(start).Offset, root.Fset.Position(h.decl.End()).Offset
				if so < 0 || eo > len(content) || so > eo {
					failed[declKey(h.decl)] = true
					continue
				}
				nc := append(append([]byte{}, content[:so]...), content[eo:]...)
				overlay[name] = nc
				failed[declKey(h.decl)] = true
				removed = true
				break // positions of the other declarations in this file are stale: reload
			}
			if removed {
				continue
			}
			break
		}
		key := declKey(target.decl)
		calleeName := root.Fset.Position(target.file.Pos()).Filename
		calleeContent := overlay[calleeName]
		if calleeContent == nil {
			calleeContent, _ = os.ReadFile(calleeName)
		}
		callee, err := inline.AnalyzeCallee(func(string, ...any) {}, root.Fset, root.Types, root.TypesInfo, target.decl, calleeContent)
		if err != nil {
			failed[key] = true
			normLog = append(normLog, fmt.Sprintf("normalise %s: %s not inlined: %v", unit, key, err))
			continue
		}
		res, err := inline.Inline(&inline.Caller{Fset: root.Fset, Types: root.Types, Info: root.TypesInfo, File: callFile, Call: call}, callee, &inline.Options{Recover: true})
		if err != nil {
			failed[key] = true
			normLog = append(normLog, fmt.Sprintf("normalise %s: %s not inlined: %v", unit, key, err))
			continue
		}
		callerName := root.Fset.Position(callFile.Pos()).Filename
		content := overlay[callerName]
		if content == nil {
			content, _ = os.ReadFile(callerName)
		}
		type ed struct {
			s, e int
			t    []byte
		}
		var eds []ed
		okEd := true
		for _, e := range res.Edits {
			s := root.Fset.Position(e.Pos).Offset
			en := s
			if e.End.IsValid() {
				en = root.Fset.Position(e.End).Offset
			}
			if s < 0 || en > len(content) || s > en {
				okEd = false
			}
			eds = append(eds, ed{s, en, e.NewText})
		}
		if !okEd {
			failed[key] = true
			normLog = append(normLog, fmt.Sprintf("normalise %s: %s not inlined: edit outside the file", unit, key))
			continue
		}
		sort.Slice(eds, func(i, j int) bool { return eds[i].s > eds[j].s })
		nc := append([]byte{}, content...)
		for _, e := range eds {
			nc = append(append(append([]byte{}, nc[:e.s]...), e.t...), nc[e.e:]...)
		}
		lastFlattened = false
		flattenSkipBodies = existingIIFEs(callerName, content)
		flattenReuse = map[string]bool{}
		if path, _ := astutil.PathEnclosingInterval(callFile, call.Pos(), call.End()); len(path) > 1 {
			for _, n := range path {
				if as, ok := n.(*ast.AssignStmt); ok && as.Tok == token.DEFINE {
					for _, l := range as.Lhs {
						if id, ok := l.(*ast.Ident); ok && id.Name != "_" && root.TypesInfo.Defs[id] == nil {
							flattenReuse[id.Name] = true
						}
					}
					break
				}
			}
		}
		if !noFlatten[key] {
			if fc, n := flattenIIFEs(callerName, nc); n > 0 {
				nc, lastFlattened = fc, true
			}
		}
		overlay[callerName] = nc
		inlined[key]++
		lastKey = key
	}
	var ks []string
	for k, n := range inlined {
		if n > 0 {
			ks = append(ks, fmt.Sprintf("%s×%d", k, n))
		}
	}
	if len(ks) == 0 {
		return nil
	}
	overlay = good
	sort.Strings(ks)
	normLog = append(normLog, fmt.Sprintf("normalise %s: inlined helpers absent from the reference tree: %s", unit, strings.Join(ks, ", ")))
	return overlay
}
