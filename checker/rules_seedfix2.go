package main

import (
	"go/token"
	"sort"
	"strings"

	"golang.org/x/tools/go/ssa"
)

// Rules closing the gaps left open after seed batches 1–3 (see DESIGN §10).

// ---------------------------------------------------------------- C04

// seedfixC04: the request id the wire writers stamp is the id they were given.
func seedfixC04(c *Ctx) {
	u, r := c.U, c.R
	for _, name := range []string{"writeErrorBatch", "writeLogBatch"} {
		fn := c.Fn("R-REQID-VERBATIM", name)
		if fn == nil {
			continue
		}
		var param *ssa.Parameter
		for _, p := range fn.Params {
			if u.VarName(p) == "requestID" {
				param = p
			}
		}
		if param == nil {
			r.Undec("R-REQID-VERBATIM", name, u.Pos(fn.Pos()), "no requestID parameter")
			continue
		}
		found := false
		Instrs(fn, func(in ssa.Instruction) {
			st, ok := in.(*ssa.Store)
			if !ok {
				return
			}
			if s, isS := ConstString(st.Val); !isS || s != "vgi_rpc.request_id" {
				return
			}
			// the value appended alongside, in the same block
			for _, x := range in.Block().Instrs {
				st2, ok := x.(*ssa.Store)
				if !ok || st2 == st {
					continue
				}
				if _, isC := ConstString(st2.Val); isC {
					continue
				}
				if _, isIdx := st2.Addr.(*ssa.IndexAddr); !isIdx {
					continue
				}
				found = true
				r.Check(st2.Val == ssa.Value(param), "R-REQID-VERBATIM", name, u.Pos(x.Pos()), "request_id = the id passed by the dispatcher", name+" stamps "+u.Describe(st2.Val)+" as request_id, not its requestID argument: the exception can carry an id other than the request's")
			}
			// and only the emptiness of that same parameter decides whether it is stamped
			gs := u.GuardStrings(in)
			okG := len(gs) >= 1 && gs[0] == `(requestID != "")`
			r.Check(okG, "R-REQID-VERBATIM", name+"|when", u.Pos(in.Pos()), "stamped whenever the id is non-empty", "request_id stamped under ["+strings.Join(gs, " && ")+"]")
		})
		if !found {
			r.Viol("R-REQID-VERBATIM", name, u.Pos(fn.Pos()), name+" never stamps vgi_rpc.request_id")
		}
	}
	r.Floor("R-REQID-VERBATIM", 4)
}

// ---------------------------------------------------------------- C07

func seedfixC07(c *Ctx) {
	u, r := c.U, c.R
	// R-DEFAULT-WIDTH: defaults are parsed at the full width of the Go kinds they may fill.
	if fn := c.Fn("R-DEFAULT-WIDTH", "setFieldFromString"); fn != nil {
		n := 0
		for _, cs := range u.Calls(fn, Or(Is("strconv.ParseFloat"), Is("strconv.ParseInt"), Is("strconv.ParseUint"))) {
			n++
			bits, _ := ConstInt(cs.Arg(len(cs.Common().Args) - 1))
			r.Check(bits == 64, "R-DEFAULT-WIDTH", strings.TrimPrefix(cs.Callee, "strconv.")+"#"+itoa(n), u.Pos(cs.Instr.Pos()), "parsed with bitSize 64", cs.Callee+" parses a default with bitSize "+itoa(int(bits))+": a float64/int64 field defaulted from a string loses precision or range")
		}
		if n == 0 {
			r.Undec("R-DEFAULT-WIDTH", "setFieldFromString", u.Pos(fn.Pos()), "no strconv parse found")
		}
	}
	// R-ENUM-CODE: a dictionary-encoded enum is decoded through its code, not its row index.
	if fn := c.Fn("R-ENUM-CODE", "setFieldFromArrow"); fn != nil {
		n := 0
		Instrs(fn, func(in ssa.Instruction) {
			ci, ok := in.(*ssa.Call)
			if !ok || !strings.HasSuffix(u.CalleeName(&ci.Call), "array.String).Value") || len(ci.Call.Args) < 2 {
				return
			}
			if !strings.Contains(u.Describe(ci.Call.Args[0]), "array.Dictionary).Dictionary(") {
				return
			}
			n++
			d := u.Describe(ci.Call.Args[1])
			r.Check(strings.Contains(d, "array.Dictionary).GetValueIndex("), "R-ENUM-CODE", "setFieldFromArrow#"+itoa(n), u.Pos(in.Pos()), "dictionary value looked up by the row's code", "the enum's dictionary is indexed with "+d+", not with GetValueIndex(row): row i reads dictionary entry i")
		})
		if n == 0 {
			r.Undec("R-ENUM-CODE", "setFieldFromArrow", u.Pos(fn.Pos()), "no dictionary lookup found")
		}
	}
	r.Floor("R-DEFAULT-WIDTH", 2)
	r.Floor("R-ENUM-CODE", 1)
}

// ---------------------------------------------------------------- C08

// seedfixC08: R-DECIMAL-NO-WRAP — a decimal128 is never built from the result
// of fixed-width integer arithmetic (i * 10^scale wraps silently in int64; the
// precision check that follows then sees the already-wrapped value).
func seedfixC08(c *Ctx) {
	u, r := c.U, c.R
	n := 0
	for _, fn := range u.SrcFuncs() {
		for _, cs := range u.Calls(fn, Or(HasSuffix("decimal128.FromI64"), HasSuffix("decimal128.FromU64"), HasSuffix("decimal128.New"), HasSuffix("decimal256.FromI64"))) {
			n++
			bad := ""
			for i := 0; i < len(cs.Common().Args); i++ {
				var walk func(v ssa.Value, d int)
				walk = func(v ssa.Value, d int) {
					if d > 5 || bad != "" {
						return
					}
					switch x := v.(type) {
					case *ssa.BinOp:
						if x.Op == token.MUL || x.Op == token.SHL || x.Op == token.ADD || x.Op == token.SUB {
							bad = u.Describe(x)
							return
						}
						walk(x.X, d+1)
						walk(x.Y, d+1)
					case *ssa.Convert:
						walk(x.X, d+1)
					case *ssa.Phi:
						for _, e := range x.Edges {
							walk(e, d+1)
						}
					}
				}
				walk(cs.Arg(i), 0)
			}
			r.Check(bad == "", "R-DECIMAL-NO-WRAP", shortName(fn)+"|"+cs.Callee[strings.LastIndex(cs.Callee, ".")+1:]+"#"+itoa(n), u.Pos(cs.Instr.Pos()), "decimal built from an unmodified integer", "a decimal is built from fixed-width integer arithmetic "+bad+": the product wraps before any precision check can see it")
		}
	}
	// the string path goes through the library parser with the column's precision and scale
	if fn := c.Fn("R-DECIMAL-NO-WRAP", "decimalFromValue"); fn != nil {
		ok := false
		for _, cs := range u.Calls(fn, HasSuffix("decimal128.FromString")) {
			if strings.HasSuffix(u.Describe(cs.Arg(1)), "dt.Precision") && strings.HasSuffix(u.Describe(cs.Arg(2)), "dt.Scale") {
				ok = true
			}
		}
		r.Check(ok, "R-DECIMAL-NO-WRAP", "decimalFromValue|parser", u.Pos(fn.Pos()), "decimal strings parsed by decimal128.FromString with the column's precision and scale", "decimalFromValue does not parse through decimal128.FromString(s, dt.Precision, dt.Scale)")
	}
	r.Floor("R-DECIMAL-NO-WRAP", 1)
}

// ---------------------------------------------------------------- C17

// trimmedLast: v is the result of TrimSpace, possibly under ToLower and phis.
func trimmedLast(u *Unit, v ssa.Value, depth int) bool {
	if depth > 6 {
		return false
	}
	switch x := v.(type) {
	case *ssa.Call:
		switch u.CalleeName(&x.Call) {
		case "strings.TrimSpace":
			return true
		case "strings.ToLower", "strings.ToUpper":
			return trimmedLast(u, x.Call.Args[0], depth+1)
		}
		return false
	case *ssa.Phi:
		for _, e := range x.Edges {
			if !trimmedLast(u, e, depth+1) {
				return false
			}
		}
		return len(x.Edges) > 0
	}
	return false
}

func seedfixC17(c *Ctx) {
	u, r := c.U, c.R
	// R-TOKEN-TRIM: the token that is matched is trimmed after the ;q= parameter was cut off.
	if fn := c.Fn("R-TOKEN-TRIM", "parseAcceptEncoding"); fn != nil {
		n := 0
		Instrs(fn, func(in ssa.Instruction) {
			mu, ok := in.(*ssa.MapUpdate)
			if !ok {
				return
			}
			n++
			r.Check(trimmedLast(u, mu.Key, 0), "R-TOKEN-TRIM", "parseAcceptEncoding", u.Pos(in.Pos()), "coding tokens are whitespace-trimmed after the parameter is removed", "the coding token recorded is "+u.Describe(mu.Key)+": optional whitespace before ';' stays in the token and `gzip ;q=1` matches no codec")
		})
		if n == 0 {
			r.Undec("R-TOKEN-TRIM", "parseAcceptEncoding", u.Pos(fn.Pos()), "token set not found")
		}
	}
	// R-LEVEL-AFTER-PROBE: a level is committed only after the probe encoder accepted it.
	if fn := c.Fn("R-LEVEL-AFTER-PROBE", "(*HttpServer).SetCompressionLevel"); fn != nil {
		n := 0
		for _, cs := range u.Calls(fn, Is("(*HttpServer).applyCompressionLevel")) {
			if _, isC := ConstInt(cs.Arg(1)); isC {
				continue // disabling
			}
			n++
			r.Check(u.GuardedErrNil(cs.Instr, HasSuffix("zstd.NewWriter")), "R-LEVEL-AFTER-PROBE", "SetCompressionLevel", u.Pos(cs.Instr.Pos()), "level stored only after zstd.NewWriter accepted it", "the level is stored before (or without) the validating probe succeeding: a rejected level is returned as an error yet already in force")
		}
		if n == 0 {
			r.Undec("R-LEVEL-AFTER-PROBE", "SetCompressionLevel", u.Pos(fn.Pos()), "no level store found")
		}
	}
	r.Floor("R-TOKEN-TRIM", 1)
	r.Floor("R-LEVEL-AFTER-PROBE", 1)
}

// ---------------------------------------------------------------- C18

func seedfixC18(c *Ctx) {
	u, r := c.U, c.R
	fn := c.Fn("R-413-EXACT", "(*HttpServer).readHTTPBody")
	if fn == nil {
		return
	}
	n := 0
	Instrs(fn, func(in ssa.Instruction) {
		al, ok := in.(*ssa.Alloc)
		if !ok || !strings.HasSuffix(typeShort(al.Type()), "requestBodyTooLargeError") {
			return
		}
		g := gjoin(u, in)
		if !strings.Contains(g, "decompressBounded(") {
			return // the encoded-size refusals
		}
		n++
		ok2 := strings.Contains(g, "requestCapApplied") && strings.Contains(g, "(decompressedCap == limit)")
		r.Check(ok2, "R-413-EXACT", "readHTTPBody|decompressed-overrun", u.Pos(in.Pos()), "413 for a decompressed overrun only when the cap that tripped is the advertised request cap", "a decompressed-size overrun is reported as the request-size error under ["+g+"]: when the tighter decompression cap tripped, the client is told a limit that is not the one it hit")
	})
	if n == 0 {
		r.Undec("R-413-EXACT", "readHTTPBody", u.Pos(fn.Pos()), "no request-size error on the decompression path")
	}
	r.Floor("R-413-EXACT", 1)
}

// ---------------------------------------------------------------- C19

func seedfixC19(c *Ctx) {
	u, r := c.U, c.R
	// R-CAPS-INDEPENDENT: each per-turn limit is judged on its own.
	if pl := u.Func("(*HttpServer).runProduceLoopCapped"); pl != nil {
		n := 0
		Instrs(pl, func(in ssa.Instruction) {
			ret, ok := in.(*ssa.Return)
			if !ok || InRecoverBlock(in) {
				return
			}
			e, isC := ReturnValue(ret, 1).(*ssa.Const)
			fin, isF := ReturnValue(ret, 0).(*ssa.Const)
			if !isC || e.Value != nil || !isF || fin.Value == nil || fin.Value.String() != "false" {
				return
			}
			g := gjoin(u, in)
			switch {
			case strings.Contains(g, "Len(body)) >= h.maxResponseBytes)"):
				n++
				r.Check(!strings.Contains(g, "producerBatchLimit"), "R-CAPS-INDEPENDENT", "produce-loop|wire-cap", u.Pos(in.Pos()), "wire cap consulted whatever the batch limit", "the max_response_bytes hand-over depends on producerBatchLimit ("+g+"): with a batch limit configured the wire cap is never consulted")
			case strings.Contains(g, "(dataBatches >= h.producerBatchLimit)"):
				n++
				r.Check(!strings.Contains(g, "maxResponseBytes"), "R-CAPS-INDEPENDENT", "produce-loop|batch-limit", u.Pos(in.Pos()), "batch limit consulted whatever the wire cap", "the batch-limit hand-over depends on maxResponseBytes ("+g+")")
			}
		})
		r.Check(n == 2, "R-CAPS-INDEPENDENT", "produce-loop|both-present", u.Pos(pl.Pos()), "both hand-over exits present", itoa(n)+" of the two hand-over exits found")
	}
	if eb := c.Fn("R-CAPS-INDEPENDENT", "enforceResponseBudgets"); eb != nil {
		n := 0
		Instrs(eb, func(in ssa.Instruction) {
			ret, ok := in.(*ssa.Return)
			if !ok {
				return
			}
			if k, isC := ReturnValue(ret, 0).(*ssa.Const); isC && k.Value == nil {
				return
			}
			g := gjoin(u, in)
			if strings.Contains(g, "(wireBytes > wireCap)") {
				n++
				r.Check(!strings.Contains(g, "externalBytes") && !strings.Contains(g, "externalCap"), "R-CAPS-INDEPENDENT", "enforce|wire", u.Pos(in.Pos()), "wire cap judged independently of the external channel", "the wire-cap refusal depends on the external channel ("+g+"): a response that also uploaded something escapes max_response_bytes")
			}
			if strings.Contains(g, "(externalBytes > externalCap)") {
				n++
			}
		})
		r.Check(n == 2, "R-CAPS-INDEPENDENT", "enforce|both-present", u.Pos(eb.Pos()), "both refusals present", itoa(n)+" of the two refusals found")
	}
	// R-PREDICT-AGREES: the pre-flight estimate and the uploader use the same inline test.
	ops := map[string]string{}
	for _, name := range []string{"predictExternalizeBytes", "externalizeBatchCtx"} {
		fn := c.Fn("R-PREDICT-AGREES", name)
		if fn == nil {
			continue
		}
		Instrs(fn, func(in ssa.Instruction) {
			b, ok := in.(*ssa.BinOp)
			if !ok {
				return
			}
			switch b.Op {
			case token.LSS, token.LEQ, token.GTR, token.GEQ:
				d := u.Describe(b)
				if strings.Contains(d, "threshold(") && strings.Contains(d, "batchBufferSize(") {
					ops[name] = b.Op.String()
					if strings.Contains(u.Describe(b.X), "threshold(") {
						ops[name] = "rev" + b.Op.String()
					}
				}
			}
		})
	}
	var ks []string
	for k, v := range ops {
		ks = append(ks, k+":"+v)
	}
	sort.Strings(ks)
	r.Check(len(ops) == 2 && ops["predictExternalizeBytes"] == ops["externalizeBatchCtx"], "R-PREDICT-AGREES", "inline-test", "vgirpc/http_response_cap.go", "same size-vs-threshold comparison on both sides ("+strings.Join(ks, ", ")+")", "the pre-flight estimate and the uploader disagree on which batches stay inline ("+strings.Join(ks, ", ")+"): a batch exactly at the threshold is uploaded without having been counted against the external cap")
	r.Floor("R-CAPS-INDEPENDENT", 5)
	r.Floor("R-PREDICT-AGREES", 1)
}

// ---------------------------------------------------------------- C23

func seedfixC23(c *Ctx) {
	u, r := c.U, c.R
	fn := c.Fn("R-CHALLENGE-ALWAYS", "(*HttpServer).writeUnauthorized")
	if fn == nil {
		return
	}
	n := 0
	for _, cs := range u.Calls(fn, HasSuffix("http.Header).Set")) {
		if k, ok := ConstString(cs.Arg(1)); !ok || k != "WWW-Authenticate" {
			continue
		}
		n++
		gs := u.GuardStrings(cs.Instr)
		var extra []string
		for _, g := range gs {
			if g != `(h.wwwAuthenticate != "")` {
				extra = append(extra, g)
			}
		}
		r.Check(len(extra) == 0 && len(gs) == 1, "R-CHALLENGE-ALWAYS", "writeUnauthorized", u.Pos(cs.Instr.Pos()), "every 401 carries the configured challenge", "the configured WWW-Authenticate challenge is attached only when ["+strings.Join(extra, " && ")+"]: some 401s go out without it")
	}
	if n == 0 {
		r.Viol("R-CHALLENGE-ALWAYS", "writeUnauthorized", u.Pos(fn.Pos()), "WWW-Authenticate is never set")
	}
	r.Floor("R-CHALLENGE-ALWAYS", 1)
}

// ---------------------------------------------------------------- C27

func seedfixC27(c *Ctx) {
	u, r := c.U, c.R
	want, okW := u.ConstValue("sessionMaxAge")
	n := 0
	for _, cs := range u.CallSitesOf(Is("unpackOAuthCookie")) {
		if strings.Contains(u.Pos(cs.Instr.Pos()), "_test.go") {
			continue
		}
		n++
		k, isK := ConstInt(cs.Arg(2))
		r.Check(okW && isK && itoa(int(k)) == want, "R-COOKIE-MAXAGE", shortName(cs.Fn), u.Pos(cs.Instr.Pos()), "cookie age judged against the server's sessionMaxAge", "the login-state cookie's age is judged against "+u.Describe(cs.Arg(2))+", not the server constant sessionMaxAge: a browser-supplied or zero lifetime disables the expiry")
	}
	if n == 0 {
		r.Undec("R-COOKIE-MAXAGE", "unpackOAuthCookie", "-", "no call site")
	}
	r.Floor("R-COOKIE-MAXAGE", 1)
}

// ---------------------------------------------------------------- C30

func seedfixC30(c *Ctx) {
	u, r := c.U, c.R
	// R-META-BEFORE-UPLOAD: what is offered for externalization already carries the per-emit metadata.
	n := 0
	for _, name := range []string{"(*HttpServer).runProduceLoopCapped", "(*HttpServer).handleExchangeCall"} {
		fn := u.Func(name)
		if fn == nil {
			continue
		}
		for _, cs := range u.Calls(fn, Is("(*HttpServer).externalizeStreamDataBatch")) {
			n++
			a := cs.Arg(2)
			ok := false
			det := u.Describe(a)
			switch x := a.(type) {
			case *ssa.Phi:
				for _, e := range x.Edges {
					if strings.Contains(u.Describe(e), "array.NewRecordBatchWithMetadata(") {
						ok = true
					}
				}
			case *ssa.Call:
				ok = strings.HasSuffix(u.CalleeName(&x.Call), "array.NewRecordBatchWithMetadata")
			case *ssa.MakeInterface:
				ok = strings.Contains(u.Describe(x.X), "array.NewRecordBatchWithMetadata(")
			}
			r.Check(ok, "R-META-BEFORE-UPLOAD", strings.TrimPrefix(name, "(*HttpServer)."), u.Pos(cs.Instr.Pos()), "the batch uploaded is the metadata-bearing one", name+" offers "+det+" for upload: per-emit metadata attached afterwards stays on the pointer batch and is lost when the client resolves the location")
		}
	}
	if n == 0 {
		r.Undec("R-META-BEFORE-UPLOAD", "externalizeStreamDataBatch", "-", "no call site")
	}
	r.Floor("R-META-BEFORE-UPLOAD", 2)
}
