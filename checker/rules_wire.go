package main

import (
	"go/token"
	"sort"
	"strings"

	"golang.org/x/tools/go/ssa"
)

func init() {
	register(&PropInfo{
		ID:    "C01",
		Title: "Wire helpers are mutually inverse for every request and result",
		Explanation: "R-KEYS: the metadata keys WriteRequest stamps ⊇ the keys ReadRequest requires, and the request-version value written is the constant ReadRequest compares against; the keys writeStateTokenBatch writes = the keys scanStreamForTokens reads; FindProtocolVersion reads the key WriteRequest writes for the protocol version. " +
			"R-RESULT-GUARD: ReadUnaryResult's ok=true return is dominated by NumRows>0, a non-empty FieldIndices(\"result\"), a comma-ok assertion to *array.Binary and Len()!=0, and returns a copy of row 0; its skip edge requires a log level that is not EXCEPTION; every other exit is not-a-result. " +
			"R-TOKEN-FIRST: scanStreamForTokens returns the first non-empty stream-state value and keeps the first non-empty call-state value; FindStreamTokens walks concatenated streams until a state token is found and stops on no forward progress. " +
			"R-READ-DRAIN (shared with C02): ReadRequest drains to end-of-stream before any validation verdict. R-WRITE-CLOSE: WriteRequest/WriteUnaryResult close the IPC writer on every path.",
		NotCovered:  []string{"equality of values and schemas after a round trip (Arrow IPC semantics)", "behaviour on arbitrary malformed byte strings inside arrow-go's reader"},
		Assumptions: []string{"arrow-go's IPC reader reports malformed input as an error, not a panic (it recovers internally)"},
		Run:         runC01,
	})
	register(&PropInfo{
		ID:    "C09",
		Title: "Describe lists the registered surface and hashes it canonically",
		Explanation: "R-SORTED: buildDescribeBatch iterates names obtained from availableMethods() after sort.Strings, and availableMethods enumerates s.methods. R-ROW-ALIGN: in each loop iteration each of the eight column builders receives exactly one Append/AppendNull and each of the seven hash-input slices exactly one append. " +
			"R-HASH-INPUTS: every argument of computeProtocolHash is the protocol name, the sorted names, or one of those per-row slices (the same values that fill the batch). R-HASH-ORDER: computeProtocolHash writes, per method, the nine fields in the reference order with the 0x1f/0x1e separators. " +
			"R-ONCE: Server.protocolHash is written only inside protocolHashOnce.Do. R-DESCRIBE-SIBLINGS: serveDescribe and handleDescribe both wrap buildDescribeBatch()'s batch with describeSchema and its returned metadata.",
		NotCovered:  []string{"equality with the reference implementation's digest for the same payload", "decodability of the schema bytes (serializeSchema / Arrow IPC)"},
		Assumptions: []string{},
		Run:         runC09,
	})
}

func constStringsStored(u *Unit, fn *ssa.Function) map[string]bool {
	out := map[string]bool{}
	Instrs(fn, func(in ssa.Instruction) {
		if st, ok := in.(*ssa.Store); ok {
			if s, isC := ConstString(st.Val); isC {
				out[s] = true
			}
		}
	})
	return out
}

func getValueKeys(u *Unit, fn *ssa.Function) map[string]bool {
	out := map[string]bool{}
	for _, cs := range u.Calls(fn, HasSuffix("arrow.Metadata).GetValue")) {
		if s, ok := ConstString(cs.Arg(1)); ok {
			out[s] = true
		}
	}
	return out
}

func runC01(c *Ctx) {
	u, r := c.U, c.R
	seedfixC01(c)
	wr := c.Fn("R-KEYS", "WriteRequest")
	rd := c.Fn("R-KEYS", "ReadRequest")
	if wr != nil && rd != nil {
		written := constStringsStored(u, wr)
		read := getValueKeys(u, rd)
		for _, k := range []string{"vgi_rpc.method", "vgi_rpc.request_version"} {
			r.Check(written[k] && read[k], "R-KEYS", "request|"+k, u.Pos(wr.Pos()), "stamped by WriteRequest and required by ReadRequest", "key "+k+": written="+boolStr(written[k])+" read="+boolStr(read[k]))
		}
		// version value written is the constant compared
		pv, _ := u.ConstValue("ProtocolVersion")
		cmpOK := false
		Instrs(rd, func(in ssa.Instruction) {
			if b, ok := in.(*ssa.BinOp); ok && (b.Op == token.NEQ || b.Op == token.EQL) {
				if s, isC := ConstString(b.Y); isC && s == pv && strings.Contains(u.Describe(b.X), `"vgi_rpc.request_version"`) {
					cmpOK = true
				}
			}
		})
		r.Check(written[pv] && cmpOK, "R-KEYS", "request|version-value", u.Pos(rd.Pos()), "WriteRequest stamps ProtocolVersion="+pv+", ReadRequest compares against it", "the request-version value written and the one ReadRequest accepts differ")
		// the stored method value is the parameter
		okM := false
		Instrs(wr, func(in ssa.Instruction) {
			if st, ok := in.(*ssa.Store); ok && st.Val == ssa.Value(wr.Params[1]) {
				okM = true
			}
		})
		r.Check(okM, "R-KEYS", "request|method-value", u.Pos(wr.Pos()), "the method parameter itself is stamped", "WriteRequest does not stamp its method parameter")
		if fp := c.Fn("R-KEYS", "FindProtocolVersion"); fp != nil {
			r.Check(written["vgi_rpc.protocol_version"] && getValueKeys(u, fp)["vgi_rpc.protocol_version"], "R-KEYS", "protocol_version", u.Pos(fp.Pos()), "written by WriteRequest, read by FindProtocolVersion", "protocol-version key mismatch between WriteRequest and FindProtocolVersion")
			// written only when non-empty
			Instrs(wr, func(in ssa.Instruction) {
				if st, ok := in.(*ssa.Store); ok {
					if s, isC := ConstString(st.Val); isC && s == "vgi_rpc.protocol_version" {
						r.Check(u.HasGuardContaining(in, `(protocolVersion != "")`), "R-KEYS", "protocol_version|omitted-when-empty", u.Pos(in.Pos()), "omitted when empty", "protocol version key written even when empty")
					}
				}
			})
		}
	}
	ws := c.Fn("R-KEYS", "writeStateTokenBatch")
	sc := c.Fn("R-KEYS", "scanStreamForTokens")
	if ws != nil && sc != nil {
		w, g := constStringsStored(u, ws), getValueKeys(u, sc)
		ok := w["vgi_rpc.stream_state#b64"] && w["vgi_rpc.call_state#b64"] && g["vgi_rpc.stream_state#b64"] && g["vgi_rpc.call_state#b64"]
		r.Check(ok, "R-KEYS", "tokens", u.Pos(ws.Pos()), "token keys written = token keys scanned", "token key sets differ between writeStateTokenBatch and scanStreamForTokens")
		// R-TOKEN-FIRST
		Instrs(sc, func(in ssa.Instruction) {
			ret, isR := in.(*ssa.Return)
			if !isR || InRecoverBlock(in) {
				return
			}
			v := ReturnValue(ret, 0)
			if cst, isC := v.(*ssa.Const); isC && cst.Value == nil {
				return
			}
			j := strings.Join(u.GuardStrings(in), " && ")
			okT := strings.Contains(j, `"vgi_rpc.stream_state#b64")#1`) && strings.Contains(j, `"vgi_rpc.stream_state#b64")#0 != "")`)
			r.Check(okT, "R-TOKEN-FIRST", "scan|state-return", u.Pos(in.Pos()), "returns at the first batch carrying a non-empty stream-state value", "state token returned under: "+j)
		})
		okCall := false
		Instrs(sc, func(in ssa.Instruction) {
			// callState = []byte(call) guarded by callState == nil
			if cv, ok := in.(*ssa.Convert); ok && strings.Contains(u.Describe(cv.X), `"vgi_rpc.call_state#b64")#0`) {
				if u.HasGuardContaining(in, "callState", "== nil") && u.HasGuardContaining(in, `"vgi_rpc.call_state#b64")#0 != "")`) {
					okCall = true
				}
			}
		})
		r.Check(okCall, "R-TOKEN-FIRST", "scan|first-call-state", u.Pos(sc.Pos()), "the first non-empty call-state value is kept", "call-state capture is not guarded by callState == nil ∧ non-empty")
	}
	if fs := c.Fn("R-TOKEN-FIRST", "FindStreamTokens"); fs != nil {
		prog := false
		Instrs(fs, func(in ssa.Instruction) {
			if b, ok := in.(*ssa.BinOp); ok && b.Op == token.EQL && strings.Contains(u.Describe(b.X), "bytes.Reader).Len(") && strings.Contains(u.Describe(b.Y), "bytes.Reader).Len(") {
				prog = true
			}
		})
		r.Check(prog, "R-TOKEN-FIRST", "FindStreamTokens|progress", u.Pos(fs.Pos()), "stops when a scan consumes nothing", "no forward-progress guard: a stream that cannot be parsed loops forever")
	}
	// R-RESULT-GUARD
	if ru := c.Fn("R-RESULT-GUARD", "ReadUnaryResult"); ru != nil {
		n := 0
		Instrs(ru, func(in ssa.Instruction) {
			ret, isR := in.(*ssa.Return)
			if !isR || InRecoverBlock(in) {
				return
			}
			okV := ReturnValue(ret, 2)
			b, isC := okV.(*ssa.Const)
			if !isC || b.Value == nil || b.Value.String() != "true" {
				return
			}
			n++
			j := strings.Join(u.GuardStrings(in), " && ")
			need := []string{"NumRows(", "> 0)", `FieldIndices(`, `"result"`, "!= 0)", "assertok:*arrow/array.Binary(", "#1", ".Len("}
			var miss []string
			for _, s := range need {
				if !strings.Contains(j, s) {
					miss = append(miss, s)
				}
			}
			d := u.Describe(ReturnValue(ret, 1))
			okCopy := strings.HasPrefix(d, "bytes.Clone(") && strings.Contains(d, ".Value(") && strings.HasSuffix(d, ", 0))")
			r.Check(len(miss) == 0 && okCopy, "R-RESULT-GUARD", "ReadUnaryResult|ok", u.Pos(in.Pos()), "ok only for a non-empty row with a binary `result` column; returns a copy of row 0", "ok=true returned with missing guards "+strings.Join(miss, ",")+" / value "+d)
		})
		r.Check(n == 1, "R-RESULT-GUARD", "ReadUnaryResult|single-ok-exit", u.Pos(ru.Pos()), "exactly one ok exit", itoa(n)+" ok=true exits")
		// skip edge: the loop continues only for a log batch that is not EXCEPTION
		nexts := u.Calls(ru, HasSuffix("ipc.Reader).Next"))
		if len(nexts) == 1 {
			loop := nexts[0].Instr.Block()
			for _, p := range loop.Preds {
				if !Dominated(loop, p) {
					continue // loop entry
				}
				j := strings.Join(u.GuardStringsOfBlockEdge(p, loop), " && ")
				ok := strings.Contains(j, `"vgi_rpc.log_level")#1`) && strings.Contains(j, `!= "EXCEPTION")`) && strings.Contains(j, "<= 0)")
				r.Check(ok, "R-RESULT-GUARD", "ReadUnaryResult|skip-edge", u.Pos(p.Instrs[len(p.Instrs)-1].Pos()), "only zero-row log batches below EXCEPTION are skipped", "the reader skips a batch under: "+j)
			}
		}
	}
	// R-WRITE-CLOSE
	for _, name := range []string{"WriteRequest", "WriteUnaryResult"} {
		f := c.Fn("R-WRITE-CLOSE", name)
		if f == nil {
			continue
		}
		for _, nw := range u.Calls(f, HasSuffix("ipc.NewWriter")) {
			_, open := ReachWithout(f, nw.Instr, IsReturn, u.CallMatcher(HasSuffix("ipc.Writer).Close"), true))
			r.Check(!open, "R-WRITE-CLOSE", name, u.Pos(nw.Instr.Pos()), "writer closed on every path (end-of-stream marker written)", name+" can return without closing the IPC writer")
		}
	}
	// R-READ-DRAIN summary (full rule in C02)
	if rd != nil {
		nexts := u.Calls(rd, HasSuffix("ipc.Reader).Next"))
		okD := len(nexts) >= 2
		if okD {
			_, loops := ReachWithout(rd, nexts[len(nexts)-1].Instr, isInstr(nexts[len(nexts)-1].Instr), nil)
			okD = loops
		}
		r.Check(okD, "R-READ-DRAIN", "ReadRequest", u.Pos(rd.Pos()), "drain loop present", "ReadRequest has no drain loop")
	}
}

// ---------------------------------------------------------------- C09

func runC09(c *Ctx) {
	u, r := c.U, c.R
	seedfixC09(c)
	fn := c.Fn("R-SORTED", "(*Server).buildDescribeBatch")
	if fn == nil {
		return
	}
	am := u.Calls(fn, Is("(*Server).availableMethods"))
	ss := u.Calls(fn, Is("sort.Strings"))
	okS := len(am) == 1 && len(ss) == 1 && ss[0].Arg(0) == am[0].Value() && Dominates(am[0].Instr, ss[0].Instr)
	r.Check(okS, "R-SORTED", "buildDescribeBatch|names", u.Pos(fn.Pos()), "names = sort.Strings(availableMethods())", "method names are not sorted before the describe rows and hash are built")
	if af := c.Fn("R-SORTED", "(*Server).availableMethods"); af != nil {
		rng := false
		Instrs(af, func(in ssa.Instruction) {
			if rg, ok := in.(*ssa.Range); ok && strings.HasSuffix(u.Describe(rg.X), "s.methods") {
				rng = true
			}
		})
		r.Check(rng, "R-SORTED", "availableMethods", u.Pos(af.Pos()), "enumerates every registered method", "availableMethods does not range over s.methods")
	}
	// the row loop: block containing the name Append
	var loopBody *ssa.BasicBlock
	for _, cs := range u.Calls(fn, HasSuffix("array.StringBuilder).Append")) {
		if strings.Contains(u.Describe(cs.Arg(1)), "availableMethods") {
			loopBody = cs.Instr.Block()
		}
	}
	if loopBody == nil {
		r.Undec("R-ROW-ALIGN", "buildDescribeBatch", u.Pos(fn.Pos()), "row loop not found")
		return
	}
	// loop header = dominator with 2 preds that loopBody is dominated by, and back edge
	var header *ssa.BasicBlock
	for d := loopBody; d != nil; d = d.Idom() {
		if len(d.Preds) >= 2 {
			for _, p := range d.Preds {
				if Dominated(d, p) {
					header = d
				}
			}
		}
		if header != nil {
			break
		}
	}
	if header == nil {
		r.Undec("R-ROW-ALIGN", "buildDescribeBatch", u.Pos(fn.Pos()), "loop header not found")
		return
	}
	// per-iteration counts: from loop body start to the back edge (return to header)
	backEdge := func(in ssa.Instruction) bool {
		b := in.Block()
		if in != b.Instrs[len(b.Instrs)-1] {
			return false
		}
		for _, s := range b.Succs {
			if s == header {
				return true
			}
		}
		return false
	}
	// loop membership: dominated by the header and able to come back to it
	inLoop := map[*ssa.BasicBlock]bool{}
	for _, b := range fn.Blocks {
		if !Dominated(header, b) || b == header {
			continue
		}
		seen := map[*ssa.BasicBlock]bool{}
		work := []*ssa.BasicBlock{b}
		for len(work) > 0 {
			x := work[len(work)-1]
			work = work[:len(work)-1]
			if seen[x] {
				continue
			}
			seen[x] = true
			for _, s := range x.Succs {
				if s == header {
					inLoop[b] = true
				}
				if Dominated(header, s) && s != header {
					work = append(work, s)
				}
			}
		}
	}
	builderVal := map[string]ssa.Value{}
	builders := map[string][]ssa.Instruction{}
	Instrs(fn, func(in ssa.Instruction) {
		ci, ok := in.(*ssa.Call)
		if !ok || !inLoop[in.Block()] {
			return
		}
		n := u.CalleeName(&ci.Call)
		if strings.Contains(n, "arrow/array.") && (strings.HasSuffix(n, "Builder).Append") || strings.HasSuffix(n, "Builder).AppendNull")) {
			// key by the builder value itself (several builders share one constructor)
			b := ""
			for k, v := range builderVal {
				if v == ci.Call.Args[0] {
					b = k
				}
			}
			if b == "" {
				b = typeShort(ci.Call.Args[0].Type()) + "#" + itoa(len(builderVal)+1)
				builderVal[b] = ci.Call.Args[0]
			}
			builders[b] = append(builders[b], in)
		}
	})
	var bn []string
	for b := range builders {
		bn = append(bn, b)
	}
	sort.Strings(bn)
	r.Check(len(bn) == 8, "R-ROW-ALIGN", "builders", u.Pos(fn.Pos()), "eight column builders fed in the row loop", itoa(len(bn))+" builders appended in the row loop (expected 8)")
	for _, b := range bn {
		set := builders[b]
		isOne := func(in ssa.Instruction) bool {
			for _, x := range set {
				if x == in {
					return true
				}
			}
			return false
		}
		mm := CountOnPaths(fn, loopBody.Instrs[0], isOne, backEdge)
		ok := len(mm) > 0
		for _, v := range mm {
			if v.Min != 1 || v.Max != 1 {
				ok = false
			}
		}
		r.Check(ok, "R-ROW-ALIGN", "builder "+b, u.Pos(set[0].Pos()), "exactly one value appended per method row", "column builder "+b+" does not receive exactly one value per row on every path: the describe columns go out of step")
	}
	// hash input slices: appends of the form x = append(x, v) inside the loop
	slices := map[string][]ssa.Instruction{}
	Instrs(fn, func(in ssa.Instruction) {
		ci, ok := in.(*ssa.Call)
		if !ok || !inLoop[in.Block()] {
			return
		}
		if b, isB := ci.Call.Value.(*ssa.Builtin); isB && b.Name() == "append" {
			if phi, isPhi := ci.Call.Args[0].(*ssa.Phi); isPhi && phi.Comment != "" {
				slices[u.VarName(phi)] = append(slices[u.VarName(phi)], in)
			}
		}
	})
	var sn []string
	for s := range slices {
		sn = append(sn, s)
	}
	sort.Strings(sn)
	r.Check(len(sn) == 7, "R-ROW-ALIGN", "hash-slices", u.Pos(fn.Pos()), "seven hash-input slices grown in the row loop: "+strings.Join(sn, ","), itoa(len(sn))+" hash-input slices grown in the loop (expected 7): "+strings.Join(sn, ","))
	for _, s := range sn {
		set := slices[s]
		isOne := func(in ssa.Instruction) bool {
			for _, x := range set {
				if x == in {
					return true
				}
			}
			return false
		}
		mm := CountOnPaths(fn, loopBody.Instrs[0], isOne, backEdge)
		ok := len(mm) > 0
		for _, v := range mm {
			if v.Min != 1 || v.Max != 1 {
				ok = false
			}
		}
		r.Check(ok, "R-ROW-ALIGN", "slice "+s, u.Pos(set[0].Pos()), "exactly one element appended per method row", "hash input "+s+" does not grow by exactly one per row: the digest covers a different surface than the rows")
	}
	// R-HASH-INPUTS
	if hc := u.Calls(fn, Is("computeProtocolHash")); len(hc) == 1 {
		allowed := map[string]bool{}
		for _, s := range sn {
			allowed[s] = true
		}
		for i, a := range hc[0].Common().Args {
			d := u.Describe(a)
			ok := allowed[d] || strings.HasPrefix(d, "(*Server).availableMethods(") || d == "protocolName" || strings.Contains(d, "s.serviceName") || d == `"GoRpcServer"`
			r.Check(ok, "R-HASH-INPUTS", "arg#"+itoa(i), u.Pos(hc[0].Instr.Pos()), "hash input "+d+" is a value that also fills the batch", "computeProtocolHash argument #"+itoa(i)+" is "+d+", not one of the row slices / names / protocol name")
		}
		// the hash is what goes under the protocol-hash key
		okK := false
		Instrs(fn, func(in ssa.Instruction) {
			if st, ok := in.(*ssa.Store); ok && st.Val == hc[0].Value() {
				okK = true
			}
		})
		r.Check(okK, "R-HASH-INPUTS", "hash→metadata", u.Pos(hc[0].Instr.Pos()), "digest placed in the response metadata", "the computed digest is not stored into the metadata values")
	} else {
		r.Undec("R-HASH-INPUTS", "buildDescribeBatch", u.Pos(fn.Pos()), "computeProtocolHash call not unique")
	}
	// R-HASH-ORDER: the sequence of per-row writes in computeProtocolHash
	if hf := c.Fn("R-HASH-ORDER", "computeProtocolHash"); hf != nil {
		var seq []string
		Instrs(hf, func(in ssa.Instruction) {
			ci, ok := in.(*ssa.Call)
			if !ok || !strings.HasSuffix(u.CalleeName(&ci.Call), "hash.Hash.Write") {
				return
			}
			d := u.Describe(ci.Call.Args[len(ci.Call.Args)-1])
			switch {
			case strings.Contains(d, "names["):
				seq = append(seq, "name")
			case strings.Contains(d, "methodTypes["):
				seq = append(seq, "type")
			case strings.Contains(d, "paramsIPC["):
				seq = append(seq, "params")
			case strings.Contains(d, "resultIPC["):
				seq = append(seq, "result")
			case strings.Contains(d, "headerIPC["):
				seq = append(seq, "header")
			}
		})
		r.Check(strings.Join(seq, ",") == "name,type,params,result,header", "R-HASH-ORDER", "computeProtocolHash|field-order", u.Pos(hf.Pos()), "per-method fields hashed in the reference order", "per-method hash field order is ["+strings.Join(seq, ",")+"]")
		// separators 0x1f / 0x1e present, prefix constant
		cs := constStringsStored(u, hf)
		pre := false
		Instrs(hf, func(in ssa.Instruction) {
			for _, op := range in.Operands(nil) {
				if s, ok := ConstString(*op); ok && s == "vgi_rpc.describe.v" {
					pre = true
				}
			}
		})
		_ = cs
		r.Check(pre, "R-HASH-ORDER", "computeProtocolHash|domain-prefix", u.Pos(hf.Pos()), "digest domain-separated by vgi_rpc.describe.v<version>", "digest prefix constant missing")
		// flags read from the right slices
		fl := map[string]bool{}
		Instrs(hf, func(in ssa.Instruction) {
			if ifi, ok := in.(*ssa.If); ok {
				d := u.Describe(ifi.Cond)
				for _, k := range []string{"hasReturns[", "hasHeaders[", "isExchanges["} {
					if strings.Contains(d, k) {
						fl[k] = true
					}
				}
			}
		})
		r.Check(len(fl) == 3, "R-HASH-ORDER", "computeProtocolHash|flags", u.Pos(hf.Pos()), "has_return, has_header and is_exchange all enter the digest", "only "+itoa(len(fl))+" of the three flags enter the digest")
	}
	// R-ONCE
	nOnce := 0
	once := u.onceFuncs()
	for _, f := range u.SrcFuncs() {
		for _, st := range u.StoresToField(f, "Server", "protocolHash") {
			nOnce++
			r.Check(once[f], "R-ONCE", shortName(f), u.Pos(st.Pos()), "protocolHash written only inside protocolHashOnce.Do", "Server.protocolHash is written outside a sync.Once body: concurrent first requests race and may observe different hashes")
		}
	}
	if nOnce == 0 {
		r.Undec("R-ONCE", "protocolHash", "-", "no writer found")
	}
	// R-DESCRIBE-SIBLINGS
	for _, name := range []string{"(*Server).serveDescribe", "(*HttpServer).handleDescribe"} {
		f := c.Fn("R-DESCRIBE-SIBLINGS", name)
		if f == nil {
			continue
		}
		bd := u.Calls(f, Is("(*Server).buildDescribeBatch"))
		ok := false
		if len(bd) == 1 {
			for _, nb := range u.Calls(f, HasSuffix("array.NewRecordBatchWithMetadata")) {
				a0, a3 := u.Describe(nb.Arg(0)), nb.Arg(3)
				if a0 == "global:describeSchema" && rootCall(a3) == bd[0].Value().(*ssa.Call) && strings.Contains(u.Describe(nb.Arg(1)), "buildDescribeBatch(") {
					ok = true
				}
			}
		}
		r.Check(ok, "R-DESCRIBE-SIBLINGS", name, u.Pos(f.Pos()), "response = buildDescribeBatch() columns + its metadata under describeSchema", name+" does not answer with buildDescribeBatch()'s batch and metadata under describeSchema: pipe and HTTP describe responses differ")
	}
}
