package main

import (
	"go/ast"
	"go/token"
	"go/types"
	"sort"
	"strings"

	"golang.org/x/tools/go/ssa"
)

func init() {
	register(&PropInfo{
		ID:    "C21",
		Title: "The native HTTP client returns the server's stream and never replays a cursor",
		Explanation: "R-CLEAR-BEFORE-POST: in HttpClientStream.Exchange no path from entry reaches client.post without first storing token=\"\" and finished=true, and post runs only under !closed ∧ exchange ∧ !finished ∧ token!=\"\". " +
			"R-REARM-ONLY-ON-SUCCESS: every other store to token/finished in Exchange (and the batch it returns) is dominated by post err==nil ∧ parseMain err==nil ∧ len(batches)==1 ∧ parsed.token!=\"\", and the value is parsed.token of that parseMain call. " +
			"R-CANCEL-TERMINAL: every return of Cancel is preceded by finished=true, and after Cancel's post by token=\"\". R-NEXT: Next posts only with a live cursor and replaces cursor and pending from the parsed response of that post. R-CURSOR-SENT: continuationBody strips client control metadata, then stamps the stream's current token. " +
			"R-SCHEMA-CHECK: parseIPCStream compares reader.Schema() with the declared schema whenever one is given and the mismatch edge returns an error; every caller passes the stream's declared schema. R-TRAILING: parseMain/openStream succeed only with raw.Len()==0, no rpc-error flag, 2xx. " +
			"R-EXCEPTION: a zero-row batch with log level EXCEPTION returns rpcErrorFromMetadata; R-NO-DROP: a record read in the loop is either appended (in order) or released under one of the three declared skip conditions; R-TOKENS-STRIPPED: the state and call tokens are deleted from the metadata map that is returned, in the block that captures them; R-READER-ERR: success only when reader.Err()==nil. " +
			"R-POST: body read through io.LimitReader(maxEncoded+1) and refused above the cap; Content-Encoding validated (table zstd|gzip|identity, default error) before DecodeContentEncoding, which is given maxDecoded; success only for 2xx, other statuses return *HTTPStatusError.",
		NotCovered:  []string{"equality of returned batch values with what the server produced (Arrow IPC decoding)", "producer Next after a failed turn keeps its cursor: the statement speaks of exchange turns and a producer continuation is a pure function of the token", "timeouts inside net/http"},
		Assumptions: []string{"arrow-go ipc.Reader yields batches in stream order"},
		Run:         runC21,
	})
}

func runC21(c *Ctx) {
	u, r := c.U, c.R
	seedfixC21(c)
	guards := func(in ssa.Instruction) string { return strings.NewReplacer("(&", "(", "!&", "!").Replace(strings.Join(u.GuardStrings(in), " && ")) }
	isPost := u.CallMatcher(Is("(*HttpClient).post"), false)
	storeTo := func(field string, pred func(ssa.Value) bool) func(ssa.Instruction) bool {
		return func(in ssa.Instruction) bool {
			st, ok := in.(*ssa.Store)
			if !ok {
				return false
			}
			fa, ok := st.Addr.(*ssa.FieldAddr)
			if !ok || fieldKey(fa.X.Type(), fa.Field) != "HttpClientStream."+field {
				return false
			}
			return pred == nil || pred(st.Val)
		}
	}
	isEmpty := func(v ssa.Value) bool { s, ok := ConstString(v); return ok && s == "" }
	isTrue := func(v ssa.Value) bool {
		k, ok := v.(*ssa.Const)
		return ok && k.Value != nil && k.Value.String() == "true"
	}

	// ---------------------------------------------------------- Exchange
	if ex := c.Fn("R-CLEAR-BEFORE-POST", "(*HttpClientStream).Exchange"); ex != nil {
		posts := u.Calls(ex, Is("(*HttpClient).post"))
		r.Check(len(posts) == 1, "R-CLEAR-BEFORE-POST", "Exchange|one-post", u.Pos(ex.Pos()), "one POST per exchange turn", itoa(len(posts))+" post calls in Exchange")
		_, leakT := ReachWithout(ex, nil, isPost, storeTo("token", isEmpty))
		r.Check(!leakT, "R-CLEAR-BEFORE-POST", "Exchange|token", u.Pos(ex.Pos()), "cursor cleared on every path before the POST", "Exchange can POST without first clearing s.token: a failed turn leaves the old cursor to be resent")
		_, leakF := ReachWithout(ex, nil, isPost, storeTo("finished", isTrue))
		r.Check(!leakF, "R-CLEAR-BEFORE-POST", "Exchange|finished", u.Pos(ex.Pos()), "stream marked finished on every path before the POST", "Exchange can POST without first setting s.finished: a failed turn leaves the stream open")
		for _, p := range posts {
			j := guards(p.Instr)
			var miss []string
			for _, need := range []string{"!s.closed", "s.exchange", "!s.finished", `(s.token != "")`} {
				ok := false
				for _, g := range u.GuardStrings(p.Instr) {
					if g == need {
						ok = true
					}
				}
				if !ok {
					miss = append(miss, need)
				}
			}
			r.Check(len(miss) == 0, "R-CLEAR-BEFORE-POST", "Exchange|gate", u.Pos(p.Instr.Pos()), "POST only on an open exchange stream with a live cursor", "Exchange posts without guard(s) "+strings.Join(miss, ",")+" (has: "+j+")")
			// the body posted is this turn's continuation body
			r.Check(strings.Contains(u.Describe(p.Arg(3)), "continuationBody(s, false, input)#0"), "R-CLEAR-BEFORE-POST", "Exchange|body", u.Pos(p.Instr.Pos()), "posts continuationBody(false,input)", "Exchange posts "+u.Describe(p.Arg(3)))
			// the body (which embeds the cursor) is built before the cursor is cleared
			for _, cb := range u.Calls(ex, Is("(*HttpClientStream).continuationBody")) {
				_, after := ReachWithout(ex, nil, isInstr(cb.Instr), storeTo("token", isEmpty))
				r.Check(after, "R-CLEAR-BEFORE-POST", "Exchange|body-before-clear", u.Pos(cb.Instr.Pos()), "continuation body captured before the cursor is cleared", "continuationBody runs after the cursor was cleared: the turn is sent with an empty token")
			}
		}
		// re-arm stores
		rearmGuards := func(in ssa.Instruction) []string {
			var miss []string
			if !u.GuardedErrNil(in, Is("(*HttpClient).post")) {
				miss = append(miss, "post err==nil")
			}
			if !u.GuardedErrNil(in, Is("(*HttpClient).parseMain")) {
				miss = append(miss, "parseMain err==nil")
			}
			if !u.HasGuardContaining(in, "(len(", "parseMain(", ".batches) == 1)") {
				miss = append(miss, "len(batches)==1")
			}
			if !u.HasGuardContaining(in, "parseMain(", `#0.token != "")`) {
				miss = append(miss, `parsed.token!=""`)
			}
			return miss
		}
		n := 0
		Instrs(ex, func(in ssa.Instruction) {
			if storeTo("token", nil)(in) && !storeTo("token", isEmpty)(in) {
				n++
				st := in.(*ssa.Store)
				miss := rearmGuards(in)
				d := u.Describe(st.Val)
				okV := strings.Contains(d, "parseMain(") && strings.HasSuffix(d, "#0.token")
				r.Check(len(miss) == 0 && okV, "R-REARM-ONLY-ON-SUCCESS", "Exchange|token", u.Pos(in.Pos()), "cursor re-armed only from a fully parsed successful response", "s.token re-armed with "+d+" missing guards "+strings.Join(miss, ","))
			}
			if storeTo("finished", nil)(in) && !storeTo("finished", isTrue)(in) {
				miss := rearmGuards(in)
				r.Check(len(miss) == 0, "R-REARM-ONLY-ON-SUCCESS", "Exchange|finished", u.Pos(in.Pos()), "finished cleared only after a fully parsed successful response", "s.finished reopened missing guards "+strings.Join(miss, ","))
			}
			if ret, ok := in.(*ssa.Return); ok && !InRecoverBlock(in) {
				v := ReturnValue(ret, 0)
				if k, isC := v.(*ssa.Const); isC && k.Value == nil {
					return
				}
				miss := rearmGuards(in)
				d := u.Describe(v)
				okV := strings.Contains(d, "parseMain(") && strings.HasSuffix(d, "#0.batches[0]")
				r.Check(len(miss) == 0 && okV, "R-REARM-ONLY-ON-SUCCESS", "Exchange|result", u.Pos(in.Pos()), "returns batches[0] of the parsed response", "Exchange returns "+d+" missing guards "+strings.Join(miss, ","))
			}
		})
		r.Check(n == 1, "R-REARM-ONLY-ON-SUCCESS", "Exchange|single-rearm", u.Pos(ex.Pos()), "one re-arm site", itoa(n)+" re-arm stores to s.token")
		for _, pm := range u.Calls(ex, Is("(*HttpClient).parseMain")) {
			r.Check(strings.HasSuffix(u.Describe(pm.Arg(2)), "s.schemas.Output"), "R-SCHEMA-CHECK", "Exchange|declared", u.Pos(pm.Instr.Pos()), "response checked against the declared output schema", "Exchange parses the response against "+u.Describe(pm.Arg(2)))
		}
	}

	// ---------------------------------------------------------- Cancel
	if cf := c.Fn("R-CANCEL-TERMINAL", "(*HttpClientStream).Cancel"); cf != nil {
		_, open := ReachWithout(cf, nil, IsReturn, storeTo("finished", isTrue))
		r.Check(!open, "R-CANCEL-TERMINAL", "Cancel|finished", u.Pos(cf.Pos()), "every exit marks the stream finished", "Cancel can return without setting s.finished")
		for _, p := range u.Calls(cf, Is("(*HttpClient).post")) {
			_, open2 := ReachWithout(cf, p.Instr, IsReturn, storeTo("token", isEmpty))
			r.Check(!open2, "R-CANCEL-TERMINAL", "Cancel|token", u.Pos(p.Instr.Pos()), "cursor cleared after the cancel POST whatever its outcome", "Cancel can return after its POST with the cursor still set")
			var miss []string
			for _, need := range []string{"!s.closed", "!s.finished", `(s.token != "")`} {
				if !u.HasGuardContaining(p.Instr, need) {
					miss = append(miss, need)
				}
			}
			r.Check(len(miss) == 0, "R-CANCEL-TERMINAL", "Cancel|gate", u.Pos(p.Instr.Pos()), "cancel sent only for a live cursor", "Cancel posts without guard(s) "+strings.Join(miss, ","))
		}
		Instrs(cf, func(in ssa.Instruction) {
			if storeTo("token", nil)(in) && !storeTo("token", isEmpty)(in) {
				r.Viol("R-CANCEL-TERMINAL", "Cancel|rearm", u.Pos(in.Pos()), "Cancel stores a non-empty cursor")
			}
		})
	}

	// ---------------------------------------------------------- Next
	if nf := c.Fn("R-NEXT", "(*HttpClientStream).Next"); nf != nil {
		for _, p := range u.Calls(nf, Is("(*HttpClient).post")) {
			var miss []string
			for _, need := range []string{"!s.closed", "!s.exchange", "!s.finished", `(s.token != "")`} {
				if !u.HasGuardContaining(p.Instr, need) {
					miss = append(miss, need)
				}
			}
			r.Check(len(miss) == 0, "R-NEXT", "Next|gate", u.Pos(p.Instr.Pos()), "producer continuation sent only with a live cursor", "Next posts without guard(s) "+strings.Join(miss, ",")+" (has: "+guards(p.Instr)+")")
		}
		Instrs(nf, func(in ssa.Instruction) {
			if storeTo("token", nil)(in) {
				d := u.Describe(in.(*ssa.Store).Val)
				ok := strings.Contains(d, "parseMain(") && strings.HasSuffix(d, "#0.token") && u.GuardedErrNil(in, Is("(*HttpClient).parseMain")) && u.GuardedErrNil(in, Is("(*HttpClient).post"))
				r.Check(ok, "R-NEXT", "Next|token", u.Pos(in.Pos()), "cursor replaced by the parsed response's token (empty ends the stream)", "Next stores cursor "+d+" under "+guards(in))
			}
			if storeTo("pending", nil)(in) {
				d := u.Describe(in.(*ssa.Store).Val)
				if strings.Contains(d, "parseMain(") {
					ok := strings.HasSuffix(d, "#0.batches") && u.GuardedErrNil(in, Is("(*HttpClient).parseMain"))
					r.Check(ok, "R-NEXT", "Next|pending", u.Pos(in.Pos()), "pending = all batches of the parsed response", "Next stores pending "+d)
				}
			}
		})
		for _, pm := range u.Calls(nf, Is("(*HttpClient).parseMain")) {
			r.Check(strings.HasSuffix(u.Describe(pm.Arg(2)), "s.schemas.Output"), "R-SCHEMA-CHECK", "Next|declared", u.Pos(pm.Instr.Pos()), "response checked against the declared output schema", "Next parses the response against "+u.Describe(pm.Arg(2)))
		}
		// the head of pending is what is handed out, in order
		okHead := false
		Instrs(nf, func(in ssa.Instruction) {
			if ret, ok := in.(*ssa.Return); ok {
				if d := u.Describe(ReturnValue(ret, 0)); strings.HasSuffix(d, "s.pending[0]") {
					okHead = true
				}
			}
		})
		r.Check(okHead, "R-NEXT", "Next|fifo", u.Pos(nf.Pos()), "batches handed out from the head of pending", "Next does not return s.pending[0]")
	}

	// ---------------------------------------------------------- continuationBody
	if cb := c.Fn("R-CURSOR-SENT", "(*HttpClientStream).continuationBody"); cb != nil {
		strip := u.Calls(cb, Is("stripClientControlMetadata"))
		var tokUpd *ssa.MapUpdate
		Instrs(cb, func(in ssa.Instruction) {
			if mu, ok := in.(*ssa.MapUpdate); ok {
				if k, isC := ConstString(mu.Key); isC && k == "vgi_rpc.stream_state#b64" {
					tokUpd = mu
				}
			}
		})
		ok := tokUpd != nil && len(strip) == 1 && strings.HasSuffix(u.Describe(tokUpd.Value), "s.token") && Dominates(strip[0].Instr, tokUpd) && len(u.GuardStrings(tokUpd)) <= 1
		det := "no stream-state stamp"
		if tokUpd != nil {
			det = "stream-state stamped with " + u.Describe(tokUpd.Value) + " under " + guards(tokUpd)
		}
		r.Check(ok, "R-CURSOR-SENT", "continuationBody|token", u.Pos(cb.Pos()), "user metadata stripped of control keys, then the stream's current cursor stamped", det)
		if ok {
			r.Check(tokUpd.Map == strip[0].Arg(0), "R-CURSOR-SENT", "continuationBody|same-map", u.Pos(cb.Pos()), "same metadata map stripped and stamped", "strip and stamp act on different maps")
		}
	}
	if sf := u.DeclByName("stripClientControlMetadata"); sf != nil {
		keys := map[string]bool{}
		for _, k := range u.compositeStringElems(sf) {
			keys[k] = true
		}
		for _, need := range []string{"MetaStreamState", "MetaCallState", "MetaCancel", "MetaMethod", "MetaRequestID", "MetaLocation", "MetaShmOffset", "MetaShmLength"} {
			r.Check(keys[need], "R-CURSOR-SENT", "strip|"+need, u.Pos(sf.Pos()), "caller-supplied "+need+" removed from continuation metadata", need+" is not stripped from caller metadata: a caller batch can smuggle a stale control key")
		}
	}

	// ---------------------------------------------------------- parseIPCStream
	if pf := c.Fn("R-SCHEMA-CHECK", "(*HttpClient).parseIPCStream"); pf != nil {
		eq := u.Calls(pf, Is("clientSchemasEqual"))
		if len(eq) != 1 {
			r.Undec("R-SCHEMA-CHECK", "parseIPCStream|compare", u.Pos(pf.Pos()), "expected one clientSchemasEqual call, found "+itoa(len(eq)))
		} else {
			e := eq[0]
			gs := u.GuardStrings(e.Instr)
			okG := true
			for _, g := range gs {
				if g != "(expected != nil)" && !(strings.Contains(g, "ipc.NewReader(") && strings.HasSuffix(g, "#1 == nil)")) {
					okG = false
				}
			}
			okA := strings.Contains(u.Describe(e.Arg(0)), "ipc.Reader).Schema(") && e.Arg(1) == ssa.Value(pf.Params[2])
			r.Check(okG && okA, "R-SCHEMA-CHECK", "parseIPCStream|compare", u.Pos(e.Instr.Pos()), "reader.Schema() compared with the declaration whenever one is given", "schema comparison is "+u.Describe(e.Value())+" under "+strings.Join(gs, " && "))
			// mismatch edge returns an error
			okM := false
			for _, ref := range *e.Value().Referrers() {
				var ifi *ssa.If
				neg := false
				switch x := ref.(type) {
				case *ssa.If:
					ifi = x
				case *ssa.UnOp:
					if x.Op == token.NOT {
						for _, r2 := range *x.Referrers() {
							if i2, ok := r2.(*ssa.If); ok {
								ifi, neg = i2, true
							}
						}
					}
				}
				if ifi == nil {
					continue
				}
				bad := ifi.Block().Succs[1]
				if neg {
					bad = ifi.Block().Succs[0]
				}
				if BlockEndsInReturn(bad) {
					for b := bad; b != nil; {
						last := b.Instrs[len(b.Instrs)-1]
						if ret, ok := last.(*ssa.Return); ok {
							okM = DefinitelyNonNilValue(ReturnValue(ret, 1))
							break
						}
						b = b.Succs[0]
					}
				} else if len(bad.Preds) == 1 {
					// the mismatch branch may examine the stream before refusing (an exception
					// envelope takes precedence): it is a closed region of blocks dominated by
					// the edge, every return of which carries a non-nil error
					closed, rets := true, 0
					for _, b := range pf.Blocks {
						if !bad.Dominates(b) {
							continue
						}
						for _, s := range b.Succs {
							if !bad.Dominates(s) {
								closed = false
							}
						}
						if ret, ok := b.Instrs[len(b.Instrs)-1].(*ssa.Return); ok {
							rets++
							ev := ReturnValue(ret, 1)
							if !DefinitelyNonNilValue(ev) && !u.HasGuardContaining(ret, "("+u.Describe(ev)+" != nil)") {
								closed = false
							}
						}
					}
					okM = closed && rets > 0
				}
			}
			r.Check(okM, "R-SCHEMA-CHECK", "parseIPCStream|mismatch-rejected", u.Pos(e.Instr.Pos()), "schema mismatch returns an error", "the schema-mismatch edge does not return a non-nil error")
			// batches are collected only after the comparison point
			for _, ap := range appendsTo(u, pf, "batches") {
				_, skip := ReachWithout(pf, nil, isInstr(ap), func(in ssa.Instruction) bool {
					if in == e.Instr {
						return true
					}
					// the `expected == nil` edge is the only other way past
					if ifi, ok := in.(*ssa.If); ok && u.Describe(ifi.Cond) == "(expected != nil)" {
						return true
					}
					return false
				})
				r.Check(!skip, "R-SCHEMA-CHECK", "parseIPCStream|before-collect", u.Pos(ap.Pos()), "no batch collected before the schema decision", "batches can be collected on a path that bypasses the schema decision")
			}
		}
		// R-EXCEPTION
		re := u.Calls(pf, Is("rpcErrorFromMetadata"))
		okE := false
		for _, e := range re {
			g := guards(e.Instr)
			if strings.Contains(g, `["vgi_rpc.log_level"] == "EXCEPTION")`) && strings.Contains(g, "NumRows(") && strings.Contains(g, "== 0)") {
				Instrs(pf, func(in ssa.Instruction) {
					if ret, ok := in.(*ssa.Return); ok && rootCall(ReturnValue(ret, 1)) == e.Value().(*ssa.Call) {
						okE = true
					}
				})
			}
		}
		r.Check(okE, "R-EXCEPTION", "parseIPCStream", u.Pos(pf.Pos()), "zero-row EXCEPTION batch returned as rpcErrorFromMetadata", "no return of rpcErrorFromMetadata under level==EXCEPTION ∧ NumRows==0")
		// exception check is not behind the onLog / tokenIsData switches and precedes any skip
		for _, e := range re {
			for _, g := range u.GuardStrings(e.Instr) {
				if strings.Contains(g, "onLog") || strings.Contains(g, "tokenIsData") {
					r.Viol("R-EXCEPTION", "parseIPCStream|unconditional", u.Pos(e.Instr.Pos()), "exception surfacing depends on "+g)
				}
			}
		}
		// R-NO-DROP
		recs := u.Calls(pf, HasSuffix("ipc.Reader).RecordBatch"))
		if len(recs) == 1 {
			rec := recs[0]
			isRelease := func(in ssa.Instruction) bool {
				ci, ok := in.(*ssa.Call)
				return ok && strings.HasSuffix(u.CalleeName(&ci.Call), "arrow.RecordBatch.Release") && len(ci.Call.Args) == 0 && ci.Call.Value == rec.Value()
			}
			aps := appendsTo(u, pf, "batches")
			isAppend := func(in ssa.Instruction) bool {
				for _, a := range aps {
					if a == in {
						return true
					}
				}
				return false
			}
			nexts := u.Calls(pf, HasSuffix("ipc.Reader).Next"))
			if len(nexts) == 1 {
				_, drop := ReachWithout(pf, rec.Instr, isInstr(nexts[0].Instr), func(in ssa.Instruction) bool { return isAppend(in) || isRelease(in) })
				r.Check(!drop, "R-NO-DROP", "parseIPCStream|append-or-release", u.Pos(rec.Instr.Pos()), "each record is appended or explicitly released before the next is read", "a record can be neither appended nor released (silently dropped) before the next read")
			}
			r.Check(len(aps) == 1, "R-NO-DROP", "parseIPCStream|one-append", u.Pos(pf.Pos()), "one collection site", itoa(len(aps))+" appends to parsed.batches")
			for _, ap := range aps {
				// the appended ClientBatch carries this iteration's record and metadata
				okB, okMd := false, false
				var mdVal ssa.Value
				Instrs(pf, func(in ssa.Instruction) {
					st, ok := in.(*ssa.Store)
					if !ok || st.Block() != ap.Block() {
						return
					}
					if fa, ok := st.Addr.(*ssa.FieldAddr); ok {
						switch fieldKey(fa.X.Type(), fa.Field) {
						case "ClientBatch.Batch":
							okB = st.Val == rec.Value()
						case "ClientBatch.Metadata":
							mdVal = st.Val
							okMd = strings.HasPrefix(u.Describe(st.Val), "recordMetadata(") && strings.Contains(u.Describe(st.Val), "RecordBatch(")
						}
					}
				})
				r.Check(okB && okMd, "R-NO-DROP", "parseIPCStream|appended-value", u.Pos(ap.Pos()), "appended entry = this iteration's record + its metadata map", "the collected entry does not pair this iteration's record with its metadata")
				// R-TOKENS-STRIPPED
				for _, tk := range []struct{ field, key string }{{"token", "vgi_rpc.stream_state#b64"}, {"callToken", "vgi_rpc.call_state#b64"}} {
					n := 0
					Instrs(pf, func(in ssa.Instruction) {
						st, ok := in.(*ssa.Store)
						if !ok {
							return
						}
						fa, ok := st.Addr.(*ssa.FieldAddr)
						if !ok || fieldKey(fa.X.Type(), fa.Field) != "parsedClientStream."+tk.field {
							return
						}
						n++
						okV := strings.HasSuffix(u.Describe(st.Val), `["`+tk.key+`"]`)
						okD := false
						for _, in2 := range st.Block().Instrs {
							if ci, isC := in2.(*ssa.Call); isC {
								if b, isB := ci.Call.Value.(*ssa.Builtin); isB && b.Name() == "delete" {
									if k, isK := ConstString(ci.Call.Args[1]); isK && k == tk.key && ci.Call.Args[0] == mdVal {
										okD = true
									}
								}
							}
						}
						okG := !strings.Contains(guards(in), "tokenIsData") && !strings.Contains(guards(in), "NumRows")
						r.Check(okV && okD && okG, "R-TOKENS-STRIPPED", "parseIPCStream|"+tk.field, u.Pos(in.Pos()), tk.key+" captured and deleted from the returned metadata map", tk.key+": captured="+boolStr(okV)+" deleted-from-returned-map="+boolStr(okD)+" unconditional="+boolStr(okG))
					})
					if n == 0 {
						r.Viol("R-TOKENS-STRIPPED", "parseIPCStream|"+tk.field, u.Pos(pf.Pos()), "parsed."+tk.field+" is never captured")
					}
				}
			}
			// each release of the record is under a declared skip/refusal condition
			Instrs(pf, func(in ssa.Instruction) {
				if !isRelease(in) {
					return
				}
				g := guards(in)
				logSkip := strings.Contains(g, `["vgi_rpc.log_level"] != "")`) && strings.Contains(g, "NumRows(") && strings.Contains(g, "== 0)")
				tokSkip := strings.Contains(g, "!tokenIsData") && strings.Contains(g, `["vgi_rpc.stream_state#b64"] != "")`) && strings.Contains(g, "== 0)")
				locRefuse := strings.Contains(g, `["vgi_rpc.location"] != "")`)
				kind := ""
				switch {
				case logSkip:
					kind = "log"
				case tokSkip:
					kind = "token-only"
				case locRefuse:
					kind = "location-refused"
				}
				ok := kind != ""
				if kind == "location-refused" {
					// must lead to an error return, not a silent skip
					_, cont := ReachWithout(pf, in, u.CallMatcher(HasSuffix("ipc.Reader).Next"), false), nil)
					ok = !cont
				}
				r.Check(ok, "R-NO-DROP", "parseIPCStream|release@"+kindOr(kind, "b"+itoa(in.Block().Index)), u.Pos(in.Pos()), "record released as "+kind, "a record is discarded under: "+g)
			})
		} else {
			r.Undec("R-NO-DROP", "parseIPCStream", u.Pos(pf.Pos()), "RecordBatch() call not unique")
		}
		// R-READER-ERR
		Instrs(pf, func(in ssa.Instruction) {
			ret, ok := in.(*ssa.Return)
			if !ok || InRecoverBlock(in) {
				return
			}
			if k, isC := ReturnValue(ret, 1).(*ssa.Const); isC && k.Value == nil {
				g := guards(in)
				okR := strings.Contains(g, "ipc.Reader).Err(") && strings.Contains(g, "== nil)") && strings.Contains(g, "!(*github.com/apache/arrow-go/v18/arrow/ipc.Reader).Next(")
				r.Check(okR, "R-READER-ERR", "parseIPCStream|success", u.Pos(in.Pos()), "success only after the reader is exhausted without error", "parseIPCStream succeeds under: "+g)
			}
		})
	}

	// ---------------------------------------------------------- parseMain / openStream / CallUnary
	if pm := c.Fn("R-TRAILING", "(*HttpClient).parseMain"); pm != nil {
		ps := u.Calls(pm, Is("(*HttpClient).parseIPCStream"))
		Instrs(pm, func(in ssa.Instruction) {
			ret, ok := in.(*ssa.Return)
			if !ok {
				return
			}
			if k, isC := ReturnValue(ret, 1).(*ssa.Const); isC && k.Value == nil {
				g := guards(in)
				var miss []string
				if !u.GuardedErrNil(in, Is("(*HttpClient).parseIPCStream")) {
					miss = append(miss, "parse err==nil")
				}
				if !strings.Contains(g, "bytes.Reader).Len(") || !strings.Contains(g, "== 0)") {
					miss = append(miss, "raw.Len()==0")
				}
				if !strings.Contains(g, "!response.rpcError") {
					miss = append(miss, "!rpcError")
				}
				r.Check(len(miss) == 0, "R-TRAILING", "parseMain|success", u.Pos(in.Pos()), "success needs a complete parse, no trailing bytes and no undelivered RPC-error flag", "parseMain succeeds without "+strings.Join(miss, ",")+" (under "+g+")")
			}
		})
		if len(ps) == 1 {
			okA := strings.HasPrefix(u.Describe(ps[0].Arg(1)), "bytes.NewReader(") && strings.Contains(u.Describe(ps[0].Arg(1)), "response.body") && ps[0].Arg(2) == ssa.Value(pm.Params[2]) && ps[0].Arg(3) == ssa.Value(pm.Params[3])
			r.Check(okA, "R-TRAILING", "parseMain|args", u.Pos(ps[0].Instr.Pos()), "parses response.body against the caller's declaration", "parseMain forwards "+u.Describe(ps[0].Value()))
		} else {
			r.Undec("R-TRAILING", "parseMain|args", u.Pos(pm.Pos()), "parseIPCStream call not unique")
		}
	}
	if os := c.Fn("R-TRAILING", "(*HttpClient).openStream"); os != nil {
		Instrs(os, func(in ssa.Instruction) {
			ret, ok := in.(*ssa.Return)
			if !ok || InRecoverBlock(in) {
				return
			}
			if k, isC := ReturnValue(ret, 1).(*ssa.Const); !isC || k.Value != nil {
				return
			}
			g := guards(in)
			var miss []string
			for _, need := range []string{"bytes.Reader).Len(", "(schemas.Output != nil)", "!response.rpcError", "(response.status >= 200)", "(response.status < 300)"} {
				if !strings.Contains(g, need) {
					miss = append(miss, need)
				}
			}
			if !u.GuardedErrNil(in, Is("(*HttpClient).post")) || !u.GuardedErrNil(in, Is("(*HttpClient).parseIPCStream")) {
				miss = append(miss, "post/parse err==nil")
			}
			r.Check(len(miss) == 0, "R-TRAILING", "openStream|success", u.Pos(in.Pos()), "stream opened only from a complete, 2xx, flag-free init response", "openStream succeeds without "+strings.Join(miss, ",")+" (under "+g+")")
		})
		// exchange init must carry both tokens and no data
		for _, st := range u.StoresToField(os, "HttpClientStream", "token") {
			d := u.Describe(st.Val)
			r.Check(strings.HasSuffix(d, "#0.token") && strings.Contains(d, "parseIPCStream("), "R-TRAILING", "openStream|cursor", u.Pos(st.Pos()), "initial cursor = token parsed from the init response", "initial cursor is "+d)
		}
		for _, ps := range u.Calls(os, Is("(*HttpClient).parseIPCStream")) {
			d := u.Describe(ps.Arg(2))
			r.Check(d == "schemas.Output" || d == "schemas.Header" || strings.HasSuffix(d, "schemas.Output") || strings.HasSuffix(d, "schemas.Header"), "R-SCHEMA-CHECK", "openStream|declared|"+d, u.Pos(ps.Instr.Pos()), "init response checked against the declared schema", "openStream parses against "+d)
		}
	}
	if cu := c.Fn("R-TRAILING", "(*HttpClient).CallUnary"); cu != nil {
		Instrs(cu, func(in ssa.Instruction) {
			ret, ok := in.(*ssa.Return)
			if !ok || InRecoverBlock(in) {
				return
			}
			v := ReturnValue(ret, 0)
			if k, isC := v.(*ssa.Const); isC && k.Value == nil {
				return
			}
			d := u.Describe(v)
			ok2 := u.GuardedErrNil(in, Is("(*HttpClient).post")) && u.GuardedErrNil(in, Is("(*HttpClient).parseMain")) && u.HasGuardContaining(in, "(len(", ".batches) == 1)") && strings.HasSuffix(d, "#0.batches[0]")
			r.Check(ok2, "R-TRAILING", "CallUnary|result", u.Pos(in.Pos()), "unary result = the single batch of a fully parsed response", "CallUnary returns "+d+" under "+guards(in))
		})
		for _, pm := range u.Calls(cu, Is("(*HttpClient).parseMain")) {
			r.Check(pm.Arg(2) == ssa.Value(cu.Params[4]), "R-SCHEMA-CHECK", "CallUnary|declared", u.Pos(pm.Instr.Pos()), "response checked against the caller's expected schema", "CallUnary parses against "+u.Describe(pm.Arg(2)))
		}
	}

	// ---------------------------------------------------------- post
	if pf := c.Fn("R-POST", "(*HttpClient).post"); pf != nil {
		ra := u.Calls(pf, Is("io.ReadAll"))
		okR := len(ra) == 1
		if okR {
			d := u.Describe(ra[0].Arg(0))
			okR = strings.HasPrefix(d, "io.LimitReader(") && strings.Contains(d, ".Body") && strings.Contains(d, "(c.maxEncoded + 1)")
			r.Check(okR, "R-POST", "post|bounded-read", u.Pos(ra[0].Instr.Pos()), "body read through io.LimitReader(resp.Body, maxEncoded+1)", "response body read from "+d)
		} else {
			r.Viol("R-POST", "post|bounded-read", u.Pos(pf.Pos()), itoa(len(ra))+" io.ReadAll calls in post")
		}
		vc := u.Calls(pf, Is("validateClientContentEncoding"))
		for _, dc := range u.Calls(pf, Is("DecodeContentEncoding")) {
			ok := len(vc) == 1 && u.GuardedErrNil(dc.Instr, Is("validateClientContentEncoding"))
			r.Check(ok, "R-POST", "post|encoding-validated", u.Pos(dc.Instr.Pos()), "decode only after the encoding list validated", "DecodeContentEncoding runs without validateClientContentEncoding()==nil")
			r.Check(strings.HasSuffix(u.Describe(dc.Arg(2)), "c.maxDecoded"), "R-POST", "post|decode-cap", u.Pos(dc.Instr.Pos()), "decoder bounded by maxDecoded", "decoder limit is "+u.Describe(dc.Arg(2)))
			if len(vc) == 1 {
				r.Check(vc[0].Arg(0) == dc.Arg(1), "R-POST", "post|same-encoding", u.Pos(dc.Instr.Pos()), "the validated header value is the one decoded with", "validated and decoded encodings differ")
			}
		}
		if len(vc) != 1 {
			r.Viol("R-POST", "post|encoding-validated", u.Pos(pf.Pos()), itoa(len(vc))+" validateClientContentEncoding calls")
		}
		nOK := 0
		Instrs(pf, func(in ssa.Instruction) {
			ret, ok := in.(*ssa.Return)
			if !ok || InRecoverBlock(in) {
				return
			}
			if k, isC := ReturnValue(ret, 1).(*ssa.Const); isC && k.Value == nil {
				nOK++
				g := guards(in)
				var miss []string
				for _, need := range []string{".StatusCode >= 200)", ".StatusCode < 300)", "<= c.maxEncoded)", "<= c.maxDecoded)", "!(*sync/atomic.Bool).Load(", "<= c.maxRequest)"} {
					if !strings.Contains(g, need) {
						miss = append(miss, need)
					}
				}
				if !u.GuardedErrNil(in, Is("io.ReadAll")) || !u.GuardedErrNil(in, Is("validateClientContentEncoding")) || !u.GuardedErrNil(in, HasSuffix("http.Client).Do")) {
					miss = append(miss, "Do/ReadAll/validate err==nil")
				}
				r.Check(len(miss) == 0, "R-POST", "post|success", u.Pos(in.Pos()), "success only for a 2xx response within both caps", "post succeeds without "+strings.Join(miss, ",")+" (under "+g+")")
			} else if strings.Contains(g0(u, in), ".StatusCode") && (strings.Contains(g0(u, in), "StatusCode < 200)") || strings.Contains(g0(u, in), "StatusCode >= 300)")) {
				t := typeShort(ReturnValue(ret, 1).Type())
				d := u.Describe(ReturnValue(ret, 1))
				_ = t
				okT := false
				if mi, isMI := ReturnValue(ret, 1).(*ssa.MakeInterface); isMI {
					okT = strings.HasSuffix(typeShort(mi.X.Type()), "HTTPStatusError")
				}
				r.Check(okT, "R-POST", "post|status-error", u.Pos(in.Pos()), "non-2xx returns *HTTPStatusError", "non-2xx status returns "+d)
			}
		})
		r.Check(nOK == 1, "R-POST", "post|single-success", u.Pos(pf.Pos()), "one success exit", itoa(nOK)+" success exits")
	}
	// validateClientContentEncoding decision table
	if vd := u.DeclByName("validateClientContentEncoding"); vd != nil {
		sws := u.Switches(vd)
		ok := false
		det := "no switch"
		for _, sw := range sws {
			cases := append([]string{}, sw.Cases...)
			sort.Strings(cases)
			det = strings.Join(cases, "|") + " default=" + boolStr(sw.Default)
			if strings.Join(cases, "|") == "gzip|identity|zstd" && sw.Default {
				ok = true
			}
		}
		r.Check(ok, "R-POST", "validateClientContentEncoding|table", u.Pos(vd.Pos()), "accepts exactly zstd|gzip|identity", "accepted encodings: "+det)
		if vf := u.Func("validateClientContentEncoding"); vf != nil {
			// every return in the default arm is an error; nil only after the loop or for an empty header
			Instrs(vf, func(in ssa.Instruction) {
				if ret, isR := in.(*ssa.Return); isR {
					if k, isC := ReturnValue(ret, 0).(*ssa.Const); isC && k.Value == nil {
						g := guards(in)
						okN := strings.Contains(g, `== "")`) || !strings.Contains(g, "switch")
						r.Check(okN, "R-POST", "validateClientContentEncoding|nil@b"+itoa(in.Block().Index), u.Pos(in.Pos()), "nil only for empty header or after every element matched", "returns nil under "+g)
					}
				}
			})
		}
	}
	r.Floor("R-CLEAR-BEFORE-POST", 5)
	r.Floor("R-REARM-ONLY-ON-SUCCESS", 4)
	r.Floor("R-CANCEL-TERMINAL", 3)
	r.Floor("R-NEXT", 4)
	r.Floor("R-SCHEMA-CHECK", 7)
	r.Floor("R-NO-DROP", 6)
	r.Floor("R-TOKENS-STRIPPED", 2)
	r.Floor("R-POST", 8)
	r.Floor("R-TRAILING", 5)
}

func g0(u *Unit, in ssa.Instruction) string { return strings.Join(u.GuardStrings(in), " && ") }

func kindOr(k, alt string) string {
	if k != "" {
		return k
	}
	return alt
}

// appendsTo lists the append() calls in fn whose first argument is a load of
// the struct field named field.
func appendsTo(u *Unit, fn *ssa.Function, field string) []ssa.Instruction {
	var out []ssa.Instruction
	Instrs(fn, func(in ssa.Instruction) {
		ci, ok := in.(*ssa.Call)
		if !ok {
			return
		}
		if b, isB := ci.Call.Value.(*ssa.Builtin); isB && b.Name() == "append" {
			if strings.HasSuffix(u.Describe(ci.Call.Args[0]), "."+field) {
				out = append(out, in)
			}
		}
	})
	return out
}

// DefinitelyNonNilValue: v is the address of a fresh composite (possibly boxed
// in an interface).
func DefinitelyNonNilValue(v ssa.Value) bool {
	if mi, ok := v.(*ssa.MakeInterface); ok {
		v = mi.X
	}
	_, ok := v.(*ssa.Alloc)
	return ok
}

// compositeStringElems lists the identifier / constant elements of every
// []string composite literal in decl.
func (u *Unit) compositeStringElems(decl *ast.FuncDecl) []string {
	var out []string
	ast.Inspect(decl, func(n ast.Node) bool {
		if cl, ok := n.(*ast.CompositeLit); ok {
			for _, e := range cl.Elts {
				out = append(out, types.ExprString(e))
			}
		}
		return true
	})
	return out
}
