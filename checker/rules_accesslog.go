package main

import (
	"go/token"
	"go/types"
	"sort"
	"strings"

	"golang.org/x/tools/go/ssa"
)

func init() {
	register(&PropInfo{
		ID:    "C38",
		Title: "Access-log records are schema-valid and describe the call",
		Explanation: "R-REQUIRED-KEYS: the record built by AccessLogHook.OnDispatchEnd sets the spec's 16 required keys unconditionally. R-STREAM-ID: stream_id is written on every record whose method_type is stream; every DispatchInfo.StreamID assigned on a transport comes from RandomStreamID() at init or from the resolved call token on continuations, and the init's id is the one sealed into the call token. " +
			"R-TRACE-PAIR: trace_id and span_id are written together, under one guard; currentTraceContext yields non-empty ids only when both are lower-hex of length 32/16, and the provider call is recover-covered. R-CLAIMS: record[\"claims\"] is the result of applyClaimRedaction, which fails closed (recover ⇒ nil). " +
			"R-EGRESS-ORDER: in ServeHTTP the recorder's flush is deferred before the compressing writer's finish (so it runs after it) and the compressing writer wraps the counting writer. R-PAYLOAD-MARKER: request_data is written only in debug mode and the truncated/original_request_bytes pair only otherwise, both only when a payload exists. R-BYTES: request_bytes/response_bytes come from the recorder's counters, which count what the wrapped writer wrote.",
		NotCovered:  []string{"JSON validity and value types beyond the key set", "byte counts equal to the wire (net/http internals, chunking)", "user-supplied redactors' choices"},
		Assumptions: []string{"deferred calls run in LIFO order"},
		Run:         runC38,
	})
	register(&PropInfo{
		ID:    "C39",
		Title: "Access-log sampling and async emission lose nothing silently",
		Explanation: "R-SAMPLER-PURE: accessLogSampler.keep depends only on rate, threshold, record[\"status\"] and the FNV hash of key(record); key reads stream_id then request_id and falls back to the counter only when both are absent; no clock or randomness. R-ERROR-KEPT: the error test precedes hashing. R-RATE-STAMP: the sampled `true` return is dominated by the sample_rate store. " +
			"R-NONBLOCK: the only channel send in enqueue is a non-blocking select case; close() waits for the worker without holding the mutex. R-NO-SEND-AFTER-CLOSE: the send is under a.mu and !a.closed, and close(a.ch) happens under a.mu after closed = true. R-ACCOUNT: on the sent edge dropped is reset to 0, on the default edge it is incremented and the stamped counter removed; dropped_records is stamped only when dropped > 0.",
		NotCovered:  []string{"end-to-end drop accounting across schedules", "a trailing run of drops with no later record (exempted by the statement)"},
		Assumptions: []string{},
		Run:         runC39,
	})
}

func mapUpdatesWithKey(u *Unit, fn *ssa.Function) map[string][]*ssa.MapUpdate {
	out := map[string][]*ssa.MapUpdate{}
	Instrs(fn, func(in ssa.Instruction) {
		if mu, ok := in.(*ssa.MapUpdate); ok {
			if k, ok := ConstString(mu.Key); ok {
				out[k] = append(out[k], mu)
			}
		}
	})
	return out
}

func runC38(c *Ctx) {
	u, r := c.U, c.R
	seedfixC38(c)
	fn := c.Fn("R-REQUIRED-KEYS", "(*AccessLogHook).OnDispatchEnd")
	if fn == nil {
		return
	}
	mus := mapUpdatesWithKey(u, fn)
	required := []string{"timestamp", "level", "logger", "message", "server_id", "protocol", "protocol_hash", "method", "method_type", "principal", "auth_domain", "authenticated", "remote_addr", "duration_ms", "status", "error_type"}
	for _, k := range required {
		ok := false
		for _, mu := range mus[k] {
			if len(u.GuardStrings(mu)) == 0 || onlyGuardsAbout(u.GuardStrings(mu), "err") {
				ok = true
			}
		}
		r.Check(ok, "R-REQUIRED-KEYS", "key "+k, u.Pos(fn.Pos()), "set unconditionally", "required access-log field "+k+" is not set on every record")
	}
	// stream_id
	if sm := mus["stream_id"]; len(sm) == 1 {
		gs := u.GuardStrings(sm[0])
		r.Check(len(gs) == 1 && strings.HasSuffix(gs[0], `info.MethodType == "stream")`), "R-STREAM-ID", "emit|stream_id", u.Pos(sm[0].Pos()), "stream_id written exactly for stream records", "stream_id written under {"+strings.Join(gs, " && ")+"} instead of exactly method_type == stream")
		os := u.Origins(sm[0].Value, &OriginOpts{MaxNodes: 50})
		okO := true
		for _, o := range os {
			if !(o.Kind == "field" && (o.Desc == "DispatchInfo.StreamID" || o.Desc == "callTokenData.StreamID" || o.Desc == "resolvedCall.StreamID") || o.Kind == "call" && o.Desc == "RandomStreamID" || o.Kind == "param" || o.Kind == "alloc" || o.Kind == "const") {
				okO = false
			}
		}
		r.Check(okO, "R-STREAM-ID", "emit|value", u.Pos(sm[0].Pos()), "value is info.StreamID (minted only when absent)", "stream_id value origins: "+OriginSummary(os))
	} else {
		r.Viol("R-STREAM-ID", "emit|stream_id", u.Pos(fn.Pos()), "expected one stream_id write, found "+itoa(len(sm)))
	}
	for _, name := range []string{"(*Server).serveOne", "(*HttpServer).handleStreamInit", "(*HttpServer).handleStreamExchange"} {
		f := c.Fn("R-STREAM-ID", name)
		if f == nil {
			continue
		}
		for _, s := range u.StoresToField(f, "DispatchInfo", "StreamID") {
			os := u.Origins(s.Val, &OriginOpts{MaxNodes: 200})
			var bad []string
			src := map[string]bool{}
			for _, o := range os {
				switch {
				case o.Kind == "call" && o.Desc == "RandomStreamID":
					src["mint"] = true
				case o.Kind == "field" && (o.Desc == "resolvedCall.StreamID" || o.Desc == "callTokenData.StreamID"):
					src["token"] = true
				case o.Kind == "const" || o.Kind == "alloc" || o.Kind == "param":
				case o.Kind == "call" && (strings.HasPrefix(o.Desc, "(*HttpServer).resolveCall") || strings.HasPrefix(o.Desc, "(*callStateCache).get") || strings.HasPrefix(o.Desc, "(*HttpServer).openToken")):
				default:
					bad = append(bad, o.Kind+":"+o.Desc)
				}
			}
			want := "mint"
			if name == "(*HttpServer).handleStreamExchange" {
				want = "token"
			}
			r.Check(len(bad) == 0 && src[want], "R-STREAM-ID", name+"|DispatchInfo.StreamID", u.Pos(s.Pos()), "stream id from "+want, "DispatchInfo.StreamID in "+name+" does not come from "+want+": {"+OriginSummary(os)+"}")
		}
	}
	if hi := u.Func("(*HttpServer).handleStreamInit"); hi != nil {
		sts := u.StoresToField(hi, "DispatchInfo", "StreamID")
		for _, pc := range u.Calls(hi, Is("(*HttpServer).packCallToken")) {
			ok := len(sts) == 1 && pc.Arg(4) == sts[0].Val
			r.Check(ok, "R-STREAM-ID", "handleStreamInit|sealed-id", u.Pos(pc.Instr.Pos()), "the id logged at init is the id sealed into the call token", "the stream id sealed into the call token is not the one reported on the init record: continuations log a different stream_id")
		}
	}
	// R-TRACE-PAIR
	t, s := mus["trace_id"], mus["span_id"]
	if len(t) == 1 && len(s) == 1 {
		same := t[0].Block() == s[0].Block()
		r.Check(same && u.HasGuardContaining(t[0], "currentTraceContext(ctx)#0", `!= ""`), "R-TRACE-PAIR", "emit|both-or-neither", u.Pos(t[0].Pos()), "trace_id and span_id are written together under one guard", "trace_id and span_id are not written in the same guarded block")
	} else {
		r.Viol("R-TRACE-PAIR", "emit", u.Pos(fn.Pos()), "trace/span writes not unique")
	}
	if tf := c.Fn("R-TRACE-PAIR", "currentTraceContext"); tf != nil {
		Instrs(tf, func(in ssa.Instruction) {
			ret, ok := in.(*ssa.Return)
			if !ok || InRecoverBlock(in) {
				return
			}
			v0 := ReturnValue(ret, 0)
			if s, isC := ConstString(v0); isC && s == "" {
				return
			}
			j := strings.Join(u.GuardStrings(in), " && ")
			okG := strings.Contains(j, "isLowerHex(") && strings.Contains(j, ", 32)") && strings.Contains(j, ", 16)") && !strings.Contains(j, "!isLowerHex(") || strings.Count(j, "isLowerHex(") >= 2 && !strings.Contains(j, "!isLowerHex")
			r.Check(okG, "R-TRACE-PAIR", "currentTraceContext|valid-return", u.Pos(in.Pos()), "ids returned only when both are well-formed", "currentTraceContext returns ids under: "+j)
		})
		for _, cs := range u.Calls(tf, func(s string) bool { return strings.HasPrefix(s, "dyn:") }) {
			r.Check(u.CoveredByRecover(cs.Instr), "R-TRACE-PAIR", "currentTraceContext|provider-recover", u.Pos(cs.Instr.Pos()), "provider call is recover-covered", "the trace provider is called without recover")
		}
	}
	// R-CLAIMS
	if cm := mus["claims"]; len(cm) == 1 {
		d := u.Describe(cm[0].Value)
		r.Check(strings.HasPrefix(d, "applyClaimRedaction("), "R-CLAIMS", "emit|claims", u.Pos(cm[0].Pos()), "claims go through the redactor", "record[\"claims\"] = "+d+" (unredacted)")
	} else {
		r.Viol("R-CLAIMS", "emit|claims", u.Pos(fn.Pos()), "claims write not unique")
	}
	if af := c.Fn("R-CLAIMS", "applyClaimRedaction"); af != nil {
		ds := u.RecoverDefers(af)
		closed := false
		if len(ds) == 1 {
			if mc, ok := ds[0].Call.Value.(*ssa.MakeClosure); ok {
				Instrs(mc.Fn.(*ssa.Function), func(in ssa.Instruction) {
					if st, ok := in.(*ssa.Store); ok {
						if cst, isC := st.Val.(*ssa.Const); isC && cst.Value == nil {
							closed = true
						}
					}
				})
			}
		}
		r.Check(closed, "R-CLAIMS", "applyClaimRedaction|fail-closed", u.Pos(af.Pos()), "a panicking redactor drops the claims", "a panicking redactor does not drop the claims")
		// default redactor used when none is set
		r.Check(len(u.Calls(af, Is("RedactClaims"))) == 1, "R-CLAIMS", "applyClaimRedaction|default", u.Pos(af.Pos()), "default is RedactClaims", "no default redaction")
	}
	// R-EGRESS-ORDER
	if sh := c.Fn("R-EGRESS-ORDER", "(*HttpServer).ServeHTTP"); sh != nil {
		var dFlush, dFinish *ssa.Defer
		Instrs(sh, func(in ssa.Instruction) {
			if d, ok := in.(*ssa.Defer); ok {
				switch u.CalleeName(&d.Call) {
				case "(*egressRecorder).flush":
					dFlush = d
				case "(*compressResponseWriter).finish":
					dFinish = d
				}
			}
		})
		orderOK := false
		if dFlush != nil && dFinish != nil {
			_, finishFirst := ReachWithout(sh, dFinish, isInstr(dFlush), nil)
			orderOK = !finishFirst && reachable(sh, dFlush, dFinish)
		}
		r.Check(orderOK, "R-EGRESS-ORDER", "ServeHTTP|defer-order", u.Pos(sh.Pos()), "flush registered before finish ⇒ runs after compression", "the recorder's flush is not deferred before the compressing writer's finish: the record is emitted before the compressed bytes are counted")
		for _, st := range u.StoresToField(sh, "compressResponseWriter", "ResponseWriter") {
			os := u.Origins(st.Val, &OriginOpts{MaxNodes: 50})
			wraps := false
			for _, o := range os {
				if o.Kind == "alloc" && strings.Contains(o.Desc, "countingResponseWriter") {
					wraps = true
				}
			}
			r.Check(wraps, "R-EGRESS-ORDER", "ServeHTTP|wrap-order", u.Pos(st.Pos()), "compressing writer writes into the counting writer", "the compressing writer does not wrap the counting writer: response_bytes counts pre-compression bytes")
		}
		for _, st := range u.StoresToField(sh, "egressRecorder", "requestBytes") {
			r.Check(strings.HasSuffix(u.Describe(st.Val), ".ContentLength") && u.HasGuardContaining(st, ".ContentLength > 0"), "R-BYTES", "ServeHTTP|request_bytes", u.Pos(st.Pos()), "request_bytes = declared on-wire length", "request_bytes set from "+u.Describe(st.Val))
		}
	}
	// R-PAYLOAD-MARKER
	rd, tr, ob := mus["request_data"], mus["truncated"], mus["original_request_bytes"]
	if len(rd) == 1 && len(tr) == 1 && len(ob) == 1 {
		dbg := func(in ssa.Instruction) (pos, neg, has bool) {
			for _, g := range u.GuardStrings(in) {
				if strings.Contains(g, "atomic.Bool).Load(") {
					has = true
					if strings.HasPrefix(g, "!") {
						neg = true
					} else {
						pos = true
					}
				}
			}
			return
		}
		p1, n1, _ := dbg(rd[0])
		p2, n2, _ := dbg(tr[0])
		// "a payload exists": len(...) > 0, or the complement of an early exit on len(...) == 0
		hasPayload := func(in ssa.Instruction) bool {
			return u.HasGuardContaining(in, "info.RequestData) > 0") || u.HasGuardContaining(in, "info.RequestData) != 0")
		}
		payload := hasPayload(rd[0]) && hasPayload(tr[0])
		r.Check(p1 && !n1 && n2 && !p2 && tr[0].Block() == ob[0].Block() && payload, "R-PAYLOAD-MARKER", "emit", u.Pos(rd[0].Pos()), "payload xor omitted-marker, chosen by the debug flag, only when a payload exists", "request_data and the payload-omitted marker are not mutually exclusive on the debug flag")
	} else {
		r.Viol("R-PAYLOAD-MARKER", "emit", u.Pos(fn.Pos()), "payload/marker writes not unique")
	}
	// R-BYTES
	if rb := mus["request_bytes"]; len(rb) == 1 {
		r.Check(strings.HasSuffix(u.Describe(rb[0].Value), ".requestBytes"), "R-BYTES", "emit|request_bytes", u.Pos(rb[0].Pos()), "request_bytes from the recorder", "request_bytes = "+u.Describe(rb[0].Value))
	}
	if ff := c.Fn("R-BYTES", "(*egressRecorder).flush"); ff != nil {
		fm := mapUpdatesWithKey(u, ff)
		ok := len(fm["response_bytes"]) == 1 && strings.Contains(u.Describe(fm["response_bytes"][0].Value), "atomic.Int64).Load(&rec.responseBytes)")
		r.Check(ok, "R-BYTES", "flush|response_bytes", u.Pos(ff.Pos()), "response_bytes = bytes the counting writer saw", "response_bytes is not the recorder's counter")
		// every pending record is emitted
		em := u.Calls(ff, Is("(*AccessLogHook).emit"))
		r.Check(len(em) == 1, "R-BYTES", "flush|emits", u.Pos(ff.Pos()), "each queued record is emitted", "flush does not emit queued records")
	}
	if wf := c.Fn("R-BYTES", "(*countingResponseWriter).Write"); wf != nil {
		add := u.Calls(wf, HasSuffix("atomic.Int64).Add"))
		ok := len(add) == 1 && strings.Contains(u.Describe(add[0].Arg(1)), "ResponseWriter.Write(") && strings.HasSuffix(u.Describe(add[0].Arg(1)), "#0)")
		r.Check(ok, "R-BYTES", "countingResponseWriter.Write", u.Pos(wf.Pos()), "counts the bytes the underlying writer accepted", "counter is not advanced by the underlying Write's byte count")
	}
}

func onlyGuardsAbout(gs []string, sub string) bool {
	for _, g := range gs {
		if !strings.Contains(g, sub) {
			return false
		}
	}
	return true
}

func runC39(c *Ctx) {
	u, r := c.U, c.R
	if kf := c.Fn("R-SAMPLER-PURE", "(*accessLogSampler).keep"); kf != nil {
		var callees []string
		for _, cs := range u.Calls(kf, nil) {
			callees = append(callees, cs.Callee)
		}
		sort.Strings(callees)
		var bad []string
		for _, cn := range callees {
			switch {
			case cn == "hash/fnv.New32a", strings.HasSuffix(cn, "Hash32.Write"), strings.HasSuffix(cn, "Hash32.Sum32"), cn == "(*accessLogSampler).key", neutralCallee(cn):
			default:
				bad = append(bad, cn)
			}
		}
		r.Check(len(bad) == 0, "R-SAMPLER-PURE", "keep|callees", u.Pos(kf.Pos()), "keep uses only FNV over key(record)", "keep() calls "+strings.Join(bad, ", ")+": the keep/drop decision is no longer a pure function of the record's id")
		// hash input is key(record)
		for _, w := range u.Calls(kf, HasSuffix("Hash32.Write")) {
			r.Check(strings.Contains(u.Describe(w.Arg(0)), "(*accessLogSampler).key(s, record)") || strings.Contains(u.Describe(w.Arg(1)), "(*accessLogSampler).key(s, record)"), "R-SAMPLER-PURE", "keep|hash-input", u.Pos(w.Instr.Pos()), "hash input = key(record)", "hash input is not key(record)")
		}
		// error kept before hashing
		var errRet ssa.Instruction
		Instrs(kf, func(in ssa.Instruction) {
			if ret, ok := in.(*ssa.Return); ok {
				if b, isC := ret.Results[0].(*ssa.Const); isC && b.Value.String() == "true" {
					j := strings.Join(u.GuardStrings(in), " && ")
					if strings.Contains(j, `record["status"]`) && strings.Contains(j, `== "error"`) && !strings.Contains(j, "Sum32") {
						errRet = in
					}
				}
			}
		})
		okE := errRet != nil
		if okE {
			for _, h := range u.Calls(kf, Is("hash/fnv.New32a")) {
				if Dominates(h.Instr, errRet) {
					okE = false
				}
			}
		}
		r.Check(okE, "R-ERROR-KEPT", "keep", u.Pos(kf.Pos()), "error records are kept before any sampling decision", "no `status == error ⇒ keep` return ahead of the hash decision")
		// rate stamp
		k := 0
		Instrs(kf, func(in ssa.Instruction) {
			ret, ok := in.(*ssa.Return)
			if !ok {
				return
			}
			b, isC := ret.Results[0].(*ssa.Const)
			if !isC || b.Value.String() != "true" {
				return
			}
			j := strings.Join(u.GuardStrings(in), " && ")
			if !strings.Contains(j, "Sum32") {
				return
			}
			k++
			stamped := false
			for _, mu := range mapUpdatesWithKey(u, kf)["sample_rate"] {
				if Dominates(mu, in) && u.Describe(mu.Value) == "s.rate" {
					stamped = true
				}
			}
			okT := strings.Contains(j, "<= s.threshold)")
			r.Check(stamped && okT, "R-RATE-STAMP", "keep|sampled-true", u.Pos(in.Pos()), "a kept sampled record carries sample_rate = rate", "a sampled record is kept without sample_rate being stamped (or not under hash <= threshold)")
		})
		if k == 0 {
			r.Undec("R-RATE-STAMP", "keep", u.Pos(kf.Pos()), "sampled keep return not found")
		}
	}
	if kf := c.Fn("R-SAMPLER-PURE", "(*accessLogSampler).key"); kf != nil {
		// field order: the array literal ["stream_id","request_id"]
		var order []string
		Instrs(kf, func(in ssa.Instruction) {
			if st, ok := in.(*ssa.Store); ok {
				if s, isC := ConstString(st.Val); isC {
					order = append(order, s)
				}
			}
		})
		r.Check(strings.Join(order, ",") == "stream_id,request_id", "R-SAMPLER-PURE", "key|field-order", u.Pos(kf.Pos()), "key = stream_id, else request_id", "key fields are ["+strings.Join(order, ",")+"]")
		for _, a := range u.Calls(kf, HasSuffix("atomic.Uint64).Add")) {
			// the fallback runs only after the loop found nothing: not inside the loop body that returns a field
			_, back := ReachWithout(kf, a.Instr, func(in ssa.Instruction) bool { _, ok := in.(*ssa.Lookup); return ok }, nil)
			r.Check(!back, "R-SAMPLER-PURE", "key|fallback-last", u.Pos(a.Instr.Pos()), "the counter fallback is used only when both ids are absent", "the fallback counter can be consulted before the id fields")
		}
		var bad []string
		for _, cs := range u.Calls(kf, Or(Contains("time."), Contains("rand."))) {
			bad = append(bad, cs.Callee)
		}
		r.Check(len(bad) == 0, "R-SAMPLER-PURE", "key|no-entropy", u.Pos(kf.Pos()), "no clock/randomness", "key() uses "+strings.Join(bad, ","))
	}
	// async emitter
	if ef := c.Fn("R-NONBLOCK", "(*asyncEmitter).enqueue"); ef != nil {
		held := u.LockHeldAt(ef)
		var sel *ssa.Select
		plain := 0
		Instrs(ef, func(in ssa.Instruction) {
			switch x := in.(type) {
			case *ssa.Select:
				sel = x
			case *ssa.Send:
				plain++
			}
		})
		okS := sel != nil && !sel.Blocking && len(sel.States) == 1 && sel.States[0].Dir == types.SendOnly && plain == 0
		r.Check(okS, "R-NONBLOCK", "enqueue|select-default", u.Pos(ef.Pos()), "the only send is a select case with a default", "enqueue can block on the channel send (no default case / plain send)")
		if sel != nil {
			okC := held[sel]["a.mu"] && u.HasGuardContaining(sel, "!a.closed")
			r.Check(okC, "R-NO-SEND-AFTER-CLOSE", "enqueue|send-guard", u.Pos(sel.Pos()), "send happens under a.mu and !a.closed", "the send is not under a.mu ∧ !a.closed: send on a closed channel panics")
			// R-ACCOUNT
			var idx ssa.Value
			for _, ref := range *sel.Referrers() {
				if ex, ok := ref.(*ssa.Extract); ok && ex.Index == 0 {
					idx = ex
				}
			}
			sentReset, dropInc, delKey := false, false, false
			for _, st := range u.StoresToField(ef, "asyncEmitter", "dropped") {
				isSentEdge := false
				isDefaultEdge := false
				for _, g := range GuardsAt(st.Block()) {
					if b, ok := g.Cond.(*ssa.BinOp); ok && b.X == idx && b.Op == token.EQL {
						if k, _ := ConstInt(b.Y); k == 0 {
							if g.Truth {
								isSentEdge = true
							} else {
								isDefaultEdge = true
							}
						}
					}
				}
				if k, isC := ConstInt(st.Val); isC && k == 0 && isSentEdge {
					sentReset = true
				}
				if b, ok := st.Val.(*ssa.BinOp); ok && b.Op == token.ADD && isDefaultEdge {
					if k, _ := ConstInt(b.Y); k == 1 {
						dropInc = true
					}
				}
			}
			for _, cs := range u.Calls(ef, Is("delete")) {
				if s, _ := ConstString(cs.Arg(1)); s == "dropped_records" {
					delKey = true
				}
			}
			r.Check(sentReset && dropInc && delKey, "R-ACCOUNT", "enqueue|edges", u.Pos(sel.Pos()), "sent ⇒ dropped = 0; default ⇒ dropped++ and the stamped counter removed", "drop accounting edges are wrong (sent-reset="+boolStr(sentReset)+", drop-increment="+boolStr(dropInc)+", stamp-removed="+boolStr(delKey)+")")
			for _, mu := range mapUpdatesWithKey(u, ef)["dropped_records"] {
				r.Check(u.HasGuardContaining(mu, "a.dropped > 0") && u.Describe(mu.Value) == "a.dropped" && reachable(ef, mu, sel) && !reachable(ef, sel, mu), "R-ACCOUNT", "enqueue|stamp", u.Pos(mu.Pos()), "pending drop count stamped on the next record before it is offered", "dropped_records is not stamped from a.dropped under a.dropped > 0 before the send")
			}
		}
	}
	if cf := c.Fn("R-NONBLOCK", "(*asyncEmitter).close"); cf != nil {
		held := u.LockHeldAt(cf)
		Instrs(cf, func(in ssa.Instruction) {
			if uo, ok := in.(*ssa.UnOp); ok && uo.Op == token.ARROW {
				r.Check(!held[in]["a.mu"], "R-NONBLOCK", "close|wait-unlocked", u.Pos(in.Pos()), "close waits for the worker without holding the mutex", "close() waits on a.done while holding a.mu: enqueue blocks behind it")
			}
		})
		for _, cs := range u.Calls(cf, Is("close")) {
			setBefore := false
			for _, st := range u.StoresToField(cf, "asyncEmitter", "closed") {
				if Dominates(st, cs.Instr) {
					setBefore = true
				}
			}
			r.Check(held[cs.Instr]["a.mu"] && setBefore && u.HasGuardContaining(cs.Instr, "!a.closed"), "R-NO-SEND-AFTER-CLOSE", "close|close-under-lock", u.Pos(cs.Instr.Pos()), "channel closed once, under a.mu, after closed = true", "close(a.ch) is not performed under a.mu after marking closed (double close / send-after-close possible)")
		}
	}
}
