package main

import (
	"go/token"
	"go/types"
	"sort"
	"strings"

	"golang.org/x/tools/go/ssa"
)

// A small path-sensitive evaluator over a finite set of atoms. A rule that
// says "this boolean is decided by these inputs like that" is judged on the
// decision table of the function instead of on the shape of its if/switch
// chains: the CFG is walked from the entry, every branch condition that the
// atom oracle can decide is followed on one side only, undecidable conditions
// on both; phis take the value of the edge the path came through, stores to
// the variable's cell are remembered. The walk stops where the variable is
// first consumed (a branch on it, or a call that receives it).

type atomOracle func(v ssa.Value) (val, known bool)

type boolWalk struct {
	u      *Unit
	fn     *ssa.Function
	isVar  func(v ssa.Value) bool // the variable: a phi, an alloc cell (loads of it), …
	oracle atomOracle
	env    map[ssa.Value]int8 // 0 unknown, 1 false, 2 true — per path
}

func (w *boolWalk) eval(v ssa.Value, env map[ssa.Value]int8) (bool, bool) {
	if x, ok := env[v]; ok && x != 0 {
		return x == 2, true
	}
	switch y := v.(type) {
	case *ssa.Const:
		if y.Value != nil && (y.Value.String() == "true" || y.Value.String() == "false") {
			return y.Value.String() == "true", true
		}
	case *ssa.UnOp:
		if y.Op == token.NOT {
			if b, ok := w.eval(y.X, env); ok {
				return !b, true
			}
		}
		if y.Op == token.MUL { // load
			if x, ok := env[y.X]; ok && x != 0 {
				return x == 2, true
			}
		}
	}
	return w.oracle(v)
}

// finalValues returns the set of values ("true", "false", "unknown") the variable can have
// where it is first consumed.
func (w *boolWalk) finalValues() []string {
	out := map[string]bool{}
	if len(w.fn.Blocks) == 0 {
		return nil
	}
	type state struct {
		b    *ssa.BasicBlock
		pred *ssa.BasicBlock
		env  map[ssa.Value]int8
	}
	key := func(s state) string {
		var ks []string
		for v, x := range s.env {
			ks = append(ks, v.Name()+string(rune('0'+x)))
		}
		sort.Strings(ks)
		p := -1
		if s.pred != nil {
			p = s.pred.Index
		}
		return itoa(s.b.Index) + "/" + itoa(p) + "/" + strings.Join(ks, ",")
	}
	seen := map[string]bool{}
	work := []state{{w.fn.Blocks[0], nil, map[ssa.Value]int8{}}}
	steps := 0
	record := func(v ssa.Value, env map[ssa.Value]int8) {
		if b, ok := w.eval(v, env); ok {
			if b {
				out["true"] = true
			} else {
				out["false"] = true
			}
		} else {
			out["unknown"] = true
		}
	}
	for len(work) > 0 {
		steps++
		if steps > 20000 {
			out["unknown"] = true
			break
		}
		s := work[len(work)-1]
		work = work[:len(work)-1]
		if k := key(s); seen[k] {
			continue
		} else {
			seen[k] = true
		}
		env := map[ssa.Value]int8{}
		for k, v := range s.env {
			env[k] = v
		}
		// phis first, all from the incoming edge
		if s.pred != nil {
			idx := -1
			for i, p := range s.b.Preds {
				if p == s.pred {
					idx = i
				}
			}
			newv := map[ssa.Value]int8{}
			for _, in := range s.b.Instrs {
				phi, ok := in.(*ssa.Phi)
				if !ok {
					break
				}
				if idx >= 0 {
					if b, known := w.eval(phi.Edges[idx], s.env); known {
						if b {
							newv[phi] = 2
						} else {
							newv[phi] = 1
						}
					} else {
						newv[phi] = 0
					}
				}
			}
			for k, v := range newv {
				if v == 0 {
					delete(env, k)
				} else {
					env[k] = v
				}
			}
		}
		stopped := false
		for _, in := range s.b.Instrs {
			switch x := in.(type) {
			case *ssa.Store:
				if w.isVar(x.Addr) {
					if b, known := w.eval(x.Val, env); known {
						if b {
							env[x.Addr] = 2
						} else {
							env[x.Addr] = 1
						}
					} else {
						delete(env, x.Addr)
						env[x.Addr] = 0
					}
				}
			case *ssa.Call:
				for _, a := range x.Call.Args {
					if w.consumes(a) {
						record(a, env)
						stopped = true
					}
				}
			case *ssa.MakeClosure:
				for _, b := range x.Bindings {
					if w.isVar(b) {
						// captured by reference: consumed by the closure
						if v, ok := env[b]; ok && v != 0 {
							if v == 2 {
								out["true"] = true
							} else {
								out["false"] = true
							}
						} else {
							out["unknown"] = true
						}
						stopped = true
					}
				}
			case *ssa.If:
				if w.consumes(x.Cond) {
					record(x.Cond, env)
					stopped = true
					break
				}
				if b, known := w.eval(x.Cond, env); known {
					if b {
						work = append(work, state{s.b.Succs[0], s.b, env})
					} else {
						work = append(work, state{s.b.Succs[1], s.b, env})
					}
				} else {
					work = append(work, state{s.b.Succs[0], s.b, env}, state{s.b.Succs[1], s.b, env})
				}
			case *ssa.Jump:
				work = append(work, state{s.b.Succs[0], s.b, env})
			}
			if stopped {
				break
			}
		}
	}
	var vs []string
	for v := range out {
		vs = append(vs, v)
	}
	sort.Strings(vs)
	return vs
}

// pathOutcomes walks fn from its entry under an atom oracle (conditions it can decide are
// followed on one side, others on both; booleans materialised in phis or local cells are
// tracked) and returns the set of label sequences seen on complete paths, where label(in)
// names the instructions of interest ("" = ignore).
func pathOutcomes(u *Unit, fn *ssa.Function, oracle atomOracle, label func(ssa.Instruction) string) []string {
	w := &boolWalk{u: u, fn: fn, oracle: oracle, isVar: func(ssa.Value) bool { return false }}
	out := map[string]bool{}
	if len(fn.Blocks) == 0 {
		return nil
	}
	type state struct {
		b    *ssa.BasicBlock
		pred *ssa.BasicBlock
		env  map[ssa.Value]int8
		seq  string
	}
	key := func(s state) string {
		var ks []string
		for v, x := range s.env {
			ks = append(ks, v.Name()+string(rune('0'+x)))
		}
		sort.Strings(ks)
		p := -1
		if s.pred != nil {
			p = s.pred.Index
		}
		return itoa(s.b.Index) + "/" + itoa(p) + "/" + strings.Join(ks, ",") + "/" + s.seq
	}
	seen := map[string]bool{}
	work := []state{{fn.Blocks[0], nil, map[ssa.Value]int8{}, ""}}
	steps := 0
	for len(work) > 0 {
		steps++
		if steps > 50000 {
			out["?"] = true
			break
		}
		s := work[len(work)-1]
		work = work[:len(work)-1]
		if k := key(s); seen[k] {
			continue
		} else {
			seen[k] = true
		}
		env := map[ssa.Value]int8{}
		for k, v := range s.env {
			env[k] = v
		}
		if s.pred != nil {
			idx := -1
			for i, p := range s.b.Preds {
				if p == s.pred {
					idx = i
				}
			}
			newv := map[ssa.Value]int8{}
			for _, in := range s.b.Instrs {
				phi, ok := in.(*ssa.Phi)
				if !ok {
					break
				}
				if idx >= 0 {
					if bt, isB := phi.Type().Underlying().(*types.Basic); !isB || bt.Kind() != types.Bool {
						continue
					}
					if b, known := w.eval(phi.Edges[idx], s.env); known {
						if b {
							newv[phi] = 2
						} else {
							newv[phi] = 1
						}
					} else {
						newv[phi] = 0
					}
				}
			}
			for k, v := range newv {
				if v == 0 {
					delete(env, k)
				} else {
					env[k] = v
				}
			}
		}
		seq := s.seq
		for _, in := range s.b.Instrs {
			if l := label(in); l != "" {
				seq += l + ";"
			}
			switch x := in.(type) {
			case *ssa.Store:
				if al, ok := x.Addr.(*ssa.Alloc); ok {
					if bt, isB := derefType(al.Type()).Underlying().(*types.Basic); isB && bt.Kind() == types.Bool {
						if b, known := w.eval(x.Val, env); known {
							if b {
								env[al] = 2
							} else {
								env[al] = 1
							}
						} else {
							delete(env, al)
						}
					}
				}
			case *ssa.Return:
				out[seq] = true
			case *ssa.If:
				if b, known := w.eval(x.Cond, env); known {
					if b {
						work = append(work, state{s.b.Succs[0], s.b, env, seq})
					} else {
						work = append(work, state{s.b.Succs[1], s.b, env, seq})
					}
				} else {
					work = append(work, state{s.b.Succs[0], s.b, env, seq}, state{s.b.Succs[1], s.b, env, seq})
				}
			case *ssa.Jump:
				work = append(work, state{s.b.Succs[0], s.b, env, seq})
			}
		}
	}
	var vs []string
	for v := range out {
		vs = append(vs, v)
	}
	sort.Strings(vs)
	return vs
}

// consumes: v is the variable itself (phi) or a load of its cell.
func (w *boolWalk) consumes(v ssa.Value) bool {
	if w.isVar(v) {
		if _, isAlloc := v.(*ssa.Alloc); !isAlloc {
			return true
		}
	}
	if l, ok := v.(*ssa.UnOp); ok && l.Op == token.MUL && w.isVar(l.X) {
		return true
	}
	return false
}
