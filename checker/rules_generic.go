package main

import (
	"go/ast"
	"go/token"
	"go/types"
	"sort"
	"strings"

	"golang.org/x/tools/go/ssa"
)

// Lost-effect and contradiction rules that are not tied to one function: each
// finds a construct whose own text says one thing while its effect is another
// (Engler et al.: "bugs as deviant behaviour"). A finding is reported under
// every property whose anchor files (properties.jsonl) contain the construct,
// because each of them is a way the property's clause about errors, panics,
// headers or history-independence stops holding:
//
//   R-RECOVER-EFFECT-LOST   a deferred function recovers a panic and records it in a
//                           variable that nothing can read once the deferred call has run
//                           (an unnamed result was already evaluated): the panic is swallowed.
//   R-ERROR-SHADOWED        `x := …` redeclares, in an inner block that then returns, a
//                           variable of the same name and type whose outer instance is
//                           captured by a closure or has its address taken (a deferred
//                           hook, a cleanup): the observer keeps seeing the old value.
//   R-HEADER-AFTER-STATUS   a response header is set on a writer after WriteHeader/Write
//                           was called on it on the same path: net/http ignores it.
//   R-MEMO-KEY-COMPLETE     a memo/cache site the reference tree does not have stores a
//                           value that depends on inputs its key does not contain (or has no
//                           key at all: sync.Once): outcomes depend on call history.

// anchorFiles is the "anchors.files" column of /verif/properties.jsonl (given, fixed).
var anchorFiles = map[string][]string{
	"C01": {"vgirpc/wire.go", "vgirpc/wire_intermediary.go", "vgirpc/metadata.go"},
	"C02": {"vgirpc/server_serve.go", "vgirpc/server_unary.go", "vgirpc/server_stream.go", "vgirpc/server.go", "vgirpc/server_unix.go", "vgirpc/server_tcp.go"},
	"C03": {"vgirpc/server_serve.go", "vgirpc/server_unary.go", "vgirpc/server_stream.go", "vgirpc/types_deserialize.go", "vgirpc/http_unary.go", "vgirpc/http_stream.go", "vgirpc/wire.go"},
	"C04": {"vgirpc/server_unary.go", "vgirpc/http_unary.go", "vgirpc/context.go", "vgirpc/wire.go", "vgirpc/log.go"},
	"C05": {"vgirpc/errors.go", "vgirpc/wire.go", "vgirpc/server_unary.go", "vgirpc/http_unary.go"},
	"C06": {"vgirpc/server_stream.go", "vgirpc/stream.go", "vgirpc/server_serve.go"},
	"C07": {"vgirpc/types_deserialize.go", "vgirpc/types_schema.go", "vgirpc/types_cache.go", "vgirpc/server_register.go"},
	"C08": {"vgirpc/types_serialize.go", "vgirpc/types_deserialize.go", "vgirpc/types_schema.go", "vgirpc/types_convert.go"},
	"C09": {"vgirpc/describe.go", "vgirpc/server.go", "vgirpc/server_serve.go", "vgirpc/http_helpers.go"},
	"C10": {"vgirpc/server.go", "vgirpc/metadata.go", "vgirpc/server_serve.go", "vgirpc/http_unary.go", "vgirpc/http_stream.go"},
	"C11": {"vgirpc/http_stream.go", "vgirpc/server_stream.go", "vgirpc/http_state.go", "vgirpc/stream.go"},
	"C12": {"vgirpc/http_state.go", "vgirpc/http_stream.go"},
	"C13": {"vgirpc/http_state.go", "vgirpc/sticky.go", "vgirpc/sticky_context.go", "vgirpc/http_sticky.go"},
	"C14": {"vgirpc/http_stream.go", "vgirpc/http_state.go"},
	"C15": {"vgirpc/http_state.go", "vgirpc/http.go"},
	"C16": {"vgirpc/http_stream.go", "vgirpc/stream.go"},
	"C17": {"vgirpc/http_compression.go", "vgirpc/http.go"},
	"C18": {"vgirpc/http_helpers.go", "vgirpc/http_compression.go", "vgirpc/http.go"},
	"C19": {"vgirpc/http_response_cap.go", "vgirpc/http_unary.go", "vgirpc/http_stream.go"},
	"C20": {"vgirpc/http.go", "vgirpc/http_sticky.go"},
	"C21": {"vgirpc/http_client.go"},
	"C22": {"vgirpc/http.go", "vgirpc/http_unary.go", "vgirpc/http_stream.go", "vgirpc/http_upload_url.go", "vgirpc/introspect_token.go", "vgirpc/http_sticky.go"},
	"C23": {"vgirpc/http.go", "vgirpc/auth.go", "vgirpc/bearer.go", "vgirpc/unauthorized.go"},
	"C24": {"vgirpc/bearer.go", "vgirpc/mtls.go"},
	"C25": {"vgirpc/proof.go"},
	"C26": {"vgirpc/introspect_token.go"},
	"C27": {"vgirpc/oauth_pkce_cookie.go", "vgirpc/oauth_pkce_handlers.go", "vgirpc/oauth_pkce_oidc.go", "vgirpc/oauth_pkce_token_proxy.go", "vgirpc/oauth_pkce_crypto.go"},
	"C28": {"vgirpc/oauth.go", "vgirpc/oauth_client.go"},
	"C29": {"vgirpc/sticky.go", "vgirpc/sticky_context.go", "vgirpc/http_sticky.go"},
	"C30": {"vgirpc/external.go", "vgirpc/http_stream.go", "vgirpc/server_unary.go"},
	"C31": {"vgirpc/external.go"},
	"C32": {"vgirpc/external.go"},
	"C33": {"vgirpc/s3/s3.go", "vgirpc/gcs/gcs.go"},
	"C34": {"vgirpc/shm.go", "vgirpc/shm_posix.go"},
	"C35": {"vgirpc/shm.go"},
	"C36": {"vgirpc/server_serve.go", "vgirpc/server_unary.go", "vgirpc/server_stream.go", "vgirpc/shm.go"},
	"C37": {"vgirpc/server_serve.go", "vgirpc/http_stream.go", "vgirpc/http_unary.go", "vgirpc/hooks.go", "vgirpc/server_unary.go", "vgirpc/server_stream.go"},
	"C38": {"vgirpc/accesslog.go", "vgirpc/accesslog_egress.go", "vgirpc/accesslog_redact.go", "vgirpc/accesslog_trace.go"},
	"C39": {"vgirpc/accesslog_sample.go", "vgirpc/accesslog_async.go", "vgirpc/accesslog.go"},
	"C40": {"vgirpc/server.go", "vgirpc/http.go", "vgirpc/http_compression.go", "vgirpc/sticky.go"},
	"C41": {"vgirpc/alloc_leakcheck.go", "vgirpc/server_stream.go", "vgirpc/server_unary.go", "vgirpc/http_stream.go", "vgirpc/http_unary.go", "vgirpc/stream.go"},
	"C42": {"vgirpc/server_unix.go", "vgirpc/server_tcp.go"},
	"C43": {"vgirpc/otel/otel.go"},
}

type genFinding struct {
	rule, inst, pos, msg string
}

var genCache = map[*Unit][]genFinding{}

func posFile(pos string) string {
	if i := strings.LastIndex(pos, ":"); i > 0 {
		return pos[:i]
	}
	return pos
}

func runGeneric(c *Ctx, propID string) {
	files := map[string]bool{}
	for _, f := range anchorFiles[propID] {
		files[f] = true
	}
	scanned := 0
	for _, u := range c.Unit {
		fs, ok := genCache[u]
		if !ok {
			fs = genericFindings(u)
			genCache[u] = fs
		}
		scanned += len(u.SrcFuncs())
		for _, f := range fs {
			if files[posFile(f.pos)] {
				c.R.Viol(f.rule, f.inst, f.pos, f.msg)
			}
		}
	}
	c.R.Check(scanned > 0, "R-LOST-EFFECT", "functions-scanned", "-", itoa(scanned)+" functions scanned for swallowed panics, shadowed observed errors, headers set after the status and incompletely keyed memo state; none in this property's files", "no functions scanned")
}

func genericFindings(u *Unit) []genFinding {
	var out []genFinding
	out = append(out, findRecoverLost(u)...)
	out = append(out, findHeaderAfterStatus(u)...)
	out = append(out, findShadowedObserved(u)...)
	out = append(out, findIncompleteMemo(u)...)
	out = append(out, findStalePooled(u)...)
	out = append(out, findKindSwitchGaps(u)...)
	out = append(out, findUncheckedCacheGet(u)...)
	sort.Slice(out, func(i, j int) bool { return out[i].pos+out[i].rule < out[j].pos+out[j].rule })
	return out
}

// ---- R-KIND-SWITCH-COMPLETE: a switch over the method kind that names the static stream kinds
// (producer, exchange) also names the dynamic stream kind (or is written on methodTypeString).

func findKindSwitchGaps(u *Unit) []genFinding {
	var out []genFinding
	dyn, _ := u.ConstValue("MethodDynamic")
	for _, file := range u.Root.Syntax {
		for _, d := range file.Decls {
			fd, ok := d.(*ast.FuncDecl)
			if !ok || fd.Body == nil {
				continue
			}
			for _, sw := range u.Switches(fd) {
				if !strings.HasSuffix(sw.Tag, ".Type") {
					continue
				}
				has := map[string]bool{}
				for _, cs := range sw.Cases {
					has[cs] = true
				}
				pv, _ := u.ConstValue("MethodProducer")
				xv, _ := u.ConstValue("MethodExchange")
				static := has["MethodProducer"] || has["MethodExchange"] || (pv != "" && has[pv]) || (xv != "" && has[xv])
				dynamic := has["MethodDynamic"] || (dyn != "" && has[dyn])
				if static && !dynamic && !sw.Default {
					out = append(out, genFinding{"R-KIND-SWITCH-COMPLETE", declKey(fd) + "|switch " + sw.Tag, u.Pos(sw.Node.Pos()),
						declKey(fd) + " switches on the method kind with cases for the static stream kinds but none for MethodDynamic (and no default): a dynamic stream method falls through untreated (its input stream is not drained / its refusal is not framed like the other stream kinds)"})
				}
			}
		}
	}
	return out
}

// ---- R-CACHE-GET-NIL-CHECKED: the call-state cache answers nil on a miss; a field of its
// answer is read only under a non-nil test.

func findUncheckedCacheGet(u *Unit) []genFinding {
	var out []genFinding
	for _, top := range u.SrcFuncs() {
		for _, f := range WithAnon(top) {
			for _, cs := range u.Calls(f, Is("(*callStateCache).get")) {
				call, ok := cs.Instr.(*ssa.Call)
				if !ok {
					continue
				}
				for _, ref := range *call.Referrers() {
					fa, isFA := ref.(*ssa.FieldAddr)
					if !isFA {
						continue
					}
					checked := false
					for _, g := range GuardsAt(fa.Block()) {
						if x, isNil, ok := nilCompare(g); ok && !isNil && x == ssa.Value(call) {
							checked = true
						}
					}
					if !checked {
						out = append(out, genFinding{"R-CACHE-GET-NIL-CHECKED", shortName(top) + "|callStates.get", u.Pos(fa.Pos()),
							shortName(top) + " reads a field of callStateCache.get's answer without testing it for nil: on a cache miss (another instance, an eviction, a disabled cache) the handler panics before it has answered"})
					}
				}
			}
		}
	}
	return out
}

// ---- R-RECOVER-EFFECT-LOST

func findRecoverLost(u *Unit) []genFinding {
	var out []genFinding
	for _, fn := range u.SrcFuncs() {
		for _, top := range WithAnon(fn) {
			Instrs(top, func(in ssa.Instruction) {
				d, ok := in.(*ssa.Defer)
				if !ok {
					return
				}
				mc, ok := d.Call.Value.(*ssa.MakeClosure)
				if !ok {
					return
				}
				g := mc.Fn.(*ssa.Function)
				if !callsRecover(g, 0) {
					return
				}
				Instrs(g, func(x ssa.Instruction) {
					st, ok := x.(*ssa.Store)
					if !ok {
						return
					}
					fv, ok := st.Addr.(*ssa.FreeVar)
					if !ok || isNilConst(st.Val) {
						return
					}
					// only stores under the recovered-value test
					if !u.HasGuardContaining(x, "recover()") {
						return
					}
					var bound ssa.Value
					for i, f := range g.FreeVars {
						if f == fv && i < len(mc.Bindings) {
							bound = mc.Bindings[i]
						}
					}
					al, ok := bound.(*ssa.Alloc)
					if !ok || al.Parent() != top {
						return // belongs to an outer function: read there
					}
					observable := false
					for _, ref := range *al.Referrers() {
						switch r := ref.(type) {
						case *ssa.UnOp:
							// a load that comes after the deferred calls have run
							for _, y := range r.Block().Instrs {
								if _, isRD := y.(*ssa.RunDefers); isRD {
									if instrIndex(y) < instrIndex(r) {
										observable = true
									}
								}
							}
						case *ssa.MakeClosure:
							if r != mc {
								observable = true // another closure shares the cell
							}
						case *ssa.Store:
							if r.Val == ssa.Value(al) {
								observable = true // its address escapes
							}
						case ssa.CallInstruction:
							observable = true // passed by address
						}
					}
					if !observable {
						out = append(out, genFinding{"R-RECOVER-EFFECT-LOST", shortName(top) + "|" + u.VarName(al), u.Pos(st.Pos()),
							"the deferred recover in " + shortName(top) + " records the panic in " + u.VarName(al) + ", which nothing reads after the deferred call has run (the function's result was already evaluated): a panicking handler is reported as success"})
					}
				})
			})
		}
	}
	return out
}

// ---- R-HEADER-AFTER-STATUS

func findHeaderAfterStatus(u *Unit) []genFinding {
	var out []genFinding
	isWriterCall := func(cs CallSite, names ...string) (ssa.Value, bool) {
		c := cs.Common()
		if !c.IsInvoke() {
			return nil, false
		}
		for _, n := range names {
			if c.Method.Name() == n && strings.HasSuffix(typeShort(c.Value.Type()), "http.ResponseWriter") {
				return c.Value, true
			}
		}
		return nil, false
	}
	for _, fn := range u.SrcFuncs() {
		for _, f := range WithAnon(fn) {
			var status []CallSite
			for _, cs := range u.Calls(f, nil) {
				if _, ok := isWriterCall(cs, "WriteHeader"); ok {
					status = append(status, cs)
				}
			}
			if len(status) == 0 {
				continue
			}
			for _, hs := range u.Calls(f, Or(Is("(net/http.Header).Set"), Is("(net/http.Header).Add"))) {
				hc, ok := hs.Arg(0).(*ssa.Call)
				if !ok {
					continue
				}
				w, ok := isWriterCall(CallSite{Fn: f, Instr: hc, Callee: u.CalleeName(&hc.Call)}, "Header")
				if !ok {
					continue
				}
				for _, sc := range status {
					if sc.Common().Value != w {
						continue
					}
					if sc.Instr.Block() == hs.Instr.Block() && instrIndex(sc.Instr) > instrIndex(hs.Instr) {
						if _, loop := ReachWithout(f, sc.Instr, isInstr(hs.Instr), nil); !loop {
							continue
						}
					}
					if _, reach := ReachWithout(f, sc.Instr, isInstr(hs.Instr), nil); reach {
						name, _ := ConstString(hs.Arg(1))
						out = append(out, genFinding{"R-HEADER-AFTER-STATUS", shortName(f) + "|" + name, u.Pos(hs.Instr.Pos()),
							shortName(f) + " sets the " + name + " header after WriteHeader was called on the same writer: net/http has already sent the header block, so the header never reaches the client"})
					}
				}
			}
		}
	}
	return out
}

// ---- R-ERROR-SHADOWED

func findShadowedObserved(u *Unit) []genFinding {
	var out []genFinding
	info := u.Info()
	if info == nil {
		return nil
	}
	for _, file := range u.Root.Syntax {
		for _, d := range file.Decls {
			fd, ok := d.(*ast.FuncDecl)
			if !ok || fd.Body == nil {
				continue
			}
			// variables of this function that a closure captures or whose address is taken
			observed := map[*types.Var]bool{}
			var lits []*ast.FuncLit
			ast.Inspect(fd.Body, func(n ast.Node) bool {
				switch x := n.(type) {
				case *ast.FuncLit:
					lits = append(lits, x)
				case *ast.UnaryExpr:
					if x.Op == token.AND {
						if id, ok := x.X.(*ast.Ident); ok {
							if v, ok := info.Uses[id].(*types.Var); ok {
								observed[v] = true
							}
						}
					}
				}
				return true
			})
			for _, fl := range lits {
				ast.Inspect(fl.Body, func(n ast.Node) bool {
					if id, ok := n.(*ast.Ident); ok {
						if v, ok := info.Uses[id].(*types.Var); ok && v.Pos() < fl.Pos() && v.Pos() >= fd.Pos() {
							observed[v] = true
						}
					}
					return true
				})
			}
			if len(observed) == 0 {
				continue
			}
			var walk func(b *ast.BlockStmt, depth int)
			checkList := func(list []ast.Stmt) {
				for i, st := range list {
					as, ok := st.(*ast.AssignStmt)
					if !ok || as.Tok != token.DEFINE {
						continue
					}
					all, anyObs := true, false
					var names []string
					for _, l := range as.Lhs {
						id, ok := l.(*ast.Ident)
						if !ok || id.Name == "_" {
							all = false
							continue
						}
						nv, isNew := info.Defs[id].(*types.Var)
						if !isNew || nv == nil {
							all = false // re-used, not redeclared
							continue
						}
						// an outer variable of the same function, same name, same type
						var outer *types.Var
						if sc := nv.Parent(); sc != nil && sc.Parent() != nil {
							if _, o := sc.Parent().LookupParent(id.Name, id.Pos()); o != nil {
								if ov, ok := o.(*types.Var); ok && ov.Pos() >= fd.Pos() && ov.Pos() < fd.End() && types.Identical(ov.Type(), nv.Type()) {
									outer = ov
								}
							}
						}
						if outer == nil {
							all = false
							continue
						}
						names = append(names, id.Name)
						if observed[outer] && isErrorType(outer.Type()) {
							anyObs = true
						}
					}
					if !all || !anyObs {
						continue
					}
					// the block goes on to return: the outer instance is never updated on this path
					returns := false
					for _, later := range list[i+1:] {
						if _, ok := later.(*ast.ReturnStmt); ok {
							returns = true
						}
					}
					if returns {
						out = append(out, genFinding{"R-ERROR-SHADOWED", declKey(fd) + "|" + strings.Join(names, ","), u.Pos(as.Pos()),
							declKey(fd) + " declares a new " + strings.Join(names, ", ") + " with := in an inner block that then returns, while the outer variable of that name is observed by a closure or through its address (a deferred hook / cleanup): the observer sees the stale value, not this error"})
					}
				}
			}
			walk = func(b *ast.BlockStmt, depth int) {
				if b == nil {
					return
				}
				if depth > 0 {
					checkList(b.List)
				}
				for _, st := range b.List {
					ast.Inspect(st, func(n ast.Node) bool {
						switch x := n.(type) {
						case *ast.FuncLit:
							return false
						case *ast.BlockStmt:
							walk(x, depth+1)
							return false
						case *ast.CaseClause:
							checkList(x.Body)
						}
						return true
					})
				}
			}
			walk(fd.Body, 0)
		}
	}
	return out
}
