package main

import (
	"strings"

	"golang.org/x/tools/go/ssa"
)

func init() {
	register(&PropInfo{
		ID:    "C29",
		Title: "Sticky sessions are isolated per caller and serialized per session",
		Explanation: "R-LOCK-PAIR: every installStickyOnRequest[NoCtx] call in a handler is followed before any return by `defer cleanup.ReleaseLock()`; inside the installer every path from entry.lock.Lock() to return records the entry in the cleanup; ReleaseLock unlocks that entry's lock once; handleStickyDelete has no return between Lock and Unlock. " +
			"R-CLOSE-ONCE: closeSessionState is called only by registry functions that removed the entry from the map while holding r.mu, every such remover calls it, it is never called with r.mu held, and it recovers. " +
			"R-DRAIN: open() tests draining and inserts under one hold of r.mu. R-RESOLVE: get() returns an entry only when present, unexpired and of the same principal; the installer consults it only after the token opened under this caller's AAD and names this worker. " +
			"R-SESSION-LOST-UNIFORM: every failure of openSessionToken is a *SessionLostError, and the installer's other refusals are SessionLostError too. R-ROLLBACK: a failed seal in OpenSession closes the just-opened entry.",
		NotCovered:  []string{"schedule-level claims (a resume racing a delete or the reaper)", "what the state's Close does"},
		Assumptions: []string{"sync.Mutex semantics"},
		Run:         runC29,
	})
}

func runC29(c *Ctx) {
	u, r := c.U, c.R
	seedfixC29(c)
	// ---- R-LOCK-PAIR (call sites)
	r.Floor("R-LOCK-PAIR", 5)
	for _, name := range []string{"(*HttpServer).handleUnary", "(*HttpServer).handleStreamInit", "(*HttpServer).handleStreamExchange"} {
		fn := c.Fn("R-LOCK-PAIR", name)
		if fn == nil {
			continue
		}
		for _, cs := range u.Calls(fn, Is("(*HttpServer).installStickyOnRequest", "(*HttpServer).installStickyOnRequestNoCtx")) {
			cl := ExtractOf(cs.Value().(*ssa.Call), 0)
			isDefer := func(in ssa.Instruction) bool {
				d, ok := in.(*ssa.Defer)
				return ok && u.CalleeName(&d.Call) == "(*stickyCleanup).ReleaseLock" && d.Call.Args[0] == cl
			}
			_, bad := ReachWithout(fn, cs.Instr, func(in ssa.Instruction) bool {
				if _, ok := in.(*ssa.Return); ok {
					return true
				}
				ci, ok := in.(*ssa.Call)
				return ok && !strings.HasPrefix(u.CalleeName(&ci.Call), "(*stickyCleanup).")
			}, isDefer)
			r.Check(cl != nil && !bad, "R-LOCK-PAIR", name+"|defer-release", u.Pos(cs.Instr.Pos()), "ReleaseLock deferred immediately after the sticky install", "a call or return can happen after the sticky install before cleanup.ReleaseLock is deferred: an early exit or panic leaves the session locked")
		}
	}
	// inside the installer
	if inst := c.Fn("R-LOCK-PAIR", "(*HttpServer).installStickyOnRequestNoCtx"); inst != nil {
		locks := u.Calls(inst, Is("(*sync.Mutex).Lock"))
		if len(locks) != 1 {
			r.Viol("R-LOCK-PAIR", "installer|lock-sites", u.Pos(inst.Pos()), "expected exactly one per-session Lock")
		} else {
			lk := locks[0]
			isRecord := func(in ssa.Instruction) bool {
				st, ok := in.(*ssa.Store)
				if !ok {
					return false
				}
				fa, ok := st.Addr.(*ssa.FieldAddr)
				return ok && fieldKey(fa.X.Type(), fa.Field) == "stickyCleanup.entry"
			}
			_, bad := ReachWithout(inst, lk.Instr, IsReturn, isRecord)
			r.Check(!bad && strings.HasSuffix(u.Describe(lk.Arg(0)), ".lock"), "R-LOCK-PAIR", "installer|lock-recorded", u.Pos(lk.Instr.Pos()), "after Lock every path records the entry in the cleanup", "a path returns from the installer holding the session lock without recording the entry for ReleaseLock")
			// the entry locked is the one returned by registry.get and recorded
			for _, in := range storesMatching(inst, isRecord) {
				r.Check(strings.Contains(u.Describe(in.(*ssa.Store).Val), "(*sessionRegistry).get("), "R-LOCK-PAIR", "installer|same-entry", u.Pos(in.Pos()), "the recorded entry is the resolved one", "cleanup records a different entry than the one locked")
			}
		}
	}
	if rl := c.Fn("R-LOCK-PAIR", "(*stickyCleanup).ReleaseLock"); rl != nil {
		ul := u.Calls(rl, Is("(*sync.Mutex).Unlock"))
		ok := len(ul) == 1 && strings.HasSuffix(u.Describe(ul[0].Arg(0)), "c.entry.lock") && u.HasGuardContaining(ul[0].Instr, "!c.doneMu") && u.HasGuardContaining(ul[0].Instr, "(c.entry != nil)")
		done := false
		for _, s := range u.StoresToField(rl, "stickyCleanup", "doneMu") {
			if cst, isC := s.Val.(*ssa.Const); isC && cst.Value != nil && cst.Value.String() == "true" {
				done = true
			}
		}
		r.Check(ok && done, "R-LOCK-PAIR", "ReleaseLock", u.Pos(rl.Pos()), "unlocks the resumed entry once (idempotent)", "ReleaseLock does not unlock c.entry.lock exactly once under !doneMu")
	}
	if sd := c.Fn("R-LOCK-PAIR", "(*HttpServer).handleStickyDelete"); sd != nil {
		for _, lk := range u.Calls(sd, Is("(*sync.Mutex).Lock")) {
			_, bad := ReachWithout(sd, lk.Instr, IsReturn, u.CallMatcher(Is("(*sync.Mutex).Unlock"), true))
			r.Check(!bad, "R-LOCK-PAIR", "handleStickyDelete", u.Pos(lk.Instr.Pos()), "delete unlocks the session before returning", "handleStickyDelete can return with the session lock held")
		}
	}

	// ---- R-CLOSE-ONCE
	removers := map[string]bool{}
	closers := map[string]bool{}
	for _, fn := range u.SrcFuncs() {
		held := u.LockHeldAt(fn)
		Instrs(fn, func(in ssa.Instruction) {
			isRemove := false
			if call, ok := in.(*ssa.Call); ok {
				if b, ok := call.Call.Value.(*ssa.Builtin); ok && b.Name() == "delete" && strings.HasSuffix(u.Describe(call.Call.Args[0]), ".entries") && strings.Contains(typeShort(call.Call.Args[0].Type()), "sessionEntry") {
					isRemove = true
				}
			}
			if st, ok := in.(*ssa.Store); ok {
				if fa, ok := st.Addr.(*ssa.FieldAddr); ok && fieldKey(fa.X.Type(), fa.Field) == "sessionRegistry.entries" && shortName(fn) != "newSessionRegistry" {
					isRemove = true
				}
			}
			if isRemove {
				removers[shortName(fn)] = true
				r.Check(held[in]["r.mu"], "R-CLOSE-ONCE", shortName(fn)+"|remove-under-lock", u.Pos(in.Pos()), "entry removed from the map while holding r.mu", "a session entry is removed from the registry map without holding r.mu: two removers can both close it")
			}
			if call, ok := in.(*ssa.Call); ok && u.CalleeName(&call.Call) == "closeSessionState" {
				closers[shortName(fn)] = true
				r.Check(!held[in]["r.mu"], "R-CLOSE-ONCE", shortName(fn)+"|close-outside-lock", u.Pos(in.Pos()), "state.Close runs outside the registry lock", "closeSessionState is called with r.mu held (user Close under the registry lock)")
				r.Check(strings.HasSuffix(u.Describe(call.Call.Args[0]), ".state"), "R-CLOSE-ONCE", shortName(fn)+"|close-arg", u.Pos(in.Pos()), "closes the removed entry's state", "closeSessionState argument is "+u.Describe(call.Call.Args[0]))
			}
		})
	}
	for fn := range removers {
		r.Check(closers[fn], "R-CLOSE-ONCE", fn+"|remover-closes", "-", "every function that removes entries also closes them", fn+" removes session entries from the registry but never closes their state (Close never runs)")
	}
	for fn := range closers {
		r.Check(removers[fn], "R-CLOSE-ONCE", fn+"|closer-removed", "-", "state is closed only by the function that removed the entry under the lock", fn+" closes a session state it did not remove from the registry under r.mu: Close can run twice")
	}
	if len(removers) < 4 {
		r.Undec("R-CLOSE-ONCE", "removers", "-", "fewer registry removers found than confirmed by hand (get, close, drainExpired, shutdown)")
	}
	if cf := c.Fn("R-CLOSE-ONCE", "closeSessionState"); cf != nil {
		r.Check(len(u.RecoverDefers(cf)) == 1, "R-CLOSE-ONCE", "closeSessionState|recover", u.Pos(cf.Pos()), "a panicking Close is contained", "closeSessionState does not recover")
	}

	// ---- R-DRAIN
	if of := c.Fn("R-DRAIN", "(*sessionRegistry).open"); of != nil {
		held := u.LockHeldAt(of)
		var ins, test ssa.Instruction
		Instrs(of, func(in ssa.Instruction) {
			if mu, ok := in.(*ssa.MapUpdate); ok && strings.HasSuffix(u.Describe(mu.Map), ".entries") {
				ins = in
			}
			if ld, ok := in.(*ssa.UnOp); ok && strings.HasSuffix(u.Describe(ld), "r.draining") {
				test = in
			}
		})
		ok := ins != nil && test != nil && held[ins]["r.mu"] && held[test]["r.mu"] && u.HasGuardContaining(ins, "!r.draining")
		if ok {
			// no unlock between test and insert
			_, viaUnlock := ReachWithout(of, test, isInstr(ins), u.CallMatcher(Is("(*sync.Mutex).Unlock"), false))
			ok = viaUnlock
		}
		r.Check(ok, "R-DRAIN", "open", u.Pos(of.Pos()), "drain test and insertion happen under one hold of r.mu", "open() does not test draining and insert under one critical section: a session can be registered after drain was set")
		// draining refusal is ServerDrainingError
		dr := false
		Instrs(of, func(in ssa.Instruction) {
			if al, ok := in.(*ssa.Alloc); ok && typeShort(al.Type()) == "*ServerDrainingError" && u.HasGuardContaining(in, "r.draining") {
				dr = true
			}
		})
		r.Check(dr, "R-DRAIN", "open|refusal", u.Pos(of.Pos()), "draining refusal is ServerDrainingError", "no ServerDrainingError under r.draining")
	}

	// ---- R-RESOLVE
	if gf := c.Fn("R-RESOLVE", "(*sessionRegistry).get"); gf != nil {
		Instrs(gf, func(in ssa.Instruction) {
			ret, ok := in.(*ssa.Return)
			if !ok {
				return
			}
			if cst, isC := ret.Results[0].(*ssa.Const); isC && cst.Value == nil {
				return
			}
			j := strings.Join(u.GuardStrings(in), " && ")
			okG := strings.Contains(j, ".principalKey == principalKey)") && strings.Contains(j, "!(time.Time).Before(") && strings.Contains(j, ".entries[sid]#1")
			r.Check(okG, "R-RESOLVE", "get|return-entry", u.Pos(in.Pos()), "entry returned only when present, unexpired and of the same principal", "get returns an entry under: "+j)
		})
	}
	if inst := u.Func("(*HttpServer).installStickyOnRequestNoCtx"); inst != nil {
		for _, g := range u.Calls(inst, Is("(*sessionRegistry).get")) {
			ots := u.Calls(inst, Is("openSessionToken"))
			ok := len(ots) == 1 && u.GuardedErrNilOf(g.Instr, ots[0].Value().(*ssa.Call)) && u.HasGuardContaining(g.Instr, "openSessionToken(", "#0 == h.server.serverID")
			r.Check(ok, "R-RESOLVE", "installer|lookup-after-token", u.Pos(g.Instr.Pos()), "registry consulted only after the token opened and names this worker", "registry lookup is not dominated by openSessionToken err == nil ∧ serverID equality")
			r.Check(strings.HasPrefix(u.Describe(g.Arg(2)), "principalKeyFromAuth(auth)") && strings.HasSuffix(u.Describe(g.Arg(1)), "#1"), "R-RESOLVE", "installer|lookup-args", u.Pos(g.Instr.Pos()), "lookup by the token's session id and this caller's principal key", "lookup arguments are "+u.Describe(g.Arg(1))+", "+u.Describe(g.Arg(2)))
		}
		// refusals are SessionLostError
		n := 0
		Instrs(inst, func(in ssa.Instruction) {
			ret, ok := in.(*ssa.Return)
			if !ok || len(ret.Results) != 2 {
				return
			}
			ev := ret.Results[1]
			if cst, isC := ev.(*ssa.Const); isC && cst.Value == nil {
				return
			}
			n++
			d := u.Describe(ev)
			okE := strings.Contains(d, "openSessionToken(") || strings.Contains(typeShort(deref(ev)), "SessionLostError")
			r.Check(okE, "R-SESSION-LOST-UNIFORM", "installer|refusal#"+itoa(n), u.Pos(in.Pos()), "refusal is session_lost", "installer refuses with "+d+" instead of a SessionLostError")
		})
	}
	// ---- R-SESSION-LOST-UNIFORM in openSessionToken
	if of := c.Fn("R-SESSION-LOST-UNIFORM", "openSessionToken"); of != nil {
		n := 0
		Instrs(of, func(in ssa.Instruction) {
			ret, ok := in.(*ssa.Return)
			if !ok || len(ret.Results) != 4 {
				return
			}
			ev := ret.Results[3]
			if cst, isC := ev.(*ssa.Const); isC && cst.Value == nil {
				return
			}
			n++
			r.Check(strings.Contains(typeShort(deref(ev)), "SessionLostError"), "R-SESSION-LOST-UNIFORM", "openSessionToken|failure#"+itoa(n), u.Pos(in.Pos()), "failure surfaces as SessionLostError",
				"openSessionToken fails with "+u.Describe(ev)+" ("+typeShort(deref(ev))+") instead of *SessionLostError: the client sees a RuntimeError without error_kind=session_lost and the failure mode becomes distinguishable")
		})
		if n < 5 {
			r.Undec("R-SESSION-LOST-UNIFORM", "openSessionToken", u.Pos(of.Pos()), "fewer failure returns than confirmed by hand")
		}
	}
	// ---- R-ROLLBACK
	if os := c.Fn("R-ROLLBACK", "(*CallContext).OpenSession"); os != nil {
		seal := u.Calls(os, Is("sealSessionToken"))
		if len(seal) == 1 {
			_, blk := u.ErrBranch(seal[0].Value().(*ssa.Call))
			ok := false
			if blk != nil {
				for _, x := range u.CallsInBlockChain(blk) {
					if x.Callee == "(*sessionRegistry).close" && (strings.HasSuffix(u.Describe(x.Arg(1)), "#0") || u.Describe(x.Arg(1)) == "sid") {
						ok = true
					}
				}
			}
			r.Check(ok, "R-ROLLBACK", "OpenSession", u.Pos(seal[0].Instr.Pos()), "a failed seal closes the just-registered session", "a failed token seal leaves the new session registered (leaks until TTL)")
			// same identity for registry partition and AAD
			op := u.Calls(os, Is("(*sessionRegistry).open"))
			if len(op) == 1 {
				r.Check(u.Describe(op[0].Arg(3)) == "principalKeyFromAuth(ctx.stickySink.auth)" && strings.HasPrefix(u.Describe(seal[0].Arg(4)), "stateTokenAad(ctx.stickySink.auth)"), "R-RESOLVE", "OpenSession|identity", u.Pos(op[0].Instr.Pos()), "session registered and sealed under the request's own identity", "OpenSession registers/seals under "+u.Describe(op[0].Arg(3))+" / "+u.Describe(seal[0].Arg(4)))
			}
		} else {
			r.Undec("R-ROLLBACK", "OpenSession", u.Pos(os.Pos()), "seal call not unique")
		}
	}
}

func storesMatching(fn *ssa.Function, pred func(ssa.Instruction) bool) []ssa.Instruction {
	var out []ssa.Instruction
	Instrs(fn, func(in ssa.Instruction) {
		if pred(in) {
			out = append(out, in)
		}
	})
	return out
}
