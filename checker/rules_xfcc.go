package main

import (
	"sort"
	"strings"

	"golang.org/x/tools/go/ssa"
)

// XFCC half of C24: structural necessary conditions of "quoted commas and
// semicolons never split an element, URL-encoded fields are decoded, the
// default identity is the CN of the selected element's subject".
func runC24Xfcc(c *Ctx) {
	u, r := c.U, c.R
	G := func(in ssa.Instruction) string { return strings.Join(u.GuardStrings(in), " && ") }
	if sp := c.Fn("R-XFCC-SPLIT", "splitRespectingQuotes"); sp != nil {
		// every split (append to parts inside the loop) happens on the delimiter outside quotes
		nSplit := 0
		Instrs(sp, func(in ssa.Instruction) {
			ci, ok := in.(*ssa.Call)
			if !ok {
				return
			}
			b, isB := ci.Call.Value.(*ssa.Builtin)
			if !isB || b.Name() != "append" || u.Describe(ci.Call.Args[0]) != "parts" {
				return
			}
			g := G(in)
			if strings.Contains(g, "(i >= len(text))") {
				return // the tail element after the loop
			}
			nSplit++
			ok2 := strings.Contains(g, "!inQuotes") && strings.Contains(g, "(text[i] == delimiter)")
			r.Check(ok2, "R-XFCC-SPLIT", "split-only-outside-quotes", u.Pos(in.Pos()), "an element boundary needs the delimiter outside quotes", "elements are split under ["+g+"]: a quoted delimiter can split an element")
		})
		r.Check(nSplit == 1, "R-XFCC-SPLIT", "one-split-site", u.Pos(sp.Pos()), "one split site in the scan loop", itoa(nSplit)+" split sites in the scan loop")
		// the quote state: toggled exactly on '"', and the escape skip needs inQuotes
		tog := false
		Instrs(sp, func(in ssa.Instruction) {
			if p, ok := in.(*ssa.Phi); ok && u.VarName(p) == "inQuotes" {
				for i, e := range p.Edges {
					if un, isU := e.(*ssa.UnOp); isU && u.Describe(un) == "!inQuotes" {
						pred := p.Block().Preds[i]
						if len(pred.Instrs) > 0 && strings.Contains(G(pred.Instrs[0]), "(text[i] == 34)") {
							tog = true
						}
					}
				}
			}
		})
		r.Check(tog, "R-XFCC-SPLIT", "quote-toggles-state", u.Pos(sp.Pos()), "a double quote (and only it) toggles the in-quotes state", "the in-quotes state is not toggled exactly on the '\"' branch")
		esc := false
		Instrs(sp, func(in ssa.Instruction) {
			if ci, ok := in.(*ssa.Call); ok && strings.HasSuffix(u.CalleeName(&ci.Call), "strings.Builder).WriteByte") && u.Describe(ci.Call.Args[1]) == "text[(i + 1)]" {
				g := G(in)
				esc = strings.Contains(g, "inQuotes") && !strings.Contains(g, "!inQuotes") && strings.Contains(g, "(text[i] == 92)") && strings.Contains(g, "((i + 1) < len(text))")
				if !esc {
					r.Viol("R-XFCC-SPLIT", "escape-inside-quotes", u.Pos(in.Pos()), "backslash escape consumed under ["+g+"]")
				}
			}
		})
		if esc {
			r.Ok("R-XFCC-SPLIT", "escape-inside-quotes", u.Pos(sp.Pos()), "a backslash escapes the next byte only inside quotes and inside the string")
		}
		// no byte is dropped: every iteration writes the current byte or is the split,
		// and the escape branch writes both the backslash and the escaped byte
		var hdr *ssa.BasicBlock
		for _, b := range sp.Blocks {
			if ifi, ok := b.Instrs[len(b.Instrs)-1].(*ssa.If); ok && u.Describe(ifi.Cond) == "(i < len(text))" {
				hdr = b
			}
		}
		if hdr == nil {
			r.Undec("R-XFCC-SPLIT", "bytes-preserved", u.Pos(sp.Pos()), "scan loop header not found")
		} else {
			body := hdr.Succs[0]
			keeps := func(in ssa.Instruction) bool {
				ci, ok := in.(*ssa.Call)
				if !ok {
					return false
				}
				if strings.HasSuffix(u.CalleeName(&ci.Call), "strings.Builder).WriteByte") && u.Describe(ci.Call.Args[1]) == "text[i]" {
					return true
				}
				if b, isB := ci.Call.Value.(*ssa.Builtin); isB && b.Name() == "append" && u.Describe(ci.Call.Args[0]) == "parts" {
					return true
				}
				return false
			}
			backEdge := func(in ssa.Instruction) bool {
				b := in.Block()
				if in != b.Instrs[len(b.Instrs)-1] {
					return false
				}
				for _, s := range b.Succs {
					if s == hdr {
						return true
					}
				}
				return false
			}
			mm := CountOnPaths(sp, body.Instrs[0], keeps, backEdge)
			okB := len(mm) > 0
			for _, v := range mm {
				if v.Min < 1 {
					okB = false
				}
			}
			r.Check(okB, "R-XFCC-SPLIT", "bytes-preserved", u.Pos(sp.Pos()), "every scanned byte is kept (written) or is the separator", "an iteration of the scan can consume text[i] without writing it: the element text is altered while splitting (a later unescape/split pass then sees different quoting)")
		}
	}
	if px := c.Fn("R-XFCC-LEVELS", "ParseXfcc"); px != nil {
		var delims []string
		for _, cs := range u.Calls(px, Is("splitRespectingQuotes")) {
			d := u.Describe(cs.Arg(1))
			src := "header"
			if cs.Arg(0) != ssa.Value(px.Params[0]) {
				src = "element"
			}
			delims = append(delims, src+":"+d)
		}
		sort.Strings(delims)
		r.Check(strings.Join(delims, " ") == "element:59 header:44", "R-XFCC-LEVELS", "quote-aware-at-both-levels", u.Pos(px.Pos()), "header split on ',' and each element on ';', both quote-aware", "ParseXfcc splits as ["+strings.Join(delims, " ")+"], expected header:',' element:';' through splitRespectingQuotes")
		// no raw strings.Split on the header or element
		for _, cs := range u.Calls(px, Or(Is("strings.Split"), Is("strings.SplitN"), Is("strings.Fields"), Is("strings.FieldsFunc"))) {
			r.Viol("R-XFCC-LEVELS", "raw-split", u.Pos(cs.Instr.Pos()), "ParseXfcc uses "+cs.Callee+", which ignores quoting")
		}
		// decode table and field table (AST switches)
		decl := u.Decl(px)
		var decode, fields []string
		for _, sw := range u.Switches(decl) {
			if sw.Tag != "key" {
				continue
			}
			cs := append([]string{}, sw.Cases...)
			sort.Strings(cs)
			if len(cs) <= 3 {
				decode = cs
			} else {
				fields = cs
			}
		}
		r.Check(strings.Join(decode, ",") == "by,cert,uri", "R-XFCC-DECODE", "url-decoded-keys", u.Pos(px.Pos()), "cert, uri and by are URL-decoded", "URL-decoded keys are ["+strings.Join(decode, ",")+"], the header grammar encodes cert, uri and by")
		r.Check(strings.Join(fields, ",") == "by,cert,dns,hash,subject,uri", "R-XFCC-DECODE", "field-table", u.Pos(px.Pos()), "all six element keys are stored", "stored keys are ["+strings.Join(fields, ",")+"]")
		qu := u.Calls(px, Is("net/url.QueryUnescape"))
		okQ := len(qu) == 1
		if okQ {
			// a failed decode keeps the raw value (never an empty/partial one)
			call := qu[0].Instr.(*ssa.Call)
			_, eb := u.ErrBranch(call)
			okQ = eb != nil
		}
		r.Check(okQ, "R-XFCC-DECODE", "decode-call", u.Pos(px.Pos()), "decoded through url.QueryUnescape with an error branch", "URL decoding is not a single checked url.QueryUnescape")
		// key → field pairing: each Store into an XfccElement field is guarded by key == "<that field>"
		want := map[string]string{"Hash": "hash", "Cert": "cert", "Subject": "subject", "URI": "uri", "By": "by", "DNS": "dns"}
		seen := map[string]bool{}
		Instrs(px, func(in ssa.Instruction) {
			st, ok := in.(*ssa.Store)
			if !ok {
				return
			}
			fa, ok := st.Addr.(*ssa.FieldAddr)
			if !ok || !strings.HasPrefix(fieldKey(fa.X.Type(), fa.Field), "XfccElement.") {
				return
			}
			f := strings.TrimPrefix(fieldKey(fa.X.Type(), fa.Field), "XfccElement.")
			k := want[f]
			g := G(in)
			seen[f] = true
			r.Check(k != "" && strings.Contains(g, `== "`+k+`")`), "R-XFCC-DECODE", "pairing|"+f, u.Pos(in.Pos()), f+" filled from key "+k, "XfccElement."+f+" is filled under ["+g+"]")
		})
		r.Check(len(seen) == 6, "R-XFCC-DECODE", "all-fields-filled", u.Pos(px.Pos()), "six fields filled", itoa(len(seen))+" of six fields filled")
		// surrounding quotes are stripped only when both ends are quotes
		uq := u.Calls(px, Is("unescapeQuoted"))
		okU := len(uq) == 1
		if okU {
			g := G(uq[0].Instr)
			okU = strings.Contains(g, "== 34)") && strings.Contains(g, ">= 2)") && strings.Count(g, "== 34)") >= 2
		}
		r.Check(okU, "R-XFCC-DECODE", "unquote", u.Pos(px.Pos()), "a value is unquoted only when it both starts and ends with a quote", "unquoting is not guarded by len>=2 ∧ first=='\"' ∧ last=='\"'")
	}
	// default identity
	mx := c.Fn("R-XFCC-IDENTITY", "MtlsAuthenticateXfcc")
	if mx != nil && len(mx.AnonFuncs) == 1 {
		af := mx.AnonFuncs[0]
		okP := false
		Instrs(af, func(in ssa.Instruction) {
			st, ok := in.(*ssa.Store)
			if !ok {
				return
			}
			fa, ok := st.Addr.(*ssa.FieldAddr)
			if ok && fieldKey(fa.X.Type(), fa.Field) == "AuthContext.Principal" {
				d := u.Describe(st.Val)
				okP = strings.HasPrefix(d, "extractCN(") && strings.HasSuffix(d, "elem.Subject)")
				if !okP {
					r.Viol("R-XFCC-IDENTITY", "principal", u.Pos(in.Pos()), "default principal is "+d+", not extractCN(elem.Subject)")
				}
			}
		})
		if okP {
			r.Ok("R-XFCC-IDENTITY", "principal", u.Pos(af.Pos()), "default principal = extractCN(selected element's Subject)")
		}
		// selection: "last" → elements[len-1], otherwise elements[0]; both under len(elements) != 0
		var sel []string
		Instrs(af, func(in ssa.Instruction) {
			st, ok := in.(*ssa.Store)
			if !ok {
				return
			}
			if al, isA := st.Addr.(*ssa.Alloc); isA && u.VarName(al) == "elem" {
				d := u.Describe(st.Val)
				g := G(in)
				which := "first"
				if strings.Contains(g, `(cfg.SelectElement == "last")`) {
					which = "last"
				}
				okG := strings.Contains(g, "(len(ParseXfcc(") && strings.Contains(g, "!= 0)")
				idx := ""
				switch {
				case strings.HasSuffix(d, ")[0]"):
					idx = "0"
				case strings.Contains(d, ") - 1)]"):
					idx = "len-1"
				}
				sel = append(sel, which+"→"+idx)
				if !okG {
					r.Viol("R-XFCC-IDENTITY", "selection|nonempty", u.Pos(in.Pos()), "element selected without len(elements) != 0")
				}
			}
		})
		sort.Strings(sel)
		r.Check(strings.Join(sel, " ") == "first→0 last→len-1", "R-XFCC-IDENTITY", "selection", u.Pos(af.Pos()), "first → elements[0], last → elements[len-1]", "element selection is ["+strings.Join(sel, " ")+"]")
		// the element handed to Validate / extractCN is the selected one, from ParseXfcc of the header
		px := u.Calls(af, Is("ParseXfcc"))
		okH := len(px) == 1 && strings.Contains(u.Describe(px[0].Arg(0)), `"X-Forwarded-Client-Cert"`)
		r.Check(okH, "R-XFCC-IDENTITY", "header", u.Pos(af.Pos()), "parses the X-Forwarded-Client-Cert header value", "ParseXfcc is not fed the X-Forwarded-Client-Cert header")
	} else if mx != nil {
		r.Undec("R-XFCC-IDENTITY", "closure", u.Pos(mx.Pos()), "authenticator closure not unique")
	}
	// extractCN: first RDN whose key is CN (case-insensitive), split on unescaped commas
	if ec := c.Fn("R-XFCC-IDENTITY", "extractCN"); ec != nil {
		pat, okP := c.globalRegexPattern("unescapedComma")
		r.Check(okP && strings.Contains(pat, `\\`) && strings.Contains(pat, ","), "R-XFCC-IDENTITY", "extractCN|rdn-split", u.Pos(ec.Pos()), "RDNs split on unescaped commas ("+pat+")", "extractCN does not split on unescaped commas (pattern "+pat+")")
		okR := false
		Instrs(ec, func(in ssa.Instruction) {
			ret, ok := in.(*ssa.Return)
			if !ok {
				return
			}
			if k, isC := ret.Results[0].(*ssa.Const); isC && k.Value != nil {
				return
			}
			g := G(in)
			if strings.Contains(g, `strings.EqualFold(`) && strings.Contains(g, `"CN=")`) && strings.Contains(g, "> 3)") {
				okR = true
			}
		})
		r.Check(okR, "R-XFCC-IDENTITY", "extractCN|cn-only", u.Pos(ec.Pos()), "returns the value of the first CN= RDN", "extractCN's non-empty return is not guarded by an EqualFold(…, \"CN=\") prefix test")
	}
	r.Floor("R-XFCC-SPLIT", 4)
	r.Floor("R-XFCC-LEVELS", 1)
	r.Floor("R-XFCC-DECODE", 11)
	r.Floor("R-XFCC-IDENTITY", 5)
}
